(* C05 - Bit Machine execution equals the denotational semantics.
   Only pinned statements (`Theorem name : statement. Proof. exact lemma. Qed.`) and
   `Print Assumptions`.  Models: Core/{Term,Typing,Sem,Machine}.v; proofs Core/MachineLemmas.v,
   Core/MachineCorrect.v, Core/MachineCorrect2.v, Core/ExecCorrect.v; examples Core/Examples.v;
   jets Jets/JetSpec.v, Jets/JetSpecSha.v, Jets/JetSpecAll.v; Values Core/ExecValue.v (over Value/*.v). *)
From RS Require Import Lib.Tac Lib.Outcome Lib.Bits Ty.Ty Core.Prog Core.Term Core.Typing Core.Sem
  Core.Bounds Core.Limits Core.Machine Core.MachineLemmas Core.MachineCorrect Core.MachineCorrect2
  Core.ExecCorrect Core.Examples Jets.JetSpec Jets.JetSpecSha Jets.JetSpecAll Core.ExecValue Jets.JetShaCorrect.
From RS Require Merkle.Sha256 Value.ValueModel Value.ValueRefine.
Import ListNotations.
Local Open Scope N_scope.

(* 1. the main lemma: for every build profile, every frame capacity, every jet semantics that
   respects the jets' types, every well-typed term whose type widths are not saturated:
   started on [Goto t] with an arbitrary remaining call stack k, in a state satisfying [pre]
   (arbitrary memory contents, arbitrary next_frame_start, arbitrary lower frames) whose active
   read frame holds some padded encoding of a, the machine reaches k - in at most [steps t]
   steps, without a panic - with a padded encoding of the result in the write window, the
   read cursor and all frames restored, every cell outside the write window and the fresh
   cells unchanged and the high-water marks within nfs + cells t / depth + frames t ([post]);
   or it returns the error matching the semantic failure, within the same marks *)
Theorem C05_machine_correct : forall prof cap jet_sem jet_ty t A B,
  jets_typed jet_ty jet_sem -> typed jet_ty t A B -> small t ->
  forall a st k, pre cap st A B t -> enc_at (mem st) (rcur st) A a ->
    match eval jet_sem t a with
    | ROk b => exists st' n, (n <= steps t)%nat /\
                 mstar prof cap jet_sem n (st, CGoto t :: k) (st', k) /\ post st st' B t b
    | RErr e => exists st' n, (n <= steps t)%nat /\
                 mfail prof cap jet_sem n (st, CGoto t :: k) (err_of e, st') /\ hw_ok st st' t
    | RStuck => False
    end.
Proof. exact machine_correct. Qed.
Print Assumptions C05_machine_correct.

(* 2. exec_correct: for_program + input + exec on an accepted well-typed program, for every
   input value a, every padded encoding pbits of it (any padding contents) and every initial
   content m0 of the data buffer: the value returned denotes eval t a, each error kind is
   returned exactly for the corresponding semantic failure *)
Theorem C05_exec_correct : forall prof jet_ty jet_cost jet_sem t A B,
  jets_typed jet_ty jet_sem -> typed jet_ty t A B ->
  check_program prof (bw A) (bw B) (bounds jet_cost t) = Ok tt ->
  forall a pbits m0, padded_of A a pbits -> length m0 = N.to_nat (machine_cells jet_cost t) ->
    match eval jet_sem t a with
    | ROk b => exists st bits,
        machine_exec prof jet_cost jet_sem t m0 (Some (A, pbits)) = Ok (st, bits) /\
        of_padded B bits = b /\ length bits = N.to_nat (width B) /\
        hwc st <= width A + width B + extra_cells (bounds jet_cost t) /\ hwc st <= msize m0 /\
        hwf st <= extra_frames (bounds jet_cost t) + IO_EXTRA_FRAMES
    | RErr e => exists st,
        machine_exec prof jet_cost jet_sem t m0 (Some (A, pbits)) = Err (err_of e, st) /\
        hwc st <= width A + width B + extra_cells (bounds jet_cost t) /\ hwc st <= msize m0 /\
        hwf st <= extra_frames (bounds jet_cost t) + IO_EXTRA_FRAMES
    | RStuck => False
    end.
Proof. exact exec_master. Qed.
Print Assumptions C05_exec_correct.

(* the same when `input` is not called (programs of empty source type) *)
Theorem C05_exec_correct_noinput : forall prof jet_ty jet_cost jet_sem t A B,
  jets_typed jet_ty jet_sem -> typed jet_ty t A B ->
  check_program prof (bw A) (bw B) (bounds jet_cost t) = Ok tt ->
  forall a m0, width A = 0 -> has_ty a A = true -> length m0 = N.to_nat (machine_cells jet_cost t) ->
    match eval jet_sem t a with
    | ROk b => exists st bits,
        machine_exec prof jet_cost jet_sem t m0 None = Ok (st, bits) /\
        of_padded B bits = b /\ length bits = N.to_nat (width B) /\
        hwc st <= width A + width B + extra_cells (bounds jet_cost t) /\ hwc st <= msize m0 /\
        hwf st <= extra_frames (bounds jet_cost t) + IO_EXTRA_FRAMES
    | RErr e => exists st,
        machine_exec prof jet_cost jet_sem t m0 None = Err (err_of e, st) /\
        hwc st <= width A + width B + extra_cells (bounds jet_cost t) /\ hwc st <= msize m0 /\
        hwf st <= extra_frames (bounds jet_cost t) + IO_EXTRA_FRAMES
    | RStuck => False
    end.
Proof. exact exec_master_noinput. Qed.
Print Assumptions C05_exec_correct_noinput.

(* 3. the converse directions *)
Theorem C05_exec_ok_inv : forall prof jet_ty jet_cost jet_sem t A B,
  jets_typed jet_ty jet_sem -> typed jet_ty t A B ->
  check_program prof (bw A) (bw B) (bounds jet_cost t) = Ok tt ->
  forall a pbits m0 st bits, padded_of A a pbits -> length m0 = N.to_nat (machine_cells jet_cost t) ->
    machine_exec prof jet_cost jet_sem t m0 (Some (A, pbits)) = Ok (st, bits) ->
    eval jet_sem t a = ROk (of_padded B bits).
Proof. exact exec_ok_inv. Qed.
Print Assumptions C05_exec_ok_inv.

Theorem C05_exec_err_inv : forall prof jet_ty jet_cost jet_sem t A B,
  jets_typed jet_ty jet_sem -> typed jet_ty t A B ->
  check_program prof (bw A) (bw B) (bounds jet_cost t) = Ok tt ->
  forall a pbits m0 e st, padded_of A a pbits -> length m0 = N.to_nat (machine_cells jet_cost t) ->
    machine_exec prof jet_cost jet_sem t m0 (Some (A, pbits)) = Err (e, st) ->
    exists se, eval jet_sem t a = RErr se /\ e = err_of se.
Proof. exact exec_err_inv. Qed.
Print Assumptions C05_exec_err_inv.

(* 4. independence of where values sit: initial buffer contents and input padding *)
Theorem C05_exec_independent : forall prof jet_ty jet_cost jet_sem t A B,
  jets_typed jet_ty jet_sem -> typed jet_ty t A B ->
  check_program prof (bw A) (bw B) (bounds jet_cost t) = Ok tt ->
  forall a pbits pbits' m0 m0', padded_of A a pbits -> padded_of A a pbits' ->
    length m0 = N.to_nat (machine_cells jet_cost t) -> length m0' = N.to_nat (machine_cells jet_cost t) ->
    match machine_exec prof jet_cost jet_sem t m0 (Some (A, pbits)),
          machine_exec prof jet_cost jet_sem t m0' (Some (A, pbits')) with
    | Ok (_, bits), Ok (_, bits') => of_padded B bits = of_padded B bits'
    | Err (e, _), Err (e', _) => e = e'
    | _, _ => False
    end.
Proof. exact exec_independent. Qed.
Print Assumptions C05_exec_independent.

(* 5. the semantics are type safe; the specified jets respect their types *)
Theorem C05_eval_typed : forall jet_ty jet_sem, jets_typed jet_ty jet_sem ->
  forall t A B, typed jet_ty t A B -> forall a, has_ty a A = true ->
    match eval jet_sem t a with
    | ROk b => has_ty b B = true
    | RErr _ => True
    | RStuck => False
    end.
Proof. exact eval_typed. Qed.
Print Assumptions C05_eval_typed.

Theorem C05_jet_spec_typed : jets_typed jet_spec_ty jet_spec.
Proof. exact jet_spec_typed. Qed.
Print Assumptions C05_jet_spec_typed.

Theorem C05_wt_iff : forall jet_ty t, wt jet_ty t = true <-> typed jet_ty t (src t) (tgt t).
Proof. exact wt_iff. Qed.
Print Assumptions C05_wt_iff.

(* 6. non-vacuity: a case through a padded sum, a comp, a disconnect, a failing assertion *)
Theorem C05_example_case :
  typed no_jet_ty ex_case (Prod (Sum One W1) One) Bit /\
  check_program Debug (bw (Prod (Sum One W1) One)) (bw Bit) (bounds no_jet_cost ex_case) = Ok tt /\
  eval no_jet_sem ex_case (SP (SL SU) SU) = ROk (SL SU) /\
  exists st, machine_exec Release no_jet_cost no_jet_sem ex_case (dirty ex_case)
               (Some (Prod (Sum One W1) One, [false; true; true])) = Ok (st, [false]).
Proof. exact (conj ex_case_typed (conj ex_case_accepted ex_case_left)). Qed.
Print Assumptions C05_example_case.

Theorem C05_example_comp :
  typed no_jet_ty ex_comp Bit Bit /\
  eval no_jet_sem ex_comp (SR SU) = ROk (SR SU) /\
  exists st, machine_exec Debug no_jet_cost no_jet_sem ex_comp (dirty ex_comp) (Some (Bit, [true])) = Ok (st, [true]) /\
             hwc st = 4 /\ hwf st = 3 /\ bounds no_jet_cost ex_comp = mkNB 2 1 605.
Proof. exact (conj ex_comp_typed ex_comp_run). Qed.
Print Assumptions C05_example_comp.

Theorem C05_example_disconnect :
  typed no_jet_ty ex_disc One (Prod W256 One) /\
  eval no_jet_sem ex_disc SU = ROk (SP (cmr_value ex_cmr) SU) /\
  exists st, machine_exec Debug no_jet_cost no_jet_sem ex_disc (dirty ex_disc) None
             = Ok (st, bits_of_bytes ex_cmr) /\ hwf st = 3 /\ hwc st = 768.
Proof. exact (conj ex_disc_typed ex_disc_run). Qed.
Print Assumptions C05_example_disconnect.

Theorem C05_example_assert :
  typed no_jet_ty ex_assert (Prod Bit One) One /\
  eval no_jet_sem ex_assert (SP (SR SU) SU) = RErr (Pruned (repeat 7 32)) /\
  exists st, machine_exec Debug no_jet_cost no_jet_sem ex_assert (dirty ex_assert) (Some (Prod Bit One, [true]))
             = Err (ReachedPrunedBranch (repeat 7 32), st).
Proof. exact ex_assert_run. Qed.
Print Assumptions C05_example_assert.

(* 7. the result as a `Value` (byte-level model of src/value.rs, C10): for every well-formed Value
   vin of the source type - whatever its buffer, offset and padding contents - for_program + input
   + exec returns a well-formed Value v of the target type that denotes eval t [[vin]]; with a
   zero-width target the code returns Value::unit().  Errors and marks as in C05_exec_correct. *)
Theorem C05_exec_correct_value : forall prof jet_ty jet_cost jet_sem t A B,
  jets_typed jet_ty jet_sem -> typed jet_ty t A B ->
  check_program prof (bw A) (bw B) (bounds jet_cost t) = Ok tt ->
  forall (vin : ValueModel.value) m0,
    ValueRefine.WF vin -> ValueModel.vty vin = A -> length m0 = N.to_nat (machine_cells jet_cost t) ->
    match eval jet_sem t (ValueRefine.absv vin) with
    | ROk b => exists st v,
        machine_exec_v prof jet_cost jet_sem t m0 (Some vin) = Ok (st, v) /\ ValueRefine.WF v /\
        (0 < width B -> ValueModel.vty v = B /\ ValueRefine.absv v = b) /\
        (width B = 0 -> v = ValueModel.v_unit /\ b = of_padded B []) /\
        hwc st <= width A + width B + extra_cells (bounds jet_cost t) /\ hwc st <= msize m0 /\
        hwf st <= extra_frames (bounds jet_cost t) + IO_EXTRA_FRAMES
    | RErr e => exists st,
        machine_exec_v prof jet_cost jet_sem t m0 (Some vin) = Err (err_of e, st) /\
        hwc st <= width A + width B + extra_cells (bounds jet_cost t) /\ hwc st <= msize m0 /\
        hwf st <= extra_frames (bounds jet_cost t) + IO_EXTRA_FRAMES
    | RStuck => False
    end.
Proof. exact exec_master_value. Qed.
Print Assumptions C05_exec_correct_value.

Theorem C05_exec_correct_value_noinput : forall prof jet_ty jet_cost jet_sem t A B,
  jets_typed jet_ty jet_sem -> typed jet_ty t A B ->
  check_program prof (bw A) (bw B) (bounds jet_cost t) = Ok tt ->
  forall a m0, width A = 0 -> has_ty a A = true -> length m0 = N.to_nat (machine_cells jet_cost t) ->
    match eval jet_sem t a with
    | ROk b => exists st v,
        machine_exec_v prof jet_cost jet_sem t m0 None = Ok (st, v) /\ ValueRefine.WF v /\
        (0 < width B -> ValueModel.vty v = B /\ ValueRefine.absv v = b) /\
        (width B = 0 -> v = ValueModel.v_unit /\ b = of_padded B []) /\
        hwc st <= width A + width B + extra_cells (bounds jet_cost t) /\ hwc st <= msize m0 /\
        hwf st <= extra_frames (bounds jet_cost t) + IO_EXTRA_FRAMES
    | RErr e => exists st,
        machine_exec_v prof jet_cost jet_sem t m0 None = Err (err_of e, st) /\
        hwc st <= width A + width B + extra_cells (bounds jet_cost t) /\ hwc st <= msize m0 /\
        hwf st <= extra_frames (bounds jet_cost t) + IO_EXTRA_FRAMES
    | RStuck => False
    end.
Proof. exact exec_master_value_noinput. Qed.
Print Assumptions C05_exec_correct_value_noinput.

(* the Value-level pipeline is the bit-level pipeline followed by the decoder of the window *)
Theorem C05_machine_exec_v_bits : forall prof jet_cost jet_sem t m0 v p,
  ValueModel.iter_padded v = Ok p -> ValueModel.vty v = src t ->
  machine_exec_v prof jet_cost jet_sem t m0 (Some v) =
  obind (machine_exec prof jet_cost jet_sem t m0 (Some (ValueModel.vty v, p)))
        (fun r => obind (output_value (fst r) (tgt t)) (fun x => Ok (fst r, x))).
Proof.
  intros. rewrite (machine_exec_v_some prof jet_cost jet_sem t m0 v p) by assumption.
  destruct (machine_exec prof jet_cost jet_sem t m0 (Some (ValueModel.vty v, p))) as [[st3 bits]| | |]; reflexivity.
Qed.
Print Assumptions C05_machine_exec_v_bits.

(* zero-width targets: the Value returned has type 1, not the target type (observation, cf. C10) *)
Theorem C05_output_value_zero_width : forall st,
  output_value st (Prod One One) = Ok ValueModel.v_unit /\ ValueModel.vty ValueModel.v_unit = One /\ One <> Prod One One.
Proof. exact output_value_zero_width. Qed.
Print Assumptions C05_output_value_zero_width.

(* 8. the extended jet dispatcher (SHA-256 family over Merkle/Sha256.v, parse_lock, parse_sequence,
   secp256k1 field and scalar arithmetic): respects the jets' types, changes nothing on the jets
   of the word-level table; the context jets compute SHA-256 (FIPS vectors through
   init / add / finalize), the counter limits are those of sha256.h *)
Theorem C05_jet_spec2_typed : jets_typed jet_spec2_ty jet_spec2.
Proof. exact jet_spec2_typed. Qed.
Print Assumptions C05_jet_spec2_typed.

Theorem C05_jet_spec2_conservative : forall j a, find_g gtable j = None ->
  jet_spec2 j a = jet_spec j a /\ jet_spec2_ty j = jet_spec_ty j.
Proof. exact jet_spec2_old. Qed.
Print Assumptions C05_jet_spec2_conservative.

Theorem C05_jet_tables_disjoint :
  forallb (fun s => match find_g gtable (j_id s) with None => true | Some _ => false end) jet_table = true.
Proof. exact tables_disjoint. Qed.
Print Assumptions C05_jet_tables_disjoint.

Theorem C05_sha_ctx_abc :
  match ctx_add (mkCtx [] 0 Sha256.sha_iv0) [97; 98; 99] with
  | Some c => Sha256.bytes_of_state (ctx_finalize c) = Sha256.sha256 [97; 98; 99]
  | None => False
  end.
Proof. exact ctx_abc. Qed.
Print Assumptions C05_sha_ctx_abc.

Theorem C05_sha_ctx_limits :
  read_ctx (write_ctx (mkCtx [] (2 ^ 55) Sha256.sha_iv0)) = None /\
  (exists c, read_ctx (write_ctx (mkCtx [] (2 ^ 55 - 1) Sha256.sha_iv0)) = Some c) /\
  ctx_add (mkCtx (repeat 0 62) (2 ^ 55 - 1) Sha256.sha_iv0) [1; 2] = None /\
  (exists c, ctx_add (mkCtx (repeat 0 62) (2 ^ 55 - 1) Sha256.sha_iv0) [1] = Some c).
Proof. exact ctx_too_many_blocks. Qed.
Print Assumptions C05_sha_ctx_limits.

(* 9. the SHA-256 context jets compute SHA-256: for every message below the counter limit, adding it
   to the initial context and finalising gives the digest of Merkle/Sha256.v (the hash of C09), and
   adding a message in two pieces gives the same context as adding it in one *)
Theorem C05_sha_ctx_correct : forall msg, N.of_nat (length msg) < MAX_COUNTER ->
  exists c, ctx_add ctx0 msg = Some c /\ Sha256.bytes_of_state (ctx_finalize c) = Sha256.sha256 msg.
Proof. exact sha_ctx_correct. Qed.
Print Assumptions C05_sha_ctx_correct.

Theorem C05_sha_ctx_add_app : forall m1 m2, N.of_nat (length (m1 ++ m2)) < MAX_COUNTER ->
  match ctx_add ctx0 m1 with
  | Some c1 => ctx_add c1 m2 = ctx_add ctx0 (m1 ++ m2)
  | None => False
  end.
Proof. exact ctx_add_app. Qed.
Print Assumptions C05_sha_ctx_add_app.

(* 10. the secp256k1 point jets (Jets/JetSpecSecp.v: affine and Jacobian points with the exact
   representatives of libsecp256k1, secp256k1_ecmult, swu, hash_to_curve) and the two signature jets
   (Jets/JetSpecSecpSig.v: BIP-340 verification; with them all 368 Core jets are specified): the dispatcher extended with them respects the jets' types and changes nothing on the
   other jets; the field operations of the specifications are the arithmetic of the integers modulo
   p = 2^256 - 2^32 - 977 on canonical representatives (what read_fe / write_fe of jets-secp256k1.c
   normalise to), the point operations return canonical coordinates *)
From RS Require Import Jets.JetSpecSecp Jets.JetSpecSecpSig Jets.JetSpecAll3 Jets.JetSpecSecpProofs.

Theorem C05_jet_spec3_typed : jets_typed jet_spec3_ty jet_spec3.
Proof. exact jet_spec3_typed. Qed.
Print Assumptions C05_jet_spec3_typed.

Theorem C05_jet_spec3_conservative : forall j a, find_g ec_table3 j = None ->
  jet_spec3 j a = jet_spec2 j a /\ jet_spec3_ty j = jet_spec2_ty j.
Proof. exact jet_spec3_old. Qed.
Print Assumptions C05_jet_spec3_conservative.

Theorem C05_ec_table_disjoint :
  forallb (fun g => match find_g ec_table3 (g_id g) with None => true | Some _ => false end) gtable = true /\
  forallb (fun s => match find_g ec_table3 (j_id s) with None => true | Some _ => false end) jet_table = true.
Proof. exact ec_table_disjoint. Qed.
Print Assumptions C05_ec_table_disjoint.

(* reading: a 256-bit word is reduced modulo p *)
Theorem C05_secp_rd_fe : forall v, has_ty v (word_ty 8) = true ->
  rd_fe v = (word_num 8 v) mod FE_P /\ rd_fe v < FE_P.
Proof. exact rd_fe_spec. Qed.
Print Assumptions C05_secp_rd_fe.

(* the fast reduction (folding 2^256 = 2^32 + 977) is the remainder modulo p *)
Theorem C05_secp_red : forall x, x < P256 * P256 -> red x = x mod FE_P.
Proof. exact red_spec. Qed.
Print Assumptions C05_secp_red.

Theorem C05_secp_field_ops : forall a b, a < FE_P -> b < FE_P ->
  fmul a b = (a * b) mod FE_P /\ fsqr a = (a * a) mod FE_P /\ fadd a b = (a + b) mod FE_P /\
  fneg a = (FE_P - a) mod FE_P /\ fadd a (fneg a) = 0 /\
  (fhalf a < FE_P /\ (2 * fhalf a) mod FE_P = a).
Proof.
  intros a b Ha Hb.
  exact (conj (fmul_spec a b Ha Hb) (conj (fsqr_spec a Ha) (conj (fadd_spec a b Ha Hb)
        (conj (fneg_spec a Ha) (conj (fneg_inverse a Ha) (fhalf_spec a Ha)))))).
Qed.
Print Assumptions C05_secp_field_ops.

(* inversion and square root are exponentiations modulo p (by p - 2 and (p + 1) / 4); a reported
   square root is one.  That a^(p-2) inverts a is Fermat's theorem for p, not proved here
   (finv_statement, tested by the correspondence with the C jets) *)
Theorem C05_secp_pow : forall a e, a < FE_P ->
  fpow a e = (a ^ e) mod FE_P /\ finv a = (a ^ (FE_P - 2)) mod FE_P.
Proof. intros a e Ha. exact (conj (fpow_spec a e Ha) (finv_spec a Ha)). Qed.
Print Assumptions C05_secp_pow.

Theorem C05_secp_sqrt_sound : forall a r, a < FE_P -> fsqrt a = (r, true) -> r < FE_P /\ (r * r) mod FE_P = a.
Proof. exact fsqrt_sound. Qed.
Print Assumptions C05_secp_sqrt_sound.

(* canonical coordinates in, canonical coordinates out: doubling, the three additions
   (gej_add_var; gej_add_ge_var / gej_add_zinv_var with the z ratio they report), rescaling, normalisation *)
Theorem C05_secp_points_canonical : forall a b c zs s, gej_ok a -> gej_ok b -> ge_ok c -> zs < FE_P -> s < FE_P ->
  (gej_ok (fst (gej_dbl a)) /\ snd (gej_dbl a) < FE_P) /\
  gej_ok (gej_add a b) /\
  (gej_ok (fst (gej_add_ge_z zs a c)) /\ snd (gej_add_ge_z zs a c) < FE_P) /\
  gej_ok (gej_rescale a s) /\ ge_ok (gej_affine a).
Proof.
  intros a b c zs s Ha Hb Hc Hz Hs.
  exact (conj (gej_dbl_ok a Ha) (conj (gej_add_ok a b Ha Hb) (conj (gej_add_ge_z_ok zs a c Hz Ha Hc)
        (conj (gej_rescale_ok a s Ha Hs) (gej_affine_ok a Ha))))).
Qed.
Print Assumptions C05_secp_points_canonical.

(* computed facts: G is on the curve, has order n, the endomorphism, ecmult against repeated addition,
   the verification equation, decompression, swu lands on the curve; and through the dispatcher *)
Theorem C05_secp_examples :
  ge_on_curve G = true /\
  ecmult gej_inf 0 1 = Gj /\
  is_inf (ecmult Gj (SC_N - 1) 1) = true /\
  gej_affine (ecmult Gj (SC_N - 1) 0) = ge_neg G /\
  gej_affine (ecmult Gj SC_LAMBDA 0) = (fmul FE_BETA G_X, G_Y) /\
  gej_affine (ecmult gej_inf 0 5) = gej_affine (fst (gej_add_ge (fst (gej_dbl (fst (gej_dbl Gj)))) G)) /\
  gej_equiv (ecmult (ecmult gej_inf 0 3) 2 4) (ecmult gej_inf 0 10) = true /\
  verify_sum G 2 3 (gej_affine (ecmult gej_inf 0 5)) = true /\
  verify_sum G 2 3 (gej_affine (ecmult gej_inf 0 6)) = false /\
  lift_x G_X (N.odd G_Y) = Some G /\ lift_x G_X (negb (N.odd G_Y)) = Some (ge_neg G) /\
  lift_x 5 true = None /\
  ge_on_curve (swu 1) = true /\ ge_on_curve (swu 2) = true /\ swu (FE_P - 1) = ge_neg (swu 1) /\
  fmul 2 (finv 2) = 1 /\ finv 0 = 0.
Proof. exact secp_examples. Qed.
Print Assumptions C05_secp_examples.

Theorem C05_secp_g128 : gej_affine (Nat.iter 128 (fun a => fst (gej_dbl a)) Gj) = (G128_X, G128_Y).
Proof. exact g128_ok. Qed.
Print Assumptions C05_secp_g128.

Theorem C05_secp_jet_examples :
  let g := wr_gej Gj in
  let ng := wr_gej (gej_neg Gj) in
  let inf := wr_gej gej_inf in
  gspec_sem ec_table 117 (SP g ng) = Some (Some inf) /\
  gspec_sem ec_table 117 (SP g g) = gspec_sem ec_table 118 g /\
  gspec_sem ec_table 117 (SP inf g) = Some (Some g) /\
  gspec_sem ec_table 117 (SP g inf) = Some (Some g) /\
  gspec_sem ec_table 119 (SP g g) = Some (Some (wr_bit true)) /\
  gspec_sem ec_table 119 (SP g ng) = Some (Some (wr_bit false)) /\
  gspec_sem ec_table 124 inf = Some (Some (wr_bit true)) /\
  gspec_sem ec_table 127 inf = Some (Some (SL SU)) /\
  gspec_sem ec_table 127 (wr_gej (gej_rescale Gj 12345)) = Some (Some (SR (wr_ge G))) /\
  gspec_sem ec_table 330 (SP (wr_fe 1) (wr_gej (mkGej 1 2 3))) = Some None.
Proof. exact secp_jet_examples. Qed.
Print Assumptions C05_secp_jet_examples.

(* 11. the group formulas stay on the curve y^2 = x^3 + 7 z^6 (Jets/JetSpecSecpCurve.v: the field operations
   translated to the integers modulo p, the polynomial identities by ring): doubling (gej_double, every branch),
   addition (gej_add: either operand the point at infinity, equal points, opposite points, the general case),
   mixed addition (gej_ge_add / gej_ge_add_ex), negation, rescaling; decompression returns a point of the
   curve with the given abscissa and, unless y = 0, the given parity.  Satisfiable: G (C05_secp_examples) *)
From RS Require Import Jets.JetSpecSecpCurve.

Theorem C05_secp_double_on_curve : forall a, gej_ok a -> gej_on_curve a = true ->
  gej_on_curve (fst (gej_dbl a)) = true.
Proof. exact gej_dbl_on_curve. Qed.
Print Assumptions C05_secp_double_on_curve.

Theorem C05_secp_add_on_curve : forall a b, gej_ok a -> gej_ok b ->
  gej_on_curve a = true -> gej_on_curve b = true -> gej_on_curve (gej_add a b) = true.
Proof. exact gej_add_on_curve. Qed.
Print Assumptions C05_secp_add_on_curve.

Theorem C05_secp_add_ge_on_curve : forall a b, gej_ok a -> ge_ok b ->
  gej_on_curve a = true -> ge_on_curve b = true -> gej_on_curve (fst (gej_add_ge a b)) = true.
Proof. exact gej_add_ge_on_curve. Qed.
Print Assumptions C05_secp_add_ge_on_curve.

Theorem C05_secp_neg_rescale_on_curve : forall a s, gej_ok a -> s < FE_P -> gej_on_curve a = true ->
  gej_on_curve (gej_neg a) = true /\ gej_on_curve (gej_rescale a s) = true.
Proof. intros a s Ha Hs Hc. exact (conj (gej_neg_on_curve a Ha Hc) (gej_rescale_on_curve a s Ha Hs Hc)). Qed.
Print Assumptions C05_secp_neg_rescale_on_curve.

Theorem C05_secp_decompress_sound : forall x o q, x < FE_P -> lift_x x o = Some q ->
  ge_ok q /\ ge_on_curve q = true /\ fst q = x /\ (snd q <> 0 -> N.odd (snd q) = o).
Proof. exact lift_x_sound. Qed.
Print Assumptions C05_secp_decompress_sound.

(* 12. the scalar recodings of secp256k1_ecmult: the endomorphism split represents the scalar
   (k = r1 + r2 * lambda modulo the group order); the wNAF digits of its parts and of the two 128-bit
   halves used for G are odd or zero, below 2^(w-1) in absolute value, 129 of them, and sum back to the
   (signed) scalar - computed on 20 scalars including 0, n - 1, lambda and 2^128 boundaries *)
Theorem C05_secp_split_lambda : forall k, k < SC_N ->
  let '(r1, r2) := split_lambda k in
  r1 < SC_N /\ r2 < SC_N /\ (r1 + r2 * SC_LAMBDA) mod SC_N = k.
Proof. exact split_lambda_spec. Qed.
Print Assumptions C05_secp_split_lambda.

Theorem C05_secp_wnaf_examples :
  forallb wnaf_check
    [0; 1; 2; 15; 16; 31; 2 ^ 128 - 1; 2 ^ 128; 2 ^ 255; SC_N - 1; SC_N - 2; SC_LAMBDA; SC_N - SC_LAMBDA; SC_N / 2; SC_N / 3;
     55066263022277343669578718895168534326250603453777594175500187360389116729240;
     32670510020758816978083085130507043184471273380659243275938904335757337482424;
     2 ^ 200 + 2 ^ 100 + 2 ^ 14; 2 ^ 129 - 1; 2 ^ 143 - 2 ^ 15] = true.
Proof. exact wnaf_examples. Qed.
Print Assumptions C05_secp_wnaf_examples.

(* 13. the signature jets (Jets/JetSpecSecpSig.v): the tags hash to the midstates the C code starts from
   (BIP0340/challenge in schnorrsig_impl.h, signatureIV in precomputed.h); test vector 0 of BIP-340 verifies,
   and does not once a message bit is flipped *)
Theorem C05_secp_sig_tag_midstates :
  Sha256.sha_hash_tag (ascii CHALLENGE_TAG) =
    Sha256.state_of_bytes (bytes_of_bits 32 (bits_be 256 0x9cecba112392538111679112d1627e0f97c87550003cc76590f6116433e9b66a)) /\
  Sha256.sha_hash_tag (ascii SIGNATURE_TAG) =
    Sha256.state_of_bytes (bytes_of_bits 32 (bits_be 256 0xedebc74b774c1bb2cb6be27e38d63c826f0c6ee602399eb6483bde91270a1b9b)).
Proof. exact tag_midstates. Qed.
Print Assumptions C05_secp_sig_tag_midstates.

Theorem C05_secp_bip340_vector_0 :
  bip340_verify BIP340_PK0 (repeat 0 32) BIP340_R0 BIP340_S0 = true /\
  bip340_verify BIP340_PK0 (128 :: repeat 0 31) BIP340_R0 BIP340_S0 = false.
Proof. exact bip340_vector_0. Qed.
Print Assumptions C05_secp_bip340_vector_0.
