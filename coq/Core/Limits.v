(* Hard limits of the Bit Machine.
     src/bit_machine/limits.rs   LimitError::{check_max_cells,check_max_frames,check_program}
   The seven comparisons, in order, each returning at the first failure.  The sums are
   unchecked `+` on usize in the code; they are written here with [usize_add] so that
   "the check itself never overflows" is a theorem ([check_program_no_panic]).
   As in the code, [check_max_frames] reports MAX_CELLS in the `max` field of its error. *)
From RS Require Import Lib.Tac Lib.Outcome Lib.Bits Ty.Ty Core.Prog Core.Term Core.Bounds
  Generated.Consts.
Import ListNotations.
Local Open Scope N_scope.

Definition MAX_CELLS : N := c_max_cells.
Definition MAX_FRAMES : N := c_max_frames.

Inductive limit_error :=
| MaxCellsExceeded (got max which : N)     (* which: index of the comparison, 0..4 *)
| MaxFramesExceeded (got max which : N).   (* which: 5..6 *)

Definition check_max_cells (got which : N) : outcome limit_error unit :=
  if MAX_CELLS <? got then Err (MaxCellsExceeded got MAX_CELLS which) else Ok tt.

Definition check_max_frames (got which : N) : outcome limit_error unit :=
  if MAX_FRAMES <? got then Err (MaxFramesExceeded got MAX_CELLS which) else Ok tt.

Definition lift_add (p : profile) (a b : N) : outcome limit_error N :=
  match usize_add p a b with
  | Ok x => Ok x
  | Panic c => Panic c
  | _ => Panic 21
  end.

Local Open Scope outcome_scope.

(* sw, tw: bit widths of the root's source and target type (saturated, as bit_width() gives) *)
Definition check_program (p : profile) (sw tw : N) (b : nbounds) : outcome limit_error unit :=
  _ <- check_max_cells sw 0 ;;
  _ <- check_max_cells tw 1 ;;
  _ <- check_max_cells (extra_cells b) 2 ;;
  io <- lift_add p sw tw ;;
  _ <- check_max_cells io 3 ;;
  io2 <- lift_add p sw tw ;;
  all <- lift_add p io2 (extra_cells b) ;;
  _ <- check_max_cells all 4 ;;
  _ <- check_max_frames (extra_frames b) 5 ;;
  fr <- lift_add p (extra_frames b) IO_EXTRA_FRAMES ;;
  _ <- check_max_frames fr 6 ;;
  Ok tt.

(* the mathematical statement of "within limits" *)
Definition within_limits (sw tw : N) (b : nbounds) : Prop :=
  sw <= MAX_CELLS /\ tw <= MAX_CELLS /\ extra_cells b <= MAX_CELLS /\ sw + tw <= MAX_CELLS /\
  sw + tw + extra_cells b <= MAX_CELLS /\ extra_frames b <= MAX_FRAMES /\
  extra_frames b + IO_EXTRA_FRAMES <= MAX_FRAMES.

Ltac limits_unfold :=
  unfold check_program, check_max_cells, check_max_frames, lift_add, usize_add, within_limits,
    MAX_CELLS, MAX_FRAMES, IO_EXTRA_FRAMES, c_max_cells, c_max_frames, usize_max, obind in *.

(* limits_refuse: the check returns an error iff one of the seven quantities exceeds its limit
   (the widths are usize values) *)
Theorem check_program_iff p sw tw b :
  sw <= usize_max -> tw <= usize_max -> extra_cells b <= usize_max -> extra_frames b <= usize_max ->
  (check_program p sw tw b = Ok tt <-> within_limits sw tw b) /\
  (forall e, check_program p sw tw b = Err e -> ~ within_limits sw tw b) /\
  (forall c, check_program p sw tw b <> Panic c) /\ check_program p sw tw b <> OutOfFuel.
Proof.
  intros H1 H2 H3 H4. limits_unfold.
  destruct (2147483647 <? sw) eqn:E1; [repeat split; try discriminate; try lia; intros; lia|].
  destruct (2147483647 <? tw) eqn:E2; [repeat split; try discriminate; try lia; intros; lia|].
  destruct (2147483647 <? extra_cells b) eqn:E3; [repeat split; try discriminate; try lia; intros; lia|].
  destruct (sw + tw <=? 18446744073709551615) eqn:E4; [|lia].
  destruct (2147483647 <? sw + tw) eqn:E5; [repeat split; try discriminate; try lia; intros; lia|].
  destruct (sw + tw + extra_cells b <=? 18446744073709551615) eqn:E6; [|lia].
  destruct (2147483647 <? sw + tw + extra_cells b) eqn:E7; [repeat split; try discriminate; try lia; intros; lia|].
  destruct (1048576 <? extra_frames b) eqn:E8; [repeat split; try discriminate; try lia; intros; lia|].
  destruct (extra_frames b + 2 <=? 18446744073709551615) eqn:E9; [|lia].
  destruct (1048576 <? extra_frames b + 2) eqn:E10; [repeat split; try discriminate; try lia; intros; lia|].
  repeat split; try discriminate; try lia.
Qed.
