//! C08 (pruning) and C12 (well-typed witnesses).  Case kinds (t[0]):
//!
//!   c08 <lock_time>:<sequence> <pdl>
//!       1 -> 1 program with witnesses (`wit.c.` / `wit.t.`), finalised with finalize_unpruned, then
//!       executed, pruned, re-executed, re-pruned, serialised and run through libsimplicity
//!       (simplicity_sys::tests::run_program, TestUpTo::Everything = CHECK_ALL anti-DoS flags).
//!       Output:
//!         1 <code>                                   could not build / finalise (prog::err_code or 41..49)
//!         2 <exec code>                              the unpruned program does not run (outside C08)
//!         0 <prune> <cmr_eq> <exec_pruned> <out_eq> <reprune> <alltyped> <c_pruned> <c_unpruned>
//!           <changed> <selfdec> <c_cmr_eq> <principal>
//!           50 <n> <code per PDL index>              0 dropped, 1 kept, 2 case->assertl, 3 case->assertr, 5 hidden
//!                                                    (result of ONE pass prune_with_tracker(SetTracker))
//!           55 <n> <code per PDL index>              the same for the result of RedeemNode::prune
//!           51 <k> (<idx> <left> <right>)*k          tracker content per case/assert node (by its IHR)
//!           52 <n> <rep per PDL index>               smallest PDL index with the same IHR (n for hidden)
//!           56 <m> <rep>*m                           m = rounds * n: identity classes of the program that each round of
//!                                                    the fixed-point loop of RedeemNode::prune starts from (replayed
//!                                                    with prune_with_tracker; the last round changes nothing)
//!           53 <k> (<idx> <typed> <nbits> <bits>)*k  witnesses of the pruned program
//!           54 <k> (<idx> <src> <tgt>)*k             arrows of the nodes of the pruned program
//!       <prune>/<exec..>: 0 ok, 1x error, 9 panic, 7 not reached.  <reprune>: 0 same encoding and IHR,
//!       1 differs, 2 error, 9 panic.  <c_..>: 0 NoError, n = -SimplicityErr of evaluation,
//!       1000+n = run_program returned Err(-n) before evaluation, 9 panic.
//!
//!   c12 <pdl> <tweak>
//!       program whose witness nodes carry explicitly typed candidates (`wit.t.<type>.<bits>`, or `wit.-`);
//!       five routes, each printed as  <100+r> <outcome>:
//!         100 construction-time witnesses + finalize_unpruned      101 the same + finalize_pruned(env)
//!         102 human-readable text + witness map + finalize_unpruned 103 the same + finalize_pruned(env)
//!         104 decode from bytes: program bits of the correct program, witness stream rebuilt from the
//!             candidates in stream order and modified by <tweak> (`-` | `+bits` | `-n` | `=bits`)
//!       <outcome>:  0 <alltyped> <selfdec> <exec> <principal> <k> (<idx> <nbits> <bits>)*k  |  1 <err>  |  8 (n/a)  |  9 panic
//!       route 104 prints after the marker first:  <m> <idx in stream order>*m  (8 when the base fails)
//!       at the end: 105 <n> <rep per PDL index>  identity classes of the result of route 100 (n = 0 if none)
//!                   106 <m> <rep>*m              the same per pruning round, as in section 56 of kind c08
//!
//!   c12old <pdl>     the pre-fix behaviour cannot be run; this kind only replays the route 100 and
//!                    prints `<ok> <finalised>` like the findings command (first number 1 = property holds)
use crate::prog::{self, NodeSpec, RedeemError, WitSpec};
use crate::util::*;

use simplicity::bit_machine::{ExecutionError, PruneTracker, SetTracker};
use simplicity::dag::{DagLike, InternalSharing};
use simplicity::elements;
use simplicity::elements::taproot::ControlBlock;
use simplicity::ffi::tests::{parse_root, run_program, TestUpTo};
use simplicity::human_encoding::Forest;
use simplicity::jet::elements::{ElementsEnv, ElementsUtxo};
use simplicity::jet::Elements;
use simplicity::node::Inner;
use simplicity::types;
use simplicity::{BitIter, BitMachine, Cmr, FinalizeError, RedeemNode, Value};
use std::collections::HashMap;
use std::sync::Arc;

type Env = ElementsEnv<Arc<elements::Transaction>>;

pub fn run(t: &[&str]) -> String {
    match guarded(|| run_inner(t)) {
        Some(v) => join(&v),
        None => "9".to_string(),
    }
}

fn run_inner(t: &[&str]) -> Vec<u128> {
    match t[0] {
        "c08" => c08(t[1], t[2]),
        "c12" => c12(t[1], t.get(2).copied().unwrap_or("-")),
        "c12old" => c12old(t[1]),
        "dbg" => dbg(t[1], t[2]),
        "hrraw" => hrraw(t[1]),
        _ => panic!("kind"),
    }
}

// ---------------------------------------------------------------------------------- environment
/// ElementsEnv::dummy_with (which is cfg(test) in the library) rebuilt from public constructors
fn make_env(lock_time: u32, sequence: u32) -> Env {
    let ctrl_blk: [u8; 33] = [
        0xc0, 0xeb, 0x04, 0xb6, 0x8e, 0x9a, 0x26, 0xd1, 0x16, 0x04, 0x6c, 0x76, 0xe8, 0xff, 0x47, 0x33, 0x2f,
        0xb7, 0x1d, 0xda, 0x90, 0xff, 0x4b, 0xef, 0x53, 0x70, 0xf2, 0x52, 0x26, 0xd3, 0xbc, 0x09, 0xfc,
    ];
    ElementsEnv::new(
        Arc::new(elements::Transaction {
            version: 2,
            lock_time: elements::LockTime::from_consensus(lock_time),
            input: vec![elements::TxIn {
                previous_output: elements::OutPoint::default(),
                is_pegin: false,
                script_sig: elements::Script::new(),
                sequence: elements::Sequence::from_consensus(sequence),
                asset_issuance: elements::AssetIssuance::default(),
                witness: elements::TxInWitness::default(),
            }],
            output: Vec::default(),
        }),
        vec![ElementsUtxo {
            script_pubkey: elements::Script::new(),
            asset: elements::confidential::Asset::Null,
            value: elements::confidential::Value::Null,
        }],
        0,
        Cmr::from_byte_array([0; 32]),
        ControlBlock::from_slice(&ctrl_blk).unwrap(),
        None,
        elements::BlockHash::from_byte_array([0u8; 32]),
    )
}

fn parse_env(s: &str) -> Env {
    let f: Vec<&str> = s.split(':').collect();
    make_env(f[0].parse().expect("lock time"), f[1].parse().expect("sequence"))
}

// ---------------------------------------------------------------------------------- helpers
fn fin_code(e: &FinalizeError) -> u128 {
    match e {
        FinalizeError::Type(types::Error::CompleteTypeMismatch { .. }) => 41,
        FinalizeError::Type(_) => 44,
        FinalizeError::Execution(_) => 42,
        FinalizeError::DisconnectRedeemTime => 43,
        #[allow(unreachable_patterns)]
        _ => 49,
    }
}

fn exec_err_code(e: &ExecutionError) -> u128 {
    match e {
        ExecutionError::ReachedFailNode(_) => 11,
        ExecutionError::ReachedPrunedBranch(_) => 12,
        ExecutionError::LimitExceeded(_) => 13,
        ExecutionError::JetFailed(_) => 14,
        ExecutionError::JetTypeMismatch => 15,
        ExecutionError::InputWrongType(_) => 16,
        #[allow(unreachable_patterns)]
        _ => 19,
    }
}

/// 0 ok, 1x error, 9 panic; the output value when ok
fn exec(p: &RedeemNode, env: &Env) -> (u128, Option<Value>) {
    let r = guarded(|| {
        let mut mac = BitMachine::for_program(p).map_err(ExecutionError::LimitExceeded)?;
        mac.exec(p, env)
    });
    match r {
        None => (9, None),
        Some(Ok(v)) => (0, Some(v)),
        Some(Err(e)) => (exec_err_code(&e), None),
    }
}

/// libsimplicity on the serialised program with all anti-DoS checks
fn c_run(p: &RedeemNode, env: &Env) -> (u128, bool) {
    let (pb, wb) = p.to_vec_with_witness();
    match guarded(|| run_program(&pb, &wb, TestUpTo::Everything, None, Some(env.c_tx_env()))) {
        None => (9, false),
        Some(Err(e)) => (1000 + (-(e as i32)) as u128, false),
        Some(Ok(out)) => {
            let cmr_eq = parse_root(&out.cmr.s) == p.cmr().to_byte_array();
            ((-(out.eval_result as i32)) as u128, cmr_eq)
        }
    }
}

/// 1 = own serialisation decodes to a program with the same IHR and the same serialisation,
/// 0 = decode error, 2 = decodes to something else, 9 = panic
fn self_decode(p: &RedeemNode) -> u128 {
    let (pb, wb) = p.to_vec_with_witness();
    let r = guarded(|| {
        RedeemNode::decode::<_, _, Elements>(BitIter::from(pb.clone().into_iter()), BitIter::from(wb.clone().into_iter()))
    });
    match r {
        None => 9,
        Some(Err(_)) => 0,
        Some(Ok(q)) => {
            let (pb2, wb2) = q.to_vec_with_witness();
            if pb2 == pb && wb2 == wb && q.ihr() == p.ihr() && q.cmr() == p.cmr() {
                1
            } else {
                2
            }
        }
    }
}

/// 1 = the types of the program are the ones its structure alone infers (re-inference from scratch
/// gives the same IHR), 0 = not, 2 = re-finalisation fails, 9 = panic
fn principal(p: &RedeemNode) -> u128 {
    match guarded(|| types::Context::with_context(|ctx| p.to_construct_node(&ctx).finalize_unpruned())) {
        None => 9,
        Some(Err(_)) => 2,
        Some(Ok(q)) => (q.ihr() == p.ihr()) as u128,
    }
}

fn all_typed(p: &RedeemNode) -> bool {
    let mut ok = true;
    for it in p.post_order_iter::<InternalSharing>() {
        if let Inner::Witness(v) = it.node.inner() {
            if !v.is_of_type(&it.node.arrow().target) {
                ok = false;
            }
        }
    }
    ok
}

/// The node of a (possibly pruned) redemption program that corresponds to each PDL index,
/// found by walking both structures from the root.
fn walk<'a>(root: &'a RedeemNode, specs: &[NodeSpec]) -> Vec<Option<&'a RedeemNode>> {
    let mut out: Vec<Option<&'a RedeemNode>> = vec![None; specs.len()];
    let mut stack: Vec<(&'a RedeemNode, usize)> = vec![(root, specs.len() - 1)];
    while let Some((n, i)) = stack.pop() {
        if out[i].is_some() {
            continue;
        }
        out[i] = Some(n);
        match (n.inner(), &specs[i]) {
            (Inner::InjL(c), NodeSpec::InjL(k))
            | (Inner::InjR(c), NodeSpec::InjR(k))
            | (Inner::Take(c), NodeSpec::Take(k))
            | (Inner::Drop(c), NodeSpec::Drop(k)) => stack.push((c, *k)),
            (Inner::Comp(l, r), NodeSpec::Comp(a, b))
            | (Inner::Pair(l, r), NodeSpec::Pair(a, b))
            | (Inner::Case(l, r), NodeSpec::Case(a, b)) => {
                stack.push((l, *a));
                stack.push((r, *b));
            }
            (Inner::AssertL(l, _), NodeSpec::Case(a, _)) => stack.push((l, *a)),
            (Inner::AssertR(_, r), NodeSpec::Case(_, b)) => stack.push((r, *b)),
            (Inner::Disconnect(l, r), NodeSpec::Disconnect(a, Some(b))) => {
                stack.push((l, *a));
                stack.push((r, *b));
            }
            (Inner::Iden, NodeSpec::Iden)
            | (Inner::Unit, NodeSpec::Unit)
            | (Inner::Witness(_), NodeSpec::Witness(_))
            | (Inner::Fail(_), NodeSpec::Fail(_))
            | (Inner::Jet(_), NodeSpec::Jet(..))
            | (Inner::Word(_), NodeSpec::Word(..)) => {}
            _ => panic!("structure mismatch at node {}", i),
        }
    }
    out
}

/// construction-time witness values of a description (compact ones need a first inference pass)
fn wit_values(specs: &[NodeSpec], program: bool) -> Result<Vec<Option<Value>>, RedeemError> {
    let needs_types = specs.iter().any(|s| matches!(s, NodeSpec::Witness(WitSpec::Compact(_))));
    let arr = if needs_types { Some(prog::arrows(specs, program)?) } else { None };
    let mut wits: Vec<Option<Value>> = vec![None; specs.len()];
    for (i, s) in specs.iter().enumerate() {
        match s {
            NodeSpec::Witness(WitSpec::Compact(bits)) => {
                let ty = &arr.as_ref().unwrap()[i].as_ref().ok_or(RedeemError::WitnessBits(i))?.1;
                wits[i] = Some(prog::value_of_compact(bits, ty).ok_or(RedeemError::WitnessBits(i))?);
            }
            NodeSpec::Witness(WitSpec::Typed(..)) => {
                wits[i] = Some(prog::typed_witness(specs, i).ok_or(RedeemError::WitnessBits(i))?);
            }
            _ => {}
        }
    }
    Ok(wits)
}

/// identity classes (smallest PDL index with the same IHR; n for absent nodes) of a program
fn classes_of(p: &RedeemNode, specs: &[NodeSpec]) -> Vec<u128> {
    let w = walk(p, specs);
    let n = specs.len();
    (0..n)
        .map(|i| match w[i] {
            None => n as u128,
            Some(u) => (0..=i).find(|j| w[*j].map(|x| x.ihr() == u.ihr()).unwrap_or(false)).unwrap() as u128,
        })
        .collect()
}

/// The rounds that the fixed-point loop of RedeemNode::prune goes through, replayed with the one-pass
/// function: identity classes of the program that each round starts from (the last round changes nothing).
fn round_classes(unpruned: &Arc<RedeemNode>, specs: &[NodeSpec], env: &Env) -> Vec<Vec<u128>> {
    let mut out = vec![];
    let mut p = Arc::clone(unpruned);
    for _ in 0..64 {
        out.push(classes_of(&p, specs));
        let q = match p.prune_with_tracker(env, &mut SetTracker::default()) {
            Ok(q) => q,
            Err(_) => return vec![],
        };
        if q.to_vec_with_witness() == p.to_vec_with_witness() {
            break;
        }
        p = q;
    }
    out
}

fn push_rounds(out: &mut Vec<u128>, marker: u128, rounds: &[Vec<u128>]) {
    out.push(marker);
    out.push(rounds.iter().map(|r| r.len()).sum::<usize>() as u128);
    for r in rounds {
        out.extend(r.iter().copied());
    }
}

enum Out {
    Ok(Arc<RedeemNode>),
    Err(u128),
    NotApplicable,
    Panic,
}

/// route "construction-time witnesses, then finalize_unpruned / finalize_pruned"
fn route_construct(specs: &[NodeSpec], wits: &[Option<Value>], env: Option<&Env>) -> Out {
    let r = guarded(|| {
        types::Context::with_context(|ctx| {
            let nodes = match prog::build(&ctx, specs, &|i| wits[i].clone()) {
                Ok(n) => n,
                Err(e) => return Err(prog::err_code(&RedeemError::Build(e))),
            };
            let root = nodes.last().unwrap().as_ref().unwrap();
            if let Err(e) = root.set_arrow_to_program() {
                return Err(prog::err_code(&RedeemError::Infer(prog::err_class(&e))));
            }
            match env {
                None => root.finalize_unpruned().map_err(|e| fin_code(&e)),
                Some(env) => root.finalize_pruned(env).map_err(|e| fin_code(&e)),
            }
        })
    });
    match r {
        None => Out::Panic,
        Some(Ok(p)) => Out::Ok(p),
        Some(Err(c)) => Out::Err(c),
    }
}

/// human-readable text of a description: node i is named n<i>, the root `main`
fn render_text(specs: &[NodeSpec]) -> Option<String> {
    let mut s = String::new();
    let last = specs.len() - 1;
    let name = |i: usize| if i == last { "main".to_string() } else { format!("n{}", i) };
    for (i, sp) in specs.iter().enumerate() {
        let body = match sp {
            NodeSpec::Iden => "iden".to_string(),
            NodeSpec::Unit => "unit".to_string(),
            NodeSpec::InjL(c) => format!("injl {}", name(*c)),
            NodeSpec::InjR(c) => format!("injr {}", name(*c)),
            NodeSpec::Take(c) => format!("take {}", name(*c)),
            NodeSpec::Drop(c) => format!("drop {}", name(*c)),
            NodeSpec::Comp(l, r) => format!("comp {} {}", name(*l), name(*r)),
            NodeSpec::Pair(l, r) => format!("pair {} {}", name(*l), name(*r)),
            NodeSpec::Case(l, r) => match (&specs[*l], &specs[*r]) {
                (NodeSpec::Hidden(_), NodeSpec::Hidden(_)) => return None,
                (NodeSpec::Hidden(h), _) => format!("assertr #{} {}", hexs(h), name(*r)),
                (_, NodeSpec::Hidden(h)) => format!("assertl {} #{}", name(*l), hexs(h)),
                _ => format!("case {} {}", name(*l), name(*r)),
            },
            NodeSpec::Hidden(_) => continue,
            NodeSpec::Witness(_) => "witness".to_string(),
            NodeSpec::Jet(_, n) => format!("jet_{}", n),
            NodeSpec::Word(_, bits) => {
                format!("const 0b{}", bits.iter().map(|b| if *b { '1' } else { '0' }).collect::<String>())
            }
            NodeSpec::Fail(e) => format!("fail 0x{}", hexs(e)),
            NodeSpec::Disconnect(..) => return None,
        };
        s.push_str(&format!("{} := {}\n", name(i), body));
    }
    Some(s)
}

fn hexs(b: &[u8]) -> String {
    b.iter().map(|x| format!("{:02x}", x)).collect()
}

/// route "human-readable program + witness map"
fn route_human(specs: &[NodeSpec], wits: &[Option<Value>], env: Option<&Env>) -> Out {
    let text = match render_text(specs) {
        Some(t) => t,
        None => return Out::NotApplicable,
    };
    let last = specs.len() - 1;
    if matches!(specs[last], NodeSpec::Witness(_)) {
        return Out::NotApplicable;
    }
    let mut map: HashMap<Arc<str>, Value> = HashMap::new();
    for (i, w) in wits.iter().enumerate() {
        if let Some(v) = w {
            map.insert(Arc::from(format!("n{}", i)), v.clone());
        }
    }
    let r = guarded(|| {
        let forest = match Forest::parse::<Elements>(&text) {
            Ok(f) => f,
            Err(e) => {
                if std::env::var_os("VERIF_PANIC_MSG").is_some() {
                    eprintln!("human-readable text does not parse:\n{}\n{}", text, e);
                }
                return Err(80);
            }
        };
        types::Context::with_context(|ctx| {
            let root = match forest.to_witness_node(&ctx, &map) {
                Some(r) => r,
                None => {
                    if std::env::var_os("VERIF_PANIC_MSG").is_some() {
                        eprintln!("no main root in:\n{}\nroots: {:?}", text, forest.roots().keys().collect::<Vec<_>>());
                    }
                    return Err(81);
                }
            };
            match env {
                None => root.finalize_unpruned().map_err(|e| fin_code(&e)),
                Some(env) => root.finalize_pruned(env).map_err(|e| fin_code(&e)),
            }
        })
    });
    match r {
        None => Out::Panic,
        Some(Ok(p)) => Out::Ok(p),
        Some(Err(c)) => Out::Err(c),
    }
}

fn push_bits(out: &mut Vec<u128>, v: &Value) {
    let b = prog::compact_bits(v);
    out.push(b.len() as u128);
    out.extend(b);
}

/// `0 <alltyped> <selfdec> <exec> <principal> <k> (<idx> <nbits> <bits>)*k`
fn describe(out: &mut Vec<u128>, p: &RedeemNode, specs: &[NodeSpec], env: &Env) {
    out.push(0);
    out.push(all_typed(p) as u128);
    out.push(self_decode(p));
    out.push(exec(p, env).0);
    out.push(principal(p));
    match guarded(|| walk(p, specs)) {
        None => out.push(999),
        Some(w) => {
            let mut items = vec![];
            for (i, n) in w.iter().enumerate() {
                if let Some(n) = n {
                    if let Inner::Witness(v) = n.inner() {
                        items.push((i, v.clone()));
                    }
                }
            }
            out.push(items.len() as u128);
            for (i, v) in items {
                out.push(i as u128);
                push_bits(out, &v);
            }
        }
    }
}

fn emit(out: &mut Vec<u128>, marker: u128, r: Out, specs: &[NodeSpec], env: &Env) {
    out.push(marker);
    match r {
        Out::Ok(p) => describe(out, &p, specs, env),
        Out::Err(c) => {
            out.push(1);
            out.push(c);
        }
        Out::NotApplicable => out.push(8),
        Out::Panic => out.push(9),
    }
}

// ---------------------------------------------------------------------------------- C12
fn c12(pdl: &str, tweak: &str) -> Vec<u128> {
    let specs = prog::parse_prog(pdl);
    let env = make_env(0, 0xffff_ffff);
    let mut out = vec![];
    let wits = match wit_values(&specs, true) {
        Ok(w) => w,
        Err(e) => return vec![1, prog::err_code(&e)],
    };
    let r100 = route_construct(&specs, &wits, None);
    // identity classes of the unpruned program (smallest PDL index with the same IHR)
    let mut classes: Vec<u128> = vec![105, 0];
    if let Out::Ok(p) = &r100 {
        if let Some(w) = guarded(|| walk(p, &specs)) {
            let n = specs.len();
            classes = vec![105, n as u128];
            for i in 0..n {
                let rep = match w[i] {
                    None => n,
                    Some(u) => (0..=i).find(|j| w[*j].map(|x| x.ihr() == u.ihr()).unwrap_or(false)).unwrap(),
                };
                classes.push(rep as u128);
            }
        }
    }
    let rounds = match &r100 {
        Out::Ok(p) => guarded(|| round_classes(p, &specs, &env)).unwrap_or_default(),
        _ => vec![],
    };
    emit(&mut out, 100, r100, &specs, &env);
    emit(&mut out, 101, route_construct(&specs, &wits, Some(&env)), &specs, &env);
    emit(&mut out, 102, route_human(&specs, &wits, None), &specs, &env);
    emit(&mut out, 103, route_human(&specs, &wits, Some(&env)), &specs, &env);
    out.push(104);
    route_decode(&mut out, &specs, &wits, tweak, &env);
    out.extend(classes);
    push_rounds(&mut out, 106, &rounds);
    out
}

fn dec_err_code(e: &simplicity::DecodeError) -> u128 {
    use simplicity::decode::Error as D;
    use simplicity::{BitIterCloseError, DecodeError};
    match e {
        DecodeError::Decode(D::EndOfStream) => 1,
        DecodeError::Decode(D::BitIter(BitIterCloseError::TrailingBytes { .. })) => 2,
        DecodeError::Decode(D::BitIter(BitIterCloseError::IllegalPadding { .. })) => 3,
        DecodeError::Decode(D::SharingNotMaximal) => 4,
        DecodeError::Type(_) => 6,
        _ => 5,
    }
}

/// route "decode from bytes"
fn route_decode(out: &mut Vec<u128>, specs: &[NodeSpec], wits: &[Option<Value>], tweak: &str, env: &Env) {
    // the correct program: every candidate of the right type is kept, every other witness is zero
    let arr = match prog::arrows(specs, true) {
        Ok(a) => a,
        Err(_) => {
            out.push(8);
            return;
        }
    };
    let base_wits: Vec<Option<Value>> = wits
        .iter()
        .enumerate()
        .map(|(i, w)| match (w, &arr[i]) {
            (Some(v), Some((_, tgt))) if v.is_of_type(tgt) => Some(v.clone()),
            _ => None,
        })
        .collect();
    let base = match route_construct(specs, &base_wits, None) {
        Out::Ok(p) => p,
        _ => {
            out.push(8);
            return;
        }
    };
    let (pb, wb) = base.to_vec_with_witness();
    let dec0 = match guarded(|| {
        RedeemNode::decode::<_, _, Elements>(BitIter::from(pb.clone().into_iter()), BitIter::from(wb.clone().into_iter()))
    }) {
        Some(Ok(p)) => p,
        _ => {
            out.push(8);
            return;
        }
    };
    // witness nodes of the decoded program in stream order, as PDL indices (smallest index of a merged class)
    let w0 = walk(&dec0, specs);
    let mut by_ptr: HashMap<*const RedeemNode, usize> = HashMap::new();
    for (i, n) in w0.iter().enumerate() {
        if let Some(n) = n {
            by_ptr.entry(*n as *const RedeemNode).or_insert(i);
        }
    }
    let mut order: Vec<usize> = vec![];
    for it in dec0.as_ref().post_order_iter::<InternalSharing>() {
        if let Inner::Witness(_) = it.node.inner() {
            order.push(*by_ptr.get(&(it.node as *const RedeemNode)).expect("witness node reached by walk"));
        }
    }
    out.push(order.len() as u128);
    out.extend(order.iter().map(|i| *i as u128));
    // the substituted stream
    let mut bits: Vec<bool> = vec![];
    for i in &order {
        if let NodeSpec::Witness(WitSpec::Typed(_, b)) = &specs[*i] {
            bits.extend(b.iter().copied());
        } else if let Some(v) = &base_wits[*i] {
            bits.extend(v.iter_compact());
        } else {
            let tgt = &arr[*i].as_ref().unwrap().1;
            bits.extend(Value::zero(tgt).iter_compact());
        }
    }
    if let Some(rest) = tweak.strip_prefix('+') {
        bits.extend(bits_of_str(rest));
    } else if let Some(rest) = tweak.strip_prefix('=') {
        bits = bits_of_str(rest);
    } else if tweak != "-" {
        let n: usize = tweak[1..].parse().expect("tweak");
        let keep = bits.len().saturating_sub(n);
        bits.truncate(keep);
    }
    let wb2 = prog::pack_bits(&bits);
    let r = guarded(|| {
        RedeemNode::decode::<_, _, Elements>(BitIter::from(pb.clone().into_iter()), BitIter::from(wb2.clone().into_iter()))
    });
    match r {
        None => out.push(9),
        Some(Err(e)) => {
            out.push(1);
            out.push(dec_err_code(&e));
        }
        Some(Ok(p)) => {
            out.push(0);
            out.push(all_typed(&p) as u128);
            // re-encoding gives the same bytes
            let (pb3, wb3) = p.to_vec_with_witness();
            out.push((pb3 == pb && wb3 == wb2) as u128);
            out.push(exec(&p, env).0);
            let mut items = vec![];
            for it in p.as_ref().post_order_iter::<InternalSharing>() {
                if let Inner::Witness(v) = it.node.inner() {
                    items.push(v.clone());
                }
            }
            out.push(items.len() as u128);
            for (k, v) in items.iter().enumerate() {
                out.push(order.get(k).copied().unwrap_or(9999) as u128);
                push_bits(out, v);
            }
        }
    }
}

fn c12old(pdl: &str) -> Vec<u128> {
    let specs = prog::parse_prog(pdl);
    let wits = match wit_values(&specs, true) {
        Ok(w) => w,
        Err(e) => return vec![1, prog::err_code(&e)],
    };
    match route_construct(&specs, &wits, None) {
        Out::Ok(p) => vec![all_typed(&p) as u128, 1],
        Out::Err(_) => vec![1, 0],
        Out::NotApplicable => vec![8],
        Out::Panic => vec![0, 9],
    }
}

// ---------------------------------------------------------------------------------- C08
fn c08(envs: &str, pdl: &str) -> Vec<u128> {
    let specs = prog::parse_prog(pdl);
    let env = parse_env(envs);
    let wits = match wit_values(&specs, true) {
        Ok(w) => w,
        Err(e) => return vec![1, prog::err_code(&e)],
    };
    let unpruned = match route_construct(&specs, &wits, None) {
        Out::Ok(p) => p,
        Out::Err(c) => return vec![1, c],
        _ => return vec![1, 9],
    };
    let (ec, out0) = exec(&unpruned, &env);
    if ec != 0 {
        return vec![2, ec];
    }
    let n = specs.len();
    let mut hdr: Vec<u128> = vec![0, 7, 7, 7, 7, 7, 7, 7, 7, 7, 7, 7, 7];
    let mut tail: Vec<u128> = vec![];
    // the public entry point (what the property is about) ...
    let pruned = match guarded(|| unpruned.prune(&env)) {
        None => {
            hdr[1] = 9;
            return hdr;
        }
        Some(Err(e)) => {
            hdr[1] = exec_err_code(&e);
            return hdr;
        }
        Some(Ok(p)) => p,
    };
    // ... and one pass with an inspectable tracker (what the structural model describes)
    let mut tracker = SetTracker::default();
    let pruned1 = match guarded(|| unpruned.prune_with_tracker(&env, &mut tracker)) {
        Some(Ok(p)) => p,
        _ => {
            hdr[1] = 8;
            return hdr;
        }
    };
    hdr[1] = 0;
    hdr[2] = (pruned.cmr() == unpruned.cmr()) as u128;
    let (ec2, out1) = exec(&pruned, &env);
    hdr[3] = ec2;
    hdr[4] = (ec2 == 0 && out0 == out1) as u128;
    // pruning again for the same environment changes nothing
    hdr[5] = match guarded(|| pruned.prune(&env)) {
        None => 9,
        Some(Err(_)) => 2,
        Some(Ok(q)) => {
            let same = q.to_vec_with_witness() == pruned.to_vec_with_witness() && q.ihr() == pruned.ihr() && q.cmr() == pruned.cmr();
            if same {
                0
            } else {
                1
            }
        }
    };
    hdr[6] = all_typed(&pruned) as u128;
    let (cp, cp_cmr) = c_run(&pruned, &env);
    hdr[7] = cp;
    hdr[8] = c_run(&unpruned, &env).0;
    hdr[10] = self_decode(&pruned);
    hdr[11] = cp_cmr as u128;
    // types of the pruned program are the ones its structure alone infers
    hdr[12] = principal(&pruned);
    // structure
    let w_un = walk(&unpruned, &specs);
    let w_pr = match guarded(|| walk(&pruned, &specs)) {
        Some(w) => w,
        None => {
            hdr[9] = 9;
            return hdr;
        }
    };
    let w_p1 = match guarded(|| walk(&pruned1, &specs)) {
        Some(w) => w,
        None => {
            hdr[9] = 9;
            return hdr;
        }
    };
    let mut changed = false;
    let mut codes = |w_x: &Vec<Option<&RedeemNode>>, marker: u128, tail: &mut Vec<u128>| {
        tail.push(marker);
        tail.push(n as u128);
        for i in 0..n {
            let code = match (&specs[i], w_un[i], w_x[i]) {
                (NodeSpec::Hidden(_), _, _) => 5,
                (_, _, None) => {
                    if w_un[i].is_some() {
                        changed = true;
                    }
                    0
                }
                (_, Some(u), Some(p)) => match (u.inner(), p.inner()) {
                    (Inner::Case(..), Inner::AssertL(..)) => {
                        changed = true;
                        2
                    }
                    (Inner::Case(..), Inner::AssertR(..)) => {
                        changed = true;
                        3
                    }
                    _ => 1,
                },
                (_, None, Some(_)) => panic!("pruned program has a node the unpruned one lacks"),
            };
            tail.push(code);
        }
    };
    codes(&w_p1, 50, &mut tail);
    codes(&w_pr, 55, &mut tail);
    hdr[9] = changed as u128;
    // tracker content
    let mut tr = vec![];
    for i in 0..n {
        if let Some(u) = w_un[i] {
            if matches!(u.inner(), Inner::Case(..) | Inner::AssertL(..) | Inner::AssertR(..)) {
                tr.push((i, tracker.contains_left(u.ihr()), tracker.contains_right(u.ihr())));
            }
        }
    }
    tail.push(51);
    tail.push(tr.len() as u128);
    for (i, l, r) in tr {
        tail.extend([i as u128, l as u128, r as u128]);
    }
    // identity classes
    tail.push(52);
    tail.push(n as u128);
    for i in 0..n {
        let rep = match w_un[i] {
            None => n,
            Some(u) => (0..=i).find(|j| w_un[*j].map(|x| x.ihr() == u.ihr()).unwrap_or(false)).unwrap(),
        };
        tail.push(rep as u128);
    }
    let rounds = guarded(|| round_classes(&unpruned, &specs, &env)).unwrap_or_default();
    push_rounds(&mut tail, 56, &rounds);
    // witnesses of the pruned program
    let mut ws = vec![];
    for i in 0..n {
        if let Some(p) = w_pr[i] {
            if let Inner::Witness(v) = p.inner() {
                ws.push((i, v.is_of_type(&p.arrow().target), v.clone()));
            }
        }
    }
    tail.push(53);
    tail.push(ws.len() as u128);
    for (i, ty, v) in ws {
        tail.push(i as u128);
        tail.push(ty as u128);
        push_bits(&mut tail, &v);
    }
    // arrows of the pruned program
    let kept: Vec<usize> = (0..n).filter(|i| w_pr[*i].is_some()).collect();
    tail.push(54);
    tail.push(kept.len() as u128);
    for i in kept {
        let p = w_pr[i].unwrap();
        tail.push(i as u128);
        prog::ty_nums(&p.arrow().source, &mut tail);
        prog::ty_nums(&p.arrow().target, &mut tail);
    }
    hdr.extend(tail);
    hdr
}

/// debugging aid: prune repeatedly, print per round: changed-IHR flag, number of nodes, C verdict
fn dbg(envs: &str, pdl: &str) -> Vec<u128> {
    let specs = prog::parse_prog(pdl);
    let env = parse_env(envs);
    let wits = wit_values(&specs, true).unwrap();
    let mut p = match route_construct(&specs, &wits, None) {
        Out::Ok(p) => p,
        _ => return vec![1],
    };
    let mut out = vec![];
    for _ in 0..5 {
        let q = p.prune_with_tracker(&env, &mut SetTracker::default()).unwrap();
        out.push((q.ihr() != p.ihr()) as u128);
        out.push(q.as_ref().post_order_iter::<InternalSharing>().count() as u128);
        out.push(c_run(&q, &env).0);
        p = q;
    }
    out
}

/// debugging aid: human-readable text (`~` = space, `;` = newline): finalize_unpruned, run, serialise,
/// decode, run again.  Output: exec code, decode ok, same IHR, exec code of the decoded program, C verdict
fn hrraw(text: &str) -> Vec<u128> {
    let text = text.replace('~', " ").replace(';', "\n");
    let env = make_env(0, 0xffff_ffff);
    let forest = Forest::parse::<Elements>(&text).expect("parse");
    let p = types::Context::with_context(|ctx| {
        forest.to_witness_node(&ctx, &HashMap::new()).expect("main").finalize_unpruned().expect("finalize")
    });
    let mut out = vec![exec(&p, &env).0];
    let (pb, wb) = p.to_vec_with_witness();
    match RedeemNode::decode::<_, _, Elements>(BitIter::from(pb.into_iter()), BitIter::from(wb.into_iter())) {
        Err(_) => out.push(0),
        Ok(q) => {
            out.push(1);
            out.push((q.ihr() == p.ihr()) as u128);
            out.push(exec(&q, &env).0);
            out.push(p.as_ref().post_order_iter::<InternalSharing>().count() as u128);
            out.push(q.as_ref().post_order_iter::<InternalSharing>().count() as u128);
        }
    }
    out.push(c_run(&p, &env).0);
    out
}
