(* C16 - the program returned by Policy::satisfy runs on the Bit Machine model.
   Policy/BridgeSat.v gives a well-typed Core term 1 -> 1 that evaluates to (); C05's main theorem
   (Core/ExecCorrect.v) turns that into a successful run of for_program + exec on the machine as
   written, for every build profile and every initial content of the data buffer, inside the
   static bounds - provided the program passes the machine's limit check (policies can be
   arbitrarily large) and the machine-level jets respect their types. *)
From Coq Require Import Permutation Sorted.
From RS Require Import Lib.Tac Lib.Outcome Lib.Bits Ty.Ty.
From RS Require Core.Prog Core.Term Core.Typing Core.Sem Core.Bounds Core.Limits Core.Machine Core.ExecCorrect.
From RS Require Import Policy.PolicyAst Policy.Sort Policy.Compile Policy.Satisfy Policy.Sem Policy.Bridge
  Policy.BridgeSat.
Import ListNotations.
Local Open Scope N_scope.
Set Implicit Arguments.

Section BridgeMachine.
  Variable H : Type.
  Variable hf : hashfns H.
  Variable H_eqb : H -> H -> bool.
  Hypothesis H_eqb_refl : forall a, H_eqb a a = true.
  Variable fin_cost : node H -> option N.
  Variable cmax : N.
  Variable e : envo.
  Variable h_bytes : H -> list N.
  Variable entropy : N -> list N.
  Variable sig_bits : N -> list bool.
  Variable pre_bits : N -> list bool.
  Variable msg_bits : list bool.
  Variable ctx_sval : list val -> sval.
  Variable jid : jet -> N.
  Hypothesis sig_len : forall k, length (sig_bits k) = 512%nat.
  Hypothesis pre_len : forall h, length (pre_bits h) = 256%nat.
  Variable cj_ty : N -> option Bridge.arrow.
  Hypothesis jets_ty : forall j, cj_ty (jid j) = Some (jsrc j, jtgt j).
  Variable cj : N -> sval -> option sval.
  Hypothesis Hagree : jets_agree sig_bits pre_bits msg_bits ctx_sval jid e cj.
  Hypothesis Hjets : RS.Core.Sem.jets_typed cj_ty cj.

  Theorem satisfy_runs_machine s p prog : truthful e s -> in_range p ->
    satisfy hf H_eqb e fin_cost cmax s p = Ok prog ->
    exists t, xl h_bytes entropy sig_bits pre_bits jid prog One = Some (t, One) /\
      typed cj_ty t One One /\ ceval cj t SU = ROk SU /\
      forall prof jet_cost m0,
        Limits.check_program prof (Machine.bw One) (Machine.bw One) (Bounds.bounds jet_cost t) = Ok tt ->
        length m0 = N.to_nat (Machine.machine_cells jet_cost t) ->
        exists st, Machine.machine_exec prof jet_cost cj t m0 None = Ok (st, []) /\
                   Machine.hwc st <= Bounds.extra_cells (Bounds.bounds jet_cost t) /\
                   Machine.hwf st <= Bounds.extra_frames (Bounds.bounds jet_cost t) + Bounds.IO_EXTRA_FRAMES.
  Proof.
    intros Ht HR Hs.
    destruct (@satisfy_runs_core H hf H_eqb H_eqb_refl fin_cost cmax e h_bytes entropy sig_bits pre_bits
                msg_bits ctx_sval jid sig_len pre_len cj_ty jets_ty cj Hagree s p prog Ht HR Hs) as (t & Ex & Hty & Hev).
    exists t. split; [exact Ex|]. split; [exact Hty|]. split; [exact Hev|].
    intros prof jet_cost m0 Hc Hl.
    pose proof (ExecCorrect.exec_master_noinput prof cj_ty jet_cost cj t One One Hjets Hty Hc SU m0
                  eq_refl eq_refl Hl) as M.
    rewrite Hev in M. destruct M as (st & bits & E & _ & Hlen & H1 & _ & H3).
    destruct bits; [|discriminate]. exists st. split; [exact E|]. cbn [width] in H1. split; [lia|exact H3].
  Qed.
End BridgeMachine.
