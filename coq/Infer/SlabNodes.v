(* C04, phase 3 - layer (c), second half: the slab state against the reference CONSTRAINT SET.

   The reference (Constraints.v / Infer.v) first generates a store of bounds and a list of equations and solves
   afterwards; the Rust code (and the slab model) unifies while constructing.  The two are related here
   semantically, through an embedding `em` of UbElements into store variables:

     simD c s eqs em   the models of the slab state c are exactly the restrictions along em of the models of
                       the constraint set (s, eqs) - in the generic domain of SlabSim.v
     Sim c s eqs em    simD in finite types AND in possibly infinite trees, with the well-formedness of both
                       sides

   and every primitive of SlabPrims.v / SlabSim.v is matched with what Constraints.node_tmpl appends:

     Type::free                  one variable BFree                                  sim_free
     Type::complete t            a block of variables laying out t (walloc / galloc)  sim_block, is_block_walloc/galloc
     Type::sum / Type::product   one variable BSum / BProd of the embedded children   sim_pair
     Context::unify x y          the equation (em x, em y)                            sim_unify
     Context::bind_product e l r one variable BProd (em l) (em r), equation (em e, it) sim_bindp

   with, for the last two, failure of the slab operation implying that the extended constraint set has no
   model in trees (`~ consistent`): Error::Bind exactly when the reference reports a clash. *)
From RS Require Import Lib.Tac Lib.Outcome Ty.Ty Core.Prog Infer.Constraints Infer.Unify Infer.Infer Infer.Gen
  Infer.UnionFind Infer.Slab Infer.SlabProofs Infer.Rational Infer.SlabSim Infer.SlabSimInst Infer.SlabPrims.
Import ListNotations.
Local Open Scope outcome_scope.

Definition upd (em : nat -> nat) (e v : nat) : nat -> nat := fun x => if Nat.eqb x e then v else em x.

Lemma upd_eq em e v : upd em e v e = v.
Proof. unfold upd. rewrite Nat.eqb_refl. reflexivity. Qed.

Lemma upd_lt em e v x : (x < e)%nat -> upd em e v x = em x.
Proof. intros H. unfold upd. destruct (Nat.eqb_spec x e); [lia|reflexivity]. Qed.

Definition base (c : ctx) (s : store) (eqs : list (nat * nat)) (em : nat -> nat) : Prop :=
  cwf c /\ wf s /\ eqs_in (length s) eqs /\ (forall e, (e < length (c_uf c))%nat -> (em e < length s)%nat).

Section NodeDom.
  Variable D : Type.
  Variable deq : D -> D -> Prop.
  Variable done : D.
  Variable dsum dprod : D -> D -> D.
  Hypothesis deq_refl : forall a, deq a a.
  Hypothesis deq_sym : forall a b, deq a b -> deq b a.
  Hypothesis deq_trans : forall a b c, deq a b -> deq b c -> deq a c.
  Hypothesis dsum_cong : forall a b c d, deq a c -> deq b d -> deq (dsum a b) (dsum c d).
  Hypothesis dprod_cong : forall a b c d, deq a c -> deq b d -> deq (dprod a b) (dprod c d).
  Hypothesis dsum_inj : forall a b c d, deq (dsum a b) (dsum c d) -> deq a c /\ deq b d.
  Hypothesis dprod_inj : forall a b c d, deq (dprod a b) (dprod c d) -> deq a c /\ deq b d.
  Hypothesis one_sum : forall a b, ~ deq done (dsum a b).
  Hypothesis one_prod : forall a b, ~ deq done (dprod a b).
  Hypothesis sum_prod : forall a b c d, ~ deq (dsum a b) (dprod c d).

  Let ssat := drsat D deq done dsum dprod.
  Let rsat_ := dsat D deq done dsum dprod.
  Let rhold := deqs_hold D deq.
  Let rh := dholds D deq done dsum dprod.
  Let sdof := dof D done dsum dprod.

  Definition dsat_from (al : nat -> D) (n : nat) (l : list bnd) : Prop :=
    forall k, (k < length l)%nat -> rh al (n + k) (nth k l BFree).

  Lemma dsat_app al s l : rsat_ al (s ++ l) <-> rsat_ al s /\ dsat_from al (length s) l.
  Proof.
    unfold rsat_, dsat, dsat_from, rh. split.
    - intros H. split.
      + intros v Hv. specialize (H v ltac:(rewrite app_length; lia)). rewrite sget_app_l in H by exact Hv. exact H.
      + intros k Hk. specialize (H (length s + k)%nat ltac:(rewrite app_length; lia)). rewrite sget_app_r in H. exact H.
    - intros [H1 H2] v Hv. rewrite app_length in Hv. destruct (Nat.lt_ge_cases v (length s)) as [L|G].
      + rewrite sget_app_l by exact L. apply H1. exact L.
      + replace v with (length s + (v - length s))%nat by lia. rewrite sget_app_r. apply H2. lia.
  Qed.

  Lemma dsat_from_app al n l1 l2 : dsat_from al n (l1 ++ l2) <-> dsat_from al n l1 /\ dsat_from al (n + length l1) l2.
  Proof.
    unfold dsat_from. split.
    - intros H. split.
      + intros k Hk. specialize (H k ltac:(rewrite app_length; lia)). rewrite app_nth1 in H by exact Hk. exact H.
      + intros k Hk. specialize (H (length l1 + k)%nat ltac:(rewrite app_length; lia)).
        rewrite app_nth2 in H by lia. replace (length l1 + k - length l1)%nat with k in H by lia.
        replace (n + length l1 + k)%nat with (n + (length l1 + k))%nat by lia. exact H.
    - intros [H1 H2] k Hk. rewrite app_length in Hk. destruct (Nat.lt_ge_cases k (length l1)) as [L|G].
      + rewrite app_nth1 by exact L. apply H1. exact L.
      + rewrite app_nth2 by lia. specialize (H2 (k - length l1)%nat ltac:(lia)).
        replace (n + length l1 + (k - length l1))%nat with (n + k)%nat in H2 by lia. exact H2.
  Qed.

  Lemma dsat_from_one al n b : dsat_from al n [b] <-> rh al n b.
  Proof.
    unfold dsat_from. cbn [length]. split.
    - intros H. specialize (H 0%nat ltac:(lia)). rewrite Nat.add_0_r in H. exact H.
    - intros H k Hk. assert (k = 0)%nat by lia. subst k. rewrite Nat.add_0_r. exact H.
  Qed.

  Lemma deqs_app al e1 e2 : rhold al (e1 ++ e2) <-> rhold al e1 /\ rhold al e2.
  Proof.
    unfold rhold, deqs_hold. split.
    - intros H. split; intros x y Hin; apply H; apply in_or_app; auto.
    - intros [H1 H2] x y Hin. apply in_app_or in Hin. destruct Hin; auto.
  Qed.

  Lemma deqs_one al x y : rhold al [(x, y)] <-> deq (al x) (al y).
  Proof.
    unfold rhold, deqs_hold. split.
    - intros H. apply H. left. reflexivity.
    - intros H a b [E|[]]. injection E as <- <-. exact H.
  Qed.

  Lemma rh_agree al al' len v b : (forall u, (u < len)%nat -> al' u = al u) -> (v < len)%nat ->
    wf_new len b -> rh al v b -> rh al' v b.
  Proof.
    intros A Hv Wb H. unfold rh in *. destruct b as [|w| |a b|a b]; cbn [dholds wf_new] in *; auto; try tauto.
    - rewrite A by exact Hv. exact H.
    - rewrite !A by tauto. exact H.
    - rewrite !A by tauto. exact H.
  Qed.

  Lemma dsat_agree al al' s : wf s -> (forall u, (u < length s)%nat -> al' u = al u) -> rsat_ al s -> rsat_ al' s.
  Proof.
    intros W A Sa v Hv. pose proof (W v Hv) as Wv. pose proof (Sa v Hv) as Sv.
    destruct (sget s v) as [|w| |a b|a b]; cbn [dholds wf_bnd] in *; auto.
    - rewrite !A by lia. exact Sv.
    - rewrite A by lia. exact Sv.
    - rewrite !A by lia. exact Sv.
    - rewrite !A by lia. exact Sv.
  Qed.

  Lemma deqs_agree al al' n eqs : eqs_in n eqs -> (forall u, (u < n)%nat -> al' u = al u) -> rhold al eqs -> rhold al' eqs.
  Proof. intros In_ A H x y Hin. destruct (In_ x y Hin). rewrite !A by assumption. apply H. exact Hin. Qed.

  Lemma dsat_from_agree al al' len : (forall u, (u < len)%nat -> al' u = al u) ->
    forall l n, Forall (wf_new len) l -> (n + length l <= len)%nat -> dsat_from al n l -> dsat_from al' n l.
  Proof.
    intros A l n F L H k Hk. rewrite Forall_forall in F.
    eapply rh_agree; [exact A|lia| |apply H; exact Hk]. apply F. apply nth_In. exact Hk.
  Qed.

  Definition cmod (al : nat -> D) (s : store) (eqs : list (nat * nat)) : Prop := rsat_ al s /\ rhold al eqs.

  Definition simD (c : ctx) (s : store) (eqs : list (nat * nat)) (em : nat -> nat) : Prop :=
    (forall al, cmod al s eqs -> ssat (fun e => al (em e)) c) /\
    (forall be, ssat be c -> exists al, cmod al s eqs /\ forall e, (e < length (c_uf c))%nat -> deq (al (em e)) (be e)).

  Lemma ssat_ext al al' c : cwf c -> (forall e, (e < length (c_uf c))%nat -> deq (al' e) (al e)) -> ssat al c -> ssat al' c.
  Proof. intros CW E Sa. unfold ssat in *. eapply (drsat_ext D deq done dsum dprod); eauto. Qed.

  (* ---- one new element against one new variable; Q is what the new element must satisfy *)
  Lemma m_alloc c c' s eqs em b (Q : (nat -> D) -> Prop) : base c s eqs em -> simD c s eqs em ->
    cwf c' -> length (c_uf c') = S (length (c_uf c)) ->
    (forall be, ssat be c' <-> ssat be c /\ Q be) ->
    wf_new (S (length s)) b ->
    (forall al, rh al (length s) b <-> Q (fun e => al (upd em (length (c_uf c)) (length s) e))) ->
    (forall be be', (forall e, (e <= length (c_uf c))%nat -> deq (be' e) (be e)) -> Q be -> Q be') ->
    simD c' (s ++ [b]) eqs (upd em (length (c_uf c)) (length s)).
  Proof.
    intros (CW & Ws & Ei & Rg) [M1 M2] CW' L' Sem Wb Hb Qext.
    set (n := length s) in *. set (len := length (c_uf c)) in *. set (em' := upd em len n).
    split.
    - intros al [Sa Ea]. apply dsat_app in Sa. destruct Sa as [Sa Sb]. apply dsat_from_one in Sb. fold n in Sb.
      apply Sem. split; [|apply Hb; exact Sb].
      apply (ssat_ext (fun e => al (em e))); [exact CW| |apply M1; split; assumption].
      intros e He. fold len in He. unfold em'. rewrite upd_lt by exact He. apply deq_refl.
    - intros be Sb. apply Sem in Sb. destruct Sb as [Sb Qb]. destruct (M2 be Sb) as (al & [Sa Ea] & Ag).
      set (al' := fun v => if Nat.eqb v n then be len else al v).
      assert (A : forall u, (u < n)%nat -> al' u = al u) by (intros u Hu; unfold al'; destruct (Nat.eqb_spec u n); [lia|reflexivity]).
      assert (Ag' : forall e, (e <= len)%nat -> deq (al' (em' e)) (be e)).
      { intros e He. destruct (Nat.eq_dec e len) as [->|N].
        - unfold em'. rewrite upd_eq. unfold al'. rewrite Nat.eqb_refl. apply deq_refl.
        - assert (Hl : (e < len)%nat) by lia. unfold em'. rewrite upd_lt by exact Hl. rewrite A by (apply Rg; exact Hl). apply Ag. exact Hl. }
      exists al'. split; [split|].
      + apply dsat_app. split; [apply (dsat_agree al); assumption|]. apply dsat_from_one. fold n. apply Hb.
        apply (Qext be); [|exact Qb]. intros e He. apply Ag'. exact He.
      + apply (deqs_agree al _ n); assumption.
      + intros e He. rewrite L' in He. apply Ag'. fold len in He. lia.
  Qed.

  (* ---- a complete type against a block of variables *)
  Definition is_block (blk : list bnd) (n r : nat) (t : ty) : Prop :=
    (forall al, dsat_from al n blk -> deq (al r) (sdof t)) /\
    (forall al, exists al', (forall v, (v < n)%nat -> al' v = al v) /\ dsat_from al' n blk) /\
    Forall (wf_new (length blk + n)) blk /\ (r < n + length blk)%nat.

  Lemma m_block c s eqs em blk r t : base c s eqs em -> simD c s eqs em -> is_block blk (length s) r t ->
    simD (fst (new_type c (RComplete t))) (s ++ blk) eqs (upd em (length (c_uf c)) r).
  Proof.
    intros (CW & Ws & Ei & Rg) [M1 M2] (B1 & B2 & B3 & B4).
    assert (NT : alloc_post D deq done dsum dprod c (fst (new_type c (RComplete t))) (snd (new_type c (RComplete t))) (RComplete t))
      by (apply (new_type_spec D deq done dsum dprod); auto; exact I).
    destruct NT as (_ & CW' & L' & _ & _ & Sem).
    set (c' := fst (new_type c (RComplete t))) in *.
    set (n := length s) in *. set (len := length (c_uf c)) in *. set (em' := upd em len r).
    split.
    - intros al [Sa Ea]. apply dsat_app in Sa. destruct Sa as [Sa Sb]. fold n in Sb.
      apply Sem. split.
      + apply (ssat_ext (fun e => al (em e))); [exact CW| |apply M1; split; assumption].
        intros e He. fold len in He. unfold em'. rewrite upd_lt by exact He. apply deq_refl.
      + cbn [dholds_r snd]. change (snd (new_type c (RComplete t))) with len. unfold em'. rewrite upd_eq. apply B1. exact Sb.
    - intros be Sb. apply Sem in Sb. destruct Sb as [Sb Qb]. cbn [dholds_r] in Qb. change (snd (new_type c (RComplete t))) with len in Qb.
      destruct (M2 be Sb) as (al & [Sa Ea] & Ag).
      destruct (B2 al) as (al' & A & Sb').
      exists al'. split; [split|].
      + apply dsat_app. split; [apply (dsat_agree al); assumption|exact Sb'].
      + apply (deqs_agree al _ n); assumption.
      + intros e He. rewrite L' in He. fold len in He. destruct (Nat.eq_dec e len) as [->|N].
        * unfold em'. rewrite upd_eq. eapply deq_trans; [apply B1; exact Sb'|apply deq_sym; exact Qb].
        * assert (Hl : (e < len)%nat) by lia. unfold em'. rewrite upd_lt by exact Hl. rewrite A by (apply Rg; exact Hl). apply Ag. exact Hl.
  Qed.

  (* ---- Context::unify against one equation *)
  Lemma m_unify f c s eqs em x y : base c s eqs em -> simD c s eqs em ->
    (x < length (c_uf c))%nat -> (y < length (c_uf c))%nat ->
    match ctx_unify f c x y with
    | Ok c' => cwf c' /\ length (c_uf c') = length (c_uf c) /\ simD c' s (eqs ++ [(em x, em y)]) em
    | Err _ => forall al, ~ cmod al s (eqs ++ [(em x, em y)])
    | _ => True
    end.
  Proof.
    intros (CW & Ws & Ei & Rg) [M1 M2] Lx Ly.
    pose proof (unify_spec_all D deq done dsum dprod deq_refl deq_sym deq_trans dsum_cong dprod_cong dsum_inj dprod_inj
                  one_sum one_prod sum_prod f c x y CW Lx Ly) as U.
    destruct (ctx_unify f c x y) as [c'|e| |]; try exact I.
    - destruct U as ((CW' & L' & _) & _ & Sem). split; [exact CW'|]. split; [exact L'|]. split.
      + intros al [Sa Ea]. apply deqs_app in Ea. destruct Ea as [Ea Exy]. apply deqs_one in Exy.
        apply Sem. split; [apply M1; split; assumption|exact Exy].
      + intros be Sb. apply Sem in Sb. destruct Sb as [Sb Exy]. destruct (M2 be Sb) as (al & [Sa Ea] & Ag).
        exists al. split; [split; [exact Sa|]|intros e He; apply Ag; lia].
        apply deqs_app. split; [exact Ea|]. apply deqs_one.
        eapply deq_trans; [apply Ag; exact Lx|]. eapply deq_trans; [exact Exy|]. apply deq_sym. apply Ag. exact Ly.
    - intros al [Sa Ea]. apply deqs_app in Ea. destruct Ea as [Ea Exy]. apply deqs_one in Exy.
      apply (U (fun e => al (em e))). split; [apply M1; split; assumption|exact Exy].
  Qed.

  (* ---- Context::bind_product against one product variable and one equation *)
  Lemma m_bindp f c s eqs em ex l r : base c s eqs em -> simD c s eqs em ->
    (ex < length (c_uf c))%nat -> (l < length (c_uf c))%nat -> (r < length (c_uf c))%nat ->
    match bind_product f c ex l r with
    | Ok c' => cwf c' /\ length (c_uf c') = length (c_uf c) /\
               simD c' (s ++ [BProd (em l) (em r)]) (eqs ++ [(em ex, length s)]) em
    | Err _ => forall al, ~ cmod al (s ++ [BProd (em l) (em r)]) (eqs ++ [(em ex, length s)])
    | _ => True
    end.
  Proof.
    intros (CW & Ws & Ei & Rg) [M1 M2] Lex Ll Lr.
    pose proof (bind_product_spec D deq done dsum dprod deq_refl deq_sym deq_trans dsum_cong dprod_cong dsum_inj dprod_inj
                  one_sum one_prod sum_prod f c ex l r CW Lex Ll Lr) as U.
    set (n := length s) in *.
    assert (Dec : forall al, cmod al (s ++ [BProd (em l) (em r)]) (eqs ++ [(em ex, n)]) ->
              cmod al s eqs /\ deq (al (em ex)) (dprod (al (em l)) (al (em r)))).
    { intros al [Sa Ea]. apply dsat_app in Sa. destruct Sa as [Sa Sb]. apply dsat_from_one in Sb. fold n in Sb.
      apply deqs_app in Ea. destruct Ea as [Ea Exy]. apply deqs_one in Exy. split; [split; assumption|].
      eapply deq_trans; [exact Exy|exact Sb]. }
    destruct (bind_product f c ex l r) as [c'|e| |]; try exact I.
    - destruct U as ((CW' & L' & _) & Sem). split; [exact CW'|]. split; [exact L'|]. split.
      + intros al Ca. destruct (Dec al Ca) as [C0 E]. apply Sem. split; [apply M1; exact C0|exact E].
      + intros be Sb. apply Sem in Sb. destruct Sb as [Sb E]. destruct (M2 be Sb) as (al & [Sa Ea] & Ag).
        set (al' := fun v => if Nat.eqb v n then dprod (al (em l)) (al (em r)) else al v).
        assert (A : forall u, (u < n)%nat -> al' u = al u) by (intros u Hu; unfold al'; destruct (Nat.eqb_spec u n); [lia|reflexivity]).
        assert (An : al' n = dprod (al (em l)) (al (em r))) by (unfold al'; rewrite Nat.eqb_refl; reflexivity).
        exists al'. split; [split|].
        * apply dsat_app. split; [apply (dsat_agree al); assumption|]. apply dsat_from_one. fold n.
          unfold rh. cbn [dholds]. rewrite An, !A by (apply Rg; assumption). apply deq_refl.
        * apply deqs_app. split; [apply (deqs_agree al _ n); assumption|]. apply deqs_one.
          rewrite An, A by (apply Rg; assumption).
          eapply deq_trans; [apply Ag; exact Lex|]. eapply deq_trans; [exact E|].
          apply dprod_cong; apply deq_sym; apply Ag; assumption.
        * intros e He. rewrite L' in He. rewrite A by (apply Rg; exact He). apply Ag. exact He.
    - intros al Ca. destruct (Dec al Ca) as [C0 E]. apply (U (fun e => al (em e))). split; [apply M1; exact C0|exact E].
  Qed.

  (* ---- the blocks of Constraints.walloc / galloc lay out word types / ground types *)
  Lemma sdof_word k : sdof (word_ty (S k)) = dprod (sdof (word_ty k)) (sdof (word_ty k)).
  Proof. reflexivity. Qed.

  Lemma is_block_walloc k : forall n, is_block (fst (walloc k n)) n (snd (walloc k n)) (word_ty k).
  Proof.
    induction k as [|k IH]; intros n.
    - cbn [walloc fst snd]. split; [|split; [|split]].
      + intros al H. pose proof (H 0%nat ltac:(cbn; lia)) as H0. pose proof (H 1%nat ltac:(cbn; lia)) as H1.
        unfold rh in H0, H1. cbn [nth dholds] in H0, H1. rewrite Nat.add_0_r in H0. replace (n + 1)%nat with (1 + n)%nat in H1 by lia.
        eapply deq_trans; [exact H1|]. cbn. apply dsum_cong; exact H0.
      + intros al. exists (fun v => if Nat.eqb v n then done else if Nat.eqb v (1 + n) then dsum done done else al v).
        split.
        * intros v Hv. destruct (Nat.eqb_spec v n); [lia|]. destruct (Nat.eqb_spec v (1 + n)); [lia|reflexivity].
        * intros k Hk. cbn [length] in Hk. unfold rh. destruct k as [|[|k]]; [| |lia]; cbn [nth dholds].
          -- rewrite Nat.add_0_r, Nat.eqb_refl. apply deq_refl.
          -- replace (n + 1)%nat with (1 + n)%nat by lia. rewrite Nat.eqb_refl.
             destruct (Nat.eqb_spec (1 + n) n); [lia|]. rewrite Nat.eqb_refl. apply deq_refl.
      + constructor; [exact I|]. constructor; [cbn; lia|constructor].
      + cbn. lia.
    - specialize (IH n). pose proof (walloc_length k n) as [L R].
      cbn [walloc]. destruct (walloc k n) as [l r]. cbn [fst snd] in *.
      destruct IH as (B1 & B2 & B3 & B4). split; [|split; [|split]].
      + intros al H. apply dsat_from_app in H. destruct H as [Hl Hr]. apply dsat_from_one in Hr.
        unfold rh in Hr. cbn [dholds] in Hr. replace (n + length l)%nat with (length l + n)%nat in Hr by lia.
        eapply deq_trans; [exact Hr|]. rewrite sdof_word. apply dprod_cong; apply B1; exact Hl.
      + intros al. destruct (B2 al) as (al1 & A1 & S1).
        exists (fun v => if Nat.eqb v (length l + n) then dprod (al1 r) (al1 r) else al1 v). split.
        * intros v Hv. destruct (Nat.eqb_spec v (length l + n)); [lia|]. apply A1. exact Hv.
        * apply dsat_from_app. split.
          -- eapply (dsat_from_agree al1 _ (length l + n)); [| |lia|exact S1].
             ++ intros u Hu. destruct (Nat.eqb_spec u (length l + n)); [lia|reflexivity].
             ++ exact B3.
          -- apply dsat_from_one. unfold rh. cbn [dholds]. replace (n + length l)%nat with (length l + n)%nat by lia.
             rewrite Nat.eqb_refl. destruct (Nat.eqb_spec r (length l + n)); [lia|]. apply deq_refl.
      + rewrite app_length. cbn [length]. apply Forall_app. split.
        * eapply Forall_wf_new_mono; [|exact B3]. lia.
        * constructor; [cbn; lia|constructor].
      + rewrite app_length. cbn [length]. lia.
  Qed.

  Lemma is_block_galloc g : forall n, is_block (fst (galloc g n)) n (snd (galloc g n)) (gty_ty g).
  Proof.
    induction g as [|a IHa b IHb|a IHa b IHb|k]; intros n.
    - cbn [galloc fst snd gty_ty]. split; [|split; [|split]].
      + intros al H. apply dsat_from_one in H. exact H.
      + intros al. exists (fun v => if Nat.eqb v n then done else al v). split.
        * intros v Hv. destruct (Nat.eqb_spec v n); [lia|reflexivity].
        * apply dsat_from_one. unfold rh. cbn [dholds]. rewrite Nat.eqb_refl. apply deq_refl.
      + constructor; [exact I|constructor].
      + cbn. lia.
    - cbn [galloc gty_ty]. specialize (IHa n). destruct (galloc a n) as [l1 r1].
      specialize (IHb (length l1 + n)%nat). destruct (galloc b (length l1 + n)) as [l2 r2]. cbn [fst snd] in *.
      destruct IHa as (A1 & A2 & A3 & A4). destruct IHb as (B1 & B2 & B3 & B4).
      set (root := (length l2 + (length l1 + n))%nat).
      split; [|split; [|split]].
      + intros al H. apply dsat_from_app in H. destruct H as [H1 H]. apply dsat_from_app in H. destruct H as [H2 H3].
        apply dsat_from_one in H3. unfold rh in H3. cbn [dholds] in H3.
        replace (n + length l1 + length l2)%nat with root in H3 by (unfold root; lia).
        replace (n + length l1)%nat with (length l1 + n)%nat in H2 by lia.
        eapply deq_trans; [exact H3|]. cbn. apply dsum_cong; [apply A1; exact H1|apply B1; exact H2].
      + intros al. destruct (A2 al) as (al1 & Ag1 & S1). destruct (B2 al1) as (al2 & Ag2 & S2).
        exists (fun v => if Nat.eqb v root then dsum (al2 r1) (al2 r2) else al2 v).
        assert (Ag : forall u, (u < root)%nat -> (if Nat.eqb u root then dsum (al2 r1) (al2 r2) else al2 u) = al2 u)
          by (intros u Hu; destruct (Nat.eqb_spec u root); [lia|reflexivity]).
        split.
        * intros v Hv. rewrite Ag by (unfold root; lia). rewrite Ag2 by lia. apply Ag1. exact Hv.
        * apply dsat_from_app. split; [|apply dsat_from_app; split].
          -- eapply (dsat_from_agree al2 _ root); [exact Ag| |unfold root; lia|].
             ++ eapply Forall_wf_new_mono; [|exact A3]. unfold root. lia.
             ++ eapply (dsat_from_agree al1 _ (length l1 + n)); [exact Ag2|exact A3|lia|exact S1].
          -- replace (n + length l1)%nat with (length l1 + n)%nat by lia.
             eapply (dsat_from_agree al2 _ root); [exact Ag|exact B3|unfold root; lia|exact S2].
          -- apply dsat_from_one. unfold rh. cbn [dholds].
             replace (n + length l1 + length l2)%nat with root by (unfold root; lia).
             rewrite Nat.eqb_refl. rewrite !Ag by (unfold root; lia). apply deq_refl.
      + rewrite !app_length. cbn [length]. apply Forall_app. split; [|apply Forall_app; split].
        * eapply Forall_wf_new_mono; [|exact A3]. lia.
        * eapply Forall_wf_new_mono; [|exact B3]. lia.
        * constructor; [cbn; lia|constructor].
      + rewrite !app_length. cbn [length]. lia.
    - cbn [galloc gty_ty]. specialize (IHa n). destruct (galloc a n) as [l1 r1].
      specialize (IHb (length l1 + n)%nat). destruct (galloc b (length l1 + n)) as [l2 r2]. cbn [fst snd] in *.
      destruct IHa as (A1 & A2 & A3 & A4). destruct IHb as (B1 & B2 & B3 & B4).
      set (root := (length l2 + (length l1 + n))%nat).
      split; [|split; [|split]].
      + intros al H. apply dsat_from_app in H. destruct H as [H1 H]. apply dsat_from_app in H. destruct H as [H2 H3].
        apply dsat_from_one in H3. unfold rh in H3. cbn [dholds] in H3.
        replace (n + length l1 + length l2)%nat with root in H3 by (unfold root; lia).
        replace (n + length l1)%nat with (length l1 + n)%nat in H2 by lia.
        eapply deq_trans; [exact H3|]. cbn. apply dprod_cong; [apply A1; exact H1|apply B1; exact H2].
      + intros al. destruct (A2 al) as (al1 & Ag1 & S1). destruct (B2 al1) as (al2 & Ag2 & S2).
        exists (fun v => if Nat.eqb v root then dprod (al2 r1) (al2 r2) else al2 v).
        assert (Ag : forall u, (u < root)%nat -> (if Nat.eqb u root then dprod (al2 r1) (al2 r2) else al2 u) = al2 u)
          by (intros u Hu; destruct (Nat.eqb_spec u root); [lia|reflexivity]).
        split.
        * intros v Hv. rewrite Ag by (unfold root; lia). rewrite Ag2 by lia. apply Ag1. exact Hv.
        * apply dsat_from_app. split; [|apply dsat_from_app; split].
          -- eapply (dsat_from_agree al2 _ root); [exact Ag| |unfold root; lia|].
             ++ eapply Forall_wf_new_mono; [|exact A3]. unfold root. lia.
             ++ eapply (dsat_from_agree al1 _ (length l1 + n)); [exact Ag2|exact A3|lia|exact S1].
          -- replace (n + length l1)%nat with (length l1 + n)%nat by lia.
             eapply (dsat_from_agree al2 _ root); [exact Ag|exact B3|unfold root; lia|exact S2].
          -- apply dsat_from_one. unfold rh. cbn [dholds].
             replace (n + length l1 + length l2)%nat with root by (unfold root; lia).
             rewrite Nat.eqb_refl. rewrite !Ag by (unfold root; lia). apply deq_refl.
      + rewrite !app_length. cbn [length]. apply Forall_app. split; [|apply Forall_app; split].
        * eapply Forall_wf_new_mono; [|exact A3]. lia.
        * eapply Forall_wf_new_mono; [|exact B3]. lia.
        * constructor; [cbn; lia|constructor].
      + rewrite !app_length. cbn [length]. lia.
    - cbn [galloc gty_ty]. apply is_block_walloc.
  Qed.
End NodeDom.
