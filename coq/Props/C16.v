(* C16 - Policies compile, satisfy and canonicalise consistently.
   Only pinned statements (`Theorem name : statement. Proof. exact lemma. Qed.`) and
   `Print Assumptions`.  Models: Policy/{PolicyAst,Sort,Compile,Satisfy,Sem,Cost,Run,Examples}.v.

   Conventions: `hf : hashfns H` is an arbitrary family of tagged hashes (one per combinator,
   jet and word) - nothing is assumed about it; `fin_cost` is an arbitrary cost function
   (finalize_unpruned().bounds().cost, None = finalisation failed); `e : envo` is the
   environment/cryptography oracle behind the jets; `H_eqb` is any reflexive test on roots. *)
From Coq Require Import Permutation.
From RS Require Import Lib.Tac Lib.Outcome Policy.PolicyAst Policy.Sort Policy.Compile Policy.Satisfy
  Policy.Sem Policy.Cost Policy.Run Policy.Examples.
From RS Require Ty.Ty Core.Prog Core.Term Core.Typing Core.Sem Core.Bounds Core.Limits Core.Machine
  Policy.Bridge Policy.BridgeSat Policy.BridgeMachine Policy.BridgeExample Policy.BridgeJets Jets.JetSpec.
Import ListNotations.
Local Open Scope N_scope.

(* ---- 1. roots ---------------------------------------------------------------------------- *)
(* Policy::cmr() (ConstructibleCmr) = commit().cmr(); both panic on the same policies *)
Theorem C16_policy_cmr_commit : forall (H : Type) (hf : hashfns H) (p : policy),
  omap (cmr hf) (policy_commit H p) = policy_cmr hf p.
Proof. exact policy_cmr_commit. Qed.
Print Assumptions C16_policy_cmr_commit.

(* the same for every instance of the constructor interface whose root reading commutes with
   the constructors (serialize.rs is generic over the node type) *)
Theorem C16_compile_hom : forall (H : Type) (hf : hashfns H) (A : Type) (al : alg H A) (f : A -> H),
  alg_hom hf al f -> forall p, omap f (compile al p) = policy_cmr hf p.
Proof. exact compile_hom. Qed.
Print Assumptions C16_compile_hom.

(* ... of which the Hiding wrapper over any such instance is one *)
Theorem C16_hiding_hom : forall (H : Type) (hf : hashfns H) (A : Type) (base : alg H A) (bc : A -> H),
  alg_hom hf base bc -> alg_hom hf (hiding_alg hf base bc) (hcmr bc).
Proof. exact hiding_hom. Qed.
Print Assumptions C16_hiding_hom.

(* whatever the satisfier answers, what satisfy_internal builds - a program with witnesses,
   assertl/assertr in place of hidden branches, or a hidden root - carries the policy's root *)
Theorem C16_satisfy_internal_cmr : forall (H : Type) (hf : hashfns H) (fin_cost : node H -> option N) (cmax : N)
    (s : satisfier) (p : policy) (r : SatResult H),
  satisfy_internal hf fin_cost cmax s p = Ok r -> policy_cmr hf p = Ok (scmr hf r).
Proof. exact satisfy_internal_cmr. Qed.
Print Assumptions C16_satisfy_internal_cmr.

(* one pruning pass, with any content of the tracker, keeps the root *)
Theorem C16_prune_with_cmr : forall (H : Type) (hf : hashfns H) (H_eqb : H -> H -> bool) tr (n : node H),
  cmr hf (prune_with hf H_eqb tr n) = cmr hf n.
Proof. exact prune_with_cmr. Qed.
Print Assumptions C16_prune_with_cmr.

(* RedeemNode::prune (passes repeated until nothing changes) keeps the root *)
Theorem C16_prune_cmr : forall (H : Type) (hf : hashfns H) (H_eqb : H -> H -> bool),
  (forall a, H_eqb a a = true) ->
  forall (e : envo) (n n' : node H),
  prune hf H_eqb e n = Some n' -> cmr hf n' = cmr hf n.
Proof. exact prune_cmr. Qed.
Print Assumptions C16_prune_cmr.

(* ---- 2. satisfaction ------------------------------------------------------------------------ *)
(* satisfy_internal yields a program exactly when the answers make the policy true
   (and-both, or-either, threshold-at-least-k), and does not panic *)
Theorem C16_satisfy_iff : forall (H : Type) (hf : hashfns H) (fin_cost : node H -> option N) (cmax : N)
    (s : satisfier) (p : policy),
  wf p -> cost_ok hf fin_cost cmax s p ->
  exists r, satisfy_internal hf fin_cost cmax s p = Ok r /\ is_node r = holds s p.
Proof. exact satisfy_iff. Qed.
Print Assumptions C16_satisfy_iff.

(* the premise about the sentinel cost cannot be dropped *)
Theorem C16_sentinel_premise_needed :
  exists (fc : node fh -> option N) (s : satisfier) (p : policy),
    wf p /\ holds s p = true /\
    exists h, satisfy_internal free_hf fc CONSENSUS_MAX s p = Ok (inr h).
Proof. exact sentinel_premise_needed. Qed.
Print Assumptions C16_sentinel_premise_needed.

(* every program satisfy_internal returns to a truthful satisfier runs (unit in, unit out) *)
Theorem C16_satisfy_internal_runs : forall (H : Type) (hf : hashfns H) (e : envo) (fin_cost : node H -> option N)
    (cmax : N) (s : satisfier),
  truthful e s ->
  forall p r, satisfy_internal hf fin_cost cmax s p = Ok r ->
  forall a, r = inl a -> eval e a VUnit = Some VUnit.
Proof. exact satisfy_internal_runs. Qed.
Print Assumptions C16_satisfy_internal_runs.

(* Policy::satisfy (finalise, run, prune): what it returns has the policy's root and runs *)
Theorem C16_satisfy_sound : forall (H : Type) (hf : hashfns H) (H_eqb : H -> H -> bool),
  (forall a, H_eqb a a = true) ->
  forall (e : envo) (fin_cost : node H -> option N) (cmax : N) (s : satisfier),
  truthful e s ->
  forall p prog, satisfy hf H_eqb e fin_cost cmax s p = Ok prog ->
  policy_cmr hf p = Ok (cmr hf prog) /\ eval e prog VUnit = Some VUnit.
Proof. exact satisfy_sound. Qed.
Print Assumptions C16_satisfy_sound.

(* ... it succeeds exactly when the policy is true under the answers ... *)
Theorem C16_satisfy_complete : forall (H : Type) (hf : hashfns H) (H_eqb : H -> H -> bool),
  (forall a, H_eqb a a = true) ->
  forall (e : envo) (fin_cost : node H -> option N) (cmax : N) (s : satisfier),
  truthful e s ->
  forall p, wf p -> cost_ok hf fin_cost cmax s p ->
  (forall n, satisfy_internal hf fin_cost cmax s p = Ok (inl n) -> fin_cost n <> None) ->
  if holds s p then exists prog, satisfy hf H_eqb e fin_cost cmax s p = Ok prog
  else satisfy hf H_eqb e fin_cost cmax s p = Err Unsatisfiable.
Proof. exact satisfy_complete. Qed.
Print Assumptions C16_satisfy_complete.

(* ... and never reports AssemblyFailed *)
Theorem C16_satisfy_never_assembly_failed : forall (H : Type) (hf : hashfns H) (H_eqb : H -> H -> bool),
  (forall a, H_eqb a a = true) ->
  forall (e : envo) (fin_cost : node H -> option N) (cmax : N) (s : satisfier),
  truthful e s ->
  forall p, satisfy hf H_eqb e fin_cost cmax s p <> Err AssemblyFailed.
Proof. exact satisfy_never_assembly_failed. Qed.
Print Assumptions C16_satisfy_never_assembly_failed.

(* a pruning pass with a tracker that contains the run keeps the run *)
Theorem C16_prune_with_runs : forall (H : Type) (hf : hashfns H) (H_eqb : H -> H -> bool),
  (forall a, H_eqb a a = true) ->
  forall (e : envo) tr (n : node H) v out,
  incl (trace e n v) tr -> eval e n v = Some out -> eval e (prune_with hf H_eqb tr n) v = Some out.
Proof. exact prune_with_eval. Qed.
Print Assumptions C16_prune_with_runs.

(* RedeemNode::prune of a program that runs: terminates within the fuel, and the result runs *)
Theorem C16_prune_total_runs : forall (H : Type) (hf : hashfns H) (H_eqb : H -> H -> bool),
  (forall a, H_eqb a a = true) ->
  forall (e : envo) (n : node H) out,
  eval e n VUnit = Some out ->
  exists n', prune hf H_eqb e n = Some n' /\ eval e n' VUnit = Some out.
Proof. exact prune_total_runs. Qed.
Print Assumptions C16_prune_total_runs.

(* the executable instance compared with the implementation is truthful, and the premises are
   satisfiable: a policy, an environment and a satisfier for which everything is computed *)
Theorem C16_run_instance_truthful : forall lock_time sequence after_max older_max keys pres,
  after_max <= lock_height lock_time sequence -> older_max <= lock_distance sequence ->
  truthful (mk_env lock_time sequence) (mk_sat after_max older_max keys pres).
Proof. exact mk_truthful. Qed.
Print Assumptions C16_run_instance_truthful.

Theorem C16_example_premises :
  wf ex_policy /\ truthful ex_env ex_sat /\ cost_ok free_hf (fin_cost (H := fh)) CONSENSUS_MAX ex_sat ex_policy /\
  holds ex_sat ex_policy = true.
Proof. exact (conj ex_wf (conj ex_truthful (conj ex_cost_ok ex_holds))). Qed.
Print Assumptions C16_example_premises.

Theorem C16_example_satisfy :
  exists prog, satisfy free_hf fh_eq ex_env (fin_cost (H := fh)) CONSENSUS_MAX ex_sat ex_policy = Ok prog /\
               policy_cmr free_hf ex_policy = Ok (cmr free_hf prog) /\
               eval ex_env prog VUnit = Some VUnit.
Proof. exact ex_satisfy. Qed.
Print Assumptions C16_example_satisfy.

(* ---- 3. canonical sorting ------------------------------------------------------------------- *)
(* the derived order is a total order *)
Theorem C16_order_total :
  (forall p, pcmp p p = Eq) /\
  (forall p q, pcmp p q = Eq -> p = q) /\
  (forall p q, pcmp q p = CompOpp (pcmp p q)) /\
  (forall p q r, pcmp p q = Lt -> pcmp q r = Lt -> pcmp p r = Lt).
Proof. exact (conj pcmp_refl (conj pcmp_eq (conj pcmp_antisym pcmp_trans))). Qed.
Print Assumptions C16_order_total.

Theorem C16_sort_idem : forall p, sort (sort p) = sort p.
Proof. exact sort_idem. Qed.
Print Assumptions C16_sort_idem.

(* any reordering of the children of and / or / threshold nodes at any depth sorts to the same policy *)
Theorem C16_sort_perm : forall p q, perm_equiv p q -> sort p = sort q.
Proof. exact sort_perm_equiv. Qed.
Print Assumptions C16_sort_perm.

Theorem C16_sort_canonical : forall p, canonical (sort p).
Proof. exact sort_canonical. Qed.
Print Assumptions C16_sort_canonical.

Theorem C16_sort_is_reordering : forall p, perm_equiv p (sort p).
Proof. exact sort_is_reordering. Qed.
Print Assumptions C16_sort_is_reordering.

(* normalisation (not named by the property; included because it shares the AST): the meaning
   under any answers is unchanged *)
Theorem C16_normalized_holds : forall s p, holds s (normalized p) = holds s p.
Proof. exact normalized_holds. Qed.
Print Assumptions C16_normalized_holds.

(* documentation of the defect fixed by /repo commit 46aa179: the earlier function (children
   sorted in discarded clones) was not canonical *)
Theorem C16_sort_old_refuted : exists p q, perm_equiv p q /\ sort_old p <> sort_old q.
Proof. exact sort_old_refuted. Qed.
Print Assumptions C16_sort_old_refuted.

(* ---- 4. the link to the Bit Machine (Policy/Bridge*.v, Core/*.v) --------------------------------
   Policy/Sem.v above is a private mini-semantics.  [Bridge.xl] translates the satisfier's programs
   into the terms of Core/Term.v with their arrows (directed by the source type; 1 at the root),
   [Bridge.enc] lays the abstract values out in bits.  Parameters: the bit layouts of signatures,
   preimages, the sighash and SHA-256 contexts, the bytes of roots and fail entropies, the jet ids;
   [jets_agree]: the machine-level jet semantics [cj] yields the encoding of what the policy-level
   oracle yields (the same oracle on both sides). *)

(* the translation is well typed in Core/Typing.v *)
Theorem C16_xl_typed : forall (H : Type) (h_bytes : H -> list N) (entropy : N -> list N)
    (sig_bits pre_bits : N -> list bool) (jid : jet -> N),
  (forall k, length (sig_bits k) = 512%nat) -> (forall h, length (pre_bits h) = 256%nat) ->
  forall cj_ty : N -> option Prog.arrow, (forall j, cj_ty (jid j) = Some (Bridge.jsrc j, Bridge.jtgt j)) ->
  forall (n : node H) A t B,
    Bridge.xl h_bytes entropy sig_bits pre_bits jid n A = Some (t, B) -> Typing.typed cj_ty t A B.
Proof. exact Bridge.xl_typed. Qed.
Print Assumptions C16_xl_typed.

(* the two evaluators agree: whenever the mini-semantics yields u on a well-typed v, the big-step
   semantics of Core/Sem.v yields the encoding of u on the encoding of v *)
Theorem C16_xl_eval : forall (H : Type) (h_bytes : H -> list N) (entropy : N -> list N)
    (sig_bits pre_bits : N -> list bool) (msg_bits : list bool) (ctx_sval : list val -> Ty.sval)
    (jid : jet -> N) (e : envo) (cj : N -> Ty.sval -> option Ty.sval),
  Bridge.jets_agree sig_bits pre_bits msg_bits ctx_sval jid e cj ->
  forall (n : node H) A t B v u,
    Bridge.xl h_bytes entropy sig_bits pre_bits jid n A = Some (t, B) -> Bridge.vwt v A = true ->
    eval e n v = Some u ->
    RS.Core.Sem.eval cj t (Bridge.enc sig_bits pre_bits msg_bits ctx_sval v)
      = RS.Core.Sem.ROk (Bridge.enc sig_bits pre_bits msg_bits ctx_sval u) /\ Bridge.vwt u B = true.
Proof. exact Bridge.xl_eval. Qed.
Print Assumptions C16_xl_eval.

(* every program built by satisfy_internal translates at 1 -> 1 (keys and images of 32 bytes,
   relative timelocks of 16 bits), and so does what Policy::satisfy returns after pruning *)
Theorem C16_satisfy_translates : forall (H : Type) (hf : hashfns H) (H_eqb : H -> H -> bool)
    (fin_cost : node H -> option N) (cmax : N) (e : envo) (s : satisfier) (p : policy) (prog : node H),
  BridgeSat.in_range p -> satisfy hf H_eqb e fin_cost cmax s p = Ok prog ->
  Bridge.xlty prog Ty.One = Some Ty.One.
Proof. exact BridgeSat.satisfy_xlty. Qed.
Print Assumptions C16_satisfy_translates.

(* "the program it returns runs successfully", on the Bit Machine model: for a truthful satisfier
   the returned program is a well-typed Core term 1 -> 1, evaluates to () in Core/Sem.v, and
   for_program + exec of Core/Machine.v (the machine as written: every build profile, every
   initial buffer content) returns Ok with the empty output inside the static bounds, whenever
   the program passes the machine's limit check and the machine-level jets respect their types *)
Theorem C16_satisfy_runs_on_machine : forall (H : Type) (hf : hashfns H) (H_eqb : H -> H -> bool),
  (forall a, H_eqb a a = true) ->
  forall (fin_cost : node H -> option N) (cmax : N) (e : envo)
    (h_bytes : H -> list N) (entropy : N -> list N) (sig_bits pre_bits : N -> list bool)
    (msg_bits : list bool) (ctx_sval : list val -> Ty.sval) (jid : jet -> N),
  (forall k, length (sig_bits k) = 512%nat) -> (forall h, length (pre_bits h) = 256%nat) ->
  forall cj_ty : N -> option Prog.arrow, (forall j, cj_ty (jid j) = Some (Bridge.jsrc j, Bridge.jtgt j)) ->
  forall cj : N -> Ty.sval -> option Ty.sval,
  Bridge.jets_agree sig_bits pre_bits msg_bits ctx_sval jid e cj ->
  RS.Core.Sem.jets_typed cj_ty cj ->
  forall (s : satisfier) (p : policy) (prog : node H),
  truthful e s -> BridgeSat.in_range p ->
  satisfy hf H_eqb e fin_cost cmax s p = Ok prog ->
  exists t, Bridge.xl h_bytes entropy sig_bits pre_bits jid prog Ty.One = Some (t, Ty.One) /\
    Typing.typed cj_ty t Ty.One Ty.One /\ RS.Core.Sem.eval cj t Ty.SU = RS.Core.Sem.ROk Ty.SU /\
    forall prof jet_cost m0,
      Limits.check_program prof (Machine.bw Ty.One) (Machine.bw Ty.One) (Bounds.bounds jet_cost t) = Ok tt ->
      length m0 = N.to_nat (Machine.machine_cells jet_cost t) ->
      exists st, Machine.machine_exec prof jet_cost cj t m0 None = Ok (st, []) /\
                 Machine.hwc st <= Bounds.extra_cells (Bounds.bounds jet_cost t) /\
                 Machine.hwf st <= Bounds.extra_frames (Bounds.bounds jet_cost t) + Bounds.IO_EXTRA_FRAMES.
Proof. exact BridgeMachine.satisfy_runs_machine. Qed.
Print Assumptions C16_satisfy_runs_on_machine.

(* the hypotheses of the link are satisfiable (Policy/BridgeExample.v): an instance with concrete bit
   layouts, an environment oracle defined through them and machine-level jets as functions on typed
   values, for which the two jet semantics agree and the machine-level jets respect their types *)
Theorem C16_bridge_instance_agrees : forall height distance,
  Bridge.jets_agree BridgeExample.bx_sig_bits BridgeExample.bx_pre_bits BridgeExample.bx_msg_bits
    BridgeExample.bx_ctx_sval jet_code (BridgeExample.bx_env height distance) (BridgeExample.bx_cj height distance).
Proof. exact BridgeExample.bx_jets_agree. Qed.
Print Assumptions C16_bridge_instance_agrees.

Theorem C16_bridge_instance_typed : forall height distance,
  RS.Core.Sem.jets_typed BridgeExample.bx_cj_ty (BridgeExample.bx_cj height distance).
Proof. exact BridgeExample.bx_jets_typed. Qed.
Print Assumptions C16_bridge_instance_typed.

(* ... and for the example policy (a 2-of-3 threshold over a key, an or of a hash and a timelock, an
   and of a relative timelock and a key) with a truthful satisfier: Policy::satisfy returns a
   program, it translates to a well-typed Core term, and the Bit Machine model runs it to
   completion in both build profiles from every initial buffer content *)
Theorem C16_bridge_example_runs :
  truthful BridgeExample.bx_ex_env ex_sat /\ BridgeSat.in_range ex_policy /\
  exists prog t,
    satisfy free_hf fh_eq BridgeExample.bx_ex_env (fin_cost (H := fh)) CONSENSUS_MAX ex_sat ex_policy = Ok prog /\
    Bridge.xl BridgeExample.bx_h_bytes BridgeExample.bx_entropy BridgeExample.bx_sig_bits BridgeExample.bx_pre_bits
      jet_code prog Ty.One = Some (t, Ty.One) /\
    Typing.typed BridgeExample.bx_cj_ty t Ty.One Ty.One /\
    forall prof m0, length m0 = N.to_nat (Machine.machine_cells (fun _ => 0) t) ->
      exists st, Machine.machine_exec prof (fun _ => 0) (BridgeExample.bx_cj 11 4) t m0 None = Ok (st, []).
Proof. exact (conj BridgeExample.bx_truthful (conj BridgeExample.bx_in_range BridgeExample.bx_runs_on_machine)). Qed.
Print Assumptions C16_bridge_example_runs.

(* the jets that Policy/Sem.v gives by specification (eq_256, eq_32, add_32, verify) have, on encoded
   values, exactly the specification of Jets/JetSpec.v (Core ids 45, 46, 1, 357) - the one the C05
   check compares with the C jets on every run *)
Theorem C16_policy_jets_are_spec : forall e : envo,
  (forall a b, a < 2 ^ 256 -> b < 2 ^ 256 ->
     option_map BridgeExample.bx_enc (jet_sem e Eq256 (VP (VW 256 a) (VW 256 b)))
     = JetSpec.jet_spec 45 (BridgeExample.bx_enc (VP (VW 256 a) (VW 256 b)))) /\
  (forall a b, a < 2 ^ 32 -> b < 2 ^ 32 ->
     option_map BridgeExample.bx_enc (jet_sem e Eq32 (VP (VW 32 a) (VW 32 b)))
     = JetSpec.jet_spec 46 (BridgeExample.bx_enc (VP (VW 32 a) (VW 32 b)))) /\
  (forall a b, a < 2 ^ 32 -> b < 2 ^ 32 ->
     option_map BridgeExample.bx_enc (jet_sem e Add32 (VP (VW 32 a) (VW 32 b)))
     = JetSpec.jet_spec 1 (BridgeExample.bx_enc (VP (VW 32 a) (VW 32 b)))) /\
  (forall c, option_map BridgeExample.bx_enc (jet_sem e Verify (vbit c))
     = JetSpec.jet_spec 357 (BridgeExample.bx_enc (vbit c))).
Proof. exact BridgeJets.policy_jets_are_spec. Qed.
Print Assumptions C16_policy_jets_are_spec.
