#!/usr/bin/env python3
"""Python reference of the C14 table checks (the same statements Jets/Check*.v prove by vm_compute), run over
the tables produced by xlate_jets.translate().  Its purpose is diagnosis: when a generated-table proof no
longer checks, this names the concrete jet rows / extern items that disagree (the replay), instead of
"vm_compute failed".  Returns a list of dicts {cls, family, jet, detail, row}."""

TOLERATED_RETURNS = {"rustsimplicity_0_7_decodeMallocDag", "rustsimplicity_0_7_elements_mallocBoundVars",
                     "rustsimplicity_0_7_callback_mallocBoundVars"}
TOLERATED_STATICS = {"c_overhead"}

ABI = {"KVoid": (0, 0), "KBool": (1, 8), "KI32": (2, 32), "KErr": (2, 32), "KIFast32": (2, 64), "KU8": (3, 8),
       "KU32": (3, 32), "KSize": (3, 64), "KUFast16": (3, 64), "KUFast32": (3, 64), "KU64": (3, 64)}


# ------------------------------------------------------------------ types (hash-consed)
class Types:
    def __init__(self):
        self.tab = {}
        self.nodes = []
        self.width = []
        self.one = self.mk("1", None, None)
        self.words = {}

    def mk(self, k, a, b):
        key = (k, a, b)
        if key not in self.tab:
            self.tab[key] = len(self.nodes)
            self.nodes.append(key)
            if k == "1":
                self.width.append(0)
            elif k == "+":
                self.width.append(1 + max(self.width[a], self.width[b]))
            else:
                self.width.append(self.width[a] + self.width[b])
        return self.tab[key]

    def word(self, n):
        if n not in self.words:
            self.words[n] = self.mk("+", self.one, self.one) if n == 0 else self.mk("*", self.word(n - 1), self.word(n - 1))
        return self.words[n]

    def of_name(self, s):
        """TypeName::to_final: reversed scan with a stack; None = panic"""
        base = {"1": None, "2": 0, "c": 3, "s": 4, "i": 5, "l": 6, "h": 8}
        st = []
        for ch in reversed(s):
            if ch in base:
                st.append(self.one if base[ch] is None else self.word(base[ch]))
            elif ch in "+*":
                if len(st) < 2:
                    return None
                left = st.pop()
                right = st.pop()
                st.append(self.mk(ch, left, right))
            else:
                return None
        return st[0] if len(st) == 1 else None

    def show(self, t, depth=0):
        for n, w in self.words.items():
            if w == t:
                return "2^%d" % (2 ** n)
        k, a, b = self.nodes[t]
        if k == "1":
            return "1"
        if depth > 6:
            return "..."
        return "(%s %s %s)" % (self.show(a, depth + 1), k, self.show(b, depth + 1))


def bits_be(n, ln):
    return [(n >> (ln - 1 - i)) & 1 for i in range(ln)]


def decode(tree, bits):
    t = tree
    pos = 0
    while True:
        if t is None:
            return "invalid"
        if t[0] == "J":
            return (t[1], pos)
        if pos >= len(bits):
            return "eos"
        t = t[2] if bits[pos] else t[1]
        pos += 1


def leaves(t, pre=()):
    if t is None:
        return []
    if t[0] == "J":
        return [(list(pre), t[1])]
    return leaves(t[1], pre + (0,)) + leaves(t[2], pre + (1,))


def read_nat(bits, pos):
    """decodeUptoMaxInt; returns (n, newpos) | 'eof' | 'range'"""
    d = 0
    while True:
        if pos >= len(bits):
            return "eof"
        b = bits[pos]
        pos += 1
        if not b:
            break
        d += 1
    n = 1
    for _ in range(d):
        ln = n
        if ln > 31:
            return "range"
        if pos + ln > len(bits):
            return "eof"
        v = 1
        for i in range(ln):
            v = 2 * v + bits[pos + i]
        pos += ln
        n = v
    if n > 2 ** 31 - 1:
        return "range"
    return (n, pos)


def c_decode(t, bits, pos):
    while True:
        if t[0] == "L":
            return (t[1], pos)
        r = read_nat(bits, pos)
        if isinstance(r, str):
            return r
        n, pos = r
        nxt = None
        for k, sub in t[1]:
            if k == n:
                nxt = sub
                break
        if nxt is None:
            return "range"
        t = nxt


def family_checks(fam, o, TY, out):
    V = o["variants"]
    n = len(V)

    def bad(cls, v, detail):
        out.append({"cls": cls, "family": fam, "jet": v, "name": o["display"].get(v), "detail": detail,
                    "row": {"code": o["code"].get(v), "src": o["src"].get(v), "tgt": o["tgt"].get(v),
                            "cost": (o["cost"] or {}).get(v), "cmr": (o["cmr"] or {}).get(v)}})
    if o["all"] != V or o["all_len"] != n:
        out.append({"cls": "table", "family": fam, "jet": None, "detail": "ALL is not the enum in declaration order"})
    codes = {}
    for v in V:
        cn, cl = o["code"][v]
        code = bits_be(cn, cl)
        codes[v] = code
        if cl > 64:
            bad("roundtrip", v, "encode length %d > 64: shift overflow" % cl)
        r = decode(o["tree"], code)
        if r != (v, len(code)):
            bad("roundtrip", v, "decode(encode(%s)) = %s; encode writes (n=%d, len=%d) = %s"
                % (v, r if isinstance(r, str) else "%s after %d bits" % r, cn, cl, "".join(map(str, code))))
    for p, v in leaves(o["tree"]):
        if codes.get(v) != p:
            bad("roundtrip", v, "the decode tree reaches %s by %s but it encodes as %s"
                % (v, "".join(map(str, p)), "".join(map(str, codes.get(v, [])))))
    srt = sorted(V, key=lambda v: codes[v])
    for a, b in zip(srt, srt[1:]):
        if codes[b][:len(codes[a])] == codes[a]:
            bad("prefix", a, "code %s of %s is a prefix of code %s of %s"
                % ("".join(map(str, codes[a])), a, "".join(map(str, codes[b])), b))
    seen = {}
    first = {}
    for s, v in o["fromstr"]:
        first.setdefault(s, v)
        if o["display"][v] != s:
            bad("name", v, "FromStr arm %r returns %s whose Display is %r" % (s, v, o["display"][v]))
    for v in V:
        nm = o["display"][v]
        if nm in seen:
            bad("name", v, "Display name %r is shared by %s and %s" % (nm, seen[nm], v))
        seen[nm] = v
        if first.get(nm) != v:
            bad("name", v, "parse(%r) = %s, expected %s" % (nm, first.get(nm), v))
    for v in V:
        for key in ("src", "tgt"):
            if TY.of_name(o[key][v]) is None:
                bad("typename", v, "%s type name %r is not well formed" % (key, o[key][v]))


def c_expand(C, TY):
    memo = {}

    def ex(i, depth=0):
        if i in memo:
            return memo[i]
        if depth > 64:
            return None
        e = C["ty_table"][i]
        if e[0] == "ONE":
            r = TY.one
        else:
            a = ex(e[1], depth + 1)
            b = ex(e[2], depth + 1)
            r = None if a is None or b is None else TY.mk("+" if e[0] == "SUM" else "*", a, b)
        memo[i] = r
        return r
    return ex


def rust_c_checks(E, C, TY, out):
    ex = c_expand(C, TY)
    jix = {n: i for i, n in enumerate(C["jet_names"])}
    for v in E["variants"]:
        nm = E["display"][v]

        def bad(cls, detail):
            out.append({"cls": cls, "family": "Elements", "jet": v, "name": nm, "detail": detail})
        cn = nm.upper()
        if cn not in C["nodes"]:
            bad("c-missing", "no C jet named %s" % cn)
            continue
        c = C["nodes"][cn]
        cb = [b for w in c["cmr"] for b in w.to_bytes(4, "big")]
        if E["cmr"][v] != cb:
            k = [i for i in range(32) if i >= len(E["cmr"][v]) or E["cmr"][v][i] != cb[i]][0]
            bad("c-cmr", "cmr differs at byte %d: Rust %s, C word %d = 0x%08x"
                % (k, "0x%02x" % E["cmr"][v][k] if k < len(E["cmr"][v]) else "-", k // 4, c["cmr"][k // 4]))
        for key, ck in (("src", "source"), ("tgt", "target")):
            rt = TY.of_name(E[key][v])
            ct = ex(c[ck])
            if rt is None or ct is None or rt != ct:
                bad("c-type", "%s type: Rust %r = %s (%s bits), C %s = %s (%s bits)"
                    % (key, E[key][v], TY.show(rt) if rt is not None else "ill-formed", TY.width[rt] if rt is not None else "?",
                       C["ty_names"][c[ck]], TY.show(ct) if ct is not None else "?", TY.width[ct] if ct is not None else "?"))
        if E["cost"][v] != c["cost"]:
            bad("c-cost", "cost: Rust %d, C %d" % (E["cost"][v], c["cost"]))
        code = bits_be(*E["code"][v])
        if not code:
            bad("c-code", "empty code")
            continue
        r = c_decode(C["dec_elements"] if code[0] else C["dec_core"], code, 1)
        if r != (cn, len(code)):
            bad("c-code", "the C decoder maps Rust's code %s to %s, expected %s"
                % ("".join(map(str, code)), r if isinstance(r, str) else "%s after %d bits" % r, cn))
        if c["jet"] != "rustsimplicity_0_7_" + nm:
            bad("binding", "C row %s has .jet = %s" % (cn, c["jet"]))


def core_elements_checks(K, E, out):
    byname = {E["display"][v]: v for v in E["variants"]}
    for v in K["variants"]:
        nm = K["display"][v]
        e = byname.get(nm)

        def bad(detail):
            out.append({"cls": "core-elements", "family": "Core", "jet": v, "name": nm, "detail": detail})
        if e is None:
            bad("no Elements jet named %r" % nm)
            continue
        if K["src"][v] != E["src"][e] or K["tgt"][v] != E["tgt"][e]:
            bad("types: Core %r -> %r, Elements %r -> %r" % (K["src"][v], K["tgt"][v], E["src"][e], E["tgt"][e]))
        kc = bits_be(*K["code"][v])
        ec = bits_be(*E["code"][e])
        if ec != [0] + kc:
            bad("code: Core %s, Elements %s (expected 0 followed by the Core code)"
                % ("".join(map(str, kc)), "".join(map(str, ec))))


def compat(r, c, F):
    r = tuple(r)
    c = tuple(c)
    if r[0] != c[0]:
        return False
    if r[0] == "s":
        return ABI[r[1]] == ABI[c[1]]
    if r[0] == "n":
        return F["struct_map"].get(r[1]) == c[1]
    if r[0] == "cb":
        return F["cb_map"].get(r[1]) == c[1]
    if r[0] == "p":
        if tuple(r[2]) == ("s", "KVoid") or tuple(c[2]) == ("s", "KVoid"):
            return True
        return compat(r[2], c[2], F)
    if r[0] == "a":
        return compat(r[1], c[1], F)
    return False


def strict(r, c, F):
    r = tuple(r)
    c = tuple(c)
    if r[0] != c[0]:
        return False
    if r[0] == "s":
        return r[1] == c[1]
    if r[0] == "p":
        if tuple(r[2]) == ("s", "KVoid") or tuple(c[2]) == ("s", "KVoid"):
            return True
        return bool(r[1]) == bool(c[1]) and strict(r[2], c[2], F)
    if r[0] == "a":
        return strict(r[1], c[1], F)
    return compat(r, c, F)


def show_t(t):
    t = tuple(t)
    if t[0] == "s":
        return t[1][1:]
    if t[0] in ("n", "cb"):
        return t[1]
    if t[0] == "p":
        return "*%s %s" % ("const" if t[1] else "mut", show_t(t[2]))
    return "[%s]" % show_t(t[1])


def ffi_checks(F, out, notes):
    for it in F["items"]:
        where = "%s (%s, link name %s, C: %s)" % (it["rust"], it["file"], it["link"], it.get("c_file"))
        rp = [p[1] for p in it["params"]]
        cp = it["c_params"]

        def bad(cls, detail):
            out.append({"cls": cls, "family": "ffi", "jet": it["rust"], "name": it["link"], "detail": detail,
                        "row": {"rust": "(%s) -> %s" % (", ".join(show_t(p) for p in rp), show_t(it["ret"])),
                                "c": "(%s) -> %s" % (", ".join(show_t(p) for p in cp), show_t(it["c_ret"]))}})
        if it["kind"] != "static":
            if len(rp) != len(cp):
                bad("ffi-arity", "%s: Rust declares %d parameters, the C prototype has %d" % (where, len(rp), len(cp)))
            else:
                for k, (a, b) in enumerate(zip(rp, cp)):
                    if not compat(a, b, F):
                        bad("ffi-param", "%s: parameter %d is %s in Rust, %s in C" % (where, k + 1, show_t(a), show_t(b)))
                    elif not strict(a, b, F):
                        notes.append("%s: parameter %d: Rust %s / C %s (same ABI on x86-64 LP64; differs by const or integer type name)"
                                     % (it["link"], k + 1, show_t(a), show_t(b)))
            if not compat(it["ret"], it["c_ret"], F):
                msg = "%s: return type is %s in Rust, %s in C" % (where, show_t(it["ret"]), show_t(it["c_ret"]))
                if it["link"] in TOLERATED_RETURNS:
                    notes.append("RETURN-TYPE MISMATCH (tolerated, not part of the property's clause): " + msg)
                else:
                    bad("ffi-return", msg)
        else:
            if not compat(it["ret"], it["c_ret"], F):
                msg = "%s: static is %s in Rust, %s in C" % (where, show_t(it["ret"]), show_t(it["c_ret"]))
                if it["link"] in TOLERATED_STATICS:
                    notes.append("STATIC TYPE MISMATCH (tolerated): " + msg)
                else:
                    bad("ffi-static", msg)


def chain_checks(fam, o, F, out):
    if o["cptr"] is None:
        return
    wr = {w: (e, env) for w, e, env in F["wrappers"]}
    ext = {}
    for it in F["items"]:
        if it["kind"] == "fn":
            ext.setdefault(it["rust"], it)
    for v in o["variants"]:
        nm = o["display"][v]

        def bad(detail):
            out.append({"cls": "binding", "family": fam, "jet": v, "name": nm, "detail": detail})
        w = o["cptr"][v]
        if w not in wr:
            bad("c_jet_ptr names jets_wrapper::%s which does not exist" % w)
            continue
        e = wr[w][0]
        if e not in ext:
            bad("jets_wrapper::%s calls elements_ffi::%s which is not declared" % (w, e))
            continue
        if ext[e]["link"] != "rustsimplicity_0_7_c_" + nm:
            bad("jet %s is bound to %s (via jets_wrapper::%s -> elements_ffi::%s)" % (nm, ext[e]["link"], w, e))
        if nm not in F["wraps"]:
            bad("no WRAP_(%s) in jets_wrapper.c" % nm)
        if nm not in F["inner"]:
            bad("rustsimplicity_0_7_%s is not declared in jets.h / elementsJets.h" % nm)


def diagnose(T):
    import xlate_jets_ffi as XF
    out = []
    notes = []
    TY = Types()
    fams = T["families"]
    for fam in ("Core", "Elements", "Bitcoin"):
        family_checks(fam, fams[fam], TY, out)
    rust_c_checks(fams["Elements"], T["c"], TY, out)
    core_elements_checks(fams["Core"], fams["Elements"], out)
    F = dict(T["ffi"])
    F["struct_map"] = XF.STRUCT_MAP
    F["cb_map"] = XF.CALLBACK_MAP
    ffi_checks(F, out, notes)
    chain_checks("Core", fams["Core"], F, out)
    chain_checks("Elements", fams["Elements"], F, out)
    return out, notes
