(* C05 / C07 top level: BitMachine::for_program + input + exec on a well-typed program that
   passes the limit check computes the big-step semantics, stays inside the buffer and the
   frame stacks sized from the static bounds, never panics, for every initial content of the
   buffer and every padding of the input value. *)
From RS Require Import Lib.Tac Lib.Outcome Lib.Bits Ty.Ty Core.Prog Core.Term Core.Typing Core.Sem
  Core.Bounds Core.Limits Core.Machine Core.MachineLemmas Core.MachineCorrect Core.MachineCorrect2
  Generated.Consts.
Import ListNotations.
Local Open Scope N_scope.

Lemma max_cells_lt : MAX_CELLS < usize_max.
Proof. reflexivity. Qed.

Lemma check_frames_le p sw tw b : check_program p sw tw b = Ok tt -> extra_frames b <= MAX_FRAMES.
Proof.
  unfold check_program, check_max_cells, check_max_frames. intros H.
  destruct (MAX_FRAMES <? extra_frames b) eqn:E; [|apply N.ltb_ge in E; exact E].
  exfalso.
  repeat match type of H with
         | obind (if ?c then _ else _) _ = _ => destruct c; cbn [obind] in H; try discriminate
         | obind (lift_add ?p ?a ?b) _ = _ => destruct (lift_add p a b); cbn [obind] in H; try discriminate
         end.
Qed.

Section Exec.
  Variable prof : profile.
  Variable jet_ty : N -> option arrow.
  Variable jet_cost : N -> N.
  Variable jet_sem : N -> sval -> option sval.

  Notation bounds := (bounds jet_cost).
  Notation eval := (eval jet_sem).

  (* what an accepted program satisfies *)
  Record accepted (t : term) (A B : ty) : Prop := mkAcc {
    ac_small : small t;
    ac_cells : extra_cells (bounds t) = cells t;
    ac_frames : extra_frames (bounds t) = frames t;
    ac_wA : bw A = width A;
    ac_wB : bw B = width B;
    ac_lim : width A + width B + cells t <= MAX_CELLS
  }.

  (* no bound arithmetic saturated in a program that check_program accepts *)
  Lemma check_accepted t A B : typed jet_ty t A B ->
    check_program prof (bw A) (bw B) (bounds t) = Ok tt -> accepted t A B.
  Proof.
    intros Ht Hc.
    assert (Hle : forall X, bw X <= usize_max) by (intros X; apply width_sat_le).
    assert (Hec : extra_cells (bounds t) <= usize_max).
    { clear - Hle.
      induction t; cbn [Bounds.bounds extra_cells nb_child nb_comp nb_case nb_pair nb_disconnect
                        nb_iden nb_unit nb_nop nb_witness nb_fail nb_jet nb_word];
        unfold sat_add, usize_max in *; try lia. apply Hle. }
    assert (Hef : extra_frames (bounds t) <= usize_max).
    { pose proof (check_frames_le _ _ _ _ Hc) as Hf. unfold MAX_FRAMES, c_max_frames, usize_max in *. lia. }
    destruct (check_program_iff prof (bw A) (bw B) (bounds t) (Hle A) (Hle B) Hec Hef) as [[W _] _].
    specialize (W Hc). unfold within_limits in W. destruct W as (W1 & W2 & W3 & W4 & W5 & W6 & W7).
    pose proof max_cells_lt as Hm.
    destruct (bounds_exact jet_ty jet_cost t A B Ht) as [E S]; try (unfold bw in *; lia).
    assert (EA : bw A = width A) by (apply width_sat_lt; unfold bw in *; lia).
    assert (EB : bw B = width B) by (apply width_sat_lt; unfold bw in *; lia).
    constructor; auto.
    + apply frames_exact.
    + rewrite <- EA, <- EB, <- E. exact W5.
  Qed.

  Variable t : term.
  Variable A B : ty.
  Hypothesis Hjets : jets_typed jet_ty jet_sem.
  Hypothesis Ht : typed jet_ty t A B.
  Hypothesis Hcheck : check_program prof (bw A) (bw B) (bounds t) = Ok tt.

  Let cap := machine_cap jet_cost t.

  Lemma arrow_t : arrow_of t = (A, B).
  Proof using Ht. exact (typed_arrow _ _ _ _ Ht). Qed.

  Lemma cap_eq : cap = frames t + 2.
  Proof using Ht Hcheck.
    unfold cap, machine_cap. rewrite (ac_frames _ _ _ (check_accepted _ _ _ Ht Hcheck)). reflexivity.
  Qed.

  Lemma cells_fit m0 : length m0 = N.to_nat (machine_cells jet_cost t) ->
    width A + width B + cells t <= msize m0 /\ msize m0 <= usize_max.
  Proof using Ht Hcheck.
    intros Hl. destruct (check_accepted _ _ _ Ht Hcheck) as [S Ec Ef EA EB L].
    unfold msize. rewrite Hl, N2Nat.id. unfold machine_cells, div_ceil8, src, tgt. rewrite arrow_t. cbn [fst snd].
    rewrite EA, EB, Ec. unfold MAX_CELLS, c_max_cells, usize_max in *. lia.
  Qed.

  (* BitMachine::input on the fresh machine *)
  Lemma input_ok m0 a pbits : padded_of A a pbits -> width A + width B + cells t <= msize m0 ->
    exists st1, input prof cap (mkSt m0 0 [] [] 0 0) A A pbits = Ok st1 /\
      length (mem st1) = length m0 /\ nfs st1 = width A /\ wr st1 = [] /\
      top_ok (rd st1) (width A) (width A) /\ rcur st1 = 0 /\ (length (rd st1) <= 1)%nat /\
      (rd st1 = [] <-> width A = 0) /\
      hwc st1 = width A /\ hwf st1 <= 1 /\ enc_at (mem st1) 0 A a.
  Proof using Ht Hcheck.
    intros Hp Hfit. destruct (check_accepted _ _ _ Ht Hcheck) as [S Ec Ef EA EB L].
    unfold input. rewrite ty_eqb_refl. cbn [negb]. rewrite EA.
    destruct (N.eqb_spec (width A) 0) as [E0|E0].
    - eexists. split; [reflexivity|]. cbn [mem nfs rd wr hwc hwf length]. rewrite E0.
      repeat split; auto; try lia.
      eapply padded_of_enc_at; [exact Hp|]. rewrite (padded_of_length _ _ _ Hp), E0. cbn.
      destruct pbits; [reflexivity|]. apply padded_of_length in Hp. rewrite E0 in Hp. discriminate.
    - set (st0 := mkSt m0 0 [] [] 0 0).
      destruct (nwf_ok prof cap st0 (width A)) as (s1 & E1 & Hm1 & Hn1 & Hr1 & Hw1 & Hc1 & Hf1).
      { cbn. lia. } { rewrite cap_eq. cbn. lia. }
      cbn [mem nfs rd wr hwc hwf st0 depth length] in *.
      rewrite E1. cbn [obind].
      pose proof (padded_of_length _ _ _ Hp) as Hlen.
      destruct (write_bits_tops s1 pbits (nfs s1)) as (s2 & E2 & Hn2 & Hr2 & Hw2 & Hc2 & Hf2 & Hl2 & Hs2 & Ho2).
      { rewrite Hw1, Hn1, Hlen. cbn [top_ok fcur fstart flen]. lia. }
      { rewrite Hn1, Hm1. lia. }
      rewrite E2. cbn [obind]. rewrite Hw1 in Hw2. cbn [adv_top] in Hw2.
      destruct (move_ok s2 _ _ Hw2) as (s3 & E3 & Hm3 & Hn3 & Hr3 & Hw3 & Hc3 & Hf3).
      exists s3. split; [exact E3|]. cbn [fadv fstart flen] in Hr3. rewrite Hr2, Hr1 in Hr3.
      unfold rcur. rewrite Hr3, Hw3, Hn3, Hn2, Hn1, Hm3, Hl2, Hm1, Hc3, Hc2, Hc1, Hf3, Hf2, Hf1.
      cbn [top_ok fcur fstart flen length].
      repeat split; auto; try lia; try discriminate.
      eapply padded_of_enc_at; [exact Hp|]. unfold wcur in Hs2. rewrite Hw1 in Hs2. exact Hs2.
  Qed.

  (* the whole pipeline from a machine state right after `input` *)
  Lemma exec_from st1 a :
    width A + width B + cells t <= msize (mem st1) ->
    nfs st1 = width A -> wr st1 = [] -> top_ok (rd st1) (width A) (width A) -> rcur st1 = 0 ->
    (length (rd st1) <= 1)%nat -> (rd st1 = [] <-> width A = 0) ->
    hwc st1 = width A -> hwf st1 <= 1 -> enc_at (mem st1) 0 A a ->
    match eval t a with
    | ROk b => exists st bits, exec prof cap jet_sem st1 t (default_fuel t) = Ok (st, bits) /\
                 of_padded B bits = b /\ length bits = N.to_nat (width B) /\
                 hwc st <= width A + width B + cells t /\ hwf st <= frames t + 2
    | RErr e => exists st, exec prof cap jet_sem st1 t (default_fuel t) = Err (err_of e, st) /\
                 hwc st <= width A + width B + cells t /\ hwf st <= frames t + 2
    | RStuck => False
    end.
  Proof using Hjets Ht Hcheck.
    intros Hfit Hn1 Hw1 Prd1 Hrc1 Hlr1 Hre1 Hc1 Hf1 Ha1.
    destruct (check_accepted _ _ _ Ht Hcheck) as [S Ec Ef EA EB L].
    unfold exec. unfold src, tgt. rewrite arrow_t. cbn [fst snd]. rewrite EA, EB.
    assert (Hchk : negb (Bool.eqb (match rd st1 with [] => true | _ => false end) (width A =? 0)) = false).
    { destruct (rd st1) as [|f r] eqn:Er.
      - rewrite (proj2 (N.eqb_eq _ _) (proj1 Hre1 eq_refl)). reflexivity.
      - destruct (N.eqb_spec (width A) 0) as [E0|E0]; [|reflexivity]. apply Hre1 in E0. discriminate. }
    rewrite Hchk.
    (* the output frame *)
    assert (Hout : exists st2, (0 < width B -> new_write_frame prof cap st1 (width B) = Ok st2) /\
              (width B = 0 -> st2 = st1) /\
              mem st2 = mem st1 /\ nfs st2 = width A + width B /\ rd st2 = rd st1 /\
              top_ok (wr st2) (width B) (nfs st2) /\ (length (wr st2) <= 1)%nat /\
              (wr st2 = [] <-> width B = 0) /\
              (0 <? width B = true -> wr st2 = [mkF (width A) (width A) (width B)]) /\
              hwc st2 = width A + width B /\ hwf st2 <= 2).
    { destruct (N.ltb_spec 0 (width B)) as [HB|HB].
      - destruct (nwf_ok prof cap st1 (width B)) as (s2 & E2 & Hm2 & Hn2 & Hr2 & Hw2 & Hc2 & Hf2).
        { lia. } { rewrite cap_eq. unfold depth. rewrite Hw1. cbn [length]. lia. }
        exists s2. split; [intros _; exact E2|]. split; [lia|]. rewrite Hw2, Hn2, Hw1, Hn1, Hc2, Hf2, Hc1.
        cbn [top_ok fcur fstart flen length]. unfold depth. rewrite Hw1. cbn [length].
        repeat split; auto; try lia; try discriminate.
      - assert (E0 : width B = 0) by lia. exists st1. split; [lia|]. split; [reflexivity|]. rewrite Hw1, Hn1, Hc1, E0.
        cbn [top_ok length]. repeat split; auto; try lia; discriminate. }
    destruct Hout as (st2 & E2 & E2' & Hm2 & Hn2 & Hr2 & Pwr2 & Hlw2 & Hwe2 & Hwf2 & Hc2 & Hf2).
    assert (P2 : pre cap st2 A B t).
    { constructor.
      - rewrite Hr2, Hn2. eapply top_ok_weaken; [exact Prd1|lia|lia].
      - exact Pwr2.
      - rewrite Hr2. destruct (rd st1) as [|rf rs]; [exact I|]. destruct (wr st2) as [|wf ws] eqn:Ew; [exact I|].
        destruct (N.ltb_spec 0 (width B)) as [HB|HB].
        + pose proof (Hwf2 eq_refl) as Hx. injection Hx as -> ->. cbn [tops_disj top_ok fstart flen] in *. lia.
        + assert (E0 : width B = 0) by lia. apply Hwe2 in E0. discriminate.
      - rewrite Hn2, Hm2. lia.
      - rewrite cap_eq. unfold depth. rewrite Hr2. lia. }
    assert (Ha2 : enc_at (mem st2) (rcur st2) A a).
    { rewrite (rcur_eq st1 st2 Hr2), Hrc1, Hm2. exact Ha1. }
    pose proof (machine_correct prof cap jet_sem jet_ty t A B Hjets Ht S a st2 [] P2 Ha2) as MC.
    destruct (eval t a) as [b|e|].
    - destruct MC as (st' & n & Hle & Hstar & Q). destruct Q as [Ql Qn Qr Qw Qe Qs Qh].
      pose proof (mstar_run _ _ _ _ _ _ Hstar st' (default_fuel t - n) eq_refl) as Hrun.
      cbn [fst snd] in Hrun. replace (n + (default_fuel t - n))%nat with (default_fuel t) in Hrun
        by (unfold default_fuel; lia).
      assert (Hhw : hwc st' <= width A + width B + cells t /\ hwf st' <= frames t + 2).
      { unfold hw_ok in Qh. rewrite Hc2, Hn2 in Qh. unfold depth in Qh. rewrite Hr2 in Qh. lia. }
      destruct (N.ltb_spec 0 (width B)) as [HB|HB].
      + rewrite (E2 HB). cbn [obind]. rewrite Hrun. cbn [obind]. unfold wcur in Qe. rewrite (Hwf2 eq_refl) in Qw, Qe. cbn [adv_top] in Qw. cbn [fcur] in Qe. rewrite Qw.
        cbn [fadv fstart flen]. unfold window_check. cbn [fcur fstart flen set_wr mem].
        assert (Hms : msize (mem st') = msize (mem st1)) by (unfold msize; rewrite Ql, Hm2; reflexivity).
        rewrite Hms.
        destruct (N.leb_spec (width A) (width A + width B)); [|lia].
        destruct (N.leb_spec (width A + width B) (msize (mem st1))); [|lia].
        cbn [andb obind].
        destruct (N.leb_spec (width A + width B) (8 * ((width A + width B + 7) / 8))); [|lia].
        eexists _, _. split; [reflexivity|]. split; [|split; [apply mslice_length|exact Hhw]].
        apply enc_at_of_padded. exact Qe.
      + assert (E0 : width B = 0) by lia. cbn [obind]. rewrite <- (E2' E0). rewrite Hrun. cbn [obind].
        eexists _, _. split; [reflexivity|].
        split; [|split; [rewrite E0; reflexivity|exact Hhw]].
        pose proof (enc_at_of_padded _ _ _ _ Qe) as Hop. rewrite E0 in Hop. exact Hop.
    - destruct MC as (st' & n & Hle & Hfail & Qh).
      pose proof (mfail_run _ _ _ _ _ _ Hfail (default_fuel t - n) ltac:(discriminate)) as Hrun.
      cbn [fst snd] in Hrun. replace (n + (default_fuel t - n))%nat with (default_fuel t) in Hrun
        by (unfold default_fuel; lia).
      exists st'. split.
      + destruct (N.ltb_spec 0 (width B)) as [HB|HB].
        * rewrite (E2 HB). cbn [obind]. rewrite Hrun. reflexivity.
        * cbn [obind]. rewrite <- (E2' ltac:(lia)). rewrite Hrun. reflexivity.
      + unfold hw_ok in Qh. rewrite Hc2, Hn2 in Qh. unfold depth in Qh. rewrite Hr2 in Qh. lia.
    - exact MC.
  Qed.

  (* C05 exec_correct + C07 bounds_cover in one statement: for every initial buffer content of
     the right size and every padded encoding of the input value *)
  Theorem exec_master a pbits m0 :
    padded_of A a pbits -> length m0 = N.to_nat (machine_cells jet_cost t) ->
    match eval t a with
    | ROk b => exists st bits,
        machine_exec prof jet_cost jet_sem t m0 (Some (A, pbits)) = Ok (st, bits) /\
        of_padded B bits = b /\ length bits = N.to_nat (width B) /\
        hwc st <= width A + width B + extra_cells (bounds t) /\ hwc st <= msize m0 /\
        hwf st <= extra_frames (bounds t) + IO_EXTRA_FRAMES
    | RErr e => exists st,
        machine_exec prof jet_cost jet_sem t m0 (Some (A, pbits)) = Err (err_of e, st) /\
        hwc st <= width A + width B + extra_cells (bounds t) /\ hwc st <= msize m0 /\
        hwf st <= extra_frames (bounds t) + IO_EXTRA_FRAMES
    | RStuck => False
    end.
  Proof using Hjets Ht Hcheck.
    intros Hp Hl. destruct (cells_fit m0 Hl) as [Hfit _].
    destruct (check_accepted _ _ _ Ht Hcheck) as [S Ec Ef EA EB L].
    unfold machine_exec, for_program_with. unfold src, tgt. rewrite arrow_t. cbn [fst snd]. rewrite Hcheck.
    destruct (input_ok m0 a pbits Hp Hfit) as (st1 & E1 & Hl1 & Hn1 & Hw1 & Prd1 & Hrc1 & Hlr1 & Hre1 & Hc1 & Hf1 & Ha1).
    fold cap. rewrite E1. cbn [obind].
    assert (Hfit1 : width A + width B + cells t <= msize (mem st1)) by (unfold msize in *; rewrite Hl1; exact Hfit).
    pose proof (exec_from st1 a Hfit1 Hn1 Hw1 Prd1 Hrc1 Hlr1 Hre1 Hc1 Hf1 Ha1) as EX.
    rewrite Ec, Ef. unfold IO_EXTRA_FRAMES.
    destruct (eval t a) as [b|e|].
    - destruct EX as (st & bits & E & H1 & H2 & H3 & H4). exists st, bits. repeat split; auto. lia.
    - destruct EX as (st & E & H3 & H4). exists st. repeat split; auto. lia.
    - exact EX.
  Qed.

  (* a program of empty source type may also be run without calling `input` *)
  Theorem exec_master_noinput a m0 :
    width A = 0 -> has_ty a A = true -> length m0 = N.to_nat (machine_cells jet_cost t) ->
    match eval t a with
    | ROk b => exists st bits,
        machine_exec prof jet_cost jet_sem t m0 None = Ok (st, bits) /\
        of_padded B bits = b /\ length bits = N.to_nat (width B) /\
        hwc st <= width A + width B + extra_cells (bounds t) /\ hwc st <= msize m0 /\
        hwf st <= extra_frames (bounds t) + IO_EXTRA_FRAMES
    | RErr e => exists st,
        machine_exec prof jet_cost jet_sem t m0 None = Err (err_of e, st) /\
        hwc st <= width A + width B + extra_cells (bounds t) /\ hwc st <= msize m0 /\
        hwf st <= extra_frames (bounds t) + IO_EXTRA_FRAMES
    | RStuck => False
    end.
  Proof using Hjets Ht Hcheck.
    intros E0 Hta Hl. destruct (cells_fit m0 Hl) as [Hfit _].
    destruct (check_accepted _ _ _ Ht Hcheck) as [S Ec Ef EA EB L].
    unfold machine_exec, for_program_with. unfold src, tgt. rewrite arrow_t. cbn [fst snd]. rewrite Hcheck.
    fold cap.
    assert (Ha0 : enc_at m0 0 A a).
    { eapply padded_of_enc_at; [apply padded_enc_padded_of; exact Hta|].
      rewrite padded_enc_length by exact Hta. rewrite E0. cbn.
      pose proof (padded_enc_length _ _ Hta) as Hlen. rewrite E0 in Hlen. destruct (padded_enc A a); [reflexivity|discriminate]. }
    pose proof (exec_from (mkSt m0 0 [] [] 0 0) a) as EX. cbn [mem nfs rd wr hwc hwf length] in EX.
    specialize (EX Hfit (eq_sym E0) eq_refl). rewrite E0 in EX at 1 2. cbn [top_ok] in EX.
    specialize (EX eq_refl eq_refl ltac:(lia) ltac:(split; auto) ltac:(lia) ltac:(lia) Ha0).
    rewrite Ec, Ef. unfold IO_EXTRA_FRAMES.
    destruct (eval t a) as [b|e|].
    - destruct EX as (st & bits & E & H1 & H2 & H3 & H4). exists st, bits. repeat split; auto. lia.
    - destruct EX as (st & E & H3 & H4). exists st. repeat split; auto. lia.
    - exact EX.
  Qed.
  (* ---------------------------------------------------------------- corollaries *)
  (* the converse directions: whatever the machine returns is what the semantics say *)
  Corollary exec_ok_inv a pbits m0 st bits :
    padded_of A a pbits -> length m0 = N.to_nat (machine_cells jet_cost t) ->
    machine_exec prof jet_cost jet_sem t m0 (Some (A, pbits)) = Ok (st, bits) ->
    eval t a = ROk (of_padded B bits).
  Proof using Hjets Ht Hcheck.
    intros Hp Hl E. pose proof (exec_master a pbits m0 Hp Hl) as M. destruct (eval t a) as [b|e|].
    - destruct M as (st' & bits' & E' & Hb & _). rewrite E in E'. injection E' as <- <-. rewrite Hb. reflexivity.
    - destruct M as (st' & E' & _). rewrite E in E'. discriminate.
    - contradiction.
  Qed.

  Corollary exec_err_inv a pbits m0 e st :
    padded_of A a pbits -> length m0 = N.to_nat (machine_cells jet_cost t) ->
    machine_exec prof jet_cost jet_sem t m0 (Some (A, pbits)) = Err (e, st) ->
    exists se, eval t a = RErr se /\ e = err_of se.
  Proof using Hjets Ht Hcheck.
    intros Hp Hl E. pose proof (exec_master a pbits m0 Hp Hl) as M. destruct (eval t a) as [b|se|].
    - destruct M as (st' & bits' & E' & _). rewrite E in E'. discriminate.
    - destruct M as (st' & E' & _). rewrite E in E'. injection E' as -> _. exists se. auto.
    - contradiction.
  Qed.

  (* never a panic, never out of fuel: every cell access is inside the buffer, every frame
     push inside the reserved capacity, every assertion holds *)
  Corollary exec_no_panic a pbits m0 :
    padded_of A a pbits -> length m0 = N.to_nat (machine_cells jet_cost t) ->
    match machine_exec prof jet_cost jet_sem t m0 (Some (A, pbits)) with
    | Ok (st, _) | Err (_, st) =>
        hwc st <= width A + width B + extra_cells (bounds t) /\ hwc st <= msize m0 /\
        hwf st <= extra_frames (bounds t) + IO_EXTRA_FRAMES
    | Panic _ | OutOfFuel => False
    end.
  Proof using Hjets Ht Hcheck.
    intros Hp Hl. pose proof (exec_master a pbits m0 Hp Hl) as M. destruct (eval t a) as [b|se|].
    - destruct M as (st' & bits' & E' & _ & _ & H). rewrite E'. exact H.
    - destruct M as (st' & E' & H). rewrite E'. exact H.
    - contradiction.
  Qed.

  (* the verdict does not depend on the initial buffer contents nor on the padding bits of
     the input *)
  Corollary exec_independent a pbits pbits' m0 m0' :
    padded_of A a pbits -> padded_of A a pbits' ->
    length m0 = N.to_nat (machine_cells jet_cost t) -> length m0' = N.to_nat (machine_cells jet_cost t) ->
    match machine_exec prof jet_cost jet_sem t m0 (Some (A, pbits)),
          machine_exec prof jet_cost jet_sem t m0' (Some (A, pbits')) with
    | Ok (_, bits), Ok (_, bits') => of_padded B bits = of_padded B bits'
    | Err (e, _), Err (e', _) => e = e'
    | _, _ => False
    end.
  Proof using Hjets Ht Hcheck.
    intros Hp Hp' Hl Hl'. pose proof (exec_master a pbits m0 Hp Hl) as M.
    pose proof (exec_master a pbits' m0' Hp' Hl') as M'. destruct (eval t a) as [b|se|].
    - destruct M as (st1 & bits1 & E1 & Hb1 & _). destruct M' as (st2 & bits2 & E2 & Hb2 & _).
      rewrite E1, E2. congruence.
    - destruct M as (st1 & E1 & _). destruct M' as (st2 & E2 & _). rewrite E1, E2. reflexivity.
    - contradiction.
  Qed.
End Exec.

(* for_program refuses exactly the programs whose sums exceed the limits *)
Theorem for_program_refuses prof jet_cost t :
  extra_frames (bounds jet_cost t) <= usize_max ->
  (exists st, for_program prof jet_cost t = Ok st) <->
  within_limits (bw (src t)) (bw (tgt t)) (bounds jet_cost t).
Proof.
  intros Hef.
  assert (Hle : forall X, bw X <= usize_max) by (intros X; apply width_sat_le).
  assert (Hec : extra_cells (bounds jet_cost t) <= usize_max).
  { clear - Hle. induction t; cbn [bounds extra_cells nb_child nb_comp nb_case nb_pair nb_disconnect
                        nb_iden nb_unit nb_nop nb_witness nb_fail nb_jet nb_word];
      unfold sat_add, usize_max in *; try lia. apply Hle. }
  destruct (check_program_iff prof (bw (src t)) (bw (tgt t)) (bounds jet_cost t) (Hle _) (Hle _) Hec Hef)
    as (W & _ & Wp & Wf).
  unfold for_program, for_program_with. split.
  - intros [st E]. apply W. destruct (check_program prof (bw (src t)) (bw (tgt t)) (bounds jet_cost t)) as [[]| | |];
      try discriminate. reflexivity.
  - intros H. apply W in H. rewrite H. eexists. reflexivity.
Qed.

Theorem for_program_no_panic prof jet_cost t :
  extra_frames (bounds jet_cost t) <= usize_max ->
  match for_program prof jet_cost t with Panic _ | OutOfFuel => False | _ => True end.
Proof.
  intros Hef.
  assert (Hle : forall X, bw X <= usize_max) by (intros X; apply width_sat_le).
  assert (Hec : extra_cells (bounds jet_cost t) <= usize_max).
  { clear - Hle. induction t; cbn [bounds extra_cells nb_child nb_comp nb_case nb_pair nb_disconnect
                        nb_iden nb_unit nb_nop nb_witness nb_fail nb_jet nb_word];
      unfold sat_add, usize_max in *; try lia. apply Hle. }
  destruct (check_program_iff prof (bw (src t)) (bw (tgt t)) (bounds jet_cost t) (Hle _) (Hle _) Hec Hef)
    as (W & _ & Wp & Wf).
  unfold for_program, for_program_with.
  destruct (check_program prof (bw (src t)) (bw (tgt t)) (bounds jet_cost t)) as [[]| |c|]; auto.
  - exact (Wp c eq_refl).
Qed.

(* the record [accepted] spelled out *)
Lemma accepted_exact prof jet_ty jet_cost t A B : typed jet_ty t A B ->
  check_program prof (bw A) (bw B) (bounds jet_cost t) = Ok tt ->
  small t /\ extra_cells (bounds jet_cost t) = cells t /\ extra_frames (bounds jet_cost t) = frames t /\
  bw A = width A /\ bw B = width B /\ width A + width B + cells t <= MAX_CELLS.
Proof.
  intros Ht Hc. destruct (check_accepted prof jet_ty jet_cost t A B Ht Hc) as [H1 H2 H3 H4 H5 H6]. auto 10.
Qed.

(* the marks part of the main lemma *)
Lemma machine_marks prof cap jet_sem jet_ty t A B :
  jets_typed jet_ty jet_sem -> typed jet_ty t A B -> small t ->
  forall a st k, pre cap st A B t -> enc_at (mem st) (rcur st) A a ->
    match eval jet_sem t a with
    | ROk b => exists st' n, mstar prof cap jet_sem n (st, CGoto t :: k) (st', k) /\ hw_ok st st' t
    | RErr e => exists st' n, mfail prof cap jet_sem n (st, CGoto t :: k) (err_of e, st') /\ hw_ok st st' t
    | RStuck => False
    end.
Proof.
  intros Hj Ht Hs a st k P Ha.
  pose proof (machine_correct prof cap jet_sem jet_ty t A B Hj Ht Hs a st k P Ha) as M.
  destruct (eval jet_sem t a).
  - destruct M as (st' & n & _ & H1 & H2). exists st', n. split; [exact H1|]. destruct H2; assumption.
  - destruct M as (st' & n & _ & H1 & H2). exists st', n. auto.
  - exact M.
Qed.
