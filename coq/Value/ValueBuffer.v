(* C10 - abstraction theorem for Value::buffer8_two_n_plus_one (and Value::ctx8 built from it):
   the loop that copies, for k = n down to 0, a marker bit and 2^k bytes whenever bit k of the
   length is set, builds the intended element of
     buffer_ty n = (1 + 2^(8*2^n)) x ... x (1 + 2^8)
   namely, per component, Some(the next 2^k bytes) or None. *)
From RS Require Import Lib.Tac Lib.Outcome Lib.Bits Lib.Sweep Lib.ListExtra Ty.Ty
  Value.ValueModel Value.ValueBits Value.ValueRefine Value.ValueCons Value.ValueInv Value.ValueWords.
Import ListNotations.
Local Open Scope N_scope.

(* ------------------------------------------------------------------ the intended element *)
Definition take_chunk (n : nat) (data : list N) : bool :=
  N.testbit (N.of_nat (length data)) (N.of_nat n).
Definition chunk_rest (n : nat) (data : list N) : list N :=
  if take_chunk n data then skipn (2 ^ n) data else data.

Fixpoint buffer_sval (n : nat) (data : list N) : sval :=
  let here := if take_chunk n data
              then SR (word_sval (n + 3) (bits_of_bytes (firstn (2 ^ n) data)))
              else SL SU in
  match n with
  | O => here
  | S k => SP here (buffer_sval k (chunk_rest n data))
  end.

(* its padded encoding with zero padding *)
Definition chunk_bits (n : nat) (data : list N) : list bool :=
  if take_chunk n data then true :: bits_of_bytes (firstn (2 ^ n) data)
  else repeat false (S (8 * 2 ^ n)).
Fixpoint buffer_bits (n : nat) (data : list N) : list bool :=
  chunk_bits n data ++ match n with O => [] | S k => buffer_bits k (chunk_rest n data) end.

Definition Wb (n : nat) : N := width (buffer_ty n).

Lemma pow2_N_nat n : N.to_nat (2 ^ N.of_nat n) = (2 ^ n)%nat.
Proof. rewrite <- (Nnat.Nat2N.id (2 ^ n)%nat). f_equal. rewrite Nat2N.inj_pow. reflexivity. Qed.

Lemma width_option_word j : width (option_ty (word_ty j)) = 1 + 2 ^ N.of_nat j.
Proof. unfold option_ty. cbn [width]. rewrite width_word. lia. Qed.

Lemma pow_n3 n : 2 ^ N.of_nat (n + 3) = 8 * 2 ^ N.of_nat n.
Proof. rewrite Nat2N.inj_add, N.pow_add_r. change (2 ^ N.of_nat 3) with 8. lia. Qed.

Lemma Wb_0 : Wb 0 = 9.
Proof. reflexivity. Qed.
Lemma Wb_S k : Wb (S k) = 1 + 8 * 2 ^ N.of_nat (S k) + Wb k.
Proof.
  unfold Wb. cbn [buffer_ty width]. fold (option_ty (word_ty (S k + 3))).
  rewrite width_option_word, pow_n3. reflexivity.
Qed.

(* bit k of a length below 2^(k+1) *)
Lemma take_chunk_spec n data : (length data < 2 ^ S n)%nat ->
  if take_chunk n data then (2 ^ n <= length data)%nat /\ (length (skipn (2 ^ n) data) < 2 ^ n)%nat
  else (length data < 2 ^ n)%nat.
Proof.
  intros H. unfold take_chunk.
  pose proof (N.testbit_spec' (N.of_nat (length data)) (N.of_nat n)) as Hs.
  assert (Hp : 2 ^ N.of_nat n = N.of_nat (2 ^ n)) by (rewrite Nat2N.inj_pow; reflexivity).
  assert (Hlt : N.of_nat (length data) < 2 * 2 ^ N.of_nat n).
  { rewrite Hp. cbn [Nat.pow] in H. lia. }
  assert (Hpos : 0 < 2 ^ N.of_nat n) by (rewrite Hp; pose proof (pow2_pos n); lia).
  assert (Hq : N.of_nat (length data) / 2 ^ N.of_nat n < 2) by (apply N.div_lt_upper_bound; lia).
  destruct (N.testbit (N.of_nat (length data)) (N.of_nat n)); cbn [b2n N.b2n] in Hs.
  - assert (Hd : N.of_nat (length data) / 2 ^ N.of_nat n = 1).
    { remember (N.of_nat (length data) / 2 ^ N.of_nat n) as q eqn:Eq. clear Eq.
      assert (q = 0 \/ q = 1) as [E|E] by lia; [rewrite E in Hs; discriminate|exact E]. }
    assert (2 ^ N.of_nat n <= N.of_nat (length data)).
    { destruct (N.le_gt_cases (2 ^ N.of_nat n) (N.of_nat (length data))) as [?|Hgt]; [assumption|].
      rewrite N.div_small in Hd by exact Hgt. discriminate. }
    rewrite skipn_length. cbn [Nat.pow] in H. lia.
  - assert (Hd : N.of_nat (length data) / 2 ^ N.of_nat n = 0).
    { remember (N.of_nat (length data) / 2 ^ N.of_nat n) as q eqn:Eq. clear Eq.
      assert (q = 0 \/ q = 1) as [E|E] by lia; [exact E|rewrite E in Hs; discriminate]. }
    apply N.div_small_iff in Hd; lia.
Qed.

Lemma chunk_rest_length n data : (length data < 2 ^ S n)%nat -> (length (chunk_rest n data) < 2 ^ n)%nat.
Proof.
  intros H. pose proof (take_chunk_spec n data H) as Hs. unfold chunk_rest.
  destruct (take_chunk n data); [apply Hs|exact Hs].
Qed.

Lemma chunk_bits_length n data : (length data < 2 ^ S n)%nat -> length (chunk_bits n data) = S (8 * 2 ^ n).
Proof.
  intros H. pose proof (take_chunk_spec n data H) as Hs. unfold chunk_bits.
  destruct (take_chunk n data); [|apply repeat_length].
  cbn [length]. f_equal. rewrite bits_of_bytes_bitrange, bitrange_length, firstn_length. lia.
Qed.

(* the bits are a padded encoding of the intended element *)
Lemma buffer_bits_padded : forall n data, (length data < 2 ^ S n)%nat ->
  padded_of (buffer_ty n) (buffer_sval n data) (buffer_bits n data).
Proof.
  assert (Hhere : forall n data, (length data < 2 ^ S n)%nat ->
            padded_of (option_ty (word_ty (n + 3)))
              (if take_chunk n data then SR (word_sval (n + 3) (bits_of_bytes (firstn (2 ^ n) data))) else SL SU)
              (chunk_bits n data)).
  { intros n data H. pose proof (take_chunk_spec n data H) as Hs. unfold chunk_bits, option_ty.
    destruct (take_chunk n data).
    - apply (PO_right One (word_ty (n + 3)) _ []).
      + unfold pad_right. cbn. lia.
      + assert (Hl : length (bits_of_bytes (firstn (2 ^ n) data)) = (2 ^ (n + 3))%nat).
        { rewrite bits_of_bytes_bitrange, bitrange_length, firstn_length.
          rewrite Nat.pow_add_r. cbn [Nat.pow]. lia. }
        rewrite <- (of_padded_word (n + 3) _ Hl). apply of_padded_total.
        rewrite width_word_nat. exact Hl.
    - replace (repeat false (S (8 * 2 ^ n))) with (false :: repeat false (8 * 2 ^ n) ++ []) by (rewrite app_nil_r; reflexivity).
      apply PO_left; [|constructor].
      rewrite repeat_length. unfold pad_left. cbn [width]. rewrite width_word, pow_n3.
      rewrite <- pow2_N_nat. lia. }
  induction n as [|n IH]; intros data H.
  - cbn [buffer_ty buffer_sval buffer_bits]. rewrite app_nil_r. apply (Hhere 0%nat data H).
  - cbn [buffer_ty buffer_sval buffer_bits]. constructor.
    + apply (Hhere (S n) data H).
    + apply IH. apply chunk_rest_length. exact H.
Qed.

(* ------------------------------------------------------------------ the loop *)
Lemma land_pow2_test a n : negb (N.land a (2 ^ n) =? 0) = N.testbit a n.
Proof.
  destruct (N.testbit a n) eqn:E.
  - apply negb_true_iff, N.eqb_neq. intros H.
    assert (N.testbit (N.land a (2 ^ n)) n = true) by (rewrite N.land_spec, E, N.pow2_bits_true; reflexivity).
    rewrite H, N.bits_0 in H0. discriminate.
  - apply negb_false_iff, N.eqb_eq. apply N.bits_inj. intros m. rewrite N.land_spec, N.bits_0.
    destruct (N.eq_dec n m) as [<-|Hne]; [rewrite E; reflexivity|].
    rewrite N.pow2_bits_false by exact Hne. apply andb_false_r.
Qed.

Lemma getbit_128 : getbit [128] 0 = true.
Proof. reflexivity. Qed.

(* one iteration: the marker bit and the chunk, or nothing *)
Lemma chunk_step n data dest o : bytes_ok data -> bytes_ok dest -> (length data < 2 ^ S n)%nat ->
  o + 1 + 8 * 2 ^ N.of_nat n <= blen dest -> (forall p, o <= p -> getbit dest p = false) ->
  exists dest1,
    (if negb (N.land (N.of_nat (length data)) (2 ^ N.of_nat n) =? 0) then
       obind (copy_bits [128] 0 dest o 1) (fun d1 =>
       obind (copy_bits (firstn (N.to_nat (2 ^ N.of_nat n)) data) 0 d1 (o + 1) (8 * 2 ^ N.of_nat n)) (fun d2 =>
       Ok (d2, skipn (N.to_nat (2 ^ N.of_nat n)) data)))
     else Ok (dest, data)) = Ok (dest1, chunk_rest n data) /\
    bytes_ok dest1 /\ length dest1 = length dest /\
    bitrange dest1 o (S (8 * 2 ^ n)) = chunk_bits n data /\
    (forall p, p < o -> getbit dest1 p = getbit dest p) /\
    (forall p, o + 1 + 8 * 2 ^ N.of_nat n <= p -> getbit dest1 p = false).
Proof.
  intros Hd Hb Hlen Hfit Hz. pose proof (take_chunk_spec n data Hlen) as Hs.
  rewrite land_pow2_test. fold (take_chunk n data). unfold chunk_rest, chunk_bits. rewrite pow2_N_nat.
  destruct (take_chunk n data).
  - destruct Hs as [Hge Hrest].
    destruct (copy_bits_spec [128] 0 dest o 1 ltac:(repeat constructor) Hb ltac:(vm_compute; discriminate) ltac:(lia))
      as (d1 & E1 & L1 & O1 & G1).
    set (first := firstn (2 ^ n) data).
    assert (Hfl : length first = (2 ^ n)%nat) by (unfold first; rewrite firstn_length; lia).
    assert (Hfo : bytes_ok first).
    { unfold first, bytes_ok in *. rewrite Forall_forall in *. intros x Hx. apply Hd.
      rewrite <- (firstn_skipn (2 ^ n) data). apply in_or_app. left. exact Hx. }
    assert (Hp : 2 ^ N.of_nat n = N.of_nat (2 ^ n)) by (rewrite Nat2N.inj_pow; reflexivity).
    destruct (copy_bits_spec first 0 d1 (o + 1) (8 * 2 ^ N.of_nat n) Hfo O1
                ltac:(unfold blen; rewrite Hfl; lia) ltac:(unfold blen in *; rewrite L1; lia))
      as (d2 & E2 & L2 & O2 & G2).
    exists d2. rewrite E1. cbn [obind]. rewrite E2. cbn [obind].
    split; [reflexivity|]. split; [exact O2|]. split; [congruence|].
    split; [|split].
    + cbn [bitrange]. f_equal.
      * rewrite G2, G1.
        replace ((o + 1 <=? o) && (o <? o + 1 + 8 * 2 ^ N.of_nat n)) with false
          by (symmetry; apply andb_false_iff; left; apply N.leb_gt; lia).
        replace ((o <=? o) && (o <? o + 1)) with true
          by (symmetry; apply andb_true_iff; split; [apply N.leb_le|apply N.ltb_lt]; lia).
        rewrite N.add_0_l, N.sub_diag, getbit_128. apply orb_true_r.
      * rewrite bits_of_bytes_bitrange, Hfl. apply bitrange_ext. intros i Hi.
        rewrite G2.
        replace ((o + 1 <=? o + 1 + N.of_nat i) && (o + 1 + N.of_nat i <? o + 1 + 8 * 2 ^ N.of_nat n)) with true
          by (symmetry; apply andb_true_iff; split; [apply N.leb_le|apply N.ltb_lt]; lia).
        rewrite G1.
        replace ((o <=? o + 1 + N.of_nat i) && (o + 1 + N.of_nat i <? o + 1)) with false
          by (symmetry; apply andb_false_iff; right; apply N.ltb_ge; lia).
        rewrite (Hz (o + 1 + N.of_nat i)) by lia. cbn [orb]. f_equal. lia.
    + intros p Hp0. rewrite G2, G1.
      replace ((o + 1 <=? p) && (p <? o + 1 + 8 * 2 ^ N.of_nat n)) with false
        by (symmetry; apply andb_false_iff; left; apply N.leb_gt; lia).
      replace ((o <=? p) && (p <? o + 1)) with false
        by (symmetry; apply andb_false_iff; left; apply N.leb_gt; lia).
      reflexivity.
    + intros p Hp0. rewrite G2, G1.
      replace ((o + 1 <=? p) && (p <? o + 1 + 8 * 2 ^ N.of_nat n)) with false
        by (symmetry; apply andb_false_iff; right; apply N.ltb_ge; lia).
      replace ((o <=? p) && (p <? o + 1)) with false
        by (symmetry; apply andb_false_iff; right; apply N.ltb_ge; lia).
      apply Hz. lia.
  - exists dest. split; [reflexivity|]. split; [exact Hb|]. split; [reflexivity|].
    split; [|split].
    + rewrite <- (bitrange_zeros 0 (S (8 * 2 ^ n)) o). apply bitrange_ext. intros i Hi.
      rewrite Hz by lia. rewrite getbit_zeros. reflexivity.
    + reflexivity.
    + intros p Hp0. apply Hz. lia.
Qed.

Lemma Wb_nat_S k : N.to_nat (Wb (S k)) = (S (8 * 2 ^ S k) + N.to_nat (Wb k))%nat.
Proof.
  rewrite Wb_S. assert (Hp : 2 ^ N.of_nat (S k) = N.of_nat (2 ^ S k)) by (rewrite Nat2N.inj_pow; reflexivity).
  rewrite Hp. lia.
Qed.

(* the whole loop, from component n down to component 0 *)
Lemma buffer8_loop_spec : forall n data dest o, bytes_ok data -> bytes_ok dest ->
  (length data < 2 ^ S n)%nat -> o + Wb n <= blen dest -> (forall p, o <= p -> getbit dest p = false) ->
  exists dest', buffer8_loop n data dest o = Ok (dest', o + Wb n) /\
    bytes_ok dest' /\ length dest' = length dest /\
    bitrange dest' o (N.to_nat (Wb n)) = buffer_bits n data /\
    (forall p, p < o -> getbit dest' p = getbit dest p).
Proof.
  induction n as [|n IH]; intros data dest o Hd Hb Hlen Hfit Hz.
  - rewrite Wb_0 in *.
    assert (Hf0 : o + 1 + 8 * 2 ^ N.of_nat 0 <= blen dest) by (change (2 ^ N.of_nat 0) with 1; lia).
    destruct (chunk_step 0 data dest o Hd Hb Hlen Hf0 Hz) as (d1 & E & O1 & L1 & B1 & P1 & _).
    exists d1. cbn [buffer8_loop]. change (2 ^ N.of_nat 0) with 1 in *.
    cbn [N.of_nat] in E. change (2 ^ 0) with 1 in E. rewrite E. cbn [obind].
    split; [f_equal; f_equal; lia|]. split; [exact O1|]. split; [exact L1|]. split; [|exact P1].
    cbn [buffer_bits]. rewrite app_nil_r. exact B1.
  - assert (Hfit1 : o + 1 + 8 * 2 ^ N.of_nat (S n) <= blen dest) by (rewrite Wb_S in Hfit; lia).
    destruct (chunk_step (S n) data dest o Hd Hb Hlen Hfit1 Hz) as (d1 & E & O1 & L1 & B1 & P1 & Z1).
    assert (Hd1 : bytes_ok (chunk_rest (S n) data)).
    { unfold chunk_rest. destruct (take_chunk (S n) data); [|exact Hd].
      unfold bytes_ok in *. rewrite Forall_forall in *. intros x Hx. apply Hd.
      rewrite <- (firstn_skipn (2 ^ S n) data). apply in_or_app. right. exact Hx. }
    destruct (IH (chunk_rest (S n) data) d1 (o + 1 + 8 * 2 ^ N.of_nat (S n)) Hd1 O1
                (chunk_rest_length (S n) data Hlen)
                ltac:(unfold blen in *; rewrite L1; rewrite Wb_S in Hfit; lia)
                ltac:(intros p Hp; apply Z1; lia))
      as (d2 & E2 & O2 & L2 & B2 & P2).
    exists d2. cbn [buffer8_loop]. rewrite E. cbn [obind]. rewrite E2.
    split; [f_equal; f_equal; rewrite Wb_S; lia|]. split; [exact O2|]. split; [congruence|]. split.
    + rewrite Wb_nat_S, bitrange_app. cbn [buffer_bits]. f_equal.
      * rewrite <- B1. apply bitrange_ext. intros i Hi. apply P2.
        assert (Hp : 2 ^ N.of_nat (S n) = N.of_nat (2 ^ S n)) by (rewrite Nat2N.inj_pow; reflexivity).
        rewrite Hp. lia.
      * rewrite <- B2. f_equal.
        assert (Hp : 2 ^ N.of_nat (S n) = N.of_nat (2 ^ S n)) by (rewrite Nat2N.inj_pow; reflexivity).
        rewrite Hp. lia.
    + intros p Hp. rewrite P2 by lia. apply P1. exact Hp.
Qed.

(* THEOREM: buffer8_two_n_plus_one builds the intended element; longer slices are refused *)
Theorem v_buffer8_abs n data : small (buffer_ty n) -> bytes_ok data ->
  if (2 ^ S n <=? length data)%nat then v_buffer8 n data = Ok None
  else exists v, v_buffer8 n data = Ok (Some v) /\ WF v /\ vty v = buffer_ty n /\
                 vbits v = buffer_bits n data /\ absv v = buffer_sval n data.
Proof.
  intros Hs Hd. unfold v_buffer8.
  assert (Hp : 2 ^ N.of_nat n = N.of_nat (2 ^ n)) by (rewrite Nat2N.inj_pow; reflexivity).
  destruct (2 ^ S n <=? length data)%nat eqn:Hlen.
  - apply Nat.leb_le in Hlen. cbn [Nat.pow] in Hlen.
    replace (2 * 2 ^ N.of_nat n - 1 <? N.of_nat (length data)) with true; [reflexivity|].
    symmetry. apply N.ltb_lt. pose proof (pow2_pos n). lia.
  - apply Nat.leb_gt in Hlen.
    replace (2 * 2 ^ N.of_nat n - 1 <? N.of_nat (length data)) with false
      by (symmetry; apply N.ltb_ge; cbn [Nat.pow] in Hlen; pose proof (pow2_pos n); lia).
    rewrite (bw_small _ Hs). fold (Wb n).
    set (dest := zeros (div_ceil8 (Wb n))).
    assert (Hfit : 0 + Wb n <= blen dest).
    { unfold dest. rewrite blen_zeros. unfold div_ceil8. lia. }
    destruct (buffer8_loop_spec n data dest 0 Hd (bytes_ok_zeros _) Hlen Hfit
                ltac:(intros p _; apply getbit_zeros)) as (d & E & O & L & B & _).
    rewrite E. cbn [obind]. rewrite N.add_0_l, N.eqb_refl.
    eexists. split; [reflexivity|].
    assert (HW : WF (mkV d 0 (buffer_ty n))).
    { split; [exact O|]. split; [|exact Hs]. cbn [buf off vty]. unfold blen in *. rewrite L. exact Hfit. }
    split; [exact HW|]. split; [reflexivity|].
    assert (Hb : vbits (mkV d 0 (buffer_ty n)) = buffer_bits n data) by exact B.
    split; [exact Hb|]. apply absv_unique. rewrite Hb. cbn [vty].
    apply buffer_bits_padded. exact Hlen.
Qed.

(* the hypotheses hold for the SHA-256 block buffer (n = 5: up to 63 bytes) *)
Lemma small_buffer5 : small (buffer_ty 5).
Proof. vm_compute. discriminate. Qed.

(* ------------------------------------------------------------------ Value::ctx8 *)
(* Self::product(buffer8_two_n_plus_one(5, buffer)?, Self::product(Self::u64(bytes_hashed), Self::u256(midstate))) *)
Definition v_ctx8 (midstate : list N) (bytes_hashed : N) (buffer : list N) : res (option value) :=
  obind (v_buffer8 5 buffer) (fun ob =>
    match ob with
    | None => Ok None
    | Some b =>
        obind (v_word_int 6 bytes_hashed) (fun c =>
        obind (v_product c (v_word_bytes 8 midstate)) (fun r =>
        obind (v_product b r) (fun v => Ok (Some v))))
    end).

Definition ctx8_ty : ty := Prod (buffer_ty 5) (Prod (word_ty 6) (word_ty 8)).

Theorem v_ctx8_abs midstate bytes_hashed buffer : bytes_ok midstate -> length midstate = 32%nat ->
  bytes_ok buffer ->
  if (64 <=? length buffer)%nat then v_ctx8 midstate bytes_hashed buffer = Ok None
  else exists v, v_ctx8 midstate bytes_hashed buffer = Ok (Some v) /\ WF v /\ vty v = ctx8_ty /\
         absv v = SP (buffer_sval 5 buffer)
                     (SP (word_sval 6 (bits_be 64 bytes_hashed)) (word_sval 8 (bits_of_bytes midstate))).
Proof.
  intros Hm Hml Hb. unfold v_ctx8.
  pose proof (v_buffer8_abs 5 buffer small_buffer5 Hb) as HB. change (2 ^ 6)%nat with 64%nat in HB.
  destruct (64 <=? length buffer)%nat; [rewrite HB; reflexivity|].
  destruct HB as (b & Eb & HWb & Htb & _ & Hab). rewrite Eb. cbn [obind].
  assert (Ec : exists c, v_word_int 6 bytes_hashed = Ok c) by (eexists; reflexivity).
  destruct Ec as (c & Ec). rewrite Ec. cbn [obind].
  destruct (v_word_int_abs 6 bytes_hashed c ltac:(lia) Ec) as (HWc & Htc & _ & Hac).
  destruct (v_word_bytes_abs 8 midstate ltac:(lia) ltac:(lia) Hm Hml) as (HWm & Htm & _ & Ham).
  destruct (v_product_spec c (v_word_bytes 8 midstate) HWc HWm) as (r & Er & HWr & Htr & _ & Har).
  { rewrite Htc, Htm. vm_compute. discriminate. }
  rewrite Er. cbn [obind].
  destruct (v_product_spec b r HWb HWr) as (v & Ev & HWv & Htv & _ & Hav).
  { rewrite Htb, Htr, Htc, Htm. vm_compute. discriminate. }
  rewrite Ev. cbn [obind]. exists v. split; [reflexivity|]. split; [exact HWv|].
  split; [rewrite Htv, Htb, Htr, Htc, Htm; reflexivity|].
  rewrite Hav, Har, Hab, Hac, Ham. reflexivity.
Qed.
