//! helpers shared by the harness commands
use std::panic::{catch_unwind, AssertUnwindSafe};

pub fn unhex(s: &str) -> Vec<u8> {
    if s == "-" {
        return vec![];
    }
    (0..s.len() / 2)
        .map(|i| u8::from_str_radix(&s[2 * i..2 * i + 2], 16).expect("hex"))
        .collect()
}

pub fn hex(b: &[u8]) -> String {
    if b.is_empty() {
        return "-".to_string();
    }
    b.iter().map(|x| format!("{:02x}", x)).collect()
}

pub fn bits_of_str(s: &str) -> Vec<bool> {
    if s == "-" {
        return vec![];
    }
    s.chars().map(|c| c == '1').collect()
}

pub fn join<T: std::fmt::Display>(v: &[T]) -> String {
    v.iter().map(|x| x.to_string()).collect::<Vec<_>>().join(" ")
}

/// run f; a panic becomes None
pub fn guarded<T>(f: impl FnOnce() -> T) -> Option<T> {
    catch_unwind(AssertUnwindSafe(f)).ok()
}
