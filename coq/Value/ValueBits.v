(* Bit-level view of a byte buffer: [getbit l i] is bit i (most significant first) of the
   byte list l, [bitrange l o n] the n bits from bit offset o.  Lemmas about updating a
   byte, about the u8 shift/mask expressions of value.rs (each by a finite sweep over all
   bytes and offsets) and about the big-endian packing done by the decoders. *)
From RS Require Import Lib.Tac Lib.Outcome Lib.Bits Lib.Sweep Lib.ListExtra Ty.Ty Value.ValueModel.
Import ListNotations.
Local Open Scope N_scope.

Definition getbit (l : list N) (i : N) : bool :=
  N.testbit (nth (N.to_nat (i / 8)) l 0) (7 - i mod 8).

Fixpoint bitrange (l : list N) (o : N) (n : nat) : list bool :=
  match n with
  | O => []
  | S k => getbit l o :: bitrange l (o + 1) k
  end.

Definition bytes_ok (l : list N) : Prop := Forall (fun b => b < 256) l.

Definition blen (l : list N) : N := 8 * N.of_nat (length l).

(* ------------------------------------------------------------------ bytes_ok *)

Lemma bytes_ok_nth l i : bytes_ok l -> nth i l 0 < 256.
Proof.
  intros H. destruct (Nat.lt_ge_cases i (length l)) as [Hi|Hi].
  - unfold bytes_ok in H. rewrite Forall_forall in H. apply H, nth_In, Hi.
  - rewrite nth_overflow by exact Hi. lia.
Qed.

Lemma bytes_ok_app l1 l2 : bytes_ok l1 -> bytes_ok l2 -> bytes_ok (l1 ++ l2).
Proof. intros. apply Forall_app; auto. Qed.

Lemma bytes_ok_zeros n : bytes_ok (zeros n).
Proof. unfold zeros. apply Forall_forall. intros x Hx. apply repeat_spec in Hx. subst. lia. Qed.

Lemma bytes_ok_set_nth l i x : bytes_ok l -> x < 256 -> bytes_ok (set_nth l i x).
Proof.
  revert i; induction l as [|a r IH]; intros i Hl Hx; cbn; [constructor|].
  inversion Hl; subst. destruct i; constructor; auto. apply IH; auto.
Qed.

Lemma set_nth_length l : forall i x, length (set_nth l i x) = length l.
Proof. induction l as [|a r IH]; intros [|i] x; cbn; auto. Qed.

Lemma nth_set_nth l : forall i j x, (i < length l)%nat ->
  nth j (set_nth l i x) 0 = if Nat.eqb j i then x else nth j l 0.
Proof.
  induction l as [|a r IH]; intros i j x Hi; [cbn in Hi; lia|].
  destruct i as [|i]; destruct j as [|j]; cbn [set_nth nth Nat.eqb]; auto.
  apply IH. cbn in Hi. lia.
Qed.

Lemma get_byte_some l i : (N.to_nat i < length l)%nat -> get_byte l i = Some (nth (N.to_nat i) l 0).
Proof. intros H. unfold get_byte. apply nth_error_nth'. exact H. Qed.

Lemma get_byte_none l i : (length l <= N.to_nat i)%nat -> get_byte l i = None.
Proof. intros H. unfold get_byte. apply nth_error_None. exact H. Qed.

Lemma get_byte_nth l i : match get_byte l i with Some b => b | None => 0 end = nth (N.to_nat i) l 0.
Proof.
  destruct (Nat.lt_ge_cases (N.to_nat i) (length l)) as [H|H].
  - rewrite get_byte_some by exact H. reflexivity.
  - rewrite get_byte_none by exact H. rewrite nth_overflow by exact H. reflexivity.
Qed.

(* ------------------------------------------------------------------ getbit *)

Lemma getbit_cons b l i : getbit (b :: l) (i + 8) = getbit l i.
Proof.
  unfold getbit.
  replace ((i + 8) / 8) with (i / 8 + 1) by lia.
  replace ((i + 8) mod 8) with (i mod 8) by lia.
  replace (N.to_nat (i / 8 + 1)) with (S (N.to_nat (i / 8))) by lia.
  reflexivity.
Qed.

Lemma getbit_head b l i : i < 8 -> getbit (b :: l) i = N.testbit b (7 - i).
Proof.
  intros H. unfold getbit.
  replace (i / 8) with 0 by lia. replace (i mod 8) with i by lia. reflexivity.
Qed.

Lemma getbit_beyond l i : blen l <= i -> getbit l i = false.
Proof.
  intros H. unfold getbit, blen in *. rewrite nth_overflow by lia. apply N.bits_0.
Qed.

Lemma getbit_app_l l1 l2 i : i < blen l1 -> getbit (l1 ++ l2) i = getbit l1 i.
Proof.
  intros H. unfold getbit, blen in *. rewrite app_nth1 by lia. reflexivity.
Qed.

Lemma getbit_app_r l1 l2 i : getbit (l1 ++ l2) (blen l1 + i) = getbit l2 i.
Proof.
  unfold getbit, blen.
  replace ((8 * N.of_nat (length l1) + i) / 8) with (N.of_nat (length l1) + i / 8) by lia.
  replace ((8 * N.of_nat (length l1) + i) mod 8) with (i mod 8) by lia.
  rewrite app_nth2 by lia.
  replace (N.to_nat (N.of_nat (length l1) + i / 8) - length l1)%nat with (N.to_nat (i / 8)) by lia.
  reflexivity.
Qed.

Lemma getbit_zeros n i : getbit (zeros n) i = false.
Proof.
  unfold getbit, zeros.
  destruct (Nat.lt_ge_cases (N.to_nat (i / 8)) (N.to_nat n)) as [H|H].
  - rewrite nth_repeat. apply N.bits_0.
  - rewrite nth_overflow by (rewrite repeat_length; lia). apply N.bits_0.
Qed.

Lemma getbit_set_byte l j x i : (N.to_nat j < length l)%nat ->
  getbit (set_byte l j x) i = if i / 8 =? j then N.testbit x (7 - i mod 8) else getbit l i.
Proof.
  intros Hj. unfold getbit, set_byte. rewrite nth_set_nth by exact Hj.
  destruct (i / 8 =? j) eqn:E.
  - apply N.eqb_eq in E. subst j. rewrite Nat.eqb_refl. reflexivity.
  - apply N.eqb_neq in E. destruct (Nat.eqb_spec (N.to_nat (i / 8)) (N.to_nat j)); [lia|reflexivity].
Qed.

(* ------------------------------------------------------------------ bitrange *)

Lemma bitrange_length l : forall n o, length (bitrange l o n) = n.
Proof. induction n as [|n IH]; intros o; cbn; auto. Qed.

Lemma bitrange_app l : forall n m o,
  bitrange l o (n + m) = bitrange l o n ++ bitrange l (o + N.of_nat n) m.
Proof.
  induction n as [|n IH]; intros m o.
  - cbn. f_equal. lia.
  - cbn [bitrange Nat.add app]. rewrite IH. do 3 f_equal. lia.
Qed.

Lemma bitrange_ext l l' : forall n o o',
  (forall i, (i < n)%nat -> getbit l (o + N.of_nat i) = getbit l' (o' + N.of_nat i)) ->
  bitrange l o n = bitrange l' o' n.
Proof.
  induction n as [|n IH]; intros o o' H; [reflexivity|].
  cbn [bitrange]. f_equal.
  - specialize (H 0%nat ltac:(lia)). rewrite !N.add_0_r in H. exact H.
  - apply IH. intros i Hi. specialize (H (S i) ltac:(lia)).
    replace (o + 1 + N.of_nat i) with (o + N.of_nat (S i)) by lia.
    replace (o' + 1 + N.of_nat i) with (o' + N.of_nat (S i)) by lia. exact H.
Qed.

Lemma nth_bitrange l : forall n o i, (i < n)%nat ->
  nth i (bitrange l o n) false = getbit l (o + N.of_nat i).
Proof.
  induction n as [|n IH]; intros o i Hi; [lia|].
  destruct i as [|i]; cbn [bitrange nth].
  - f_equal. lia.
  - rewrite IH by lia. f_equal. lia.
Qed.

Lemma firstn_bitrange l k n o : (k <= n)%nat -> firstn k (bitrange l o n) = bitrange l o k.
Proof.
  intros H. replace n with (k + (n - k))%nat by lia. rewrite bitrange_app.
  rewrite firstn_app, bitrange_length, Nat.sub_diag, firstn_O, app_nil_r.
  apply firstn_all2. rewrite bitrange_length. lia.
Qed.

Lemma skipn_bitrange l k n o : (k <= n)%nat ->
  skipn k (bitrange l o n) = bitrange l (o + N.of_nat k) (n - k).
Proof.
  intros H. replace n with (k + (n - k))%nat at 1 by lia. rewrite bitrange_app.
  rewrite skipn_app, bitrange_length, Nat.sub_diag. cbn [skipn].
  rewrite skipn_all2 by (rewrite bitrange_length; lia). reflexivity.
Qed.

Lemma bitrange_cons b l : forall n o, bitrange (b :: l) (o + 8) n = bitrange l o n.
Proof.
  intros n o. apply bitrange_ext. intros i _.
  replace (o + 8 + N.of_nat i) with (o + N.of_nat i + 8) by lia. apply getbit_cons.
Qed.

Lemma bitrange_zeros k : forall n o, bitrange (zeros k) o n = repeat false n.
Proof.
  induction n as [|n IH]; intros o; cbn [bitrange repeat]; [reflexivity|].
  rewrite getbit_zeros, IH. reflexivity.
Qed.

Lemma bitrange_app_l l1 l2 n o : o + N.of_nat n <= blen l1 ->
  bitrange (l1 ++ l2) o n = bitrange l1 o n.
Proof. intros H. apply bitrange_ext. intros i Hi. apply getbit_app_l. lia. Qed.

Lemma bitrange_app_r l1 l2 n o :
  bitrange (l1 ++ l2) (blen l1 + o) n = bitrange l2 o n.
Proof.
  apply bitrange_ext. intros i _. rewrite <- N.add_assoc. apply getbit_app_r.
Qed.

(* the eight bits of one byte *)
Lemma bitrange_byte b : bitrange [b] 0 8 = bits_be 8 b.
Proof.
  cbn [bitrange bits_be]. rewrite !getbit_head by lia.
  repeat (f_equal; try lia).
Qed.

Lemma bits_of_bytes_bitrange l : bits_of_bytes l = bitrange l 0 (8 * length l).
Proof.
  induction l as [|b r IH]; [reflexivity|].
  unfold bits_of_bytes in *. cbn [flat_map]. rewrite IH.
  replace (8 * length (b :: r))%nat with (8 + 8 * length r)%nat by (cbn [length]; lia).
  rewrite bitrange_app.
  assert (H1 : bits_of_byte b = bitrange (b :: r) 0 8).
  { unfold bits_of_byte. rewrite <- bitrange_byte. apply bitrange_ext. intros i Hi.
    rewrite !getbit_head by lia. reflexivity. }
  assert (H2 : bitrange (b :: r) (0 + N.of_nat 8) (8 * length r) = bitrange r 0 (8 * length r)).
  { change (N.of_nat 8) with 8. apply bitrange_cons. }
  rewrite H1, H2. reflexivity.
Qed.

(* ------------------------------------------------------------------ u8 shift / mask facts (finite sweeps) *)

(* ValueRef::first_bit: x & mask == mask *)
Lemma first_bit_sweep x o : x < 256 -> o < 8 ->
  (N.land x (if o =? 0 then 128 else N.shiftl 1 (7 - o)) =? (if o =? 0 then 128 else N.shiftl 1 (7 - o)))
  = N.testbit x (7 - o).
Proof.
  intros Hx Ho.
  pose proof (sweep2 256 8
    (fun x o => Bool.eqb
       (N.land x (if o =? 0 then 128 else N.shiftl 1 (7 - o)) =? (if o =? 0 then 128 else N.shiftl 1 (7 - o)))
       (N.testbit x (7 - o)))
    ltac:(vm_compute; reflexivity) x o Hx Ho) as H.
  apply eqb_prop in H. exact H.
Qed.

(* RawByteIter::next: (ret1 << o) | (ret2 >> (8 - o)); the two halves separately *)
Lemma shl8_sweep r o j : r < 256 -> o < 8 -> j < 8 ->
  N.testbit (shl8 r o) (7 - j) = (o + j <? 8) && N.testbit r (7 - (o + j)) /\ shl8 r o < 256.
Proof.
  intros Hr Ho Hj.
  pose proof (sweep3 256 8 8
    (fun r o j => Bool.eqb (N.testbit (shl8 r o) (7 - j)) ((o + j <? 8) && N.testbit r (7 - (o + j)))
                  && (shl8 r o <? 256))
    ltac:(vm_compute; reflexivity) r o j Hr Ho Hj) as H.
  cbv beta in H. apply andb_true_iff in H. destruct H as [H1 H2].
  apply eqb_prop in H1. apply N.ltb_lt in H2. auto.
Qed.

Lemma shr_sweep r o j : r < 256 -> 1 <= o -> o < 8 -> j < 8 ->
  N.testbit (N.shiftr r (8 - o)) (7 - j) = (8 <=? o + j) && N.testbit r (7 - (o + j - 8))
  /\ N.shiftr r (8 - o) < 256.
Proof.
  intros Hr Ho1 Ho Hj.
  pose proof (sweep3 256 8 8
    (fun r o j => (o =? 0) ||
       (Bool.eqb (N.testbit (N.shiftr r (8 - o)) (7 - j)) ((8 <=? o + j) && N.testbit r (7 - (o + j - 8)))
        && (N.shiftr r (8 - o) <? 256)))
    ltac:(vm_compute; reflexivity) r o j Hr Ho Hj) as H.
  cbv beta in H. apply orb_true_iff in H. destruct H as [H|H]; [apply N.eqb_eq in H; lia|].
  apply andb_true_iff in H. destruct H as [H1 H2].
  apply eqb_prop in H1. apply N.ltb_lt in H2. auto.
Qed.

Lemma lor_lt_256 a b : a < 256 -> b < 256 -> N.lor a b < 256.
Proof.
  intros Ha Hb.
  pose proof (sweep2 256 256 (fun a b => N.lor a b <? 256) ltac:(vm_compute; reflexivity) a b Ha Hb) as H.
  apply N.ltb_lt in H. exact H.
Qed.

(* right_shift_1: reading, setting and clearing the bit at position m of a byte *)
Lemma rs1_sweep b m k : b < 256 -> m < 8 -> k < 8 ->
  let mask := N.shiftl 1 (7 - m) in
  negb (N.land b mask =? 0) = N.testbit b (7 - m) /\
  N.testbit (N.lor b mask) (7 - k) = N.testbit b (7 - k) || (k =? m) /\
  N.testbit (N.land b (not8 mask)) (7 - k) = N.testbit b (7 - k) && negb (k =? m) /\
  N.lor b mask < 256 /\ N.land b (not8 mask) < 256.
Proof.
  intros Hb Hm Hk.
  pose proof (sweep3 256 8 8
    (fun b m k =>
       let mask := N.shiftl 1 (7 - m) in
       Bool.eqb (negb (N.land b mask =? 0)) (N.testbit b (7 - m)) &&
       Bool.eqb (N.testbit (N.lor b mask) (7 - k)) (N.testbit b (7 - k) || (k =? m)) &&
       Bool.eqb (N.testbit (N.land b (not8 mask)) (7 - k)) (N.testbit b (7 - k) && negb (k =? m)) &&
       (N.lor b mask <? 256) && (N.land b (not8 mask) <? 256))
    ltac:(vm_compute; reflexivity) b m k Hb Hm Hk) as H.
  cbv beta zeta in H.
  repeat (apply andb_true_iff in H; destruct H as [H ?]).
  repeat match goal with
         | X : Bool.eqb _ _ = true |- _ => apply eqb_prop in X
         | X : (_ <? _) = true |- _ => apply N.ltb_lt in X
         end.
  cbv zeta. auto.
Qed.

(* copy_bits: extracting one bit of the source byte and or-ing it into the destination byte *)
Lemma copy_bit_sweep s d ms md k : s < 256 -> d < 256 -> ms < 8 -> md < 8 -> k < 8 ->
  let bit := N.land (N.shiftr s (7 - ms)) 1 in
  let d' := N.lor d (shl8 bit (7 - md)) in
  N.testbit d' (7 - k) = N.testbit d (7 - k) || ((k =? md) && N.testbit s (7 - ms)) /\ d' < 256.
Proof.
  intros Hs Hd Hms Hmd Hk.
  (* the source byte only matters through the extracted bit *)
  assert (Hbit : N.land (N.shiftr s (7 - ms)) 1 = b2n (N.testbit s (7 - ms))).
  { pose proof (sweep2 256 8
      (fun s ms => N.land (N.shiftr s (7 - ms)) 1 =? b2n (N.testbit s (7 - ms)))
      ltac:(vm_compute; reflexivity) s ms Hs Hms) as H.
    apply N.eqb_eq in H. exact H. }
  cbv zeta. rewrite Hbit.
  pose proof (sweep3 256 8 8
    (fun d md k =>
       forallb (fun bit : bool =>
         Bool.eqb (N.testbit (N.lor d (shl8 (b2n bit) (7 - md))) (7 - k))
                  (N.testbit d (7 - k) || ((k =? md) && bit))
         && (N.lor d (shl8 (b2n bit) (7 - md)) <? 256)) [false; true])
    ltac:(vm_compute; reflexivity) d md k Hd Hmd Hk) as H.
  cbv beta in H. rewrite forallb_forall in H.
  specialize (H (N.testbit s (7 - ms))).
  assert (Hin : In (N.testbit s (7 - ms)) [false; true]) by (destruct (N.testbit s (7 - ms)); cbn; auto).
  specialize (H Hin). apply andb_true_iff in H. destruct H as [H1 H2].
  apply eqb_prop in H1. apply N.ltb_lt in H2. auto.
Qed.

(* from_padded_bits: the bits of val_be of eight bits *)
Lemma val_be8_bits (l : list bool) : length l = 8%nat ->
  val_be l < 256 /\ bitrange [val_be l] 0 8 = l.
Proof.
  intros Hl. split.
  - unfold val_be. pose proof (val_be_acc_bound l 0) as H. rewrite Hl in H.
    change (2 ^ N.of_nat 8) with 256 in H. lia.
  - rewrite bitrange_byte. unfold val_be. rewrite <- Hl. apply bits_be_val_be.
Qed.

(* the loop that assembles the final partial byte *)
Lemma read_last_app : forall n i q rest a, length q = n ->
  read_last n i (q ++ rest) a =
  match read_last n i q a with Some (x, _) => Some (x, rest) | None => None end.
Proof.
  induction n as [|n IH]; intros i q rest a Hq.
  - destruct q; [reflexivity|discriminate].
  - destruct q as [|b q]; [discriminate|]. cbn [read_last app]. apply IH. cbn in Hq. lia.
Qed.

Lemma read_last_sweep m x : m < 8 -> x < 128 ->
  match read_last (N.to_nat m) 0 (bits_be (N.to_nat m) x) 0 with
  | Some (last, _) => last < 256 /\ bitrange [last] 0 (N.to_nat m) = bits_be (N.to_nat m) x
  | None => False
  end.
Proof.
  intros Hm Hx.
  pose proof (sweep2 8 128
    (fun m x => match read_last (N.to_nat m) 0 (bits_be (N.to_nat m) x) 0 with
                | Some (last, _) => (last <? 256) &&
                    list_beq Bool.eqb (bitrange [last] 0 (N.to_nat m)) (bits_be (N.to_nat m) x)
                | None => false
                end)
    ltac:(vm_compute; reflexivity) m x Hm Hx) as H.
  cbv beta in H.
  destruct (read_last (N.to_nat m) 0 (bits_be (N.to_nat m) x) 0) as [[last r]|]; [|discriminate].
  apply andb_true_iff in H. destruct H as [H1 H2].
  apply N.ltb_lt in H1. apply list_beq_bool in H2. auto.
Qed.

Lemma read_last_spec (q rest : list bool) : (length q < 8)%nat ->
  exists last, read_last (length q) 0 (q ++ rest) 0 = Some (last, rest) /\ last < 256 /\
               bitrange [last] 0 (length q) = q.
Proof.
  intros Hq.
  rewrite read_last_app by reflexivity.
  pose proof (bits_be_val_be q 0) as Hb. fold (val_be q) in Hb.
  assert (Hv : val_be q < 128).
  { unfold val_be. pose proof (val_be_acc_bound q 0) as H.
    assert (2 ^ N.of_nat (length q) <= 2 ^ 7) by (apply N.pow_le_mono_r; lia).
    change (2 ^ 7) with 128 in *. lia. }
  pose proof (read_last_sweep (N.of_nat (length q)) (val_be q) ltac:(lia) Hv) as H.
  rewrite Nat2N.id, Hb in H.
  destruct (read_last (length q) 0 q 0) as [[last r]|]; [|contradiction].
  exists last. destruct H as [H1 H2]. auto.
Qed.
