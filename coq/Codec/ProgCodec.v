(* C01 / C02 - theorems about the syntax layer (Codec/NodeCodec.v):
     syntax_rt     decoding the encoding of a well-formed node list gives the list back and leaves the rest
     syntax_canon  whatever the decoder accepts is the encoding of the list it returns, followed by the rest
     dec_total     the decoder never panics or runs out of fuel; it returns at most |bits| nodes
   The jet code is a Section variable with the two hypotheses that C14 proves for the real tables
   (Codec/JetTab.v proves them for any prefix-free code table). *)
From RS Require Import Lib.Tac Lib.Outcome Lib.Bits Lib.ListExtra Bits.Natural Bits.BitIter Codec.NodeCodec.
Import ListNotations.
Local Open Scope N_scope.

(* ------------------------------------------------------------------ fixed-width fields *)
Lemma take_n_app w : forall r n, N.of_nat (length w) = n -> take_n (w ++ r) n = Some (w, r).
Proof.
  induction w as [|b w IH]; intros r n H.
  - cbn in H. subst n. destruct r; reflexivity.
  - cbn [length] in H. cbn [app take_n].
    replace (n =? 0) with false by (symmetry; apply N.eqb_neq; lia).
    rewrite (IH r (n - 1)) by lia. reflexivity.
Qed.

Lemma take_n_inv l : forall n w r, take_n l n = Some (w, r) -> l = w ++ r /\ N.of_nat (length w) = n.
Proof.
  induction l as [|b l IH]; intros n w r H.
  - cbn in H. destruct (N.eqb_spec n 0) as [->|Hn]; [|discriminate]. injection H as <- <-. auto.
  - cbn [take_n] in H. destruct (N.eqb_spec n 0) as [->|Hn].
    + injection H as <- <-. auto.
    + destruct (take_n l (n - 1)) as [[a rest]|] eqn:E; [|discriminate].
      injection H as <- <-. destruct (IH _ _ _ E) as [-> Hl]. split; [reflexivity|]. cbn [length]. lia.
Qed.

Lemma val_be_bits8 b : b < 256 -> val_be (bits_be 8 b) = b.
Proof. intros H. rewrite val_be_bits_be. apply N.mod_small. exact H. Qed.

Lemma bits8_val_be b7 b6 b5 b4 b3 b2 b1 b0 :
  bits_be 8 (val_be [b7; b6; b5; b4; b3; b2; b1; b0]) = [b7; b6; b5; b4; b3; b2; b1; b0].
Proof. exact (bits_be_val_be [b7; b6; b5; b4; b3; b2; b1; b0] 0). Qed.

Lemma val_be8_lt b7 b6 b5 b4 b3 b2 b1 b0 : val_be [b7; b6; b5; b4; b3; b2; b1; b0] < 256.
Proof. pose proof (val_be_acc_bound [b7; b6; b5; b4; b3; b2; b1; b0] 0) as H. cbn [length] in H. exact H. Qed.

Lemma read_bytes_enc k : forall bs r, bytes_wf k bs -> read_bytes k (bits_of_bytes bs ++ r) = Some (bs, r).
Proof.
  induction k as [|k IH]; intros bs r [Hl Hb].
  - destruct bs; [reflexivity|discriminate].
  - destruct bs as [|b bs]; [discriminate|]. inversion Hb as [|? ? Hb1 Hb2]; subst.
    cbn [bits_of_bytes flat_map]. fold (bits_of_bytes bs). unfold bits_of_byte.
    remember (bits_be 8 b) as l8 eqn:E8.
    assert (H8 : exists b7 b6 b5 b4 b3 b2 b1 b0, l8 = [b7; b6; b5; b4; b3; b2; b1; b0]).
    { subst l8. cbn [bits_be]. repeat eexists. }
    destruct H8 as (b7 & b6 & b5 & b4 & b3 & b2 & b1 & b0 & ->).
    cbn [app read_bytes].
    rewrite IH by (split; [cbn in Hl; lia|exact Hb2]).
    rewrite E8, val_be_bits8 by exact Hb1. reflexivity.
Qed.

Lemma read_bytes_inv k : forall l bs r, read_bytes k l = Some (bs, r) ->
  l = bits_of_bytes bs ++ r /\ bytes_wf k bs.
Proof.
  induction k as [|k IH]; intros l bs r H.
  - injection H as <- <-. split; [reflexivity|split; [reflexivity|constructor]].
  - cbn [read_bytes] in H.
    destruct l as [|b7 [|b6 [|b5 [|b4 [|b3 [|b2 [|b1 [|b0 l]]]]]]]]; try discriminate.
    destruct (read_bytes k l) as [[bs' rest]|] eqn:E; [|discriminate].
    injection H as <- <-. destruct (IH _ _ _ E) as [-> [Hl Hb]].
    split.
    + cbn [bits_of_bytes flat_map]. fold (bits_of_bytes bs'). unfold bits_of_byte.
      rewrite bits8_val_be. reflexivity.
    + split; [cbn [length]; lia|]. constructor; [apply val_be8_lt|exact Hb].
Qed.

Lemma bytes_wfb_ok k bs : bytes_wfb k bs = true <-> bytes_wf k bs.
Proof.
  unfold bytes_wfb, bytes_wf. rewrite andb_true_iff, Nat.eqb_eq, forallb_forall, Forall_forall.
  split; intros [H1 H2]; (split; [exact H1|]); intros x Hx; specialize (H2 x Hx); lia.
Qed.

(* the prefix codes *)
Lemma code5 v : v < 32 -> exists a b c d e, bits_be 5 v = [a; b; c; d; e].
Proof. intros _. cbn [bits_be]. repeat eexists. Qed.

Section Jets.
Variable jet : Type.
Variable jet_okb : jet -> bool.
Variable jet_enc : jet -> list bool.
Variable jet_dec : list bool -> outcome dec_err (jet * list bool).
Hypothesis jet_dec_enc : forall j r, jet_okb j = true -> jet_dec (jet_enc j ++ r) = Ok (j, r).
Hypothesis jet_enc_dec : forall l j r, jet_dec l = Ok (j, r) -> l = jet_enc j ++ r /\ jet_okb j = true.
Hypothesis jet_dec_total : forall l, match jet_dec l with Panic _ | OutOfFuel => False | _ => True end.

Notation dnode := (dnode jet).
Notation enc_node := (enc_node jet jet_enc).
Notation enc_nodes := (enc_nodes jet jet_enc).
Notation enc_prog := (enc_prog jet jet_enc).
Notation dec_node := (dec_node jet jet_dec).
Notation dec_nodes := (dec_nodes jet jet_dec).
Notation dec_prog := (dec_prog jet jet_dec).
Notation wf_node := (wf_node jet jet_okb).
Notation wf_nodes := (wf_nodes jet jet_okb).
Notation wf_prog := (wf_prog jet jet_okb).

(* ------------------------------------------------------------------ back references *)
Lemma read_backref_enc index i r : i < index -> index < 2 ^ 32 ->
  read_backref index (encode_nat (index - i) ++ r) = Ok (i, r).
Proof.
  intros Hi Hx. unfold read_backref.
  rewrite (read_encode usize_max (Some index) (index - i) r) by (unfold usize_max; lia).
  cbn [lift_nat]. replace (index <? index - i) with false by (symmetry; apply N.ltb_ge; lia).
  f_equal. f_equal. lia.
Qed.

Lemma read_backref_inv index l i r : read_backref index l = Ok (i, r) ->
  l = encode_nat (index - i) ++ r /\ i < index.
Proof.
  unfold read_backref. intros H.
  destruct (read_nat usize_max (Some index) l) as [[n r']| | |] eqn:E; cbn [lift_nat] in H; try discriminate.
  destruct (index <? n) eqn:En; [discriminate|]. injection H as <- <-.
  destruct (encode_read _ _ _ _ _ E) as (Hl & H1 & _ & Hb).
  replace (index - (index - n)) with n by lia. split; [exact Hl|lia].
Qed.

Lemma read_backref_total index l :
  match read_backref index l with Panic _ | OutOfFuel => False | _ => True end.
Proof.
  unfold read_backref. pose proof (read_nat_total usize_max (Some index) l) as T.
  destruct (read_nat usize_max (Some index) l) as [[n r']| | |] eqn:E; cbn [lift_nat]; auto.
  destruct (encode_read _ _ _ _ _ E) as (_ & _ & _ & Hb).
  replace (index <? n) with false by (symmetry; apply N.ltb_ge; lia). exact I.
Qed.

(* ------------------------------------------------------------------ one node *)
Lemma dec_enc_node index d r : wf_node index d -> index < 2 ^ 32 ->
  dec_node index (enc_node index d ++ r) = Ok (d, r).
Proof.
  intros Hwf Hx. destruct d; cbn [enc_node wf_node] in *;
    repeat match goal with |- context [bits_be ?k ?v] => change (bits_be k v) with ltac:(let t := eval vm_compute in (bits_be k v) in exact t) end;
    rewrite <- ?app_assoc; cbn [app dec_node].
  - reflexivity.
  - reflexivity.
  - rewrite read_backref_enc by assumption. reflexivity.
  - rewrite read_backref_enc by assumption. reflexivity.
  - rewrite read_backref_enc by assumption. reflexivity.
  - rewrite read_backref_enc by assumption. reflexivity.
  - destruct Hwf as [Hi Hj]. rewrite read_backref_enc by assumption. rewrite read_backref_enc by assumption. reflexivity.
  - destruct Hwf as [Hi Hj]. rewrite read_backref_enc by assumption. rewrite read_backref_enc by assumption. reflexivity.
  - destruct Hwf as [Hi Hj]. rewrite read_backref_enc by assumption. rewrite read_backref_enc by assumption. reflexivity.
  - rewrite read_backref_enc by assumption. reflexivity.
  - destruct Hwf as [Hi Hj]. rewrite read_backref_enc by assumption. rewrite read_backref_enc by assumption. reflexivity.
  - reflexivity.
  - unfold read_hash. rewrite read_bytes_enc by exact Hwf. reflexivity.
  - unfold read_hash. rewrite read_bytes_enc by exact Hwf. reflexivity.
  - rewrite jet_dec_enc by exact Hwf. reflexivity.
  - destruct Hwf as [Hi Hj]. rewrite <- app_assoc.
    rewrite (read_encode u32_max (Some 32) (1 + n) (bits ++ r)) by (unfold u32_max; lia).
    cbn [lift_nat]. replace (1 + n =? 0) with false by (symmetry; apply N.eqb_neq; lia).
    replace (1 + n - 1) with n by lia.
    replace (31 <? n) with false by (symmetry; apply N.ltb_ge; lia).
    rewrite take_n_app by exact Hj. reflexivity.
Qed.

Lemma dec_node_inv index l d r : dec_node index l = Ok (d, r) ->
  l = enc_node index d ++ r /\ wf_node index d.
Proof.
  unfold dec_node. intros H.
  destruct l as [|[|] l1]; [discriminate| |].
  - (* jet or word *)
    destruct l1 as [|[|] l2]; [discriminate| |].
    + destruct (jet_dec l2) as [[j r']| | |] eqn:E; try discriminate. injection H as <- <-.
      apply jet_enc_dec in E. destruct E as [-> Hok]. split; [reflexivity|exact Hok].
    + destruct (read_nat u32_max (Some 32) l2) as [[n l3]| | |] eqn:E; cbn [lift_nat] in H; try discriminate.
      destruct (n =? 0) eqn:E0; [discriminate|]. destruct (31 <? n - 1) eqn:E31; [discriminate|].
      destruct (take_n l3 (2 ^ (n - 1))) as [[w r']|] eqn:Et; [|discriminate]. injection H as <- <-.
      destruct (encode_read _ _ _ _ _ E) as (Hl & H1 & _ & Hb). apply take_n_inv in Et. destruct Et as [-> Hw].
      apply N.eqb_neq in E0. apply N.ltb_ge in E31.
      split; [|split; [exact E31|exact Hw]].
      cbn [enc_node]. replace (1 + (n - 1)) with n by lia. rewrite Hl. cbn [app]. rewrite <- app_assoc. reflexivity.
  - destruct l1 as [|c1 [|c0 l2]]; try discriminate.
    destruct c1, c0.
    + (* 11: witness / hidden *)
      destruct l2 as [|[|] l3]; [discriminate| |].
      * injection H as <- <-. split; [reflexivity|exact I].
      * unfold read_hash in H. destruct (read_bytes 32 l3) as [[h r']|] eqn:E; [|discriminate].
        injection H as <- <-. destruct (read_bytes_inv _ _ _ _ E) as [-> Hw]. split; [reflexivity|exact Hw].
    + (* 10 *)
      destruct l2 as [|s1 [|s0 l3]]; try discriminate.
      destruct s1, s0.
      * destruct (read_backref index l3) as [[i r']| | |] eqn:E; try discriminate. injection H as <- <-.
        destruct (read_backref_inv _ _ _ _ E) as [-> Hi]. split; [reflexivity|exact Hi].
      * unfold read_hash in H. destruct (read_bytes 64 l3) as [[h r']|] eqn:E; [|discriminate].
        injection H as <- <-. destruct (read_bytes_inv _ _ _ _ E) as [-> Hw]. split; [reflexivity|exact Hw].
      * injection H as <- <-. split; [reflexivity|exact I].
      * injection H as <- <-. split; [reflexivity|exact I].
    + (* 01: one child *)
      destruct l2 as [|s1 [|s0 l3]]; try discriminate.
      destruct (read_backref index l3) as [[i r']| | |] eqn:E; try discriminate. injection H as <- <-.
      destruct (read_backref_inv _ _ _ _ E) as [-> Hi].
      destruct s1, s0; (split; [reflexivity|exact Hi]).
    + (* 00: two children *)
      destruct l2 as [|s1 [|s0 l3]]; try discriminate.
      destruct (read_backref index l3) as [[i l4]| | |] eqn:E; try discriminate.
      destruct (read_backref index l4) as [[j r']| | |] eqn:E2; try discriminate. injection H as <- <-.
      destruct (read_backref_inv _ _ _ _ E) as [-> Hi]. destruct (read_backref_inv _ _ _ _ E2) as [-> Hj].
      destruct s1, s0; (split; [cbn [enc_node]; rewrite <- ?app_assoc; reflexivity|split; assumption]).
Qed.

Lemma dec_node_total index l :
  match dec_node index l with Panic _ | OutOfFuel => False | _ => True end.
Proof.
  unfold dec_node.
  destruct l as [|[|] l1]; [exact I| |].
  - destruct l1 as [|[|] l2]; [exact I| |].
    + pose proof (jet_dec_total l2) as T. destruct (jet_dec l2) as [[j r']| | |]; auto.
    + pose proof (read_nat_total u32_max (Some 32) l2) as T.
      destruct (read_nat u32_max (Some 32) l2) as [[n l3]| | |] eqn:E; cbn [lift_nat]; auto.
      destruct (encode_read _ _ _ _ _ E) as (_ & H1 & _ & Hb).
      replace (n =? 0) with false by (symmetry; apply N.eqb_neq; lia).
      replace (31 <? n - 1) with false by (symmetry; apply N.ltb_ge; lia).
      destruct (take_n l3 (2 ^ (n - 1))) as [[w r']|]; exact I.
  - destruct l1 as [|c1 [|c0 l2]]; try exact I.
    destruct c1, c0.
    + destruct l2 as [|[|] l3]; try exact I. unfold read_hash. destruct (read_bytes 32 l3) as [[h r']|]; exact I.
    + destruct l2 as [|s1 [|s0 l3]]; try exact I. destruct s1, s0; try exact I.
      * pose proof (read_backref_total index l3). destruct (read_backref index l3) as [[i r']| | |]; auto.
      * unfold read_hash. destruct (read_bytes 64 l3) as [[h r']|]; exact I.
    + destruct l2 as [|s1 [|s0 l3]]; try exact I.
      pose proof (read_backref_total index l3). destruct (read_backref index l3) as [[i r']| | |]; auto.
    + destruct l2 as [|s1 [|s0 l3]]; try exact I.
      pose proof (read_backref_total index l3). destruct (read_backref index l3) as [[i l4]| | |]; auto.
      pose proof (read_backref_total index l4). destruct (read_backref index l4) as [[j r']| | |]; auto.
Qed.

(* every node takes at least two bits (a jet code may be arbitrarily short in this section) *)
Lemma enc_node_length index d : (2 <= length (enc_node index d))%nat.
Proof.
  destruct d; cbn [enc_node]; rewrite ?app_length; cbn [bits_be length]; lia.
Qed.

Lemma dec_node_shorter index l d r : dec_node index l = Ok (d, r) -> (length r + 2 <= length l)%nat.
Proof.
  intros H. destruct (dec_node_inv _ _ _ _ H) as [-> _]. rewrite app_length.
  pose proof (enc_node_length index d). lia.
Qed.

(* ------------------------------------------------------------------ the node loop *)
Lemma dec_nodes_enc ns : forall fuel index r,
  wf_nodes index ns -> index + N.of_nat (length ns) <= 2 ^ 32 ->
  (length ns <= fuel)%nat ->
  dec_nodes fuel (N.of_nat (length ns)) index (enc_nodes index ns ++ r) = Ok (ns, r).
Proof.
  induction ns as [|d ns IH]; intros fuel index r Hwf Hx Hf.
  - destruct fuel; reflexivity.
  - destruct Hwf as [Hd Hns]. cbn [length] in *. destruct fuel as [|f]; [lia|].
    cbn [dec_nodes enc_nodes].
    replace (N.of_nat (S (length ns)) =? 0) with false by (symmetry; apply N.eqb_neq; lia).
    rewrite <- app_assoc, dec_enc_node by (try assumption; lia).
    replace (N.of_nat (S (length ns)) - 1) with (N.of_nat (length ns)) by lia.
    rewrite IH by (try assumption; lia). reflexivity.
Qed.

Lemma dec_nodes_inv : forall fuel count index l ns r,
  dec_nodes fuel count index l = Ok (ns, r) ->
  l = enc_nodes index ns ++ r /\ wf_nodes index ns /\ N.of_nat (length ns) = count.
Proof.
  induction fuel as [|f IH]; intros count index l ns r H; cbn [dec_nodes] in H.
  - destruct (N.eqb_spec count 0) as [->|Hc]; [|discriminate]. injection H as <- <-. cbn. auto.
  - destruct (N.eqb_spec count 0) as [->|Hc].
    + injection H as <- <-. cbn. auto.
    + destruct (dec_node index l) as [[d r1]| | |] eqn:E; try discriminate.
      destruct (dec_nodes f (count - 1) (index + 1) r1) as [[ds r2]| | |] eqn:E2; try discriminate.
      injection H as <- <-. destruct (dec_node_inv _ _ _ _ E) as [-> Hd].
      destruct (IH _ _ _ _ _ E2) as (-> & Hds & Hlen).
      split; [cbn [enc_nodes]; rewrite <- app_assoc; reflexivity|].
      split; [split; assumption|]. cbn [length]. lia.
Qed.

Lemma dec_nodes_total : forall fuel count index l, (length l < fuel)%nat ->
  match dec_nodes fuel count index l with Panic _ | OutOfFuel => False | _ => True end.
Proof.
  induction fuel as [|f IH]; intros count index l Hf; [lia|].
  cbn [dec_nodes]. destruct (count =? 0); [exact I|].
  pose proof (dec_node_total index l) as T.
  destruct (dec_node index l) as [[d r1]| | |] eqn:E; auto.
  apply dec_node_shorter in E.
  pose proof (IH (count - 1) (index + 1) r1 ltac:(lia)) as T2.
  destruct (dec_nodes f (count - 1) (index + 1) r1) as [[ds r2]| | |]; auto.
Qed.

Lemma enc_nodes_length ns : forall index, (2 * length ns <= length (enc_nodes index ns))%nat.
Proof.
  induction ns as [|d ns IH]; intros index; cbn [enc_nodes length]; [lia|].
  rewrite app_length. pose proof (enc_node_length index d). specialize (IH (index + 1)). lia.
Qed.

(* ------------------------------------------------------------------ the program *)
Theorem syntax_rt ns r : wf_prog ns -> dec_prog (enc_prog ns ++ r) = Ok (ns, r).
Proof.
  intros (Hne & Hlen & Hwf). unfold dec_prog, enc_prog.
  assert (Hpos : 1 <= N.of_nat (length ns)) by (destruct ns; [congruence|cbn [length]; lia]).
  rewrite <- app_assoc.
  rewrite (read_encode usize_max None (N.of_nat (length ns)) (enc_nodes 0 ns ++ r)) by (unfold usize_max; try lia; exact I).
  cbn [lift_nat]. replace (N.of_nat (length ns) =? 0) with false by (symmetry; apply N.eqb_neq; lia).
  apply dec_nodes_enc; [exact Hwf|lia|].
  rewrite app_length. pose proof (enc_nodes_length ns 0). lia.
Qed.

Theorem syntax_canon b ns r : dec_prog b = Ok (ns, r) -> b = enc_prog ns ++ r /\ wf_prog ns.
Proof.
  unfold dec_prog. intros H.
  destruct (read_nat usize_max None b) as [[len r0]| | |] eqn:E; cbn [lift_nat] in H; try discriminate.
  destruct (len =? 0) eqn:E0; [discriminate|]. apply N.eqb_neq in E0.
  destruct (dec_nodes_inv _ _ _ _ _ _ H) as (-> & Hwf & Hlen).
  destruct (encode_read _ _ _ _ _ E) as (Hb & H1 & _ & _). pose proof (read_nat_range _ _ _ _ _ E) as Hr.
  split.
  - unfold enc_prog. rewrite Hlen, <- app_assoc. exact Hb.
  - split; [|split; [lia|exact Hwf]]. intros ->. cbn in Hlen. lia.
Qed.

Theorem dec_total b :
  match dec_prog b with
  | Panic _ | OutOfFuel => False
  | Ok (ns, r) => (2 * length ns + length r <= length b)%nat
  | Err _ => True
  end.
Proof.
  unfold dec_prog. pose proof (read_nat_total usize_max None b) as T.
  destruct (read_nat usize_max None b) as [[len r0]| | |] eqn:E; cbn [lift_nat]; auto.
  destruct (encode_read _ _ _ _ _ E) as (Hb & H1 & _ & _).
  replace (len =? 0) with false by (symmetry; apply N.eqb_neq; lia).
  pose proof (dec_nodes_total (S (length r0)) len 0 r0 ltac:(lia)) as T2.
  destruct (dec_nodes (S (length r0)) len 0 r0) as [[ns r]| | |] eqn:E2; auto.
  destruct (dec_nodes_inv _ _ _ _ _ _ E2) as (-> & _ & _).
  subst b. rewrite !app_length. pose proof (enc_nodes_length ns 0). lia.
Qed.

(* two encodings, one a prefix of the other, are equal: the program code is prefix-free *)
Corollary enc_prog_prefix_free ns1 ns2 r1 r2 : wf_prog ns1 -> wf_prog ns2 ->
  enc_prog ns1 ++ r1 = enc_prog ns2 ++ r2 -> ns1 = ns2 /\ r1 = r2.
Proof.
  intros H1 H2 E. pose proof (syntax_rt ns1 r1 H1) as A. pose proof (syntax_rt ns2 r2 H2) as B.
  rewrite E in A. rewrite A in B. injection B as -> ->. auto.
Qed.

End Jets.
