//! verif-harness-core: runs the Bit Machine of the /repo working tree on generated programs
//! (C05, C07) and prints canonical results, one line per case: `<id> <numbers...>`.
//!
//! usage: verif-harness-core <command> <casefile>
mod core;
mod prog;
mod util;

use std::io::{BufRead, Write};

fn main() {
    let args: Vec<String> = std::env::args().collect();
    if args.len() < 3 {
        eprintln!("usage: verif-harness-core <command> <casefile>");
        std::process::exit(2);
    }
    // silence panic messages: panics are data here
    if std::env::var_os("VERIF_PANIC_MSG").is_none() {
        std::panic::set_hook(Box::new(|_| {}));
    }
    let file = std::fs::File::open(&args[2]).expect("open case file");
    let rd = std::io::BufReader::new(file);
    let out = std::io::stdout();
    let mut out = std::io::BufWriter::new(out.lock());
    for line in rd.lines() {
        let line = line.expect("read line");
        let line = line.trim();
        if line.is_empty() || line.starts_with('#') {
            continue;
        }
        let toks: Vec<&str> = line.split_whitespace().collect();
        let id = toks[0];
        let res: String = match args[1].as_str() {
            "core" => core::run(&toks[1..]),
            "prog" => prog::run(&toks[1..]),
            other => {
                eprintln!("unknown command {}", other);
                std::process::exit(2);
            }
        };
        writeln!(out, "{} {}", id, res).unwrap();
    }
    out.flush().unwrap();
}
