#!/usr/bin/env python3
"""Driver of the /verif checks.

  vp.py setup                       build the Coq development and the harness once
  vp.py check <ID> [--tier quick|thorough]
  vp.py replay <ID> <replay.json>
"""
import importlib
import json
import os
import sys
import traceback

sys.path.insert(0, os.path.dirname(os.path.abspath(__file__)))
import vplib  # noqa: E402


def load_prop(pid):
    return importlib.import_module("props.%s" % pid.lower())


def cmd_setup():
    errs = vplib.regenerate()
    if errs:
        print("setup: translator errors:\n" + "\n".join(errs))
    # build everything that builds (-k); what matters is that every registered check's theorems compile
    ok, log = vplib.coq_build(["-k", "all"], timeout=7200)
    man = json.load(open(os.path.join(vplib.VERIF, "MANIFEST.json")))
    missing = [c["property_id"] for c in man["checks"]
               if not os.path.exists(os.path.join(vplib.COQ, "Props", c["property_id"] + ".vo"))]
    if missing:
        print(log[-4000:])
        print("setup: Coq build failed for the theorems of: %s" % ", ".join(missing))
        return 1
    if not ok:
        print("setup: note: some Coq files outside the registered checks did not build")
    for prof in ("debug", "release"):
        b, out = vplib.harness_build(prof)
        if b is None:
            print(out[-4000:])
            print("setup: harness build (%s) failed" % prof)
            return 1
    print("setup ok")
    return 0


def cmd_check(pid, tier):
    seed = vplib.seed_from_env()
    mod = load_prop(pid)
    rep = vplib.Report(pid, tier, seed, level=getattr(mod, "LEVEL", "proof"))
    try:
        mod.run(rep, tier, vplib.Rng(seed).fork(pid))
    except vplib.Infra as e:
        print("INFRASTRUCTURE ERROR: %s" % e)
        return 2
    except Exception:
        traceback.print_exc()
        print("INFRASTRUCTURE ERROR: internal failure of the check")
        return 2
    return rep.finish()


def cmd_replay(pid, path):
    mod = load_prop(pid)
    obj = json.load(open(path))
    if hasattr(mod, "replay"):
        return mod.replay(obj)
    print(json.dumps(obj, indent=1))
    return 0


def main():
    a = sys.argv[1:]
    if not a:
        print(__doc__)
        return 2
    if a[0] == "setup":
        return cmd_setup()
    if a[0] == "check":
        tier = os.environ.get("VERIF_TIER", "quick")
        if "--tier" in a:
            tier = a[a.index("--tier") + 1]
        return cmd_check(a[1], tier)
    if a[0] == "replay":
        return cmd_replay(a[1], a[2])
    print(__doc__)
    return 2


if __name__ == "__main__":
    sys.exit(main())
