#!/usr/bin/env python3
"""Translator: named constants and the get_padding match arms of /repo/src/analysis.rs
(and the machine limits) -> coq/Generated/Consts.v.  Fails closed: any pattern that is
not found raises TranslateError, which the driver reports as a broken tie."""
import re
import sys
import os

REPO = os.environ.get("VERIF_REPO", "/repo")


class TranslateError(Exception):
    pass


def _num(s):
    s = s.replace("_", "")
    return int(s, 0)


def _find(pattern, text, what):
    m = re.search(pattern, text, re.S)
    if not m:
        raise TranslateError("xlate_consts: cannot find %s" % what)
    return m


def _eval_const_expr(s):
    # products/sums/differences of integer literals only
    s = s.strip()
    if not re.fullmatch(r"[0-9_x*+\- ()a-fA-F]+", s):
        raise TranslateError("xlate_consts: unexpected constant expression %r" % s)
    toks = re.sub(r"(0x[0-9a-fA-F_]+|[0-9][0-9_]*)", lambda m: str(_num(m.group(1))), s)
    return int(eval(toks, {"__builtins__": {}}))


def translate():
    an = open(os.path.join(REPO, "src/analysis.rs")).read()
    out = {}
    out["overhead"] = _eval_const_expr(_find(r"const OVERHEAD: Self = Cost\(([^;]+)\);", an, "OVERHEAD").group(1))
    out["never_executed"] = _eval_const_expr(_find(r"const NEVER_EXECUTED: Self = Cost\(([^;]+)\);", an, "NEVER_EXECUTED").group(1))
    out["consensus_max"] = _eval_const_expr(_find(r"pub const CONSENSUS_MAX: Self = Cost\(([^;]+)\);", an, "CONSENSUS_MAX").group(1))
    gb = _find(r"fn get_budget\(.*?\n    \}\n", an, "get_budget").group(0)
    out["free_budget"] = _num(_find(r"\.saturating_add\(([0-9_]+)\);", gb, "get_budget free allowance").group(1))
    if "u32::try_from(witness_stack_serialized_len)" not in gb or "consensus_encode" not in gb:
        raise TranslateError("xlate_consts: get_budget has an unexpected shape")
    bv = _find(r"pub fn is_budget_valid\(.*?\n    \}\n", an, "is_budget_valid").group(0)
    m = _find(r"self\.0 (<=|<|>=|>) budget\.0\.saturating_mul\(([0-9_]+)\)", bv, "is_budget_valid comparison")
    out["valid_cmp"] = m.group(1)
    out["valid_mul"] = _num(m.group(2))
    cw = _find(r"impl From<Cost> for U32Weight \{.*?\n\}\n", an, "From<Cost> for U32Weight").group(0)
    m = _find(r"Self\(value\.0\.saturating_add\(([0-9_]+)\) / ([0-9_]+)\)", cw, "cost->weight formula")
    out["cw_add"] = _num(m.group(1))
    out["cw_div"] = _num(m.group(2))
    wc = _find(r"impl From<U32Weight> for Cost \{.*?\n\}\n", an, "From<U32Weight> for Cost").group(0)
    out["wc_mul"] = _num(_find(r"Self\(value\.0\.saturating_mul\(([0-9_]+)\)\)", wc, "weight->cost formula").group(1))
    bw = _find(r"impl From<bitcoin::Weight> for U32Weight \{.*?\n\}\n", an, "From<bitcoin::Weight> for U32Weight").group(0)
    if "Self(u32::try_from(value.to_wu()).unwrap_or(u32::MAX))" not in bw:
        raise TranslateError("xlate_consts: From<bitcoin::Weight> for U32Weight has an unexpected shape")
    bc = _find(r"impl From<bitcoin::Weight> for Cost \{.*?\n\}\n", an, "From<bitcoin::Weight> for Cost").group(0)
    out["bwc_mul"] = _num(_find(r"Self\(U32Weight::from\(value\)\.0\.saturating_mul\(([0-9_]+)\)\)", bc, "bitcoin weight -> cost formula").group(1))
    cb = _find(r"impl From<Cost> for bitcoin::Weight \{.*?\n\}\n", an, "From<Cost> for bitcoin::Weight").group(0)
    if "bitcoin::Weight::from_wu(u64::from(U32Weight::from(value).0))" not in cb:
        raise TranslateError("xlate_consts: From<Cost> for bitcoin::Weight has an unexpected shape")
    gp = _find(r"pub fn get_padding\(.*?\n    \}\n", an, "get_padding").group(0)
    m = _find(r"if weight (<=|<) budget \{\s*return None;", gp, "get_padding early return")
    out["pad_none_cmp"] = m.group(1)
    if "let deficit = (weight - budget).0 as usize;" not in gp:
        raise TranslateError("xlate_consts: deficit computation changed")
    body = _find(r"let padding_len = match deficit \{(.*?)\n        \};", gp, "padding_len match").group(1)
    arms = []
    for line in body.split("\n"):
        line = line.strip()
        if not line or line.startswith("//"):
            continue
        m = re.fullmatch(r"(?:(\d[\d_]*)\.\.=(\d[\d_]*)|_) => (.*?),", line)
        if not m:
            raise TranslateError("xlate_consts: unparsable padding arm %r" % line)
        rng = None if m.group(1) is None else (_num(m.group(1)), _num(m.group(2)))
        rhs = m.group(3).strip()
        m2 = re.fullmatch(r"deficit\.saturating_sub\((\d[\d_]*)\)", rhs)
        m3 = re.fullmatch(r"deficit - (\d[\d_]*)", rhs)
        m4 = re.fullmatch(r"(\d[\d_]*)", rhs)
        m5 = re.fullmatch(r"deficit", rhs)
        if m2:
            r = ("SatSub", _num(m2.group(1)))
        elif m3:
            r = ("Sub", _num(m3.group(1)))
        elif m4:
            r = ("Const", _num(m4.group(1)))
        elif m5:
            r = ("Sub", 0)
        else:
            raise TranslateError("xlate_consts: unparsable padding arm rhs %r" % rhs)
        arms.append((rng, r))
    out["arms"] = arms
    m = _find(r"std::iter::once\((0x[0-9a-fA-F]+)\)\s*\.chain\(std::iter::repeat\((0x[0-9a-fA-F]+)\)\.take\(padding_len\)\)", gp, "annex bytes")
    out["annex_tag"] = _num(m.group(1))
    out["annex_fill"] = _num(m.group(2))

    lim = open(os.path.join(REPO, "src/bit_machine/limits.rs")).read()
    out["max_cells"] = _eval_const_expr(_find(r"const MAX_CELLS: usize = ([^;]+);", lim, "MAX_CELLS").group(1))
    out["max_frames"] = _eval_const_expr(_find(r"const MAX_FRAMES: usize = ([^;]+);", lim, "MAX_FRAMES").group(1))
    ty = open(os.path.join(REPO, "src/types/mod.rs")).read()
    out["max_display_depth"] = _num(_find(r"const MAX_DISPLAY_DEPTH: usize = ([0-9_]+);", ty, "MAX_DISPLAY_DEPTH").group(1))
    out["max_display_length"] = _num(_find(r"const MAX_DISPLAY_LENGTH: usize = ([0-9_]+);", ty, "MAX_DISPLAY_LENGTH").group(1))
    return out


def render(c):
    cmpmap = {"<=": "CLe", "<": "CLt", ">=": "CGe", ">": "CGt"}
    L = []
    L.append("(* GENERATED by tools/xlate_consts.py from /repo/src/analysis.rs, bit_machine/limits.rs,")
    L.append("   types/mod.rs on every run.  Do not edit. *)")
    L.append("From Coq Require Import NArith List.")
    L.append("Import ListNotations.")
    L.append("Local Open Scope N_scope.")
    L.append("Inductive cmp_op := CLe | CLt | CGe | CGt.")
    L.append("Inductive arm_rhs := SatSub (k : N) | Sub (k : N) | Const (k : N).")
    for k in ["overhead", "never_executed", "consensus_max", "free_budget", "valid_mul", "cw_add", "cw_div",
              "wc_mul", "bwc_mul", "annex_tag", "annex_fill", "max_cells", "max_frames", "max_display_depth",
              "max_display_length"]:
        L.append("Definition c_%s : N := %d." % (k, c[k]))
    L.append("Definition c_valid_cmp : cmp_op := %s." % cmpmap[c["valid_cmp"]])
    L.append("Definition c_pad_none_cmp : cmp_op := %s." % cmpmap[c["pad_none_cmp"]])
    arms = []
    for rng, (kind, k) in c["arms"]:
        r = "None" if rng is None else "Some (%d, %d)" % rng
        arms.append("(%s, %s %d)" % (r, kind, k))
    L.append("Definition c_padding_arms : list (option (N * N) * arm_rhs) :=\n  [%s]." % ";\n   ".join(arms))
    return "\n".join(L) + "\n"


def main():
    here = os.path.dirname(os.path.dirname(os.path.abspath(__file__)))
    dst = sys.argv[1] if len(sys.argv) > 1 else os.path.join(here, "coq", "Generated", "Consts.v")
    txt = render(translate())
    old = open(dst).read() if os.path.exists(dst) else None
    if old != txt:
        open(dst, "w").write(txt)


if __name__ == "__main__":
    try:
        main()
    except TranslateError as e:
        print(str(e), file=sys.stderr)
        sys.exit(3)
