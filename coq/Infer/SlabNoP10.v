(* C04, phase 4 - totality, part 4: the assertion of reassign_non_complete ("tried to modify finalized type", Panic 10)
   cannot fail.  It is only reached at the end of the Sum/Sum | Product/Product arm of bind, on its own `existing` bound b,
   after the two child unifications succeeded and both children are complete.  If b had been completed meanwhile, a nested
   call touched it; bind / unify only touch bounds of classes whose value is a subtree of the value of their arguments
   (frame_unify / frame_bind, in every tree model of the result); so the value of the class of b would be a subtree of the
   value of one of its own children, i.e. a proper subtree of itself, while the completeness of the children makes it a
   finite tree - impossible, and every state the model reaches has a tree model. *)
From RS Require Import Lib.Tac Lib.Outcome Lib.Sweep Ty.Ty Core.Prog Infer.Constraints Infer.Unify Infer.Infer Infer.Gen Infer.Rational
  Infer.UnionFind Infer.Slab Infer.RunSlab Infer.SlabProofs Infer.SlabSim Infer.SlabSimInst Infer.SlabCov Infer.SlabFin Infer.SlabWfd
  Infer.SlabTotal.
Import ListNotations.
Local Open Scope outcome_scope.

Fixpoint tdepth (t : ty) : nat :=
  match t with
  | One => 0
  | Sum a b | Prod a b => S (Nat.max (tdepth a) (tdepth b))
  end.


Definition cset (c : ctx) (b : nat) (new : rbound) : ctx := mk_ctx (lset (c_slab c) b new) (c_uf c).

Lemma cset_get_eq c b new : (b < length (c_slab c))%nat -> slab_get (cset c b new) b = new.
Proof. apply slab_get_lset_eq. Qed.
Lemma cset_get_neq c b new b' : b <> b' -> slab_get (cset c b new) b' = slab_get c b'.
Proof. apply slab_get_lset_neq. Qed.
Lemma cset_len c b new : length (c_slab (cset c b new)) = length (c_slab c).
Proof. apply lset_length. Qed.


Lemma bc_post fuel c b t eb : cwf c -> holds_ref c eb b -> forall c', bind fuel c b (RComplete t) = Ok c' -> cwf c' /\ keeps_part c c'.
Proof.
  intros CW HR c' E. pose proof (bc_spec_all ty eq One Sum Prod) as S.
  specialize (S ltac:(fin_hyps) ltac:(fin_hyps) ltac:(fin_hyps) ltac:(fin_hyps) ltac:(fin_hyps) ltac:(fin_hyps) ltac:(fin_hyps)
                ltac:(fin_hyps) ltac:(fin_hyps) ltac:(fin_hyps) fuel c b t eb CW HR).
  rewrite E in S. destruct S as ((CW' & _) & K & _). split; assumption.
Qed.


Lemma link_state_fin c xr yr : cwf c ->
  (xr < length (c_uf c))%nat -> (yr < length (c_uf c))%nat -> is_uroot (c_uf c) xr -> is_uroot (c_uf c) yr -> xr <> yr ->
  (ub_rank (ufget (c_uf c) yr) <= ub_rank (ufget (c_uf c) xr))%N ->
  cwf (put_uf c (ub_link (c_uf c) xr yr)) /\ holds_ref (put_uf c (ub_link (c_uf c) xr yr)) xr (bref_of (c_uf c) xr).
Proof.
  intros CW Lx Ly Rx Ry N Rk.
  destruct (link_state ty eq One Sum Prod ltac:(fin_hyps) ltac:(fin_hyps) ltac:(fin_hyps) ltac:(fin_hyps) ltac:(fin_hyps) ltac:(fin_hyps) ltac:(fin_hyps) ltac:(fin_hyps) ltac:(fin_hyps) ltac:(fin_hyps) c xr yr CW Lx Ly Rx Ry N Rk) as (A & B & _).
  split; assumption.
Qed.


(* ---- subtrees *)
Definition below (t u : itree) : Prop := exists p, forall q, t q = u (p ++ q).
Definition sbelow (t u : itree) : Prop := exists p, p <> [] /\ forall q, t q = u (p ++ q).

Lemma below_refl t u : teq t u -> below t u.
Proof. intros E. exists []. intros q. apply E. Qed.

Lemma below_trans t u v : below t u -> below u v -> below t v.
Proof. intros (p & Hp) (p' & Hp'). exists (p' ++ p). intros q. rewrite Hp, Hp', app_assoc. reflexivity. Qed.

Lemma below_teq_l t t' u : teq t t' -> below t' u -> below t u.
Proof. intros E (p & Hp). exists p. intros q. rewrite (E q). apply Hp. Qed.

Lemma below_teq_r t u u' : teq u u' -> below t u -> below t u'.
Proof. intros E (p & Hp). exists p. intros q. rewrite Hp. apply E. Qed.

Lemma sbelow_node l a b u : teq u (tnode l a b) -> sbelow a u /\ sbelow b u.
Proof.
  intros E. split; [exists [false]|exists [true]]; (split; [discriminate|]); intros q; rewrite (E _); reflexivity.
Qed.

Lemma below_sbelow t u v : below t u -> sbelow u v -> sbelow t v.
Proof.
  intros (p & Hp) (p' & N & Hp'). exists (p' ++ p). split; [destruct p'; [contradiction|discriminate]|].
  intros q. rewrite Hp, Hp', app_assoc. reflexivity.
Qed.

Lemma tof_root t0 : tof t0 [] <> None.
Proof. destruct t0; discriminate. Qed.

Lemma tof_deep t0 : forall q, (tdepth t0 < length q)%nat -> tof t0 q = None.
Proof.
  induction t0 as [|a IHa b IHb|a IHa b IHb]; intros q Hq.
  - destruct q; [cbn in Hq; lia|reflexivity].
  - destruct q as [|[|] q]; [cbn in Hq; lia| |]; cbn [tdepth length] in Hq; [apply IHb|apply IHa]; lia.
  - destruct q as [|[|] q]; [cbn in Hq; lia| |]; cbn [tdepth length] in Hq; [apply IHb|apply IHa]; lia.
Qed.

(* a finite tree is not a proper subtree of itself *)
Lemma fin_not_sbelow t : tfin t -> ~ sbelow t t.
Proof.
  intros (t0 & E) (p & Np & Hp).
  assert (K : forall k, t (concat (repeat p k)) = t []).
  { induction k as [|k IH]; [reflexivity|]. cbn [repeat concat]. rewrite <- Hp. exact IH. }
  assert (Lk : forall k, (k <= length (concat (repeat p k)))%nat).
  { induction k as [|k IH]; [cbn; lia|]. cbn [repeat concat]. rewrite app_length. destruct p; [contradiction|cbn [length]; lia]. }
  specialize (K (S (tdepth t0))). rewrite (E _), (E []) in K.
  rewrite (tof_deep t0) in K by (pose proof (Lk (S (tdepth t0))); lia).
  symmetry in K. exact (tof_root t0 K).
Qed.

(* ---- roots only disappear, and keep their bound reference *)
Definition rsub (c c' : ctx) : Prop :=
  length (c_uf c') = length (c_uf c) /\
  forall r, is_uroot (c_uf c') r -> is_uroot (c_uf c) r /\ bref_of (c_uf c') r = bref_of (c_uf c) r.

Lemma rsub_refl c : rsub c c.
Proof. split; [reflexivity|]. intros r H. auto. Qed.

Lemma rsub_trans c1 c2 c3 : rsub c1 c2 -> rsub c2 c3 -> rsub c1 c3.
Proof.
  intros [L1 H1] [L2 H2]. split; [congruence|]. intros r H. destruct (H2 r H) as [A B]. destruct (H1 r A) as [C D]. split; [exact C|congruence].
Qed.

Lemma rsub_same_part c c' : same_part (c_uf c) (c_uf c') -> rsub c c'.
Proof.
  intros P. pose proof P as (_ & L & _ & _ & I). split; [exact L|]. intros r H. pose proof (I r H) as R0. split; [exact R0|].
  apply (same_part_bref _ _ r P R0).
Qed.

Lemma holds_ref_rsub c c' r b : rsub c c' -> holds_ref c' r b -> holds_ref c r b.
Proof. intros [L H] (Lr & Rr & Br). destruct (H r Rr) as [A B]. split; [lia|]. split; [exact A|congruence]. Qed.

Lemma sbelow_below t u : sbelow t u -> below t u.
Proof. intros (p & _ & H). exists p. exact H. Qed.

Lemma ty_eq_dec (a b : ty) : {a = b} + {a <> b}.
Proof. destruct (ty_eqb a b) eqn:E; [left; apply ty_eqb_eq; exact E|right; intros ->; rewrite (proj2 (ty_eqb_eq b b) eq_refl) in E; discriminate]. Qed.

Lemma rbound_eq_dec (a b : rbound) : {a = b} + {a <> b}.
Proof. decide equality; try apply Nat.eq_dec; apply ty_eq_dec. Qed.

(* ---- what a call may touch; M: a set of tree valuations (models of the final state of the enclosing call) *)
Definition frame (M : (nat -> itree) -> Prop) (c c' : ctx) (tops : list nat) : Prop :=
  rsub c c' /\
  forall b', slab_get c' b' <> slab_get c b' ->
    exists r, holds_ref c r b' /\ forall be, M be -> exists x, In x tops /\ below (be r) (be x).

Lemma frame_refl M c tops : frame M c c tops.
Proof. split; [apply rsub_refl|]. intros b' H. contradiction. Qed.

Lemma frame_trans M c c1 c2 T1 T2 T : frame M c c1 T1 -> frame M c1 c2 T2 ->
  (forall be, M be -> forall x, In x T1 \/ In x T2 -> exists z, In z T /\ below (be x) (be z)) -> frame M c c2 T.
Proof.
  intros [R1 F1] [R2 F2] Hz. split; [eapply rsub_trans; eassumption|].
  intros b' Hc. destruct (rbound_eq_dec (slab_get c1 b') (slab_get c b')) as [E|N].
  - rewrite <- E in Hc. destruct (F2 b' Hc) as (r & HR & Hb). exists r. split; [apply (holds_ref_rsub c c1); assumption|].
    intros be Sb. destruct (Hb be Sb) as (x & Hx & Bx). destruct (Hz be Sb x (or_intror Hx)) as (z & Hz' & Bz). exists z. split; [exact Hz'|eapply below_trans; eassumption].
  - destruct (F1 b' N) as (r & HR & Hb). exists r. split; [exact HR|].
    intros be Sb. destruct (Hb be Sb) as (x & Hx & Bx). destruct (Hz be Sb x (or_introl Hx)) as (z & Hz' & Bz). exists z. split; [exact Hz'|eapply below_trans; eassumption].
Qed.

Lemma frame_retop M c c' T T' : frame M c c' T -> (forall be, M be -> forall x, In x T -> exists z, In z T' /\ below (be x) (be z)) -> frame M c c' T'.
Proof.
  intros [R F] Hz. split; [exact R|]. intros b' Hc. destruct (F b' Hc) as (r & HR & Hb). exists r. split; [exact HR|].
  intros be Mb. destruct (Hb be Mb) as (x & Hx & Bx). destruct (Hz be Mb x Hx) as (z & Hz' & Bz). exists z. split; [exact Hz'|eapply below_trans; eassumption].
Qed.

Lemma frame_sub (M M' : (nat -> itree) -> Prop) c c' T : frame M c c' T -> (forall be, M' be -> M be) -> frame M' c c' T.
Proof. intros [R F] H. split; [exact R|]. intros b' Hc. destruct (F b' Hc) as (r & HR & Hb). exists r. split; [exact HR|]. intros be Mb. apply Hb. apply H. exact Mb. Qed.

Lemma frame_same_part M c u' tops : same_part (c_uf c) u' -> frame M c (put_uf c u') tops.
Proof. intros P. split; [apply rsub_same_part; exact P|]. intros b' H. exfalso. apply H. reflexivity. Qed.

Lemma frame_cset M c b new r tops : holds_ref c r b -> In r tops -> frame M c (cset c b new) tops.
Proof.
  intros HR Hin. split; [split; [reflexivity|intros r0 H0; auto]|]. intros b' H. destruct (Nat.eq_dec b b') as [<-|N].
  - exists r. split; [exact HR|]. intros be _. exists r. split; [exact Hin|apply below_refl; apply teq_refl].
  - exfalso. apply H. apply cset_get_neq. exact N.
Qed.

(* the tree-domain specifications *)
Lemma t_unify_spec f c x y c' : cwf c -> (x < length (c_uf c))%nat -> (y < length (c_uf c))%nat -> ctx_unify f c x y = Ok c' ->
  post c c' /\ forall be, tsat_r be c' <-> tsat_r be c /\ teq (be x) (be y).
Proof.
  intros CW Lx Ly E. pose proof (unify_spec_all itree teq tone tsum tprod) as S.
  specialize (S ltac:(dom_hyps) ltac:(dom_hyps) ltac:(dom_hyps) ltac:(dom_hyps) ltac:(dom_hyps) ltac:(dom_hyps) ltac:(dom_hyps)
                ltac:(dom_hyps) ltac:(dom_hyps) ltac:(dom_hyps) f c x y CW Lx Ly).
  rewrite E in S. destruct S as (A & _ & B). split; assumption.
Qed.

Lemma t_bind_spec f c b0 new eb c' : cwf c -> holds_ref c eb b0 -> bound_in (length (c_uf c)) new -> bind f c b0 new = Ok c' ->
  post c c' /\ forall be, tsat_r be c' <-> tsat_r be c /\ dholds_r itree teq tone tsum tprod be eb new.
Proof.
  intros CW HR BI E. pose proof (bind_spec_all itree teq tone tsum tprod) as S.
  specialize (S ltac:(dom_hyps) ltac:(dom_hyps) ltac:(dom_hyps) ltac:(dom_hyps) ltac:(dom_hyps) ltac:(dom_hyps) ltac:(dom_hyps)
                ltac:(dom_hyps) ltac:(dom_hyps) ltac:(dom_hyps) f c b0 new eb CW HR BI).
  rewrite E in S. exact S.
Qed.

Lemma t_rep be c e : tsat_r be c -> (e < length (c_uf c))%nat -> teq (be e) (be (rep (c_uf c) e)).
Proof. intros [H _] He. apply H. exact He. Qed.

Lemma t_holds be c eb b : tsat_r be c -> holds_ref c eb b -> dholds_r itree teq tone tsum tprod be eb (slab_get c b).
Proof. intros [_ H2] (Le & Re & Be). specialize (H2 eb Le Re). rewrite Be in H2. exact H2. Qed.

(* ---- a successful unify is path halving, possibly followed by one link and one successful bind *)
Lemma unify_ok_decomp f c x y c' : cwf c -> (x < length (c_uf c))%nat -> (y < length (c_uf c))%nat -> ctx_unify f c x y = Ok c' ->
  exists u2, same_part (c_uf c) u2 /\ (c' = put_uf c u2 \/
    exists xr' yr', (xr' < length u2)%nat /\ (yr' < length u2)%nat /\ is_uroot u2 xr' /\ is_uroot u2 yr' /\ xr' <> yr' /\
      (ub_rank (ufget u2 yr') <= ub_rank (ufget u2 xr'))%N /\
      ((xr' = rep (c_uf c) x /\ yr' = rep (c_uf c) y) \/ (xr' = rep (c_uf c) y /\ yr' = rep (c_uf c) x)) /\
      bind f (put_uf c (ub_link u2 xr' yr')) (bref_of u2 xr') (slab_get c (bref_of u2 yr')) = Ok c').
Proof.
  intros CW Lx Ly. pose proof CW as (W & Ch & Un & Br).
  unfold ctx_unify, ub_unify. cbv zeta.
  destruct (root_element_ok (c_uf c) x W Lx) as (u1 & E1 & W1 & L1 & M1 & K1 & R1 & D1 & I1).
  rewrite E1. cbn [lift_unit obind].
  destruct (root_element_ok u1 y W1 ltac:(lia)) as (u2 & E2 & W2 & L2 & M2 & K2 & R2 & D2 & I2).
  rewrite E2. cbn [lift_unit obind].
  assert (P1 : same_part (c_uf c) u1) by (repeat split; auto).
  assert (P2 : same_part u1 u2) by (repeat split; auto).
  pose proof (same_part_trans _ _ _ P1 P2) as P12.
  assert (Ey : rep u1 y = rep (c_uf c) y) by (apply R1; exact Ly).
  rewrite Ey.
  set (xr := rep (c_uf c) x). set (yr := rep (c_uf c) y).
  destruct (rep_root _ x W Lx) as [Rx0 Lxr]. destruct (rep_root _ y W Ly) as [Ry0 Lyr]. fold xr in Rx0, Lxr. fold yr in Ry0, Lyr.
  pose proof (proj1 (same_part_root _ _ xr P12) Rx0) as Rx2. pose proof (proj1 (same_part_root _ _ yr P12) Ry0) as Ry2.
  rewrite (unwrap_root_root u2 xr Rx2), (unwrap_root_root u2 yr Ry2). cbn [lift_unit obind].
  assert (Len2 : length u2 = length (c_uf c)) by lia.
  destruct (Nat.eqb (bref_of u2 xr) (bref_of u2 yr)) eqn:Eqb.
  { intros E. injection E as <-. exists u2. split; [exact P12|left; reflexivity]. }
  assert (Nxy : xr <> yr) by (intros Exy; rewrite Exy, Nat.eqb_refl in Eqb; discriminate).
  assert (Tail : forall xr' yr' (eqr : bool) (rx0 : N),
    (xr' < length u2)%nat -> (yr' < length u2)%nat -> is_uroot u2 xr' -> is_uroot u2 yr' -> xr' <> yr' ->
    (ub_rank (ufget u2 yr') <= ub_rank (ufget u2 xr'))%N ->
    eqr = N.eqb (ub_rank (ufget u2 xr')) (ub_rank (ufget u2 yr')) -> (eqr = true -> rx0 = ub_rank (ufget u2 xr')) ->
    ((xr' = xr /\ yr' = yr) \/ (xr' = yr /\ yr' = xr)) ->
      (if (eqr && (rx0 =? usize_max)%N)%bool then Panic 3 else
        ' x_data <- @lift_unit ctx berr nat (unwrap_root (if eqr then set_rank u2 xr' (rx0 + 1) else u2) xr') ;;
        match ub_data (ufget (if eqr then set_rank u2 xr' (rx0 + 1) else u2) yr') with
        | URoot y_data =>
            match bind f (put_uf c (set_data (if eqr then set_rank u2 xr' (rx0 + 1) else u2) yr' (UEq xr'))) x_data
                    (slab_get (put_uf c (set_data (if eqr then set_rank u2 xr' (rx0 + 1) else u2) yr' (UEq xr'))) y_data)
            with
            | Ok st' => Ok st'
            | Err (e, st') => Err (e, put_uf st' (set_data (c_uf st') yr'
                                (ub_data (ufget (if eqr then set_rank u2 xr' (rx0 + 1) else u2) yr'))))
            | Panic c0 => Panic c0
            | OutOfFuel => OutOfFuel
            end
        | UEq _ => Panic 4
        end) = Ok c' ->
      exists u2', same_part (c_uf c) u2' /\ (c' = put_uf c u2' \/
        exists xr'' yr'', (xr'' < length u2')%nat /\ (yr'' < length u2')%nat /\ is_uroot u2' xr'' /\ is_uroot u2' yr'' /\ xr'' <> yr'' /\
          (ub_rank (ufget u2' yr'') <= ub_rank (ufget u2' xr''))%N /\
          ((xr'' = xr /\ yr'' = yr) \/ (xr'' = yr /\ yr'' = xr)) /\
          bind f (put_uf c (ub_link u2' xr'' yr'')) (bref_of u2' xr'') (slab_get c (bref_of u2' yr'')) = Ok c')).
  { intros xr' yr' eqr rx0 Lx' Ly' Rx' Ry' Nxy' Rk' Heq Hrx Cases.
    destruct (eqr && (rx0 =? usize_max)%N)%bool; [discriminate|].
    assert (U4 : set_data (if eqr then set_rank u2 xr' (rx0 + 1) else u2) yr' (UEq xr') = ub_link u2 xr' yr').
    { unfold ub_link. rewrite <- Heq. destruct eqr; [rewrite (Hrx eq_refl)|]; reflexivity. }
    set (u3 := if eqr then set_rank u2 xr' (rx0 + 1) else u2) in *.
    assert (D3 : forall e, ub_data (ufget u3 e) = ub_data (ufget u2 e)).
    { intros e. unfold u3. destruct eqr; [|reflexivity]. apply set_rank_data. exact Lx'. }
    assert (Rx3 : is_uroot u3 xr') by (unfold is_uroot; rewrite D3; exact Rx').
    rewrite (unwrap_root_root u3 xr' Rx3). cbn [lift_unit obind].
    assert (B3 : bref_of u3 xr' = bref_of u2 xr') by (unfold bref_of; rewrite D3; reflexivity).
    rewrite B3, D3.
    assert (Dy : ub_data (ufget u2 yr') = URoot (bref_of u2 yr')).
    { unfold is_uroot in Ry'. unfold bref_of. destruct (ub_data (ufget u2 yr')); [reflexivity|tauto]. }
    rewrite Dy, U4.
    change (slab_get (put_uf c (ub_link u2 xr' yr')) (bref_of u2 yr')) with (slab_get c (bref_of u2 yr')).
    destruct (bind f (put_uf c (ub_link u2 xr' yr')) (bref_of u2 xr') (slab_get c (bref_of u2 yr'))) as [st'|[e st']|k|] eqn:Eb; try discriminate.
    intros E. injection E as <-. exists u2. split; [exact P12|]. right. exists xr', yr'. repeat split; auto. }
  set (rx := ub_rank (ufget u2 xr)) in *. set (ry := ub_rank (ufget u2 yr)) in *.
  destruct (N.ltb rx ry) eqn:Lt.
  - apply N.ltb_lt in Lt.
    assert (Ne : N.eqb rx ry = false) by (apply N.eqb_neq; lia). rewrite Ne.
    apply (Tail yr xr false rx); auto; try lia; try discriminate.
    all: try (fold rx ry; lia).
    all: try (fold rx ry; symmetry; apply N.eqb_neq; lia).
  - apply N.ltb_ge in Lt.
    apply (Tail xr yr (N.eqb rx ry) rx); auto; try lia.
    all: try (fold rx ry; lia).
Qed.

(* ================================================================== the frame of bind / unify *)
Definition FLB (f : nat) : Prop := forall c b0 new eb c' (M : (nat -> itree) -> Prop), cwf c -> holds_ref c eb b0 ->
  bound_in (length (c_uf c)) new -> bind f c b0 new = Ok c' -> (forall be, M be -> tsat_r be c') -> frame M c c' [eb].

Definition FLU (f : nat) : Prop := forall c x y c' (M : (nat -> itree) -> Prop), cwf c ->
  (x < length (c_uf c))%nat -> (y < length (c_uf c))%nat -> ctx_unify f c x y = Ok c' -> (forall be, M be -> tsat_r be c') ->
  frame M c c' [x; y].

Lemma rsub_link c u x y : uf_wf u -> (x < length u)%nat -> (y < length u)%nat -> is_uroot u x -> is_uroot u y -> x <> y ->
  (ub_rank (ufget u y) <= ub_rank (ufget u x))%N -> rsub (put_uf c u) (put_uf c (ub_link u x y)).
Proof.
  intros W Hx Hy Rx Ry N Rk. destruct (ub_link_spec u x y W Hx Hy Rx Ry N Rk) as (_ & L & _).
  split; [exact L|]. cbn [put_uf c_uf]. intros r Hr.
  assert (Nr : r <> y) by (intros ->; unfold is_uroot in Hr; rewrite (ub_link_data_y u x y Hy) in Hr; exact Hr).
  unfold is_uroot, bref_of in *. rewrite (ub_link_data_other u x y r Hx Nr) in *. auto.
Qed.

Lemma below_rep be c e z : tsat_r be c -> (e < length (c_uf c))%nat -> z = rep (c_uf c) e -> below (be z) (be e).
Proof. intros Sb He ->. apply below_refl. apply teq_sym. apply (t_rep be c e Sb He). Qed.

Lemma FLU_of_FLB f : FLB f -> FLU f.
Proof.
  intros BS c x y c' M CW Lx Ly E HM. pose proof CW as (W & _).
  destruct (t_unify_spec f c x y c' CW Lx Ly E) as [_ Sp].
  destruct (unify_ok_decomp f c x y c' CW Lx Ly E) as (u2 & P12 & [->|(xr' & yr' & Lx' & Ly' & Rx' & Ry' & Nxy & Rk & Cases & Eb)]).
  - apply frame_same_part. exact P12.
  - pose proof (cwf_same_part c u2 CW P12) as CW2.
    destruct (link_state_fin (put_uf c u2) xr' yr' CW2 Lx' Ly' Rx' Ry' Nxy Rk) as [CW4 HR4]. cbn [put_uf c_uf c_slab] in CW4, HR4.
    change (put_uf (put_uf c u2) (ub_link u2 xr' yr')) with (put_uf c (ub_link u2 xr' yr')) in CW4, HR4.
    set (c4 := put_uf c (ub_link u2 xr' yr')) in *.
    pose proof (BS c4 _ _ xr' c' M CW4 HR4 (cwf_bound_in c4 _ CW4) Eb HM) as F4.
    assert (F04 : frame M c c4 []).
    { split.
      - eapply rsub_trans; [apply (rsub_same_part c (put_uf c u2)); exact P12|]. destruct P12 as (W2 & _). apply rsub_link; assumption.
      - intros b' H. exfalso. apply H. reflexivity. }
    apply (frame_trans M c c4 c' [] [xr'] [x; y] F04 F4).
    intros be Mb x0 [[]|[<-|[]]]. pose proof (proj1 (proj1 (Sp be) (HM be Mb))) as Sc.
    destruct Cases as [[-> _]|[-> _]]; [exists x|exists y]; (split; [cbn; auto|]); eapply below_rep; eauto.
Qed.

Lemma comp_frame f : FLB f -> forall c t1 t2 c1 c2 c' (M : (nat -> itree) -> Prop), cwf c ->
  (t1 < length (c_uf c))%nat -> (t2 < length (c_uf c))%nat -> comp_chain f c t1 t2 c1 c2 = Ok c' ->
  (forall be, M be -> tsat_r be c') -> (forall be, M be -> tsat_r be c) -> frame M c c' [t1; t2].
Proof.
  intros BS c x1 x2 c1 c2 c' M CW L1 L2 E HM HMc. pose proof CW as (W & _). unfold comp_chain in E.
  destruct (c_root_spec c x1 CW L1) as (ua & Ea & Pa). rewrite Ea in E. cbn [obind] in E.
  pose proof (cwf_same_part c ua CW Pa) as CWa.
  assert (La : length ua = length (c_uf c)) by (destruct Pa as (_ & L & _); exact L).
  destruct (c_root_spec (put_uf c ua) x2 CWa ltac:(cbn [put_uf c_uf]; lia)) as (ub & Eb2 & Pb). rewrite Eb2 in E. cbn [obind put_uf c_uf c_slab] in E.
  set (cb0 := mk_ctx (c_slab c) ub) in *. change (put_uf (put_uf c ua) ub) with cb0 in E.
  pose proof (same_part_trans _ _ _ Pa Pb) as Pab.
  assert (CWb : cwf cb0) by (apply (cwf_same_part c ub CW Pab)).
  assert (Lab : length ub = length (c_uf c)) by (destruct Pab as (_ & L & _); exact L).
  set (r1 := rep (c_uf c) x1) in *. set (r2 := rep ua x2) in *.
  destruct (rep_root (c_uf c) x1 W L1) as [Rr1 Lr1]. fold r1 in Rr1, Lr1.
  assert (Wa : uf_wf ua) by (destruct Pa; assumption).
  destruct (rep_root ua x2 Wa ltac:(lia)) as [Rr2 Lr2]. fold r2 in Rr2, Lr2.
  assert (Er2 : r2 = rep (c_uf c) x2) by (destruct Pa as (_ & _ & R & _); apply R; exact L2).
  assert (H1 : holds_ref cb0 r1 (bref_of (c_uf c) r1)).
  { unfold holds_ref, cb0. cbn [c_uf]. split; [lia|]. split; [apply (proj1 (same_part_root _ _ r1 Pab)); exact Rr1|].
    apply same_part_bref; [exact Pab|exact Rr1]. }
  destruct (bind f cb0 (bref_of (c_uf c) r1) (RComplete c1)) as [cc|e1|k|] eqn:B1; cbn [obind] in E; try discriminate.
  destruct (bc_post f cb0 _ c1 r1 CWb H1 cc B1) as [CWc Kc].
  assert (H2 : holds_ref cc r2 (bref_of ua r2)).
  { apply (holds_ref_keeps cb0); [exact Kc|]. unfold holds_ref, cb0. cbn [c_uf]. split; [lia|].
    split; [apply (proj1 (same_part_root _ _ r2 Pb)); exact Rr2|apply same_part_bref; [exact Pb|exact Rr2]]. }
  destruct (t_bind_spec f cc _ (RComplete c2) r2 c' CWc H2 I E) as [_ Sp2].
  pose proof (BS cb0 _ (RComplete c1) r1 cc M CWb H1 I B1 ltac:(intros be Mb; apply (Sp2 be); apply HM; exact Mb)) as F1.
  pose proof (BS cc _ (RComplete c2) r2 c' M CWc H2 I E HM) as F2.
  pose proof (frame_same_part M c ub [] Pab) as F0. change (put_uf c ub) with cb0 in F0.
  pose proof (frame_trans M c cb0 cc [] [r1] [x1; x2] F0 F1) as F01.
  specialize (F01 ltac:(intros be Mb x0 [[]|[<-|[]]]; exists x1; split; [cbn; auto|eapply below_rep; [apply HMc; exact Mb|exact L1|reflexivity]])).
  apply (frame_trans M c cc c' [x1; x2] [r2] [x1; x2] F01 F2).
  intros be Mb x0 [Hin|[<-|[]]]; [exists x0; split; [exact Hin|apply below_refl; apply teq_refl]|].
  exists x2. split; [cbn; auto|]. eapply below_rep; [apply HMc; exact Mb|exact L2|exact Er2].
Qed.

Lemma pair_children_below be c eb b0 s x1 x2 : tsat_r be c -> holds_ref c eb b0 -> slab_get c b0 = rpair s x1 x2 ->
  sbelow (be x1) (be eb) /\ sbelow (be x2) (be eb).
Proof.
  intros Sb HR Eb. pose proof (t_holds be c eb b0 Sb HR) as Hh. rewrite Eb in Hh.
  destruct s; cbn [rpair dholds_r] in Hh; [apply (sbelow_node LSum)|apply (sbelow_node LProd)]; exact Hh.
Qed.

Lemma struct_frame f : FLU f -> forall c b0 eb s x1 x2 y1 y2 c' (M : (nat -> itree) -> Prop), cwf c -> holds_ref c eb b0 ->
  slab_get c b0 = rpair s x1 x2 -> (y1 < length (c_uf c))%nat -> (y2 < length (c_uf c))%nat ->
  struct_chain f c b0 s x1 x2 y1 y2 = Ok c' ->
  (forall be, M be -> tsat_r be c /\ teq (be x1) (be y1) /\ teq (be x2) (be y2)) -> frame M c c' [eb].
Proof.
  intros US c b0 eb s x1 x2 y1 y2 c' M CW HR Eb Ly1 Ly2 E HM. pose proof CW as (W & Ch & Un & Br).
  assert (Lx : (x1 < length (c_uf c))%nat /\ (x2 < length (c_uf c))%nat) by (apply (Ch b0 x1 x2); rewrite Eb; destruct s; auto).
  destruct Lx as [Lx1 Lx2]. unfold struct_chain in E.
  destruct (ctx_unify f c x1 y1) as [c1|e1|k|] eqn:E1; cbn [obind] in E; try discriminate.
  destruct (t_unify_spec f c x1 y1 c1 CW Lx1 Ly1 E1) as [(CW1 & L1 & _) Sp1].
  destruct (ctx_unify f c1 x2 y2) as [c2|e2|k|] eqn:E2; cbn [obind] in E; try discriminate.
  destruct (t_unify_spec f c1 x2 y2 c2 CW1 ltac:(lia) ltac:(lia) E2) as [(CW2 & L2 & _) Sp2].
  assert (M1 : forall be, M be -> tsat_r be c1) by (intros be Mb; apply Sp1; destruct (HM be Mb) as (A & B & _); auto).
  assert (M2 : forall be, M be -> tsat_r be c2) by (intros be Mb; apply Sp2; destruct (HM be Mb) as (A & B & C); auto).
  pose proof (US c x1 y1 c1 M CW Lx1 Ly1 E1 M1) as F1.
  pose proof (US c1 x2 y2 c2 M CW1 ltac:(lia) ltac:(lia) E2 M2) as F2.
  assert (F12 : frame M c c2 [eb]).
  { apply (frame_trans M c c1 c2 [x1; y1] [x2; y2] [eb] F1 F2). intros be Mb x0 Hx. exists eb. split; [left; reflexivity|].
    destruct (HM be Mb) as (Sc & T1 & T2). destruct (pair_children_below be c eb b0 s x1 x2 Sc HR Eb) as [B1 B2].
    destruct Hx as [[<-|[<-|[]]]|[<-|[<-|[]]]].
    - apply sbelow_below. exact B1.
    - apply (below_teq_l _ (be x1)); [apply teq_sym; exact T1|apply sbelow_below; exact B1].
    - apply sbelow_below. exact B2.
    - apply (below_teq_l _ (be x2)); [apply teq_sym; exact T2|apply sbelow_below; exact B2]. }
  unfold complete_pair_data in E.
  destruct (c_root_spec c2 y1 CW2 ltac:(lia)) as (ua & Ea & Pa). rewrite Ea in E. cbn [obind] in E.
  pose proof (cwf_same_part c2 ua CW2 Pa) as CWa.
  assert (La : length ua = length (c_uf c2)) by (destruct Pa as (_ & L & _); exact L).
  destruct (c_root_spec (put_uf c2 ua) y2 CWa ltac:(cbn [put_uf c_uf]; lia)) as (ub & Eb2 & Pb). rewrite Eb2 in E. cbn [obind put_uf c_uf c_slab] in E.
  set (c3 := mk_ctx (c_slab c2) ub) in *. change (put_uf (put_uf c2 ua) ub) with c3 in E.
  pose proof (same_part_trans _ _ _ Pa Pb) as Pab.
  assert (F3 : frame M c c3 [eb]).
  { apply (frame_trans M c c2 c3 [eb] [] [eb] F12 (frame_same_part M c2 ub [] Pab)).
    intros be Mb x0 [Hin|[]]. exists x0. split; [exact Hin|apply below_refl; apply teq_refl]. }
  assert (Fin : forall new, frame M c (cset c3 b0 new) [eb]).
  { intros new. destruct F3 as [R3 Fc3]. split; [destruct R3 as [Lr Hr]; split; [exact Lr|exact Hr]|].
    intros b' Hc. destruct (Nat.eq_dec b0 b') as [<-|N].
    - exists eb. split; [exact HR|]. intros be _. exists eb. split; [left; reflexivity|apply below_refl; apply teq_refl].
    - rewrite cset_get_neq in Hc by exact N. apply Fc3. exact Hc. }
  destruct (slab_get c3 _) as [|d1|? ?|? ?]; try (injection E as <-; exact F3).
  destruct (slab_get c3 _) as [|d2|? ?|? ?]; try (injection E as <-; exact F3).
  cbn [obind] in E. unfold reassign_non_complete in E. destruct (slab_get c3 b0); try discriminate; injection E as <-; apply Fin.
Qed.

Lemma FLB_step f : FLB f -> FLB (S f).
Proof.
  intros BS. pose proof (FLU_of_FLB f BS) as US.
  intros c b0 new eb c' M CW HR BI E HM. pose proof CW as (W & Ch & Un & Br). pose proof HR as (Le & Re & Be).
  destruct (t_bind_spec (S f) c b0 new eb c' CW HR BI E) as [_ Sp].
  assert (HMc : forall be, M be -> tsat_r be c /\ dholds_r itree teq tone tsum tprod be eb new) by (intros be Mb; apply Sp; apply HM; exact Mb).
  rewrite bind_S in E.
  assert (Cs : forall n0, frame M c (cset c b0 n0) [eb]) by (intros n0; apply (frame_cset M c b0 n0 eb [eb] HR); left; reflexivity).
  destruct new as [|t|y1 y2|y1 y2].
  - assert (E' : c' = c) by (destruct (slab_get c b0) as [|[|? ?|? ?]|? ?|? ?]; injection E as <-; reflexivity). subst c'. apply frame_refl.
  - destruct (slab_get c b0) as [|ef|x1 x2|x1 x2] eqn:Eb.
    + unfold reassign_non_complete in E. rewrite Eb in E. injection E as <-. apply Cs.
    + assert (G : forall (A : Type) (x : A), match ef with One | _ => x end = x) by (intros; destruct ef; reflexivity).
      rewrite G in E. destruct (ty_eqb ef t); [injection E as <-; apply frame_refl|discriminate].
    + destruct (Ch b0 x1 x2 (or_introl Eb)) as [L1 L2]. destruct t as [|c1 c2|c1 c2]; try discriminate.
      apply (frame_retop M c c' [x1; x2] [eb] (comp_frame f BS c x1 x2 c1 c2 c' M CW L1 L2 E HM (fun be Mb => proj1 (HMc be Mb)))).
      intros be Mb x0 Hx. exists eb. split; [left; reflexivity|]. destruct (pair_children_below be c eb b0 true x1 x2 (proj1 (HMc be Mb)) HR Eb) as [B1 B2].
      destruct Hx as [<-|[<-|[]]]; apply sbelow_below; assumption.
    + destruct (Ch b0 x1 x2 (or_intror Eb)) as [L1 L2]. destruct t as [|c1 c2|c1 c2]; try discriminate.
      apply (frame_retop M c c' [x1; x2] [eb] (comp_frame f BS c x1 x2 c1 c2 c' M CW L1 L2 E HM (fun be Mb => proj1 (HMc be Mb)))).
      intros be Mb x0 Hx. exists eb. split; [left; reflexivity|]. destruct (pair_children_below be c eb b0 false x1 x2 (proj1 (HMc be Mb)) HR Eb) as [B1 B2].
      destruct Hx as [<-|[<-|[]]]; apply sbelow_below; assumption.
  - destruct BI as [Ly1 Ly2].
    destruct (slab_get c b0) as [|ef|x1 x2|x1 x2] eqn:Eb.
    + unfold reassign_non_complete in E. rewrite Eb in E. injection E as <-. apply Cs.
    + destruct ef as [|c1 c2|c1 c2]; try discriminate.
      apply (frame_retop M c c' [y1; y2] [eb] (comp_frame f BS c y1 y2 c1 c2 c' M CW Ly1 Ly2 E HM (fun be Mb => proj1 (HMc be Mb)))).
      intros be Mb x0 Hx. exists eb. split; [left; reflexivity|]. destruct (HMc be Mb) as [_ Hh]. cbn [dholds_r] in Hh.
      destruct (sbelow_node LSum _ _ _ Hh) as [B1 B2]. destruct Hx as [<-|[<-|[]]]; apply sbelow_below; assumption.
    + apply (struct_frame f US c b0 eb true x1 x2 y1 y2 c' M CW HR Eb Ly1 Ly2 E).
      intros be Mb. destruct (HMc be Mb) as [Sc Hh]. split; [exact Sc|]. cbn [dholds_r] in Hh.
      pose proof (t_holds be c eb b0 Sc HR) as H0. rewrite Eb in H0. cbn [dholds_r] in H0.
      apply (tnode_inj LSum). eapply teq_trans; [apply teq_sym; exact H0|exact Hh].
    + discriminate.
  - destruct BI as [Ly1 Ly2].
    destruct (slab_get c b0) as [|ef|x1 x2|x1 x2] eqn:Eb.
    + unfold reassign_non_complete in E. rewrite Eb in E. injection E as <-. apply Cs.
    + destruct ef as [|c1 c2|c1 c2]; try discriminate.
      apply (frame_retop M c c' [y1; y2] [eb] (comp_frame f BS c y1 y2 c1 c2 c' M CW Ly1 Ly2 E HM (fun be Mb => proj1 (HMc be Mb)))).
      intros be Mb x0 Hx. exists eb. split; [left; reflexivity|]. destruct (HMc be Mb) as [_ Hh]. cbn [dholds_r] in Hh.
      destruct (sbelow_node LProd _ _ _ Hh) as [B1 B2]. destruct Hx as [<-|[<-|[]]]; apply sbelow_below; assumption.
    + discriminate.
    + apply (struct_frame f US c b0 eb false x1 x2 y1 y2 c' M CW HR Eb Ly1 Ly2 E).
      intros be Mb. destruct (HMc be Mb) as [Sc Hh]. split; [exact Sc|]. cbn [dholds_r] in Hh.
      pose proof (t_holds be c eb b0 Sc HR) as H0. rewrite Eb in H0. cbn [dholds_r] in H0.
      apply (tnode_inj LProd). eapply teq_trans; [apply teq_sym; exact H0|exact Hh].
Qed.

Theorem FLB_all : forall f, FLB f.
Proof. induction f as [|f IH]; [intros c b0 new eb c' M _ _ _ E; discriminate E|apply FLB_step; exact IH]. Qed.

Theorem FLU_all : forall f, FLU f.
Proof. intros f. apply FLU_of_FLB. apply FLB_all. Qed.

(* ================================================================== the assertion of reassign_non_complete holds *)
Theorem no_panic10 f c b0 eb s x1 x2 y1 y2 c1 c2 ub t d1 d2 : cwf c -> holds_ref c eb b0 -> slab_get c b0 = rpair s x1 x2 ->
  (y1 < length (c_uf c))%nat -> (y2 < length (c_uf c))%nat ->
  ctx_unify f c x1 y1 = Ok c1 -> ctx_unify f c1 x2 y2 = Ok c2 -> same_part (c_uf c2) ub ->
  (forall be, tsat_r be (mk_ctx (c_slab c2) ub) -> teq (be y1) (tof d1) /\ teq (be y2) (tof d2)) ->
  slab_get c2 b0 = RComplete t -> False.
Proof.
  intros CW HR Eb Ly1 Ly2 E1 E2 Pab Hd Ec. pose proof CW as (W & Ch & Un & Br).
  assert (Lx : (x1 < length (c_uf c))%nat /\ (x2 < length (c_uf c))%nat) by (apply (Ch b0 x1 x2); rewrite Eb; destruct s; auto).
  destruct Lx as [Lx1 Lx2].
  destruct (t_unify_spec f c x1 y1 c1 CW Lx1 Ly1 E1) as [(CW1 & L1 & _) Sp1].
  destruct (t_unify_spec f c1 x2 y2 c2 CW1 ltac:(lia) ltac:(lia) E2) as [(CW2 & L2 & _) Sp2].
  set (c3 := mk_ctx (c_slab c2) ub) in *.
  assert (CW3 : cwf c3) by (apply (cwf_same_part c2 ub CW2 Pab)).
  assert (S3 : forall be, tsat_r be c3 <-> tsat_r be c2) by (intros be; apply (drsat_same_part itree teq tone tsum tprod); auto; dom_hyps).
  set (M := fun be => tsat_r be c3).
  assert (M2 : forall be, M be -> tsat_r be c2) by (intros be Mb; apply S3; exact Mb).
  assert (M1 : forall be, M be -> tsat_r be c1) by (intros be Mb; apply (Sp2 be); apply M2; exact Mb).
  assert (M0 : forall be, M be -> tsat_r be c /\ teq (be x1) (be y1) /\ teq (be x2) (be y2)).
  { intros be Mb. destruct (proj1 (Sp2 be) (M2 be Mb)) as [A2 T2]. destruct (proj1 (Sp1 be) A2) as [A1 T1]. auto. }
  pose proof (FLU_all f c x1 y1 c1 M CW Lx1 Ly1 E1 M1) as F1.
  pose proof (FLU_all f c1 x2 y2 c2 M CW1 ltac:(lia) ltac:(lia) E2 M2) as F2.
  pose proof (frame_trans M c c1 c2 [x1; y1] [x2; y2] [x1; y1; x2; y2] F1 F2) as F12.
  specialize (F12 ltac:(intros be Mb x0 Hx; exists x0; split; [cbn in *; tauto|apply below_refl; apply teq_refl])).
  destruct F12 as [_ Fc]. destruct (Fc b0 ltac:(rewrite Ec, Eb; destruct s; discriminate)) as (r & HRr & Hb).
  set (be0 := rwalk c3). assert (Mb : M be0) by (apply rwalk_model; exact CW3).
  destruct (Hb be0 Mb) as (x0 & Hx & Bx). destruct (M0 be0 Mb) as (Sc & T1 & T2).
  destruct (pair_children_below be0 c r b0 s x1 x2 Sc HRr Eb) as [B1 B2].
  destruct (Hd be0 Mb) as [D1 D2].
  assert (Fin : tfin (be0 r)).
  { pose proof (t_holds be0 c r b0 Sc HRr) as Hh. rewrite Eb in Hh.
    assert (F1' : tfin (be0 x1)) by (exists d1; eapply teq_trans; [exact T1|exact D1]).
    assert (F2' : tfin (be0 x2)) by (exists d2; eapply teq_trans; [exact T2|exact D2]).
    destruct s; cbn [rpair dholds_r] in Hh; apply (tfin_teq _ _ (teq_sym _ _ Hh)); [apply tfin_sum|apply tfin_prod]; assumption. }
  apply (fin_not_sbelow (be0 r) Fin).
  cbn [In] in Hx. destruct Hx as [<-|[<-|[<-|[<-|[]]]]].
  - apply (below_sbelow _ _ _ Bx B1).
  - apply (below_sbelow _ (be0 x1)); [apply (below_teq_r _ (be0 y1)); [apply teq_sym; exact T1|exact Bx]|exact B1].
  - apply (below_sbelow _ _ _ Bx B2).
  - apply (below_sbelow _ (be0 x2)); [apply (below_teq_r _ (be0 y2)); [apply teq_sym; exact T2|exact Bx]|exact B2].
Qed.
