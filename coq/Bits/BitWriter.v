(* Model of src/bit_encoding/bitwriter.rs: cached-byte bit writer with explicit flush. *)
From RS Require Import Lib.Tac Lib.Outcome Lib.ListExtra Lib.Bits Lib.Sweep Lib.ByteSweep Bits.BitIter.
Import ListNotations.
Local Open Scope N_scope.

Record bwriter := mkBw {
  bw_out : list N;       (* bytes handed to the underlying io::Write, in order *)
  bw_cache : N;
  bw_cache_len : N;
  bw_total : N
}.

Definition bw_new : bwriter := mkBw [] 0 0 0.

(* write_bit *)
Definition bw_write_bit (w : bwriter) (b : bool) : bwriter :=
  if bw_cache_len w <? 8 then
    let cl := bw_cache_len w + 1 in
    mkBw (bw_out w)
         (if b then N.lor (bw_cache w) (N.shiftl 1 (8 - cl)) else bw_cache w)
         cl (bw_total w + 1)
  else
    (* write_all(&[cache]); cache_len = 0; cache = 0; self.write_bit(b) *)
    mkBw (bw_out w ++ [bw_cache w])
         (if b then N.lor 0 (N.shiftl 1 7) else 0)
         1 (bw_total w + 1).

(* flush_all *)
Definition bw_flush_all (w : bwriter) : bwriter :=
  if 0 <? bw_cache_len w then mkBw (bw_out w ++ [bw_cache w]) 0 0 (bw_total w) else w.

(* write_bits_be(n, len): bit i is n & (1 << (len-i-1)); the u64 shift overflows
   (debug panic) when len > 64 *)
Definition bw_write_bits_be (w : bwriter) (n : N) (len : N) : outcome unit bwriter :=
  if 64 <? len then Panic 10
  else Ok (fold_left bw_write_bit (bits_be (N.to_nat len) n) w).

(* io::Write::write(buf): every byte MSB first *)
Definition bw_write_bytes (w : bwriter) (buf : list N) : bwriter :=
  fold_left bw_write_bit (bits_of_bytes buf) w.

Definition bw_write_bits (w : bwriter) (l : list bool) : bwriter := fold_left bw_write_bit l w.

(* ------------------------------------------------------------ abstraction *)

(* the bits written so far *)
Definition bw_bits (w : bwriter) : list bool :=
  bits_of_bytes (bw_out w) ++ firstn (N.to_nat (bw_cache_len w)) (bits_be 8 (bw_cache w)).

Definition bw_inv (w : bwriter) : Prop :=
  bw_cache_len w <= 8 /\ bw_cache w < 256 /\ bytes_ok (bw_out w) /\
  skipn (N.to_nat (bw_cache_len w)) (bits_be 8 (bw_cache w))
  = repeat false (8 - N.to_nat (bw_cache_len w)).

Lemma bw_inv_new : bw_inv bw_new.
Proof. unfold bw_inv, bw_new; cbn. repeat split; try lia. constructor. Qed.

Lemma write_bit_sweep c cl (b : bool) : c < 256 -> cl < 8 ->
  skipn (N.to_nat cl) (bits_be 8 c) = repeat false (8 - N.to_nat cl) ->
  let c' := if b then N.lor c (N.shiftl 1 (8 - (cl + 1))) else c in
  c' < 256 /\
  firstn (N.to_nat (cl + 1)) (bits_be 8 c') = firstn (N.to_nat cl) (bits_be 8 c) ++ [b] /\
  skipn (N.to_nat (cl + 1)) (bits_be 8 c') = repeat false (8 - N.to_nat (cl + 1)).
Proof.
  intros Hc Hcl Hz.
  pose proof (sweep2 256 8
    (fun c cl =>
       negb (list_beq Bool.eqb (skipn (N.to_nat cl) (bits_be 8 c)) (repeat false (8 - N.to_nat cl))) ||
       forallb (fun b : bool =>
         let c' := if b then N.lor c (N.shiftl 1 (8 - (cl + 1))) else c in
         (c' <? 256) &&
         list_beq Bool.eqb (firstn (N.to_nat (cl + 1)) (bits_be 8 c'))
                           (firstn (N.to_nat cl) (bits_be 8 c) ++ [b]) &&
         list_beq Bool.eqb (skipn (N.to_nat (cl + 1)) (bits_be 8 c'))
                           (repeat false (8 - N.to_nat (cl + 1)))) [true; false])
    ltac:(vm_compute; reflexivity) c cl Hc Hcl) as H.
  cbv beta in H. apply orb_true_iff in H. destruct H as [H|H].
  - apply negb_true_iff in H. rewrite Hz in H.
    assert (list_beq Bool.eqb (repeat false (8 - N.to_nat cl)) (repeat false (8 - N.to_nat cl)) = true) as E.
    { clear. induction (8 - N.to_nat cl)%nat as [|k IH]; [reflexivity|]. cbn. exact IH. }
    congruence.
  - rewrite forallb_forall in H. specialize (H b ltac:(destruct b; cbn; auto)).
    cbv zeta in H. apply andb_true_iff in H. destruct H as [H H3].
    apply andb_true_iff in H. destruct H as [H1 H2].
    apply N.ltb_lt in H1. apply list_beq_bool in H2. apply list_beq_bool in H3.
    cbv zeta. auto.
Qed.

Lemma bits_of_bytes_snoc bs c : bits_of_bytes (bs ++ [c]) = bits_of_bytes bs ++ bits_be 8 c.
Proof. rewrite bits_of_bytes_app. cbn [bits_of_bytes flat_map]. rewrite app_nil_r. reflexivity. Qed.

Theorem bw_write_bit_spec w b : bw_inv w ->
  let w' := bw_write_bit w b in
  bw_inv w' /\ bw_bits w' = bw_bits w ++ [b] /\ bw_total w' = bw_total w + 1.
Proof.
  destruct w as [out c cl tot]. unfold bw_inv, bw_bits, bw_write_bit.
  cbn [bw_out bw_cache bw_cache_len bw_total]. intros (Hcl & Hc & Hout & Hz).
  destruct (N.ltb_spec cl 8) as [Hlt|Hge]; cbv zeta; cbn [bw_out bw_cache bw_cache_len bw_total].
  - destruct (write_bit_sweep c cl b Hc Hlt Hz) as (H1 & H2 & H3). cbv zeta in H1, H2, H3.
    split; [|split; [|reflexivity]].
    + repeat split; try assumption. lia.
    + rewrite H2, app_assoc. reflexivity.
  - assert (cl = 8) by lia. subst cl.
    assert (Hfull : firstn (N.to_nat 8) (bits_be 8 c) = bits_be 8 c).
    { apply firstn_all2. rewrite bits_be_length. lia. }
    rewrite Hfull.
    destruct (write_bit_sweep 0 0 b ltac:(lia) ltac:(lia) ltac:(reflexivity)) as (H1 & H2 & H3).
    cbv zeta in H1, H2, H3. change (8 - (0 + 1)) with 7 in *. change (0 + 1) with 1 in *.
    split; [|split; [|reflexivity]].
    + repeat split; try assumption; try lia.
      apply Forall_app. split; [assumption|constructor; [assumption|constructor]].
    + rewrite bits_of_bytes_snoc, H2. cbn [firstn N.to_nat app]. rewrite <- app_assoc. reflexivity.
Qed.

Theorem bw_write_bits_spec l : forall w, bw_inv w ->
  let w' := bw_write_bits w l in
  bw_inv w' /\ bw_bits w' = bw_bits w ++ l /\ bw_total w' = bw_total w + N.of_nat (length l).
Proof.
  induction l as [|b r IH]; intros w Hw; cbn [bw_write_bits fold_left length].
  - rewrite app_nil_r. split; [assumption|]. split; [reflexivity|]. cbn. lia.
  - destruct (bw_write_bit_spec w b Hw) as (Hi & Hb & Ht).
    destruct (IH (bw_write_bit w b) Hi) as (Hi' & Hb' & Ht'). cbv zeta in *.
    unfold bw_write_bits in *. split; [assumption|]. split.
    + rewrite Hb', Hb, <- app_assoc. reflexivity.
    + rewrite Ht', Ht. lia.
Qed.

Definition pad_of (cl : N) : nat := if N.eqb cl 0 then O else (8 - N.to_nat cl)%nat.

(* flush_all pads the cached bits with zeros up to a byte boundary *)
Theorem bw_flush_all_spec w : bw_inv w ->
  let w' := bw_flush_all w in
  bw_inv w' /\ bw_cache_len w' = 0 /\ bw_total w' = bw_total w /\
  bits_of_bytes (bw_out w')
  = bw_bits w ++ repeat false (pad_of (bw_cache_len w)).
Proof.
  destruct w as [out c cl tot]. unfold bw_inv, bw_bits, bw_flush_all.
  cbn [bw_out bw_cache bw_cache_len bw_total]. intros (Hcl & Hc & Hout & Hz). unfold pad_of.
  destruct (N.ltb_spec 0 cl) as [Hpos|H0]; cbv zeta; cbn [bw_out bw_cache bw_cache_len bw_total].
  - replace (cl =? 0) with false by (symmetry; apply N.eqb_neq; lia).
    split; [|split; [reflexivity|split; [reflexivity|]]].
    + repeat split; try lia.
      apply Forall_app. split; [assumption|constructor; [assumption|constructor]].
    + rewrite bits_of_bytes_snoc, <- app_assoc. f_equal.
      rewrite <- Hz. symmetry. apply firstn_skipn.
  - assert (cl = 0) by lia. subst cl. cbn [N.eqb N.to_nat firstn repeat].
    rewrite !app_nil_r. repeat split; try assumption; try lia.
Qed.

(* writer then reader: any bit sequence written and flushed is read back, followed
   by fewer than 8 zero bits, with matching counters *)
Theorem writer_reader l :
  let w := bw_flush_all (bw_write_bits bw_new l) in
  exists pad, (pad < 8)%nat /\
    bytes_ok (bw_out w) /\
    bw_total w = N.of_nat (length l) /\
    bi_remaining (biter_of_bytes (bw_out w)) = l ++ repeat false pad /\
    (length (bw_out w) * 8 = length l + pad)%nat.
Proof.
  cbv zeta.
  destruct (bw_write_bits_spec l bw_new bw_inv_new) as (Hi & Hb & Ht). cbv zeta in *.
  destruct (bw_flush_all_spec _ Hi) as (Hi' & Hcl & Ht' & Hbits). cbv zeta in *.
  set (w1 := bw_write_bits bw_new l) in *.
  exists (pad_of (bw_cache_len w1)).
  destruct Hi as (Hcl1 & _). destruct Hi' as (_ & _ & Hout & _).
  assert (Hpad : (pad_of (bw_cache_len w1) < 8)%nat).
  { unfold pad_of. destruct (N.eqb_spec (bw_cache_len w1) 0); lia. }
  split; [exact Hpad|]. split; [exact Hout|]. split; [rewrite Ht', Ht; cbn; lia|].
  rewrite bi_remaining_of_bytes, Hbits, Hb. cbn [bw_bits bw_new bw_out bits_of_bytes flat_map app].
  change (N.to_nat (bw_cache_len bw_new)) with O. cbn [firstn app].
  split; [reflexivity|].
  pose proof (f_equal (@length bool) Hbits) as Hlen.
  rewrite bits_of_bytes_length, app_length, repeat_length, Hb, app_length in Hlen.
  cbn [bw_bits bw_new bw_out bits_of_bytes flat_map app length] in Hlen.
  change (N.to_nat (bw_cache_len bw_new)) with O in Hlen. cbn [firstn length] in Hlen. lia.
Qed.

Example writer_reader_nonvacuous :
  bw_out (bw_flush_all (bw_write_bits bw_new [true; false; true])) = [160].
Proof. reflexivity. Qed.
