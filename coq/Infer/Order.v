(* C04 - order independence.  The typing relation (check_typing) is invariant under any
   renumbering of the node table that keeps children before parents; since infer returns the
   LEAST typing when one exists and an error otherwise, two construction orders of the same
   DAG give the same arrows (node by node) or both fail. *)
From RS Require Import Lib.Tac Lib.Outcome Ty.Ty Core.Prog
  Infer.Constraints Infer.Unify Infer.Infer Infer.Principal Infer.Gen Infer.Theorems.
Import ListNotations.

Definition rename_node (f : nat -> nat) (nd : node) : node :=
  match nd with
  | NInjL c => NInjL (f c)
  | NInjR c => NInjR (f c)
  | NTake c => NTake (f c)
  | NDrop c => NDrop (f c)
  | NComp l r => NComp (f l) (f r)
  | NCase l r => NCase (f l) (f r)
  | NPair l r => NPair (f l) (f r)
  | NDisconnect l r => NDisconnect (f l) (option_map f r)
  | other => other
  end.

Record perm_of (n : nat) (pi pinv : nat -> nat) : Prop := mk_perm {
  pi_lt : forall i, (i < n)%nat -> (pi i < n)%nat;
  pinv_lt : forall j, (j < n)%nat -> (pinv j < n)%nat;
  pinv_pi : forall i, (i < n)%nat -> pinv (pi i) = i;
  pi_pinv : forall j, (j < n)%nat -> pi (pinv j) = j
}.

(* p' is p with node i moved to position pi i (children renamed accordingly) *)
Definition permuted (pi : nat -> nat) (p p' : prog) : Prop :=
  length p' = length p /\
  forall i, (i < length p)%nat -> nth (pi i) p' NIden = rename_node pi (nth i p NIden).

(* children before parents *)
Definition topo (p : prog) : Prop :=
  forall i c, (i < length p)%nat -> In c (children (nth i p NIden)) -> (c < i)%nat.

Lemma wf_from_topo : forall p k, wf_from k p = true ->
  forall i c, (i < length p)%nat -> In c (children (nth i p NIden)) -> (c < k + i)%nat.
Proof.
  induction p as [|nd rest IH]; intros k H i c Hi Hc; [cbn in Hi; lia|].
  cbn [wf_from] in H. apply andb_true_iff in H. destruct H as [H1 H2].
  destruct i as [|i]; cbn [nth] in Hc.
  - rewrite forallb_forall in H1. specialize (H1 c Hc). apply Nat.ltb_lt in H1. lia.
  - cbn [length] in Hi. specialize (IH (S k) H2 i c ltac:(lia) Hc). lia.
Qed.

Lemma wf_prog_topo p : wf_from 0 p = true -> topo p.
Proof. intros H i c Hi Hc. apply (wf_from_topo p 0 H i c Hi Hc). Qed.

(* check_node looks at the other arrows only through its children *)
Lemma check_node_ext jt tau1 tau2 f nd own :
  (forall c, In c (children nd) -> nth_error tau1 c = nth_error tau2 (f c)) ->
  check_node jt tau1 nd own = check_node jt tau2 (rename_node f nd) own.
Proof.
  intros H. destruct nd; cbn [rename_node check_node children] in *; try reflexivity;
    unfold arr_of, hidden_at;
    try (rewrite (H c) by (cbn; auto)); try (rewrite (H l) by (cbn; auto)); try (rewrite (H r) by (cbn; auto));
    try reflexivity.
  (* disconnect *)
  destruct r as [r|]; cbn [option_map children] in *.
  - rewrite (H l) by (cbn; auto). rewrite (H r) by (cbn; auto). reflexivity.
  - rewrite (H l) by (cbn; auto). reflexivity.
Qed.

Lemma check_nodes_forall jt tau : forall p k, check_nodes jt tau k p = true <->
  (forall i, (i < length p)%nat -> check_node jt (firstn (k + i) tau) (nth i p NIden) (nth (k + i) tau None) = true).
Proof.
  induction p as [|nd rest IH]; intros k; cbn [check_nodes length].
  - split; [intros _ i Hi; lia|auto].
  - rewrite andb_true_iff, IH. split.
    + intros [H0 Hr] [|i] Hi; [rewrite Nat.add_0_r; exact H0|].
      cbn [nth]. specialize (Hr i ltac:(lia)). rewrite Nat.add_succ_r. exact Hr.
    + intros H. split; [specialize (H 0%nat ltac:(lia)); rewrite Nat.add_0_r in H; exact H|].
      intros i Hi. specialize (H (S i) ltac:(lia)). cbn [nth] in H. rewrite Nat.add_succ_r in H. exact H.
Qed.

Definition perm_typing (n : nat) (pinv : nat -> nat) (tau : list (option tarrow)) : list (option tarrow) :=
  map (fun j => nth (pinv j) tau None) (seq 0 n).

Lemma perm_typing_nth n pinv tau j : (j < n)%nat -> nth j (perm_typing n pinv tau) None = nth (pinv j) tau None.
Proof.
  intros H. unfold perm_typing.
  rewrite (nth_indep _ None (nth (pinv 0%nat) tau None)) by (rewrite map_length, seq_length; exact H).
  rewrite (map_nth (fun j => nth (pinv j) tau None) (seq 0 n) 0%nat j). rewrite seq_nth by exact H. reflexivity.
Qed.

Lemma perm_typing_length n pinv tau : length (perm_typing n pinv tau) = n.
Proof. unfold perm_typing. rewrite map_length, seq_length. reflexivity. Qed.

Lemma nth_error_nth_lt {A} (l : list A) i d : (i < length l)%nat -> nth_error l i = Some (nth i l d).
Proof. intros H. apply nth_error_nth'. exact H. Qed.

Lemma nth_error_firstn {A} (l : list A) k c : (c < k)%nat -> nth_error (firstn k l) c = nth_error l c.
Proof.
  revert k c. induction l as [|x l IH]; intros [|k] [|c] H; cbn; try lia; try reflexivity.
  apply IH. lia.
Qed.

(* the typing relation is invariant under topological renumbering *)
Lemma check_typing_perm jt root p p' pi pinv tau :
  perm_of (length p) pi pinv -> permuted pi p p' -> topo p -> topo p' ->
  (forall r, root = Some r -> (r < length p)%nat) ->
  check_typing jt root p tau = true ->
  check_typing jt (option_map pi root) p' (perm_typing (length p) pinv tau) = true.
Proof.
  intros P [Lp Hp] T T' Hroot C. unfold check_typing in *.
  apply andb_true_iff in C. destruct C as [C Cr]. apply andb_true_iff in C. destruct C as [Cl Cn].
  apply Nat.eqb_eq in Cl. set (n := length p) in *. set (tau' := perm_typing n pinv tau).
  assert (Ln : length tau' = n) by apply perm_typing_length.
  apply andb_true_iff. split; [apply andb_true_iff; split|].
  - rewrite Ln, Lp. apply Nat.eqb_refl.
  - apply check_nodes_forall. intros j Hj. rewrite Lp in Hj. cbn [Nat.add].
    rewrite check_nodes_forall in Cn. specialize (Cn (pinv j) (pinv_lt _ _ _ P j Hj)). cbn [Nat.add] in Cn.
    rewrite <- (pi_pinv _ _ _ P j Hj) at 2. rewrite (Hp (pinv j) (pinv_lt _ _ _ P j Hj)).
    unfold tau'. rewrite (perm_typing_nth n pinv tau j Hj). fold tau'.
    rewrite <- Cn. symmetry. apply check_node_ext. intros c Hc.
    pose proof (T (pinv j) c (pinv_lt _ _ _ P j Hj) Hc) as Lc.
    assert (Lcn : (c < n)%nat) by (pose proof (pinv_lt _ _ _ P j Hj); lia).
    assert (Lpc : (pi c < j)%nat).
    { apply (T' j (pi c)); [rewrite Lp; exact Hj|].
      rewrite <- (pi_pinv _ _ _ P j Hj) at 1. rewrite (Hp (pinv j) (pinv_lt _ _ _ P j Hj)).
      destruct (nth (pinv j) p NIden) as [ | |c0|c0|c0|c0|l0 r0|l0 r0|l0 r0|l0 ro|h|e|f0 n0|n0 bs|w];
        cbn [rename_node children] in *; try tauto;
        try (destruct Hc as [<-|[<-|[]]]; cbn; auto; fail); try (destruct Hc as [<-|[]]; cbn; auto; fail).
      destruct ro as [r0|]; cbn [option_map children] in *.
      - destruct Hc as [<-|[<-|[]]]; cbn; auto.
      - destruct Hc as [<-|[]]; cbn; auto. }
    rewrite !nth_error_firstn by assumption.
    rewrite (nth_error_nth_lt tau c None) by lia.
    rewrite (nth_error_nth_lt tau' (pi c) None) by (rewrite Ln; apply (pi_lt _ _ _ P); exact Lcn).
    unfold tau'. rewrite perm_typing_nth by (apply (pi_lt _ _ _ P); exact Lcn).
    rewrite (pinv_pi _ _ _ P c Lcn). reflexivity.
  - unfold check_root in *. destruct root as [r|]; [|reflexivity]. cbn [option_map].
    specialize (Hroot r eq_refl). unfold arr_of in *.
    rewrite (nth_error_nth_lt tau' (pi r) None) by (rewrite Ln; apply (pi_lt _ _ _ P); exact Hroot).
    unfold tau'. rewrite perm_typing_nth by (apply (pi_lt _ _ _ P); exact Hroot).
    rewrite (pinv_pi _ _ _ P r Hroot). rewrite (nth_error_nth_lt tau r None) in Cr by lia. exact Cr.
Qed.

(* the inverse renumbering *)
Lemma rename_rename f g nd : (forall c, In c (children nd) -> g (f c) = c) ->
  rename_node g (rename_node f nd) = nd.
Proof.
  intros H. destruct nd; cbn [rename_node children] in *; try reflexivity;
    try (rewrite !H by (cbn; auto); reflexivity).
  destruct r as [r|]; cbn [option_map children] in *; rewrite !H by (cbn; auto); reflexivity.
Qed.

Lemma permuted_inv pi pinv p p' : perm_of (length p) pi pinv -> permuted pi p p' -> topo p ->
  permuted pinv p' p.
Proof.
  intros P [Lp Hp] T. split; [symmetry; exact Lp|]. intros j Hj. rewrite Lp in Hj.
  pose proof (pinv_lt _ _ _ P j Hj) as Li.
  rewrite <- (pi_pinv _ _ _ P j Hj) at 2. rewrite (Hp _ Li). symmetry. apply rename_rename.
  intros c Hc. apply (pinv_pi _ _ _ P). pose proof (T _ _ Li Hc). lia.
Qed.

Lemma perm_of_inv n pi pinv : perm_of n pi pinv -> perm_of n pinv pi.
Proof. intros [A B C D]. constructor; assumption. Qed.

Lemma typing_le_nth : forall t1 t2, typing_le t1 t2 = true ->
  length t1 = length t2 /\ forall i, arrow_le (nth i t1 None) (nth i t2 None) = true.
Proof.
  induction t1 as [|a r IH]; intros [|b r2] H; cbn in H; try discriminate.
  - split; [reflexivity|]. intros [|i]; reflexivity.
  - apply andb_true_iff in H. destruct H as [H1 H2]. destruct (IH _ H2) as [L N].
    split; [cbn; lia|]. intros [|i]; cbn [nth]; auto.
Qed.

Lemma arrow_le_antisym a b : arrow_le a b = true -> arrow_le b a = true -> a = b.
Proof.
  destruct a as [[a1 a2]|], b as [[b1 b2]|]; cbn; intros H1 H2; try discriminate; auto.
  apply andb_true_iff in H1, H2. destruct H1, H2.
  rewrite (ty_le_antisym a1 b1), (ty_le_antisym a2 b2); auto.
Qed.

Theorem infer_order jt root p p' pi pinv :
  perm_of (length p) pi pinv -> permuted pi p p' ->
  wf_from 0 p = true -> wf_from 0 p' = true ->
  (forall r, root = Some r -> (r < length p)%nat) ->
  match infer jt root p, infer jt (option_map pi root) p' with
  | Ok tau, Ok tau' => forall i, (i < length p)%nat -> nth (pi i) tau' None = nth i tau None
  | Err _, Err _ => True
  | _, _ => False
  end.
Proof.
  intros P Pm W W' Hroot.
  pose proof (wf_prog_topo _ W) as T. pose proof (wf_prog_topo _ W') as T'.
  pose proof (permuted_inv _ _ _ _ P Pm T) as Pm'. pose proof (perm_of_inv _ _ _ P) as P'.
  destruct Pm as [Lp Hp].
  assert (Hroot' : forall r, option_map pi root = Some r -> (r < length p')%nat).
  { intros r E. destruct root as [r0|]; [|discriminate]. injection E as <-. rewrite Lp.
    apply (pi_lt _ _ _ P). apply Hroot. reflexivity. }
  assert (Eroot : option_map pinv (option_map pi root) = root).
  { destruct root as [r0|]; [|reflexivity]. cbn. rewrite (pinv_pi _ _ _ P); [reflexivity|]. apply Hroot. reflexivity. }
  (* from a typing of p' to a typing of p *)
  assert (Back : forall tau', check_typing jt (option_map pi root) p' tau' = true ->
                    check_typing jt root p (perm_typing (length p') pi tau') = true).
  { intros tau' C. rewrite <- Eroot. apply (check_typing_perm jt _ p' p pinv pi); auto.
    rewrite Lp. exact P'. }
  pose proof (infer_total jt root p) as Tt. pose proof (infer_total jt (option_map pi root) p') as Tt'.
  destruct (infer jt root p) as [tau|e| |] eqn:E; try contradiction.
  - pose proof (infer_sound _ _ _ _ E) as C.
    pose proof (check_typing_perm jt root p p' pi pinv tau P (conj Lp Hp) T T' Hroot C) as C'.
    destruct (infer_complete _ _ _ _ C') as (tau' & E'). rewrite E'.
    pose proof (infer_least _ _ _ _ _ E' C') as Le1.
    pose proof (infer_sound _ _ _ _ E') as C2. pose proof (Back tau' C2) as C3.
    pose proof (infer_least _ _ _ _ _ E C3) as Le2.
    destruct (typing_le_nth _ _ Le1) as [_ N1]. destruct (typing_le_nth _ _ Le2) as [_ N2].
    intros i Hi. apply arrow_le_antisym.
    + specialize (N1 (pi i)). rewrite perm_typing_nth in N1 by (apply (pi_lt _ _ _ P); exact Hi).
      rewrite (pinv_pi _ _ _ P i Hi) in N1. exact N1.
    + specialize (N2 i). rewrite perm_typing_nth in N2 by (rewrite Lp; exact Hi). exact N2.
  - destruct (infer jt (option_map pi root) p') as [tau'|e'| |] eqn:E'; try contradiction; [|exact I].
    pose proof (infer_sound _ _ _ _ E') as C2. pose proof (Back tau' C2) as C3.
    destruct (infer_complete _ _ _ _ C3) as (t0 & E0). congruence.
Qed.
