//! Program description language (PDL) shared by all program-level checks.
//!
//! A program is ONE whitespace-free token: nodes separated by `,`; node i may only refer to
//! nodes with smaller index; the root is the last node.  Node forms (fields separated by `.`):
//!   iden | unit | injl.C | injr.C | take.C | drop.C | comp.L.R | case.L.R | pair.L.R
//!   disc.L.R | disc.L.-            (disconnect with / without the right branch)
//!   hid.<64 hex>                   hidden node (only as a child of case: becomes assertl/assertr)
//!   fail.<128 hex>
//!   jet.c.<name> | jet.e.<name>    Core / Elements jet by its Display name
//!   word.<n>.<2^n bits as 0/1>
//!   wit.-                          witness without value
//!   wit.c.<bits|->                 compact bits, decoded at the *inferred* target type
//!   wit.t.<type>.<bits|->          explicitly typed value (compact bits at that type)
//! Types (prefix, no separators): u = unit, sAB = A + B, pAB = A * B,
//!   w<d> = 2^(2^d) with d one digit of 0-9a-v (base 32).
//! Types as numbers (output): 0 = unit, 1 a b = sum, 2 a b = product, 3 d = 2^(2^d) for d >= 1.
#![allow(dead_code)]
use crate::util::*;
use simplicity::jet::{Core, Elements, Jet};
use simplicity::node::{CoreConstructible, DisconnectConstructible, WitnessConstructible};
use simplicity::types::{self, Final};
use simplicity::{BitIter, Cmr, ConstructNode, FailEntropy, RedeemNode, Value, Word};
use std::str::FromStr;
use std::sync::Arc;

#[derive(Clone, Debug)]
pub enum WitSpec {
    None,
    Compact(Vec<bool>),
    Typed(String, Vec<bool>),
}

#[derive(Clone, Debug)]
pub enum NodeSpec {
    Iden,
    Unit,
    InjL(usize),
    InjR(usize),
    Take(usize),
    Drop(usize),
    Comp(usize, usize),
    Case(usize, usize),
    Pair(usize, usize),
    Disconnect(usize, Option<usize>),
    Hidden([u8; 32]),
    Fail([u8; 64]),
    Jet(char, String),
    Word(u32, Vec<bool>),
    Witness(WitSpec),
}

pub fn parse_prog(s: &str) -> Vec<NodeSpec> {
    s.split(',').map(parse_node).collect()
}

fn parse_node(s: &str) -> NodeSpec {
    let f: Vec<&str> = s.split('.').collect();
    let ix = |k: usize| -> usize { f[k].parse().expect("child index") };
    match f[0] {
        "iden" => NodeSpec::Iden,
        "unit" => NodeSpec::Unit,
        "injl" => NodeSpec::InjL(ix(1)),
        "injr" => NodeSpec::InjR(ix(1)),
        "take" => NodeSpec::Take(ix(1)),
        "drop" => NodeSpec::Drop(ix(1)),
        "comp" => NodeSpec::Comp(ix(1), ix(2)),
        "case" => NodeSpec::Case(ix(1), ix(2)),
        "pair" => NodeSpec::Pair(ix(1), ix(2)),
        "disc" => NodeSpec::Disconnect(ix(1), if f[2] == "-" { None } else { Some(ix(2)) }),
        "hid" => {
            let b = unhex(f[1]);
            let mut a = [0u8; 32];
            a.copy_from_slice(&b);
            NodeSpec::Hidden(a)
        }
        "fail" => {
            let b = unhex(f[1]);
            let mut a = [0u8; 64];
            a.copy_from_slice(&b);
            NodeSpec::Fail(a)
        }
        "jet" => NodeSpec::Jet(f[1].chars().next().unwrap(), f[2].to_string()),
        "word" => NodeSpec::Word(f[1].parse().unwrap(), bits_of_str(f[2])),
        "wit" => match f[1] {
            "-" => NodeSpec::Witness(WitSpec::None),
            "c" => NodeSpec::Witness(WitSpec::Compact(bits_of_str(f[2]))),
            "t" => NodeSpec::Witness(WitSpec::Typed(f[2].to_string(), bits_of_str(f[3]))),
            _ => panic!("witness spec"),
        },
        other => panic!("unknown node kind {}", other),
    }
}

// ---------------------------------------------------------------- types

pub fn parse_ty(s: &str) -> Arc<Final> {
    let chars: Vec<char> = s.chars().collect();
    let mut pos = 0;
    let t = parse_ty_at(&chars, &mut pos);
    assert_eq!(pos, chars.len(), "trailing characters in type");
    t
}

fn parse_ty_at(c: &[char], pos: &mut usize) -> Arc<Final> {
    let ch = c[*pos];
    *pos += 1;
    match ch {
        'u' => Final::unit(),
        's' => {
            let a = parse_ty_at(c, pos);
            let b = parse_ty_at(c, pos);
            Final::sum(a, b)
        }
        'p' => {
            let a = parse_ty_at(c, pos);
            let b = parse_ty_at(c, pos);
            Final::product(a, b)
        }
        'w' => {
            let d = c[*pos].to_digit(32).expect("word exponent") as usize;
            *pos += 1;
            Final::two_two_n(d).expect("word type")
        }
        _ => panic!("type syntax"),
    }
}

/// numeric prefix encoding of a type (words >= 2 bits abbreviated)
pub fn ty_nums(t: &Final, out: &mut Vec<u128>) {
    // iterative to survive deep types
    let mut stack: Vec<&Final> = vec![t];
    while let Some(t) = stack.pop() {
        if let Some(n) = t.as_word() {
            if n >= 1 {
                out.push(3);
                out.push(n as u128);
                continue;
            }
        }
        if t.is_unit() {
            out.push(0);
        } else if let Some((a, b)) = t.as_sum() {
            out.push(1);
            stack.push(b);
            stack.push(a);
        } else if let Some((a, b)) = t.as_product() {
            out.push(2);
            stack.push(b);
            stack.push(a);
        }
    }
}

pub fn pack_bits(bits: &[bool]) -> Vec<u8> {
    let mut out = vec![0u8; (bits.len() + 7) / 8];
    for (i, b) in bits.iter().enumerate() {
        if *b {
            out[i / 8] |= 1 << (7 - i % 8);
        }
    }
    out
}

/// decode compact bits at a type; None when the bits run out or are not consumed exactly
pub fn value_of_compact(bits: &[bool], ty: &Final) -> Option<Value> {
    let bytes = pack_bits(bits);
    let mut it = BitIter::from(bytes.into_iter());
    let v = Value::from_compact_bits(&mut it, ty).ok()?;
    if it.n_total_read() != bits.len() {
        return None;
    }
    Some(v)
}

pub fn compact_bits(v: &Value) -> Vec<u128> {
    v.iter_compact().map(|b| b as u128).collect()
}

pub fn padded_bits(v: &Value) -> Vec<u128> {
    v.iter_padded().map(|b| b as u128).collect()
}

// ---------------------------------------------------------------- building

#[derive(Debug)]
pub enum BuildError {
    /// a combinator constructor returned a type error at node index
    Type(usize, String),
    /// malformed description (bad index, hidden node outside case, unknown jet, ...)
    Shape(usize, &'static str),
}

pub fn jet_by_name(fam: char, name: &str) -> Option<Box<dyn Jet>> {
    match fam {
        'c' => Core::from_str(name).ok().map(|j| Box::new(j) as Box<dyn Jet>),
        'e' => Elements::from_str(name).ok().map(|j| Box::new(j) as Box<dyn Jet>),
        _ => None,
    }
}

/// Build the ConstructNode DAG of a description in the given context.
/// `wit(i)` supplies the construction-time witness of witness node i.
pub fn build<'b>(
    ctx: &types::Context<'b>,
    specs: &[NodeSpec],
    wit: &dyn Fn(usize) -> Option<Value>,
) -> Result<Vec<Option<Arc<ConstructNode<'b>>>>, BuildError> {
    type N<'b> = Arc<ConstructNode<'b>>;
    let mut nodes: Vec<Option<N<'b>>> = Vec::with_capacity(specs.len());
    for (i, s) in specs.iter().enumerate() {
        let get = |k: usize| -> Result<&N<'b>, BuildError> {
            if k >= i {
                return Err(BuildError::Shape(i, "forward reference"));
            }
            nodes[k].as_ref().ok_or(BuildError::Shape(i, "hidden node used outside case"))
        };
        let te = |e: types::Error| BuildError::Type(i, format!("{:?}", std::mem::discriminant(&e)));
        let n: Option<N<'b>> = match s {
            NodeSpec::Iden => Some(N::iden(ctx)),
            NodeSpec::Unit => Some(N::unit(ctx)),
            NodeSpec::InjL(c) => Some(N::injl(get(*c)?)),
            NodeSpec::InjR(c) => Some(N::injr(get(*c)?)),
            NodeSpec::Take(c) => Some(N::take(get(*c)?)),
            NodeSpec::Drop(c) => Some(N::drop_(get(*c)?)),
            NodeSpec::Comp(l, r) => Some(N::comp(get(*l)?, get(*r)?).map_err(te)?),
            NodeSpec::Pair(l, r) => Some(N::pair(get(*l)?, get(*r)?).map_err(te)?),
            NodeSpec::Case(l, r) => {
                if *l >= i || *r >= i {
                    return Err(BuildError::Shape(i, "forward reference"));
                }
                match (&specs[*l], &specs[*r]) {
                    (NodeSpec::Hidden(_), NodeSpec::Hidden(_)) => {
                        return Err(BuildError::Shape(i, "both children hidden"))
                    }
                    (NodeSpec::Hidden(h), _) => {
                        Some(N::assertr(Cmr::from_byte_array(*h), get(*r)?).map_err(te)?)
                    }
                    (_, NodeSpec::Hidden(h)) => {
                        Some(N::assertl(get(*l)?, Cmr::from_byte_array(*h)).map_err(te)?)
                    }
                    _ => Some(N::case(get(*l)?, get(*r)?).map_err(te)?),
                }
            }
            NodeSpec::Disconnect(l, r) => {
                let right: Option<N<'b>> = match r {
                    Some(k) => Some(Arc::clone(get(*k)?)),
                    None => None,
                };
                Some(N::disconnect(get(*l)?, &right).map_err(te)?)
            }
            NodeSpec::Hidden(_) => None,
            NodeSpec::Fail(e) => Some(N::fail(ctx, FailEntropy::from_byte_array(*e))),
            NodeSpec::Jet(fam, name) => {
                let j = jet_by_name(*fam, name).ok_or(BuildError::Shape(i, "unknown jet"))?;
                Some(N::jet(ctx, j.as_ref()))
            }
            NodeSpec::Word(n, bits) => {
                if bits.len() != 1usize << n {
                    return Err(BuildError::Shape(i, "word length"));
                }
                let bytes = pack_bits(bits);
                let mut it = BitIter::from(bytes.into_iter());
                let w = Word::from_bits(&mut it, *n).map_err(|_| BuildError::Shape(i, "word bits"))?;
                Some(N::const_word(ctx, w))
            }
            NodeSpec::Witness(_) => Some(N::witness(ctx, wit(i))),
        };
        nodes.push(n);
    }
    Ok(nodes)
}

/// explicitly typed witness values of a description (those that do not need inference)
pub fn typed_witness(specs: &[NodeSpec], i: usize) -> Option<Value> {
    if let NodeSpec::Witness(WitSpec::Typed(ty, bits)) = &specs[i] {
        value_of_compact(bits, &parse_ty(ty))
    } else {
        None
    }
}

#[derive(Debug)]
pub enum RedeemError {
    Build(BuildError),
    /// type inference failed when finalising (program root forced to 1 -> 1 when `program`)
    Infer(String),
    /// a compact witness does not decode at the inferred type
    WitnessBits(usize),
    Finalize(String),
}

/// Final arrows of every node after inference (None for hidden nodes), in a fresh context.
/// `program` forces the root to 1 -> 1.
pub fn arrows(specs: &[NodeSpec], program: bool) -> Result<Vec<Option<(Arc<Final>, Arc<Final>)>>, RedeemError> {
    types::Context::with_context(|ctx| {
        let nodes = build(&ctx, specs, &|_| None).map_err(RedeemError::Build)?;
        let root = nodes.last().unwrap().as_ref().unwrap();
        if program {
            root.set_arrow_to_program().map_err(|e| RedeemError::Infer(err_class(&e)))?;
        }
        // finalisation of the whole DAG performs the occurs check
        root.finalize_types_non_program().map_err(|e| RedeemError::Infer(err_class(&e)))?;
        let mut out = vec![];
        for n in &nodes {
            match n {
                None => out.push(None),
                Some(n) => {
                    let s = n.arrow().source.finalize().map_err(|e| RedeemError::Infer(err_class(&e)))?;
                    let t = n.arrow().target.finalize().map_err(|e| RedeemError::Infer(err_class(&e)))?;
                    out.push(Some((s, t)));
                }
            }
        }
        Ok(out)
    })
}

pub fn err_class(e: &types::Error) -> String {
    match e {
        types::Error::Bind { .. } => "Bind".into(),
        types::Error::CompleteTypeMismatch { .. } => "CompleteTypeMismatch".into(),
        types::Error::OccursCheck { .. } => "OccursCheck".into(),
        types::Error::InferenceContextMismatch => "ContextMismatch".into(),
        #[allow(unreachable_patterns)]
        _ => "Other".into(),
    }
}

/// Redemption-time program through the public route "construction-time witnesses, then
/// finalize_unpruned".  Compact witnesses are decoded at the types found by a first inference pass.
pub fn redeem(specs: &[NodeSpec], program: bool) -> Result<Arc<RedeemNode>, RedeemError> {
    let needs_types = specs.iter().any(|s| matches!(s, NodeSpec::Witness(WitSpec::Compact(_))));
    let arr = if needs_types { Some(arrows(specs, program)?) } else { None };
    let mut wits: Vec<Option<Value>> = vec![None; specs.len()];
    for (i, s) in specs.iter().enumerate() {
        match s {
            NodeSpec::Witness(WitSpec::Compact(bits)) => {
                let ty = &arr.as_ref().unwrap()[i].as_ref().unwrap().1;
                wits[i] = Some(value_of_compact(bits, ty).ok_or(RedeemError::WitnessBits(i))?);
            }
            NodeSpec::Witness(WitSpec::Typed(..)) => {
                wits[i] = Some(typed_witness(specs, i).ok_or(RedeemError::WitnessBits(i))?);
            }
            _ => {}
        }
    }
    types::Context::with_context(|ctx| {
        let nodes = build(&ctx, specs, &|i| wits[i].clone()).map_err(RedeemError::Build)?;
        let root = nodes.last().unwrap().as_ref().unwrap();
        if program {
            root.set_arrow_to_program().map_err(|e| RedeemError::Infer(err_class(&e)))?;
        }
        root.finalize_unpruned().map_err(|e| RedeemError::Finalize(format!("{}", fin_class(&e))))
    })
}

pub fn fin_class(e: &simplicity::FinalizeError) -> String {
    match e {
        simplicity::FinalizeError::DisconnectRedeemTime => "DisconnectRedeemTime".into(),
        simplicity::FinalizeError::Execution(_) => "Execution".into(),
        simplicity::FinalizeError::Type(t) => format!("Type:{}", err_class(t)),
        #[allow(unreachable_patterns)]
        _ => "Other".into(),
    }
}

// ---------------------------------------------------------------- the `prog` command

pub fn run(t: &[&str]) -> String {
    match guarded(|| run_inner(t)) {
        Some(v) => join(&v),
        None => "9".to_string(),
    }
}

/// kinds:
///   arrows <0|1 program> <pdl>      -> 0 then per node: (5 | 4 src tgt) ; or 1 <class> on error
fn run_inner(t: &[&str]) -> Vec<u128> {
    match t[0] {
        "arrows" => {
            let program = t[1] == "1";
            let specs = parse_prog(t[2]);
            match arrows(&specs, program) {
                Ok(a) => {
                    let mut out = vec![0];
                    for x in a {
                        match x {
                            None => out.push(5),
                            Some((s, tg)) => {
                                out.push(4);
                                ty_nums(&s, &mut out);
                                ty_nums(&tg, &mut out);
                            }
                        }
                    }
                    out
                }
                Err(e) => vec![1, err_code(&e)],
            }
        }
        // jetlist <c|e>: for every jet of the family, in table order:
        //   7 <index> <width of name> <name bytes...> <source type nums> 6 <target type nums>
        "jetlist" => {
            let mut out = vec![];
            let mut one = |idx: usize, name: String, s: Arc<Final>, tg: Arc<Final>| {
                out.push(7);
                out.push(idx as u128);
                out.push(name.len() as u128);
                out.extend(name.bytes().map(|b| b as u128));
                ty_nums(&s, &mut out);
                out.push(6);
                ty_nums(&tg, &mut out);
            };
            if t[1] == "c" {
                for (i, j) in Core::ALL.iter().enumerate() {
                    one(i, j.to_string(), j.source_ty().to_final(), j.target_ty().to_final());
                }
            } else {
                for (i, j) in Elements::ALL.iter().enumerate() {
                    one(i, j.to_string(), j.source_ty().to_final(), j.target_ty().to_final());
                }
            }
            out
        }
        _ => panic!("kind"),
    }
}

pub fn err_code(e: &RedeemError) -> u128 {
    match e {
        RedeemError::Build(BuildError::Type(..)) => 10,
        RedeemError::Build(BuildError::Shape(..)) => 11,
        RedeemError::Infer(c) => match c.as_str() {
            "Bind" => 20,
            "CompleteTypeMismatch" => 21,
            "OccursCheck" => 22,
            _ => 29,
        },
        RedeemError::WitnessBits(_) => 30,
        RedeemError::Finalize(_) => 40,
    }
}
