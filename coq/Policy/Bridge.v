(* C16 - from the mini-semantics of Policy/Sem.v to the Bit Machine.

   Policy/Sem.v runs the programs of the satisfier in a private big-step semantics on abstract
   values (words are atoms, signatures / preimages / the sighash are symbols, a SHA-256 context is
   the list of absorbed blocks).  This file translates those programs into the terms of
   Core/Term.v with their arrows (every fragment of serialize.rs has a fixed type; the translation
   is directed by the source type, 1 at the root), proves the translation well typed
   (Core/Typing.v) and proves that whenever the mini-semantics yields a value, Core/Sem.v [eval]
   yields the encoding of that value, provided the Core-level jet semantics agrees with the
   policy-level oracle on encoded values ("the same oracle", hypothesis [jets_agree]).
   With C05's main theorem this gives: the program returned by Policy::satisfy for a truthful
   satisfier runs successfully on the Bit Machine model.

   Parameters: how abstract data is laid out in bits ([sig_bits], [pre_bits], [msg_bits], the
   CTX8 value of a list of absorbed blocks [ctx_sval]), the bytes of roots and fail entropies,
   the ids of the eleven jets in the jet table of the machine. *)
From Coq Require Import Permutation Sorted.
From RS Require Import Lib.Tac Lib.Outcome Lib.Bits Ty.Ty.
From RS Require Core.Prog Core.Term Core.Typing Core.Sem.
From RS Require Import Policy.PolicyAst Policy.Sort Policy.Compile Policy.Satisfy Policy.Sem.
Import ListNotations.
Local Open Scope N_scope.
Set Implicit Arguments.

Notation term := RS.Core.Term.term.
Notation arrow := RS.Core.Prog.arrow.
Notation typed := RS.Core.Typing.typed.
Notation ceval := RS.Core.Sem.eval.
Notation ROk := RS.Core.Sem.ROk.

(* ------------------------------------------------------------------ the types of the jets *)
Definition W16 : ty := word_ty 4.
Definition W32 : ty := word_ty 5.
Definition W64 : ty := word_ty 6.
Definition W256 : ty := word_ty 8.
Definition W512 : ty := word_ty 9.

(* (TWO^8)^<2^(n+1) and CTX8 (as in Jets/JetSpecSha.v) *)
Fixpoint buf_ty (n : nat) : ty :=
  match n with
  | O => option_ty (word_ty 3)
  | S k => Prod (option_ty (word_ty (S k + 3))) (buf_ty k)
  end.
Definition Ctx8 : ty := Prod (buf_ty 5) (Prod W64 W256).

Definition jsrc (j : jet) : ty :=
  match j with
  | SigAllHash => One
  | Bip0340Verify => Prod (Prod W256 W256) W512
  | CheckLockHeight => W32
  | CheckLockDistance => W16
  | Sha256Ctx8Init => One
  | Sha256Ctx8Add32 => Prod Ctx8 W256
  | Sha256Ctx8Finalize => Ctx8
  | Verify => Bit
  | Eq256 => Prod W256 W256
  | Eq32 => Prod W32 W32
  | Add32 => Prod W32 W32
  end.

Definition jtgt (j : jet) : ty :=
  match j with
  | SigAllHash => W256
  | Bip0340Verify | CheckLockHeight | CheckLockDistance | Verify => One
  | Sha256Ctx8Init | Sha256Ctx8Add32 => Ctx8
  | Sha256Ctx8Finalize => W256
  | Eq256 | Eq32 => Bit
  | Add32 => Prod Bit W32
  end.

(* the width of a word given as a number of bits: k with 2^k = bits *)
Definition lg (bits : N) : nat := N.to_nat (N.log2 bits).
Definition is_pow2 (bits : N) : bool := (2 ^ N.log2 bits =? bits) && (0 <? bits).

Section Bridge.
  Variable H : Type.
  Variable h_bytes : H -> list N.               (* the 32 bytes of a root *)
  Variable entropy : N -> list N.               (* the 64 bytes of a fail entropy *)
  Variable sig_bits : N -> list bool.           (* the signature held for key k *)
  Variable pre_bits : N -> list bool.           (* the preimage held for image h *)
  Variable msg_bits : list bool.                (* sig_all_hash of the environment *)
  Variable ctx_sval : list val -> sval.         (* the CTX8 value after absorbing the blocks *)
  Variable jid : jet -> N.                      (* index in the jet table of the machine *)

  Hypothesis sig_len : forall k, length (sig_bits k) = 512%nat.
  Hypothesis pre_len : forall h, length (pre_bits h) = 256%nat.
  Hypothesis msg_len : length msg_bits = 256%nat.
  Hypothesis ctx_ty : forall l, has_ty (ctx_sval l) Ctx8 = true.

  Notation node := (node H).

  (* -------------------------------------------------------------- values *)
  Definition word_sval (bits v : N) : sval := of_padded (word_ty (lg bits)) (bits_be (N.to_nat bits) v).

  Fixpoint enc (v : val) : sval :=
    match v with
    | VUnit => SU
    | VL x => SL (enc x)
    | VR x => SR (enc x)
    | VP a b => SP (enc a) (enc b)
    | VW bits x => word_sval bits x
    | VSig k => of_padded W512 (sig_bits k)
    | VPre h => of_padded W256 (pre_bits h)
    | VMsg => of_padded W256 msg_bits
    | VCtx l => ctx_sval l
    end.

  (* typing of the abstract values *)
  Fixpoint vwt (v : val) (t : ty) : bool :=
    match v with
    | VUnit => ty_eqb t One
    | VL x => match t with Sum a _ => vwt x a | _ => false end
    | VR x => match t with Sum _ b => vwt x b | _ => false end
    | VP x y => match t with Prod a b => vwt x a && vwt y b | _ => false end
    | VW bits x => is_pow2 bits && (x <? 2 ^ bits) && ty_eqb t (word_ty (lg bits))
    | VSig _ => ty_eqb t W512
    | VPre _ | VMsg => ty_eqb t W256
    | VCtx _ => ty_eqb t Ctx8
    end.

  Lemma is_pow2_width bits : is_pow2 bits = true -> width (word_ty (lg bits)) = bits.
  Proof.
    unfold is_pow2, lg. intros Hp. apply andb_true_iff in Hp. destruct Hp as [Hp _]. apply N.eqb_eq in Hp.
    rewrite width_word, N2Nat.id. exact Hp.
  Qed.

  Lemma of_padded_has_ty t bits : length bits = N.to_nat (width t) -> has_ty (of_padded t bits) t = true.
  Proof. intros Hl. eapply padded_of_has_ty. apply of_padded_total. exact Hl. Qed.

  Lemma vwt_has_ty v : forall t, vwt v t = true -> has_ty (enc v) t = true.
  Proof.
    induction v; intros t Hv; cbn [vwt enc] in *.
    - apply ty_eqb_eq in Hv. subst. reflexivity.
    - destruct t; try discriminate. cbn [has_ty]. auto.
    - destruct t; try discriminate. cbn [has_ty]. auto.
    - destruct t; try discriminate. apply andb_true_iff in Hv. destruct Hv. cbn [has_ty]. rewrite IHv1, IHv2; auto.
    - apply andb_true_iff in Hv. destruct Hv as [Hp Ht]. apply andb_true_iff in Hp. destruct Hp as [Hp _].
      apply ty_eqb_eq in Ht. subst t. unfold word_sval. apply of_padded_has_ty. rewrite bits_be_length, (is_pow2_width _ Hp). reflexivity.
    - apply ty_eqb_eq in Hv. subst. apply of_padded_has_ty. rewrite sig_len. reflexivity.
    - apply ty_eqb_eq in Hv. subst. apply of_padded_has_ty. rewrite pre_len. reflexivity.
    - apply ty_eqb_eq in Hv. subst. apply of_padded_has_ty. rewrite msg_len. reflexivity.
    - apply ty_eqb_eq in Hv. subst. apply ctx_ty.
  Qed.

  (* -------------------------------------------------------------- terms *)
  Definition wit_ty (w : wval) : ty :=
    match w with WBit _ => Bit | WSig _ => W512 | WPre _ => W256 end.
  Definition wit_bits (w : wval) : list bool :=
    match w with WBit b => [b] | WSig k => sig_bits k | WPre h => pre_bits h end.

  (* the translation, directed by the source type: the term and its target type.  Policy programs
     contain no injl / injr; fail nodes and words only occur with the types given here. *)
  Fixpoint xl (n : node) (A : ty) : option (term * ty) :=
    match n with
    | NIden => Some (Term.Iden (A, A), A)
    | NUnit => Some (Term.Unit (A, One), One)
    | NInjl _ | NInjr _ => None
    | NTake c =>
        match A with
        | Prod X Y => match xl c X with Some (t, C) => Some (Term.Take (A, C) t, C) | None => None end
        | _ => None
        end
    | NDrop c =>
        match A with
        | Prod X Y => match xl c Y with Some (t, C) => Some (Term.Drop (A, C) t, C) | None => None end
        | _ => None
        end
    | NComp a b =>
        match xl a A with
        | Some (s, B) => match xl b B with Some (t, C) => Some (Term.Comp (A, C) s t, C) | None => None end
        | None => None
        end
    | NCase a b =>
        match A with
        | Prod (Sum X Y) Z =>
            match xl a (Prod X Z), xl b (Prod Y Z) with
            | Some (s, D), Some (t, D') => if ty_eqb D D' then Some (Term.Case (A, D) s t, D) else None
            | _, _ => None
            end
        | _ => None
        end
    | NAssertL a hr =>
        match A with
        | Prod (Sum X Y) Z =>
            match xl a (Prod X Z) with Some (s, D) => Some (Term.AssertL (A, D) s (h_bytes hr), D) | None => None end
        | _ => None
        end
    | NAssertR hl b =>
        match A with
        | Prod (Sum X Y) Z =>
            match xl b (Prod Y Z) with Some (t, D) => Some (Term.AssertR (A, D) (h_bytes hl) t, D) | None => None end
        | _ => None
        end
    | NPair a b =>
        match xl a A, xl b A with
        | Some (s, B), Some (t, C) => Some (Term.Pair (A, Prod B C) s t, Prod B C)
        | _, _ => None
        end
    | NFail e => Some (Term.Fail (A, One) (entropy e), One)
    | NWord w x =>
        if ty_eqb A One && is_pow2 w && (x <? 2 ^ w)
        then Some (Term.Word (One, word_ty (lg w)) (lg w) (bits_be (N.to_nat w) x), word_ty (lg w))
        else None
    | NJet j =>
        if ty_eqb A (jsrc j) then Some (Term.Jet (jsrc j, jtgt j) (jid j), jtgt j) else None
    | NWitness (Some w) => Some (Term.Witness (A, wit_ty w) (wit_bits w), wit_ty w)
    | NWitness None => None
    end.

  (* the type part alone *)
  Fixpoint xlty (n : node) (A : ty) : option ty :=
    match n with
    | NIden => Some A
    | NUnit => Some One
    | NInjl _ | NInjr _ => None
    | NTake c => match A with Prod X Y => xlty c X | _ => None end
    | NDrop c => match A with Prod X Y => xlty c Y | _ => None end
    | NComp a b => match xlty a A with Some B => xlty b B | None => None end
    | NCase a b =>
        match A with
        | Prod (Sum X Y) Z =>
            match xlty a (Prod X Z), xlty b (Prod Y Z) with
            | Some D, Some D' => if ty_eqb D D' then Some D else None
            | _, _ => None
            end
        | _ => None
        end
    | NAssertL a _ => match A with Prod (Sum X Y) Z => xlty a (Prod X Z) | _ => None end
    | NAssertR _ b => match A with Prod (Sum X Y) Z => xlty b (Prod Y Z) | _ => None end
    | NPair a b =>
        match xlty a A, xlty b A with
        | Some B, Some C => Some (Prod B C)
        | _, _ => None
        end
    | NFail _ => Some One
    | NWord w x => if ty_eqb A One && is_pow2 w && (x <? 2 ^ w) then Some (word_ty (lg w)) else None
    | NJet j => if ty_eqb A (jsrc j) then Some (jtgt j) else None
    | NWitness (Some w) => Some (wit_ty w)
    | NWitness None => None
    end.

  Lemma xl_xlty n : forall A, option_map snd (xl n A) = xlty n A.
  Proof.
    induction n; intros A; cbn [xl xlty option_map snd]; try reflexivity.
    - destruct A as [| |X Y]; try reflexivity. rewrite <- IHn. destruct (xl n X) as [[t C]|]; reflexivity.
    - destruct A as [| |X Y]; try reflexivity. rewrite <- IHn. destruct (xl n Y) as [[t C]|]; reflexivity.
    - rewrite <- IHn1. destruct (xl n1 A) as [[s B]|]; cbn [option_map snd]; [|reflexivity].
      rewrite <- IHn2. destruct (xl n2 B) as [[t C]|]; reflexivity.
    - destruct A as [| |[|X Y|] Z]; try reflexivity. rewrite <- IHn1, <- IHn2.
      destruct (xl n1 (Prod X Z)) as [[s D]|]; cbn [option_map snd]; [|reflexivity].
      destruct (xl n2 (Prod Y Z)) as [[t D']|]; cbn [option_map snd]; [|reflexivity].
      destruct (ty_eqb D D'); reflexivity.
    - destruct A as [| |[|X Y|] Z]; try reflexivity. rewrite <- IHn.
      destruct (xl n (Prod X Z)) as [[s D]|]; reflexivity.
    - destruct A as [| |[|X Y|] Z]; try reflexivity. rewrite <- IHn.
      destruct (xl n (Prod Y Z)) as [[s D]|]; reflexivity.
    - rewrite <- IHn1, <- IHn2. destruct (xl n1 A) as [[s B]|]; cbn [option_map snd]; [|reflexivity].
      destruct (xl n2 A) as [[t C]|]; reflexivity.
    - destruct (ty_eqb A One && is_pow2 wbits && (wvalue <? 2 ^ wbits)); reflexivity.
    - destruct (ty_eqb A (jsrc j)); reflexivity.
    - destruct w; reflexivity.
  Qed.

  Lemma xlty_xl n A B : xlty n A = Some B -> exists t, xl n A = Some (t, B).
  Proof.
    rewrite <- xl_xlty. destruct (xl n A) as [[t C]|]; cbn [option_map snd]; [|discriminate].
    intros [= <-]. eauto.
  Qed.

  (* -------------------------------------------------------------- the translation is well typed *)
  Variable cj_ty : N -> option arrow.
  Hypothesis jets_ty : forall j, cj_ty (jid j) = Some (jsrc j, jtgt j).

  Lemma wit_bits_len w : length (wit_bits w) = N.to_nat (width (wit_ty w)).
  Proof. destruct w; cbn [wit_bits wit_ty]; rewrite ?sig_len, ?pre_len; reflexivity. Qed.

  Theorem xl_typed n : forall A t B, xl n A = Some (t, B) -> typed cj_ty t A B.
  Proof.
    induction n; intros A t B Hx; cbn [xl] in Hx.
    - injection Hx as <- <-. constructor.
    - injection Hx as <- <-. constructor.
    - discriminate.
    - discriminate.
    - destruct A as [| |X Y]; try discriminate. destruct (xl n X) as [[c C]|] eqn:E; [|discriminate].
      injection Hx as <- <-. constructor. eapply IHn; eauto.
    - destruct A as [| |X Y]; try discriminate. destruct (xl n Y) as [[c C]|] eqn:E; [|discriminate].
      injection Hx as <- <-. constructor. eapply IHn; eauto.
    - destruct (xl n1 A) as [[s M]|] eqn:E1; [|discriminate].
      destruct (xl n2 M) as [[c C]|] eqn:E2; [|discriminate].
      injection Hx as <- <-. econstructor; [eapply IHn1|eapply IHn2]; eauto.
    - destruct A as [| |[|X Y|] Z]; try discriminate.
      destruct (xl n1 (Prod X Z)) as [[s D]|] eqn:E1; [|discriminate].
      destruct (xl n2 (Prod Y Z)) as [[c D']|] eqn:E2; [|discriminate].
      destruct (ty_eqb D D') eqn:Ed; [|discriminate]. apply ty_eqb_eq in Ed. subst D'.
      injection Hx as <- <-. constructor; [eapply IHn1|eapply IHn2]; eauto.
    - destruct A as [| |[|X Y|] Z]; try discriminate.
      destruct (xl n (Prod X Z)) as [[s D]|] eqn:E1; [|discriminate].
      injection Hx as <- <-. constructor. eapply IHn; eauto.
    - destruct A as [| |[|X Y|] Z]; try discriminate.
      destruct (xl n (Prod Y Z)) as [[s D]|] eqn:E1; [|discriminate].
      injection Hx as <- <-. constructor. eapply IHn; eauto.
    - destruct (xl n1 A) as [[s M]|] eqn:E1; [|discriminate].
      destruct (xl n2 A) as [[c C]|] eqn:E2; [|discriminate].
      injection Hx as <- <-. constructor; [eapply IHn1|eapply IHn2]; eauto.
    - injection Hx as <- <-. constructor.
    - destruct (ty_eqb A One && is_pow2 wbits && (wvalue <? 2 ^ wbits)) eqn:E; [|discriminate].
      apply andb_true_iff in E. destruct E as [E _].
      apply andb_true_iff in E. destruct E as [EA Ep]. apply ty_eqb_eq in EA. subst A.
      injection Hx as <- <-. constructor. rewrite bits_be_length, (is_pow2_width _ Ep). reflexivity.
    - destruct (ty_eqb A (jsrc j)) eqn:E; [|discriminate]. apply ty_eqb_eq in E. subst A.
      injection Hx as <- <-. constructor. apply jets_ty.
    - destruct w as [w|]; [|discriminate]. injection Hx as <- <-. constructor. apply wit_bits_len.
  Qed.

  (* -------------------------------------------------------------- the two evaluators agree *)
  Variable e : envo.
  Variable cj : N -> sval -> option sval.       (* the jet semantics of the machine *)

  (* the same oracle on both sides: wherever the policy-level jet yields a value on a well-typed
     input, the machine-level jet yields its encoding *)
  Definition jets_agree : Prop :=
    forall j v u, vwt v (jsrc j) = true -> jet_sem e j v = Some u ->
                  cj (jid j) (enc v) = Some (enc u) /\ vwt u (jtgt j) = true.

  Hypothesis Hagree : jets_agree.

  Lemma vbit_enc b : enc (vbit b) = of_padded Bit [b].
  Proof. destruct b; reflexivity. Qed.

  Lemma wval_enc w : enc (wval_val w) = of_padded (wit_ty w) (wit_bits w) /\ vwt (wval_val w) (wit_ty w) = true.
  Proof. destruct w as [[|]|k|h]; split; reflexivity. Qed.

  Theorem xl_eval n : forall A t B v u,
    xl n A = Some (t, B) -> vwt v A = true -> eval e n v = Some u ->
    ceval cj t (enc v) = ROk (enc u) /\ vwt u B = true.
  Proof.
    induction n; intros A t B v u Hx Hv He; cbn [xl] in Hx; cbn [eval] in He.
    - injection Hx as <- <-. injection He as <-. auto.
    - injection Hx as <- <-. injection He as <-. auto.
    - discriminate.
    - discriminate.
    - destruct A as [| |X Y]; try discriminate. destruct (xl n X) as [[c C]|] eqn:E; [|discriminate].
      injection Hx as <- <-. destruct v; try discriminate. cbn [vwt] in Hv. apply andb_true_iff in Hv. destruct Hv.
      cbn [enc RS.Core.Sem.eval]. eapply IHn; eauto.
    - destruct A as [| |X Y]; try discriminate. destruct (xl n Y) as [[c C]|] eqn:E; [|discriminate].
      injection Hx as <- <-. destruct v; try discriminate. cbn [vwt] in Hv. apply andb_true_iff in Hv. destruct Hv.
      cbn [enc RS.Core.Sem.eval]. eapply IHn; eauto.
    - destruct (xl n1 A) as [[s M]|] eqn:E1; [|discriminate].
      destruct (xl n2 M) as [[c C]|] eqn:E2; [|discriminate].
      injection Hx as <- <-. destruct (eval e n1 v) as [m|] eqn:Em; [|discriminate].
      destruct (IHn1 _ _ _ _ _ E1 Hv Em) as [R1 V1]. cbn [RS.Core.Sem.eval]. rewrite R1. cbn [RS.Core.Sem.rbind].
      eapply IHn2; eauto.
    - destruct A as [| |[|X Y|] Z]; try discriminate.
      destruct (xl n1 (Prod X Z)) as [[s D]|] eqn:E1; [|discriminate].
      destruct (xl n2 (Prod Y Z)) as [[c D']|] eqn:E2; [|discriminate].
      destruct (ty_eqb D D') eqn:Ed; [|discriminate]. apply ty_eqb_eq in Ed. subst D'.
      injection Hx as <- <-.
      destruct v as [| | |[| x | y | | | | | | ] z| | | | |]; try discriminate;
        cbn [vwt] in Hv; apply andb_true_iff in Hv; destruct Hv as [Hv1 Hv2]; cbn [enc RS.Core.Sem.eval].
      + apply (IHn1 _ _ _ (VP x z) _ E1); [cbn [vwt]; rewrite Hv1, Hv2; reflexivity|exact He].
      + apply (IHn2 _ _ _ (VP y z) _ E2); [cbn [vwt]; rewrite Hv1, Hv2; reflexivity|exact He].
    - destruct A as [| |[|X Y|] Z]; try discriminate.
      destruct (xl n (Prod X Z)) as [[s D]|] eqn:E1; [|discriminate]. injection Hx as <- <-.
      destruct v as [| | |[| x | y | | | | | | ] z| | | | |]; try discriminate;
        cbn [vwt] in Hv; apply andb_true_iff in Hv; destruct Hv as [Hv1 Hv2]; cbn [enc RS.Core.Sem.eval].
      apply (IHn _ _ _ (VP x z) _ E1); [cbn [vwt]; rewrite Hv1, Hv2; reflexivity|exact He].
    - destruct A as [| |[|X Y|] Z]; try discriminate.
      destruct (xl n (Prod Y Z)) as [[s D]|] eqn:E1; [|discriminate]. injection Hx as <- <-.
      destruct v as [| | |[| x | y | | | | | | ] z| | | | |]; try discriminate;
        cbn [vwt] in Hv; apply andb_true_iff in Hv; destruct Hv as [Hv1 Hv2]; cbn [enc RS.Core.Sem.eval].
      apply (IHn _ _ _ (VP y z) _ E1); [cbn [vwt]; rewrite Hv1, Hv2; reflexivity|exact He].
    - destruct (xl n1 A) as [[s M]|] eqn:E1; [|discriminate].
      destruct (xl n2 A) as [[c C]|] eqn:E2; [|discriminate].
      injection Hx as <- <-.
      destruct (eval e n1 v) as [x|] eqn:Ex; [|discriminate]. destruct (eval e n2 v) as [y|] eqn:Ey; [|discriminate].
      injection He as <-.
      destruct (IHn1 _ _ _ _ _ E1 Hv Ex) as [R1 V1]. destruct (IHn2 _ _ _ _ _ E2 Hv Ey) as [R2 V2].
      cbn [RS.Core.Sem.eval]. rewrite R1. cbn [RS.Core.Sem.rbind]. rewrite R2. cbn [RS.Core.Sem.rbind enc vwt]. rewrite V1, V2. auto.
    - discriminate.
    - destruct (ty_eqb A One && is_pow2 wbits && (wvalue <? 2 ^ wbits)) eqn:E; [|discriminate].
      apply andb_true_iff in E. destruct E as [E Er].
      apply andb_true_iff in E. destruct E as [EA Ep]. injection Hx as <- <-. injection He as <-.
      cbn [RS.Core.Sem.eval snd enc vwt]. unfold word_sval. rewrite Ep, Er, Typing.ty_eqb_refl. auto.
    - destruct (ty_eqb A (jsrc j)) eqn:E; [|discriminate]. apply ty_eqb_eq in E. subst A.
      injection Hx as <- <-. destruct (Hagree j v Hv He) as [R V]. cbn [RS.Core.Sem.eval]. rewrite R. auto.
    - destruct w as [w|]; [|discriminate]. injection Hx as <- <-. injection He as <-.
      cbn [RS.Core.Sem.eval snd]. destruct (wval_enc w) as [E V]. rewrite E. auto.
  Qed.
End Bridge.
