(* Lemmas about the primitive operations of the Bit Machine model (Core/Machine.v):
   memory cells, "the cells at i hold a padded encoding of value a" ([enc_at]), the effect of
   every frame operation under its preconditions, and multi-step execution ([mstar], [mfail]). *)
From RS Require Import Lib.Tac Lib.Outcome Lib.Bits Ty.Ty Core.Prog Core.Term Core.Typing Core.Sem
  Core.Bounds Core.Limits Core.Machine.
Import ListNotations.
Local Open Scope N_scope.

(* ------------------------------------------------------------------ memory *)
Lemma upd_length m : forall i b, length (upd m i b) = length m.
Proof. induction m as [|x r IH]; intros [|i] b; cbn [upd length]; auto. Qed.

Lemma nth_upd m : forall i j b, (i < length m)%nat ->
  nth j (upd m i b) false = if Nat.eqb j i then b else nth j m false.
Proof.
  induction m as [|x r IH]; intros i j b H; cbn [length] in H; [lia|].
  destruct i as [|i], j as [|j]; cbn [upd nth Nat.eqb]; try reflexivity.
  apply IH. lia.
Qed.

Lemma mbit_upd m c b j : c < msize m ->
  mbit (upd m (N.to_nat c) b) j = if j =? c then b else mbit m j.
Proof.
  unfold msize, mbit. intros H. rewrite nth_upd by lia.
  destruct (N.eqb_spec j c) as [->|Hne].
  - rewrite Nat.eqb_refl. reflexivity.
  - destruct (Nat.eqb_spec (N.to_nat j) (N.to_nat c)); [lia|reflexivity].
Qed.

Lemma msize_upd m i b : msize (upd m i b) = msize m.
Proof. unfold msize. rewrite upd_length. reflexivity. Qed.

Lemma mslice_length m : forall k i, length (mslice m i k) = k.
Proof. induction k as [|k IH]; intros i; cbn [mslice length]; auto. Qed.

Lemma mslice_nth m : forall k i j, (j < k)%nat -> nth j (mslice m i k) false = mbit m (i + N.of_nat j).
Proof.
  induction k as [|k IH]; intros i j H; [lia|].
  destruct j as [|j]; cbn [mslice nth].
  - f_equal. lia.
  - rewrite IH by lia. f_equal. lia.
Qed.

Lemma mslice_app m : forall k1 k2 i,
  mslice m i (k1 + k2) = mslice m i k1 ++ mslice m (i + N.of_nat k1) k2.
Proof.
  induction k1 as [|k1 IH]; intros k2 i.
  - cbn [mslice app Nat.add]. f_equal. lia.
  - cbn [mslice app Nat.add]. f_equal. rewrite IH. do 2 f_equal. lia.
Qed.

Lemma mslice_ext m m' : forall k i,
  (forall j, i <= j < i + N.of_nat k -> mbit m' j = mbit m j) -> mslice m' i k = mslice m i k.
Proof.
  induction k as [|k IH]; intros i H; [reflexivity|].
  cbn [mslice]. f_equal; [apply H; lia|]. apply IH. intros j Hj. apply H. lia.
Qed.

(* ------------------------------------------------------------------ values in memory *)
Fixpoint enc_at (m : list bool) (i : N) (A : ty) (a : sval) : Prop :=
  match A, a with
  | One, SU => True
  | Sum A B, SL v => mbit m i = false /\ enc_at m (i + 1 + pad_left A B) A v
  | Sum A B, SR v => mbit m i = true /\ enc_at m (i + 1 + pad_right A B) B v
  | Prod A B, SP v w => enc_at m i A v /\ enc_at m (i + width A) B w
  | _, _ => False
  end.

Lemma enc_at_has_ty A : forall m i a, enc_at m i A a -> has_ty a A = true.
Proof.
  induction A as [|A IHA B IHB|A IHA B IHB]; intros m i a H; destruct a; cbn [enc_at] in H;
    try contradiction; cbn [has_ty].
  - reflexivity.
  - destruct H. eapply IHA; eauto.
  - destruct H. eapply IHB; eauto.
  - destruct H as [H1 H2]. rewrite (IHA _ _ _ H1), (IHB _ _ _ H2). reflexivity.
Qed.

(* relocation: the cells at i' in m' are a copy of the cells at i in m *)
Lemma enc_at_move A : forall m m' i i' a,
  (forall j, j < width A -> mbit m' (i' + j) = mbit m (i + j)) ->
  enc_at m i A a -> enc_at m' i' A a.
Proof.
  induction A as [|A IHA B IHB|A IHA B IHB]; intros m m' i i' a Hc H; destruct a; cbn [enc_at] in *;
    try contradiction; cbn [width] in Hc.
  - exact I.
  - destruct H as [H0 H1]. split.
    + rewrite <- H0. specialize (Hc 0). rewrite !N.add_0_r in Hc. apply Hc. lia.
    + eapply IHA; [|exact H1]. intros j Hj. unfold pad_left.
      specialize (Hc (1 + (N.max (width A) (width B) - width A) + j)).
      rewrite !N.add_assoc in Hc. apply Hc. lia.
  - destruct H as [H0 H1]. split.
    + rewrite <- H0. specialize (Hc 0). rewrite !N.add_0_r in Hc. apply Hc. lia.
    + eapply IHB; [|exact H1]. intros j Hj. unfold pad_right.
      specialize (Hc (1 + (N.max (width A) (width B) - width B) + j)).
      rewrite !N.add_assoc in Hc. apply Hc. lia.
  - destruct H as [H1 H2]. split.
    + eapply IHA; [|exact H1]. intros j Hj. apply Hc. lia.
    + eapply IHB; [|exact H2]. intros j Hj. specialize (Hc (width A + j)).
      rewrite !N.add_assoc in Hc. apply Hc. lia.
Qed.

Lemma enc_at_ext A m m' i a :
  (forall j, i <= j < i + width A -> mbit m' j = mbit m j) -> enc_at m i A a -> enc_at m' i A a.
Proof. intros H. apply enc_at_move. intros j Hj. apply H. lia. Qed.

(* enc_at versus the bit-string view of Ty.v *)
Lemma enc_at_padded_of A : forall m i a, enc_at m i A a ->
  padded_of A a (mslice m i (N.to_nat (width A))).
Proof.
  induction A as [|A IHA B IHB|A IHA B IHB]; intros m i a H; destruct a; cbn [enc_at] in H;
    try contradiction; cbn [width].
  - constructor.
  - destruct H as [H0 H1].
    replace (N.to_nat (1 + N.max (width A) (width B)))
      with (1 + (N.to_nat (pad_left A B) + N.to_nat (width A)))%nat by (unfold pad_left; lia).
    rewrite (mslice_app _ 1). cbn [mslice app]. rewrite H0. rewrite mslice_app.
    constructor.
    + apply mslice_length.
    + replace (i + N.of_nat 1 + N.of_nat (N.to_nat (pad_left A B))) with (i + 1 + pad_left A B) by lia.
      apply IHA. exact H1.
  - destruct H as [H0 H1].
    replace (N.to_nat (1 + N.max (width A) (width B)))
      with (1 + (N.to_nat (pad_right A B) + N.to_nat (width B)))%nat by (unfold pad_right; lia).
    rewrite (mslice_app _ 1). cbn [mslice app]. rewrite H0. rewrite mslice_app.
    constructor.
    + apply mslice_length.
    + replace (i + N.of_nat 1 + N.of_nat (N.to_nat (pad_right A B))) with (i + 1 + pad_right A B) by lia.
      apply IHB. exact H1.
  - destruct H as [H1 H2]. rewrite N2Nat.inj_add, mslice_app. constructor.
    + apply IHA. exact H1.
    + rewrite N2Nat.id. apply IHB. exact H2.
Qed.

Lemma app_eq_len {T} (l1 : list T) : forall l1' l2 l2',
  l1 ++ l2 = l1' ++ l2' -> length l1 = length l1' -> l1 = l1' /\ l2 = l2'.
Proof.
  induction l1 as [|x r IH]; intros [|y r'] l2 l2' H L; cbn in L; try lia.
  - auto.
  - cbn [app] in H. injection H as -> H. destruct (IH _ _ _ H ltac:(lia)) as [-> ->]. auto.
Qed.

Lemma mslice_split m i k1 k2 l1 l2 : mslice m i (k1 + k2) = l1 ++ l2 -> length l1 = k1 ->
  mslice m i k1 = l1 /\ mslice m (i + N.of_nat k1) k2 = l2.
Proof.
  intros H L. rewrite mslice_app in H. apply app_eq_len in H; [exact H|].
  rewrite mslice_length. symmetry. exact L.
Qed.

Lemma padded_of_enc_at A a bits : padded_of A a bits ->
  forall m i, mslice m i (length bits) = bits -> enc_at m i A a.
Proof.
  induction 1 as [|A B v pad bits Hl Hp IH|A B v pad bits Hl Hp IH|A B v w bv bw H1 IH1 H2 IH2];
    intros m i Hs; cbn [enc_at].
  - exact I.
  - cbn [length] in Hs. rewrite app_length in Hs. cbn [mslice] in Hs.
    injection Hs as Hb Hrest. split; [exact Hb|].
    apply mslice_split in Hrest; [|reflexivity]. destruct Hrest as [_ E2].
    apply IH. rewrite <- E2 at 2. f_equal. lia.
  - cbn [length] in Hs. rewrite app_length in Hs. cbn [mslice] in Hs.
    injection Hs as Hb Hrest. split; [exact Hb|].
    apply mslice_split in Hrest; [|reflexivity]. destruct Hrest as [_ E2].
    apply IH. rewrite <- E2 at 2. f_equal. lia.
  - rewrite app_length in Hs. apply mslice_split in Hs; [|reflexivity]. destruct Hs as [E1 E2].
    split; [apply IH1; exact E1|]. apply IH2. rewrite <- E2 at 2. f_equal.
    rewrite (padded_of_length _ _ _ H1). lia.
Qed.

Lemma enc_at_of_padded A m i a : enc_at m i A a -> of_padded A (mslice m i (N.to_nat (width A))) = a.
Proof. intros H. apply of_padded_spec. apply enc_at_padded_of. exact H. Qed.

(* a type of width 0 has exactly one value, encoded by no cells at all *)
Lemma enc_at_width0 A : forall m m' i i' a, width A = 0 -> enc_at m i A a -> enc_at m' i' A a.
Proof. intros m m' i i' a H. apply enc_at_move. intros j Hj. lia. Qed.

(* ------------------------------------------------------------------ frame operations *)
Definition rcur (st : mstate) : N := match rd st with f :: _ => fcur f | [] => 0 end.
Definition wcur (st : mstate) : N := match wr st with f :: _ => fcur f | [] => 0 end.
Definition adv_top (fs : list frame) (n : N) : list frame :=
  match fs with [] => [] | f :: r => fadv f n :: r end.

Lemma fadv_0 f : fadv f 0 = f.
Proof. destruct f as [c s l]. unfold fadv. cbn [fcur fstart flen]. f_equal. lia. Qed.

Lemma fadv_fadv f a b : fadv (fadv f a) b = fadv f (a + b).
Proof. unfold fadv. cbn [fcur fstart flen]. f_equal. lia. Qed.

Lemma bw_eq X : width X <= usize_max -> bw X = width X.
Proof. apply width_sat_eq. Qed.


  Lemma usub_ok {E} prof a b : b <= a -> @usub prof E a b = Ok (a - b).
  Proof. intros H. unfold usub. destruct (N.leb_spec b a); [reflexivity|lia]. Qed.

  Lemma new_write_frame_ok prof cap st len :
    nfs st + len <= msize (mem st) -> depth st < cap ->
    new_write_frame prof cap st len =
      Ok (mkSt (mem st) (nfs st + len) (rd st) (mkF (nfs st) (nfs st) len :: wr st)
               (N.max (hwc st) (nfs st + len)) (N.max (hwf st) (depth st + 1))).
  Proof.
    intros H1 H2. unfold new_write_frame.
    destruct (N.leb_spec (nfs st + len) (msize (mem st))); [|lia].
    destruct (N.ltb_spec (depth st) cap); [|lia].
    cbn [negb]. rewrite !andb_false_r. reflexivity.
  Qed.

  Lemma write_bit_ok st f ws b : wr st = f :: ws -> fcur f < msize (mem st) ->
    write_bit st b = Ok (set_mem_wr st (upd (mem st) (N.to_nat (fcur f)) b) (fadv f 1 :: ws)).
  Proof.
    intros Hw H. unfold write_bit. rewrite Hw. destruct (N.ltb_spec (fcur f) (msize (mem st))); [reflexivity|lia].
  Qed.

  (* writing a bit string into the active write frame *)
  Lemma write_bits_ok bits : forall st f ws, wr st = f :: ws ->
    fcur f + N.of_nat (length bits) <= msize (mem st) ->
    exists st', write_bits st bits = Ok st' /\
      nfs st' = nfs st /\ rd st' = rd st /\ wr st' = fadv f (N.of_nat (length bits)) :: ws /\
      hwc st' = hwc st /\ hwf st' = hwf st /\ length (mem st') = length (mem st) /\
      mslice (mem st') (fcur f) (length bits) = bits /\
      (forall j, ~ (fcur f <= j < fcur f + N.of_nat (length bits)) -> mbit (mem st') j = mbit (mem st) j).
  Proof.
    induction bits as [|b r IH]; intros st f ws Hw Hb.
    - exists st. cbn [write_bits length mslice]. rewrite fadv_0. repeat split; auto.
    - cbn [write_bits]. cbn [length] in Hb. rewrite (write_bit_ok _ _ _ _ Hw) by lia. cbn [obind].
      set (st1 := set_mem_wr st (upd (mem st) (N.to_nat (fcur f)) b) (fadv f 1 :: ws)).
      destruct (IH st1 (fadv f 1) ws eq_refl) as (st' & E & Hn & Hr & Hw' & Hc & Hf & Hl & Hs & Ho).
      { unfold st1. cbn [mem set_mem_wr fadv fcur]. rewrite msize_upd. lia. }
      exists st'. split; [exact E|]. unfold st1 in *. cbn [nfs rd wr hwc hwf mem set_mem_wr] in *.
      rewrite Hn, Hr, Hw', Hc, Hf, Hl, upd_length, fadv_fadv. cbn [fadv fcur] in *.
      repeat split; auto.
      + do 2 f_equal. cbn [length]. lia.
      + cbn [length mslice]. f_equal.
        * rewrite Ho by lia. rewrite mbit_upd by lia. rewrite N.eqb_refl. reflexivity.
        * exact Hs.
      + intros j Hj. cbn [length] in Hj. rewrite Ho by lia. rewrite mbit_upd by lia.
        destruct (N.eqb_spec j (fcur f)); [lia|reflexivity].
  Qed.

  Lemma skip_ok st f ws n : wr st = f :: ws ->
    exists st', skip st n = Ok st' /\ mem st' = mem st /\ nfs st' = nfs st /\ rd st' = rd st /\
      wr st' = fadv f n :: ws /\ hwc st' = hwc st /\ hwf st' = hwf st.
  Proof.
    intros Hw. unfold skip. destruct (N.eqb_spec n 0) as [->|Hn].
    - exists st. rewrite fadv_0. repeat split; auto.
    - rewrite Hw. eexists. split; [reflexivity|]. cbn. repeat split; auto.
  Qed.

  Lemma skip_0 st : skip st 0 = Ok st.
  Proof. reflexivity. Qed.

  Lemma fwd_ok st f rs n : rd st = f :: rs ->
    exists st', fwd st n = Ok st' /\ mem st' = mem st /\ nfs st' = nfs st /\ wr st' = wr st /\
      rd st' = fadv f n :: rs /\ hwc st' = hwc st /\ hwf st' = hwf st.
  Proof.
    intros Hr. unfold fwd. destruct (N.eqb_spec n 0) as [->|Hn].
    - exists st. rewrite fadv_0. repeat split; auto.
    - rewrite Hr. eexists. split; [reflexivity|]. cbn. repeat split; auto.
  Qed.

  Lemma fwd_0 st : fwd st 0 = Ok st.
  Proof. reflexivity. Qed.

  Lemma back_ok prof st f rs n : rd st = f :: rs -> n <= fcur f ->
    exists st', back prof st n = Ok st' /\ mem st' = mem st /\ nfs st' = nfs st /\ wr st' = wr st /\
      rd st' = mkF (fcur f - n) (fstart f) (flen f) :: rs /\ hwc st' = hwc st /\ hwf st' = hwf st.
  Proof.
    intros Hr Hn. unfold back. destruct (N.eqb_spec n 0) as [->|Hn0].
    - exists st. rewrite N.sub_0_r. destruct f as [c s l]. repeat split; auto.
    - rewrite Hr. rewrite (usub_ok prof) by exact Hn. cbn [obind]. eexists. split; [reflexivity|].
      cbn. repeat split; auto.
  Qed.

  Lemma back_0 prof st : back prof st 0 = Ok st.
  Proof. reflexivity. Qed.

  (* Frame::copy_from between disjoint ranges *)
  Lemma copy_loop_ok k : forall st from f ws, wr st = f :: ws ->
    from + N.of_nat k <= msize (mem st) -> fcur f + N.of_nat k <= msize (mem st) ->
    (from + N.of_nat k <= fcur f \/ fcur f + N.of_nat k <= from) ->
    exists st', copy_loop k from st = Ok st' /\
      nfs st' = nfs st /\ rd st' = rd st /\ wr st' = fadv f (N.of_nat k) :: ws /\
      hwc st' = hwc st /\ hwf st' = hwf st /\ length (mem st') = length (mem st) /\
      (forall j, j < N.of_nat k -> mbit (mem st') (fcur f + j) = mbit (mem st) (from + j)) /\
      (forall j, ~ (fcur f <= j < fcur f + N.of_nat k) -> mbit (mem st') j = mbit (mem st) j).
  Proof.
    induction k as [|k IH]; intros st from f ws Hw H1 H2 Hd.
    - exists st. cbn [copy_loop]. rewrite fadv_0. repeat split; auto. intros j Hj. lia.
    - cbn [copy_loop]. destruct (N.ltb_spec from (msize (mem st))); [|lia].
      rewrite (write_bit_ok _ _ _ _ Hw) by lia. cbn [obind].
      set (st1 := set_mem_wr st (upd (mem st) (N.to_nat (fcur f)) (mbit (mem st) from)) (fadv f 1 :: ws)).
      destruct (IH st1 (from + 1) (fadv f 1) ws eq_refl) as (st' & E & Hn & Hr & Hw' & Hc & Hf & Hl & Hs & Ho).
      { unfold st1. cbn [mem set_mem_wr]. rewrite msize_upd. lia. }
      { unfold st1. cbn [mem set_mem_wr fadv fcur]. rewrite msize_upd. lia. }
      { cbn [fadv fcur]. lia. }
      exists st'. split; [exact E|]. unfold st1 in *. cbn [nfs rd wr hwc hwf mem set_mem_wr] in *.
      rewrite Hn, Hr, Hw', Hc, Hf, Hl, upd_length, fadv_fadv. cbn [fadv fcur] in *.
      repeat split; auto.
      + do 2 f_equal. lia.
      + intros j Hj. destruct (N.eq_dec j 0) as [->|Hj0].
        * rewrite !N.add_0_r. rewrite Ho by lia. rewrite mbit_upd by lia. rewrite N.eqb_refl. reflexivity.
        * replace (fcur f + j) with (fcur f + 1 + (j - 1)) by lia. rewrite Hs by lia.
          rewrite mbit_upd by lia. destruct (N.eqb_spec (from + 1 + (j - 1)) (fcur f)); [lia|].
          f_equal. lia.
      + intros j Hj. rewrite Ho by lia. rewrite mbit_upd by lia.
        destruct (N.eqb_spec j (fcur f)); [lia|reflexivity].
  Qed.

  Lemma copy_unfold st n rf rs f ws : n <> 0 -> rd st = rf :: rs -> wr st = f :: ws ->
    copy st n = copy_loop (N.to_nat n) (fcur rf) st.
  Proof.
    intros Hn Hr Hw. unfold copy. destruct (N.eqb_spec n 0); [contradiction|]. rewrite Hw, Hr. reflexivity.
  Qed.

  Lemma copy_ok st n rf rs f ws : rd st = rf :: rs -> wr st = f :: ws ->
    fcur rf + n <= msize (mem st) -> fcur f + n <= msize (mem st) ->
    (fcur rf + n <= fcur f \/ fcur f + n <= fcur rf) ->
    exists st', copy st n = Ok st' /\
      nfs st' = nfs st /\ rd st' = rd st /\ wr st' = fadv f n :: ws /\
      hwc st' = hwc st /\ hwf st' = hwf st /\ length (mem st') = length (mem st) /\
      (forall j, j < n -> mbit (mem st') (fcur f + j) = mbit (mem st) (fcur rf + j)) /\
      (forall j, ~ (fcur f <= j < fcur f + n) -> mbit (mem st') j = mbit (mem st) j).
  Proof.
    intros Hr Hw H1 H2 Hd. destruct (N.eq_dec n 0) as [->|Hn].
    - exists st. rewrite fadv_0. repeat split; auto. intros j Hj. lia.
    - rewrite (copy_unfold st n rf rs f ws) by assumption.
      destruct (copy_loop_ok (N.to_nat n) st (fcur rf) f ws Hw) as (st' & E & P); try lia.
      rewrite N2Nat.id in P. exists st'. split; [exact E|exact P].
  Qed.

  Lemma copy_0 st : copy st 0 = Ok st.
  Proof. reflexivity. Qed.

  Lemma read_bits_ok k : forall st f rs, rd st = f :: rs -> fcur f + N.of_nat k <= msize (mem st) ->
    read_bits k st = Ok (mslice (mem st) (fcur f) k, set_rd st (fadv f (N.of_nat k) :: rs)).
  Proof.
    induction k as [|k IH]; intros st f rs Hr Hb.
    - cbn [read_bits mslice]. rewrite fadv_0. rewrite <- Hr. destruct st; reflexivity.
    - cbn [read_bits]. unfold read_bit. rewrite Hr. destruct (N.ltb_spec (fcur f) (msize (mem st))); [|lia].
      cbn [obind]. rewrite (IH _ (fadv f 1) rs) by (cbn; auto; lia). cbn [obind mslice mem set_rd fadv fcur].
      rewrite fadv_fadv. unfold set_rd. cbn [mem nfs rd wr hwc hwf].
      replace (1 + N.of_nat k) with (N.of_nat (S k)) by lia. reflexivity.
  Qed.

  Lemma window_check_none st : window_check st None = Ok tt.
  Proof. reflexivity. Qed.

  Lemma window_check_ok st f : fcur f <= fstart f + flen f -> fstart f + flen f <= msize (mem st) ->
    window_check st (Some f) = Ok tt.
  Proof.
    intros H1 H2. unfold window_check.
    destruct (N.leb_spec (fcur f) (fstart f + flen f)); [|lia].
    destruct (N.leb_spec (fstart f + flen f) (msize (mem st))); [reflexivity|lia].
  Qed.

(* ------------------------------------------------------------------ multi-step execution *)
Section Steps.
  Variable prof : profile.
  Variable cap : N.
  Variable jet_sem : N -> sval -> option sval.

  Notation step := (step prof cap jet_sem).
  Notation run := (run prof cap jet_sem).

  Inductive mstar : nat -> mstate * list citem -> mstate * list citem -> Prop :=
  | mstar_refl c : mstar 0 c c
  | mstar_step n st k st1 k1 c : step st k = Ok (st1, k1) -> mstar n (st1, k1) c ->
      mstar (S n) (st, k) c.

  Inductive mfail : nat -> mstate * list citem -> merr -> Prop :=
  | mfail_now st k e : step st k = Err e -> mfail 1 (st, k) e
  | mfail_step n st k st1 k1 e : step st k = Ok (st1, k1) -> mfail n (st1, k1) e ->
      mfail (S n) (st, k) e.

  Lemma mstar_trans n1 c1 c2 : mstar n1 c1 c2 -> forall n2 c3, mstar n2 c2 c3 -> mstar (n1 + n2) c1 c3.
  Proof.
    induction 1; intros n2 c3 H2; [exact H2|]. cbn [Nat.add]. econstructor; [eassumption|]. apply IHmstar. exact H2.
  Qed.

  Lemma mstar_one st k st1 k1 : step st k = Ok (st1, k1) -> mstar 1 (st, k) (st1, k1).
  Proof. intros H. econstructor; [exact H|constructor]. Qed.

  Lemma mstar_mfail n1 c1 c2 : mstar n1 c1 c2 -> forall n2 e, mfail n2 c2 e -> mfail (n1 + n2) c1 e.
  Proof.
    induction 1; intros n2 e H2; [exact H2|]. cbn [Nat.add]. eapply mfail_step; [eassumption|]. apply IHmstar. exact H2.
  Qed.

  Lemma mstar_run n c c' : mstar n c c' -> forall st' f, c' = (st', []) ->
    run (n + f) (fst c) (snd c) = Ok st'.
  Proof.
    induction 1 as [c|n st k st1 k1 c Hs Hm IH]; intros st' f ->.
    - cbn. destruct f; reflexivity.
    - cbn [fst snd Nat.add]. destruct k as [|i k].
      + cbn in Hs. injection Hs as <- <-. specialize (IH st' f eq_refl). cbn [fst snd] in IH.
        destruct (n + f)%nat; cbn [Machine.run] in *; exact IH.
      + cbn [Machine.run]. rewrite Hs. cbn [obind]. apply (IH st' f eq_refl).
  Qed.

  Lemma mfail_nonempty n c e : mfail n c e -> snd c <> [].
  Proof.
    induction 1 as [st k e Hs|n st k st1 k1 e Hs Hm IH]; cbn [snd] in *; intros ->; cbn in Hs.
    - discriminate.
    - injection Hs as <- <-. apply IH. reflexivity.
  Qed.

  Lemma mfail_run n c e : mfail n c e -> forall f, snd c <> [] -> run (n + f) (fst c) (snd c) = Err e.
  Proof.
    induction 1 as [st k e Hs|n st k st1 k1 e Hs Hm IH]; intros f Hne; cbn [fst snd] in *.
    - destruct k as [|i k]; [congruence|]. cbn [Machine.run Nat.add]. rewrite Hs. reflexivity.
    - destruct k as [|i k]; [congruence|]. cbn [Machine.run Nat.add]. rewrite Hs. cbn [obind].
      apply IH. apply (mfail_nonempty _ _ _ Hm).
  Qed.
End Steps.
