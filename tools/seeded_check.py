#!/usr/bin/env python3
"""Run the checks against the seeded changes kept under /verif/seeded/<name>/ (patch.diff + meta.json).
For each one: scratch worktree of /repo HEAD, apply the patch, run the property's quick check with
VERIF_REPO pointing at the worktree, record exit status and VIOLATION lines, remove the worktree.
/repo itself is never touched.   usage: seeded_check.py [name ...] [--tier quick|thorough]"""
import json
import os
import shutil
import subprocess
import sys

VERIF = os.path.dirname(os.path.dirname(os.path.abspath(__file__)))
SEEDED = os.path.join(VERIF, "seeded")
SCRATCH = "/tmp/verif_seeded"


def run(cmd, **kw):
    return subprocess.run(cmd, stdout=subprocess.PIPE, stderr=subprocess.STDOUT, text=True, **kw)


def one(name, tier):
    d = os.path.join(SEEDED, name)
    meta = json.load(open(os.path.join(d, "meta.json")))
    props = meta["property"] if isinstance(meta["property"], list) else [meta["property"]]
    wt = os.path.join(SCRATCH, name)
    if os.path.exists(wt):
        run(["git", "-C", "/repo", "worktree", "remove", "--force", wt])
        shutil.rmtree(wt, ignore_errors=True)
    os.makedirs(SCRATCH, exist_ok=True)
    r = run(["git", "-C", "/repo", "worktree", "add", "--detach", wt, "HEAD"])
    if r.returncode != 0:
        return {"name": name, "error": "worktree: " + r.stdout}
    res = {"name": name, "property": props, "checks": {}}
    try:
        r = run(["git", "-C", wt, "apply", os.path.join(d, "patch.diff")])
        if r.returncode != 0:
            res["error"] = "patch does not apply: " + r.stdout
            return res
        for p in meta.get("also_run", []) + props:
            env = dict(os.environ, VERIF_REPO=wt)
            r = run([sys.executable, os.path.join(VERIF, "tools", "vp.py"), "check", p, "--tier", tier], env=env, cwd=VERIF)
            viol = [l for l in r.stdout.split("\n") if l.startswith("VIOLATION")]
            why = [l for l in r.stdout.split("\n") if l.startswith("# ")]
            res["checks"][p] = {"exit": r.returncode, "violations": viol, "why": why[:3]}
            if r.returncode not in (0, 1):
                res["checks"][p]["tail"] = r.stdout[-1500:]
    finally:
        run(["git", "-C", "/repo", "worktree", "remove", "--force", wt])
        shutil.rmtree(wt, ignore_errors=True)
        import hashlib
        tag = hashlib.md5(os.path.realpath(wt).encode()).hexdigest()[:8]
        altd = os.path.join(VERIF, "work", "alt")
        if os.path.isdir(altd):
            for n in os.listdir(altd):
                if n.endswith("-" + tag):
                    shutil.rmtree(os.path.join(altd, n), ignore_errors=True)
    res["detected"] = any(c["exit"] == 1 and c["violations"] for c in res["checks"].values())
    meta = json.load(open(os.path.join(d, "meta.json")))
    meta.setdefault("detection", {})[tier] = {"detected": res["detected"], "checks": res["checks"]}
    json.dump(meta, open(os.path.join(d, "meta.json"), "w"), indent=1)
    return res


def main():
    args = sys.argv[1:]
    tier = "quick"
    if "--tier" in args:
        tier = args[args.index("--tier") + 1]
        del args[args.index("--tier"):args.index("--tier") + 2]
    names = args or sorted(n for n in os.listdir(SEEDED) if os.path.exists(os.path.join(SEEDED, n, "patch.diff")))
    out = []
    for n in names:
        r = one(n, tier)
        out.append(r)
        print(json.dumps(r, indent=1))
        sys.stdout.flush()
    json.dump(out, open(os.path.join(VERIF, "work", "seeded_results_%s.json" % tier), "w"), indent=1)
    print("SUMMARY: %d/%d detected" % (sum(1 for r in out if r.get("detected")), len(out)))


if __name__ == "__main__":
    main()
