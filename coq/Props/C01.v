(* C01 - Program and witness bit-encoding round-trips.
   Only pinned statements (`Theorem .. exact lemma`) and `Print Assumptions`.
   Models: Codec/NodeCodec.v (encode_node / decode_node, node loop), Codec/Linearise.v (post-order traversal
   with sharing ids = encode_program's node list), Codec/WitnessCodec.v (witness stream), Codec/Decode.v.
   Phase 1 left equality of types, identity and annotated roots after re-inference on the shared DAG as
   "tested only" (label C01_types_partial) and the general structure statement as a Definition.  Phase 2 (below,
   theorems 5-14) proves the structure statement for all sizes through C18 (Coq/Dag), and - with C04's
   principal-type theorems (Coq/Infer) and the root definitions of Coq/Merkle/Ihr.v - that a principally typed
   program is a fixed point of encode/decode w.r.t. arrows, IHR and AMR whenever the decoded program is the
   sharing quotient of the original; finding F-C01 is shown to be exactly the failure of that premise.
   The correspondence check additionally evaluates Codec/RunRoots.v (reference inference + SHA-256 roots of
   every node of the decoded program) against the implementation and libsimplicity. *)
From RS Require Import Lib.Tac Lib.Outcome Lib.Bits Lib.Sweep Ty.Ty Bits.Natural Bits.BitIter
  Codec.NodeCodec Codec.ProgCodec Codec.JetTab Codec.Linearise Codec.Decode Codec.Structure Codec.Main
  Codec.WitnessCodec Codec.Run Codec.Rules Codec.RealJets.
Import ListNotations.
Local Open Scope N_scope.

(* 1. serialising a well-formed node list and decoding it yields the list and leaves the following bits *)
Theorem C01_syntax_rt : forall (jet : Type) (jet_okb : jet -> bool) (jet_enc : jet -> list bool)
    (jet_dec : list bool -> outcome dec_err (jet * list bool)),
  (forall j r, jet_okb j = true -> jet_dec (jet_enc j ++ r) = Ok (j, r)) ->
  (forall l j r, jet_dec l = Ok (j, r) -> l = jet_enc j ++ r /\ jet_okb j = true) ->
  (forall l, match jet_dec l with Panic _ | OutOfFuel => False | _ => True end) ->
  forall ns r, wf_prog jet jet_okb ns -> dec_prog jet jet_dec (enc_prog jet jet_enc ns ++ r) = Ok (ns, r).
Proof. exact syntax_rt. Qed.
Print Assumptions C01_syntax_rt.

Theorem C01_prefix_free : forall (jet : Type) (jet_okb : jet -> bool) (jet_enc : jet -> list bool)
    (jet_dec : list bool -> outcome dec_err (jet * list bool)),
  (forall j r, jet_okb j = true -> jet_dec (jet_enc j ++ r) = Ok (j, r)) ->
  (forall l j r, jet_dec l = Ok (j, r) -> l = jet_enc j ++ r /\ jet_okb j = true) ->
  (forall l, match jet_dec l with Panic _ | OutOfFuel => False | _ => True end) ->
  forall ns1 ns2 r1 r2, wf_prog jet jet_okb ns1 -> wf_prog jet jet_okb ns2 ->
  enc_prog jet jet_enc ns1 ++ r1 = enc_prog jet jet_enc ns2 ++ r2 -> ns1 = ns2 /\ r1 = r2.
Proof. exact enc_prog_prefix_free. Qed.
Print Assumptions C01_prefix_free.

(* non-vacuity: a concrete prefix-free jet table and a program with every kind of payload *)
Theorem C01_syntax_rt_instance : forall ns r, wf_prog N (jet_okb_tab jt3) ns ->
  dec_prog N (jet_dec_tab jt3) (enc_prog N (jet_enc_tab jt3) ns ++ r) = Ok (ns, r).
Proof. exact syntax_rt_jt3. Qed.
Print Assumptions C01_syntax_rt_instance.

Theorem C01_syntax_rt_example : wf_prog N (jet_okb_tab jt3) ex_prog /\
  dec_prog N (jet_dec_tab jt3) (enc_prog N (jet_enc_tab jt3) ex_prog ++ [true; true; false]) = Ok (ex_prog, [true; true; false]).
Proof. exact (conj wf_ex_prog syntax_rt_ex). Qed.
Print Assumptions C01_syntax_rt_example.

(* ... and for the real jet families: the code tables and decode trees of src/jet/init/{core,elements}.rs
   (Generated/Jets_core.v, Jets_elements.v; C14's round-trip and completeness facts discharge the hypotheses) *)
Theorem C01_syntax_rt_core : forall ns r, wf_prog N core_okb ns ->
  dec_prog N core_dec (enc_prog N core_enc ns ++ r) = Ok (ns, r).
Proof. exact syntax_rt_core. Qed.
Print Assumptions C01_syntax_rt_core.

Theorem C01_syntax_rt_elements : forall ns r, wf_prog N elements_okb ns ->
  dec_prog N elements_dec (enc_prog N elements_enc ns ++ r) = Ok (ns, r).
Proof. exact syntax_rt_elements. Qed.
Print Assumptions C01_syntax_rt_elements.

(* 2. a program already in canonical form with distinguishable nodes is written as itself and read back *)
Theorem C01_canonical_roundtrip : forall (jet : Type) (jet_okb : jet -> bool) (jet_enc : jet -> list bool)
    (jet_dec : list bool -> outcome dec_err (jet * list bool)),
  (forall j r, jet_okb j = true -> jet_dec (jet_enc j ++ r) = Ok (j, r)) ->
  (forall l j r, jet_dec l = Ok (j, r) -> l = jet_enc j ++ r /\ jet_okb j = true) ->
  (forall l, match jet_dec l with Panic _ | OutOfFuel => False | _ => True end) ->
  forall ns r (key : N -> option N) (kf : N -> N),
  wf_prog jet jet_okb ns -> dec_struct ns = Ok tt ->
  (forall p, p < N.of_nat (length ns) -> key p = Some (kf p)) ->
  (forall p q, p < N.of_nat (length ns) -> q < N.of_nat (length ns) -> kf p = kf q -> p = q) ->
  dec_prog jet jet_dec (enc_prog jet jet_enc (linearise ns key) ++ r) = Ok (ns, r).
Proof. exact canonical_roundtrip. Qed.
Print Assumptions C01_canonical_roundtrip.

(* 3. the witness stream: every value comes back bit for bit at the same position, everything is consumed,
   and the stream determines the values *)
Theorem C01_witness_rt : forall vs tys rest, all_typed vs tys = true ->
  read_witnesses tys (enc_witnesses vs ++ rest) = Some (vs, rest).
Proof. exact witness_rt. Qed.
Print Assumptions C01_witness_rt.

Theorem C01_witness_unique : forall vs ws tys, all_typed vs tys = true -> all_typed ws tys = true ->
  enc_witnesses vs = enc_witnesses ws -> vs = ws.
Proof. exact witness_unique. Qed.
Print Assumptions C01_witness_unique.

(* 4. the encoder's output for ANY DAG and sharing-id assignment without id cycles is accepted by the
   decoder's second pass, is in canonical order and re-encodes as itself - all tables of up to 3 nodes with
   4 ids (None included), all tables of 4 nodes with 2 ids.  (Before /repo 7ce2109 the iterator this models
   produced orphan nodes here: finding F-C01a.) *)
Theorem C01_encoder_output_upto3 :
  forallb (fun ns => forallb (encoder_output_check ns) (key_assignments (length ns) [None; Some 0; Some 1; Some 2]))
          (tables 1 ++ tables 2 ++ tables 3) = true.
Proof. exact encoder_output_upto3. Qed.
Print Assumptions C01_encoder_output_upto3.

Theorem C01_encoder_output_4 :
  forallb (fun ns => forallb (encoder_output_check ns) (key_assignments (length ns) [Some 0; Some 1])) (tables 4) = true.
Proof. exact encoder_output_4_two_ids. Qed.
Print Assumptions C01_encoder_output_4.

(* Phase 1: not proved in general (kept as a statement; the two theorems above are its bounded form).
   Phase 2: PROVED below as C01_encode_decode_structure (theorem 7), with hidden nodes as theorem 14. *)
Definition C01_encode_decode_structure_statement : Prop :=
  forall (ns : list dn) (keys : list (option N)),
  wf_nodes N (fun _ => true) 0 ns -> ns <> [] -> keys_acyclic ns keys = true ->
  let lin := linearise ns (key_list keys) in
  (forall d, In d lin -> forall h, d <> DHidden h) ->
  dec_struct lin = Ok tt /\ linearise lin key_ptr = lin.

(* ------------------------------------------------------------------ phase 2: the general statement, all sizes *)
From RS Require Import Dag.DagModel Dag.PostOrderSpec Dag.Acyclic Codec.DagBridge Codec.PostOrderCanon Codec.General Codec.GeneralInst.

(* 5. the codec's recursive traversal (Codec/Linearise.v) is C18's specification of PostOrderIter on the
   corresponding DAG, item by item: every C18 theorem applies to the node list encode_program writes *)
Theorem C01_traverse_is_c18_spec : forall (ch : N -> list N) (key : N -> option N),
  (forall n c, In c (ch n) -> c < n) -> (forall n, (length (ch n) <= 2)%nat) ->
  forall root, Linearise.traverse ch key root = map conv (po_spec (dag_of ch) (key_of key) (N.to_nat root)).
Proof. exact traverse_bridge. Qed.
Print Assumptions C01_traverse_is_c18_spec.

(* 6. canonical order, on C18's specification: under sharing ids that no node shares with a proper
   descendant, the yielded items read as a DAG of their own are iterated (pointer identity, from the last
   item) in the order 0, 1, 2, ... with the same child indices *)
Theorem C01_po_items_canonical : forall (children : nat -> dagnode) (key : nat -> option N),
  wfc children -> key_acyclic children key ->
  forall all, wfc (lin_dag all) -> forall root, all = po_spec children key root ->
  all <> [] /\ po_spec (lin_dag all) DagModel.key_ptr (length all - 1) = map id_item all.
Proof. exact canon_order. Qed.
Print Assumptions C01_po_items_canonical.

(* 7. THE GENERAL STATEMENT (was a Definition only; bounded forms: theorems 4 above): for every well-formed
   table and every acyclic sharing-id assignment the encoder's node list is accepted by the decoder's second
   pass and re-encodes as itself *)
Theorem C01_encode_decode_structure : C01_encode_decode_structure_statement.
Proof. exact encode_decode_structure. Qed.
Print Assumptions C01_encode_decode_structure.

(* 8. ... and, hidden nodes or not, it is well formed (children first), non-empty and in canonical order *)
Theorem C01_encoder_output_canonical : forall (ns : list dn) (keys : list (option N)),
  wf_nodes N (fun _ => true) 0 ns -> ns <> [] -> keys_acyclic ns keys = true ->
  let lin := linearise ns (Linearise.key_list keys) in
  wf_nodes N (fun _ => true) 0 lin /\ lin <> [] /\ order_ok lin = true.
Proof. exact encoder_output_canonical. Qed.
Print Assumptions C01_encoder_output_canonical.

(* the premises are satisfiable with real sharing (duplicates merged, witness nodes never shared) *)
Theorem C01_general_example :
  wf_nodesb N (fun _ => true) 0 ex_general_ns = true /\ keys_acyclic ex_general_ns ex_general_keys = true /\
  linearise ex_general_ns (Linearise.key_list ex_general_keys) =
    [DUnit; DPair 0 0; DInjL 1; DComp 2 2; DWitness; DWitness; DPair 4 5; DPair 3 6].
Proof. exact ex_general_premises. Qed.
Print Assumptions C01_general_example.

(* ------------------------------------------------------------------ phase 2: types, identity and annotated roots *)
From RS Require Import Core.Prog Infer.Constraints Infer.Infer Infer.Order Merkle.Tagged Merkle.Cmr Merkle.Ihr
  Codec.Reinfer Codec.RootsRT Codec.Twins.

(* 9. (was "tested only", C01_types_partial) a program whose arrows are the principal arrows of its structure -
   inference in a context that holds only the program's own nodes, the property's quantifier - is a fixed
   point of encode/decode w.r.t. types: if the decoded program p' is the quotient of p by the sharing map phi
   (p'[phi i] = p[i] with children renamed by phi; phi onto) and merged nodes have equal arrows (the identity
   hash commits to source and target), then inference on p' succeeds and gives node phi i the arrow of node i.
   Uses C04's infer_sound / infer_complete / infer_least. *)
Theorem C01_reinfer_quotient : forall (jt : jet_table) (phi : nat -> nat) (p p' : prog),
  wf_from 0 p = true -> wf_from 0 p' = true -> quotient_of phi p p' ->
  forall (root : option nat) (tau : list (option tarrow)),
  (forall r, root = Some r -> (r < length p)%nat) ->
  infer jt root p = Ok tau ->
  (forall i j, (i < length p)%nat -> (j < length p)%nat -> phi i = phi j -> nth i tau None = nth j tau None) ->
  exists tau', infer jt (option_map phi root) p' = Ok tau' /\
    forall i, (i < length p)%nat -> nth (phi i) tau' None = nth i tau None.
Proof. exact reinfer_quotient. Qed.
Print Assumptions C01_reinfer_quotient.

(* 10. ... and w.r.t. identity and annotated roots, for ANY compression function: RedeemData::new
   (Merkle/Ihr.v redeem_table: AMR, IMR, IHR from constructor, payload, arrows, children's roots, witness value)
   on the quotient gives node phi i what it gives node i on the original *)
Theorem C01_roundtrip_fixed_point :
  forall (H : Type) (compress : H -> H * H -> H) (iv ivi : tag -> H) (zero : H) (of_weight : N -> H) (bit_cmr : bool -> H)
    (tmr_unit : H) (tmr_two_two_n : list H) (jet_cmr : N -> N -> H) (h_of_bytes : list N -> H)
    (compact_value : list bool -> H)
    (jt : jet_table) (phi : nat -> nat) (p p' : prog) (root : nat) (tau : list (option tarrow)),
  wf_from 0 p = true -> wf_from 0 p' = true -> quotient_of phi p p' -> (root < length p)%nat ->
  infer jt (Some root) p = Ok tau ->
  (forall i j, (i < length p)%nat -> (j < length p)%nat -> phi i = phi j -> nth i tau None = nth j tau None) ->
  exists tau', infer jt (Some (phi root)) p' = Ok tau' /\
    (forall i, (i < length p)%nat -> nth (phi i) tau' None = nth i tau None) /\
    forall t, redeem_table H compress iv ivi zero of_weight bit_cmr tmr_unit tmr_two_two_n jet_cmr h_of_bytes
                compact_value (combine p tau) = Ok t ->
      exists t', redeem_table H compress iv ivi zero of_weight bit_cmr tmr_unit tmr_two_two_n jet_cmr h_of_bytes
                   compact_value (combine p' tau') = Ok t' /\
        forall i, (i < length p)%nat -> nth_error t' (phi i) = nth_error t i.
Proof. exact roundtrip_fixed_point. Qed.
Print Assumptions C01_roundtrip_fixed_point.

(* the premises are satisfiable: a quotient that merges two nodes, with the computed principal arrows *)
Theorem C01_quotient_example :
  quotient_of ex_q_phi ex_q_p ex_q_p' /\ wf_from 0 ex_q_p = true /\ wf_from 0 ex_q_p' = true /\
  infer [] (Some 4%nat) ex_q_p =
    Ok [Some (One, One); Some (One, One); Some (One, Prod One One); Some (Prod One One, One); Some (One, One)] /\
  infer [] (Some (ex_q_phi 4)) ex_q_p' =
    Ok [Some (One, One); Some (One, Prod One One); Some (Prod One One, One); Some (One, One)].
Proof. exact (conj ex_quotient ex_quotient_premises). Qed.
Print Assumptions C01_quotient_example.

(* 11. finding F-C01 is exactly the failure of the premise "p' is a quotient of p": in the witness program of
   the finding no type-respecting quotient map can merge the two identity-hash-equal nodes 3 and 9 (their left
   children 1 and 7 have different arrows), and with a collision-free (free) hash their identity roots are
   equal while their annotated roots differ *)
Theorem C01_twins_no_quotient : forall phi p',
  quotient_of phi twins p' -> phi 3%nat = phi 9%nat ->
  ~ (forall i j, (i < length twins)%nat -> (j < length twins)%nat -> phi i = phi j ->
       nth i twins_tau None = nth j twins_tau None).
Proof. exact twins_no_quotient. Qed.
Print Assumptions C01_twins_no_quotient.

Theorem C01_twins_amr_differs :
  infer [] (Some 11%nat) twins = Ok twins_tau /\
  ihr_at 3 = ihr_at 9 /\ ihr_at 3 <> None /\ amr_at 3 <> amr_at 9 /\ ihr_at 1 <> ihr_at 7.
Proof. exact (conj (proj1 twins_typed) twins_amr_differs). Qed.
Print Assumptions C01_twins_amr_differs.

(* ------------------------------------------------------------------ phase 2: end to end on the decoded program *)
From RS Require Import Dag.VisitFacts Dag.Coverage Codec.ClassMap Codec.DecodedProg Codec.Quotient Codec.QuotientEx.

(* 12. "the same node list up to the sharing quotient", explicitly: the program the decoder rebuilds from the
   encoder's node list (decoded_prog: yielded items, children = yielded indices, payload of the first-yielded
   node of each class - the function Codec/DecodedProg.v that the correspondence check evaluates through Codec/RunRoots.v) is the quotient of
   the original by phi = index of the item of a node's class, provided the ids are present on every node,
   congruent and payload-respecting; it is well formed *)
Theorem C01_decoded_is_quotient : forall (p : prog) (keys : list (option N)),
  wf_from 0 p = true -> p <> [] ->
  let dch := dag_of (tch N (map (pdl_node true) p)) in
  let dkey := key_of (Linearise.key_list keys) in
  let rootn := N.to_nat (N.of_nat (length (map (pdl_node true) p)) - 1) in
  (forall i, (i < length p)%nat -> reach dch rootn i) ->
  (forall i, (i < length p)%nat -> dkey i <> None) ->
  key_congruent dch dkey ->
  (forall a b, (a < length p)%nat -> (b < length p)%nat -> dkey a = dkey b ->
     skeleton (nth a p NUnit) = skeleton (nth b p NUnit)) ->
  quotient_of (class_idx dch dkey rootn) p (decoded_prog p keys) /\ wf_from 0 (decoded_prog p keys) = true.
Proof. exact decoded_is_quotient. Qed.
Print Assumptions C01_decoded_is_quotient.

(* 13. END TO END (structure + types + identity and annotated roots): a redemption-time program that consists
   of the nodes reachable from its root and is typed with its principal arrows, under sharing ids that are
   present on every node, acyclic, congruent, payload- and arrow-respecting: the decoded program, re-typed by
   inference from scratch and re-hashed with any compression function, has at the image of every node the same
   arrow, AMR, IMR and IHR.  The library's identity hash commits to the children's IMRs, not their IHRs: it is
   congruent except for the twins of finding F-C01 (theorems 11). *)
Theorem C01_decoded_fixed_point :
  forall (H : Type) (compress : H -> H * H -> H) (iv ivi : tag -> H) (zero : H) (of_weight : N -> H) (bit_cmr : bool -> H)
    (tmr_unit : H) (tmr_two_two_n : list H) (jet_cmr : N -> N -> H) (h_of_bytes : list N -> H)
    (compact_value : list bool -> H)
    (jt : jet_table) (p : prog) (keys : list (option N)) (tau : list (option tarrow)),
  let dch := dag_of (tch N (map (pdl_node true) p)) in
  let dkey := key_of (Linearise.key_list keys) in
  let rootn := (length p - 1)%nat in
  let phi := class_idx dch dkey rootn in
  let p' := decoded_prog p keys in
  wf_from 0 p = true -> p <> [] ->
  (forall i, (i < length p)%nat -> reach dch rootn i) ->
  (forall i, (i < length p)%nat -> dkey i <> None) ->
  key_congruent dch dkey -> key_acyclic dch dkey ->
  (forall a b, (a < length p)%nat -> (b < length p)%nat -> dkey a = dkey b ->
     skeleton (nth a p NUnit) = skeleton (nth b p NUnit)) ->
  infer jt (Some rootn) p = Ok tau ->
  (forall a b, (a < length p)%nat -> (b < length p)%nat -> dkey a = dkey b -> nth a tau None = nth b tau None) ->
  quotient_of phi p p' /\
  exists tau', infer jt (Some (length p' - 1)%nat) p' = Ok tau' /\
    (forall i, (i < length p)%nat -> nth (phi i) tau' None = nth i tau None) /\
    forall t, redeem_table H compress iv ivi zero of_weight bit_cmr tmr_unit tmr_two_two_n jet_cmr h_of_bytes
                compact_value (combine p tau) = Ok t ->
      exists t', redeem_table H compress iv ivi zero of_weight bit_cmr tmr_unit tmr_two_two_n jet_cmr h_of_bytes
                   compact_value (combine p' tau') = Ok t' /\
        forall i, (i < length p)%nat -> nth_error t' (phi i) = nth_error t i.
Proof. exact decoded_fixed_point. Qed.
Print Assumptions C01_decoded_fixed_point.

(* every premise of 13 is satisfiable at once (two `unit` nodes merged by their ids), and the conclusion applied *)
Theorem C01_decoded_fixed_point_example :
  (wf_from 0 ex_q_p = true /\ ex_q_p <> [] /\
   (forall i, (i < length ex_q_p)%nat -> ex_dkey i <> None) /\
   (forall a b, (a < length ex_q_p)%nat -> (b < length ex_q_p)%nat -> ex_dkey a = ex_dkey b ->
      skeleton (nth a ex_q_p NUnit) = skeleton (nth b ex_q_p NUnit)) /\
   infer [] (Some (length ex_q_p - 1)%nat) ex_q_p = Ok ex_tau /\
   (forall a b, (a < length ex_q_p)%nat -> (b < length ex_q_p)%nat -> ex_dkey a = ex_dkey b ->
      nth a ex_tau None = nth b ex_tau None) /\
   decoded_prog ex_q_p ex_keys = ex_q_p') /\
  key_congruent ex_dch ex_dkey /\ key_acyclic ex_dch ex_dkey /\
  (forall i, (i < length ex_q_p)%nat -> reach ex_dch (length ex_q_p - 1)%nat i).
Proof. exact (conj ex_fixed_point_premises (conj ex_cong (conj ex_acyclic ex_reach))). Qed.
Print Assumptions C01_decoded_fixed_point_example.

(* ------------------------------------------------------------------ phase 2: assertions (hidden nodes) *)
From RS Require Import Codec.GeneralHidden Codec.GeneralHiddenInst.

(* 14. theorem 7 with hidden nodes: for a table in which hidden nodes occur only as one child of a case node and
   never as the root, under acyclic ids that never identify a hidden node with another kind of node and give
   hidden nodes of equal CMR the same id (EncodeSharing), the encoder's node list passes the decoder's second
   pass - hidden only under case, not both children, no repeated hidden node, root not hidden - and re-encodes
   as itself.  hidden_okb is the finite test of these premises on the table. *)
Theorem C01_encode_decode_structure_hidden : forall (ns : list dn) (keys : list (option N)),
  wf_nodes N (fun _ => true) 0 ns -> ns <> [] -> keys_acyclic ns keys = true -> hidden_okb ns keys = true ->
  let lin := linearise ns (Linearise.key_list keys) in
  dec_struct lin = Ok tt /\ linearise lin Linearise.key_ptr = lin.
Proof. exact encode_decode_structure_hidden. Qed.
Print Assumptions C01_encode_decode_structure_hidden.

Theorem C01_hidden_example :
  wf_nodesb N (fun _ => true) 0 ex_hidden_ns = true /\ keys_acyclic ex_hidden_ns ex_hidden_keys = true /\
  hidden_okb ex_hidden_ns ex_hidden_keys = true /\
  linearise ex_hidden_ns (Linearise.key_list ex_hidden_keys) = [DUnit; DHidden H0; DCase 0 1; DPair 2 2; DComp 3 0].
Proof. exact ex_hidden_premises. Qed.
Print Assumptions C01_hidden_example.
