//! C15: the Elements environment shown to jets is the supplied transaction.
//!
//! One case = one environment + a list of queries.  The environment is built deterministically
//! from a structural descriptor (counts, classes, lengths: chosen by the python generator) and a
//! seed (all byte contents come from a SplitMix64 stream seeded by it).
//!
//! case line:  <id> env <seed> <version> <lock_time> <ix> <leafver> <npath> IN <in>* OUT <out>* Q <query>*
//!   <in>  = seq.vout.pegin.iss.amt.keys.arp.krp.wit.ssl.uasset.uvalue.uscript
//!           pegin: 0 none, 1 flag+data, 2 flag only, 3 data only
//!           iss:   0 none, 1 new, 2 reissuance;  amt/keys: n|e|c (null/explicit/confidential)
//!           arp/krp: range proof lengths;  wit: stack `k` elements + last element kind:
//!             `0` (empty stack) | `<k>a<len>` (last = 0x50 ++ len bytes) | `<k>x<len>` (last = len bytes, first != 0x50) | `<k>e` (last empty)
//!           ssl: scriptSig length; uasset/uvalue: n|e|c ; uscript: length of the spent scriptPubKey
//!   <out> = asset.value.nonce.script.surj.range     asset: n|e<palette>|c ; value: n|e<amount>|c ; nonce: n|e|c
//!           script: e (empty) | r<len> (random, first byte != 0x6a) | d<ops> null data, ops = list of
//!             i<len> (immediate push) p<len> (PUSHDATA1) q<len> (PUSHDATA2) s<len> (PUSHDATA4) m (1NEGATE) v (RESERVED) n<k> (OP_k)
//!             t (a truncated push: makes the script not null data) b (a non-push opcode)
//!   <query> = jetname:<hex of the input word | ->
//!
//! result:  0 <abstract transaction> 77777 (<st> <nbits> <32-bit groups>* <ost> <onbits> <groups>*)* 88888 <4 sighashes>
//!   st: 0 value, 1 jet failed, 2 other execution error, 3 could not build/run;  ost: 0 value, 1 fails, 3 no oracle
use crate::prog;
use crate::util::*;
use simplicity::elements::confidential;
use simplicity::elements::taproot::ControlBlock;
use simplicity::elements::{self, AssetId};
use simplicity::hashes::{sha256, HashEngine as _};
use simplicity::jet::elements::{ElementsEnv, ElementsUtxo};
use simplicity::{BitMachine, Cmr};
use std::sync::Arc;

// ---------------------------------------------------------------- PRNG

pub struct Rng(u64);
impl Rng {
    pub fn new(seed: u64) -> Self {
        Rng(seed)
    }
    pub fn next(&mut self) -> u64 {
        self.0 = self.0.wrapping_add(0x9E3779B97F4A7C15);
        let mut z = self.0;
        z = (z ^ (z >> 30)).wrapping_mul(0xBF58476D1CE4E5B9);
        z = (z ^ (z >> 27)).wrapping_mul(0x94D049BB133111EB);
        z ^ (z >> 31)
    }
    pub fn bytes(&mut self, n: usize) -> Vec<u8> {
        (0..n).map(|_| (self.next() >> 24) as u8).collect()
    }
    pub fn arr32(&mut self) -> [u8; 32] {
        let mut a = [0u8; 32];
        a.copy_from_slice(&self.bytes(32));
        a
    }
}

// ---------------------------------------------------------------- numbers

/// decimal text of a big-endian byte string
pub fn big(bytes: &[u8]) -> String {
    let mut digits: Vec<u8> = vec![]; // little-endian decimal digits
    let mut work: Vec<u8> = bytes.to_vec();
    // strip leading zeros
    while work.first() == Some(&0) {
        work.remove(0);
    }
    while !work.is_empty() {
        let mut rem: u32 = 0;
        let mut next: Vec<u8> = Vec::with_capacity(work.len());
        for b in &work {
            let cur = rem * 256 + *b as u32;
            let q = cur / 10;
            rem = cur % 10;
            if !(next.is_empty() && q == 0) {
                next.push(q as u8);
            }
        }
        digits.push(rem as u8);
        work = next;
    }
    if digits.is_empty() {
        return "0".into();
    }
    digits.iter().rev().map(|d| (b'0' + d) as char).collect()
}

/// a bit string as numbers: its length, then its bits in groups of 32 from the front (the last group
/// may be shorter), each group read as a big-endian number
pub fn chunks32(bits: &[bool], out: &mut Vec<String>) {
    out.push(bits.len().to_string());
    for g in bits.chunks(32) {
        let mut v: u64 = 0;
        for b in g {
            v = 2 * v + *b as u64;
        }
        out.push(v.to_string());
    }
}

/// decimal text of a bit string read as a big-endian number
pub fn big_bits(bits: &[bool]) -> String {
    let pad = (8 - bits.len() % 8) % 8;
    let mut all = vec![false; pad];
    all.extend_from_slice(bits);
    big(&prog::pack_bits(&all))
}

fn sha(b: &[u8]) -> [u8; 32] {
    sha256::Hash::hash(b).to_byte_array()
}

// ---------------------------------------------------------------- descriptor

#[derive(Clone, Debug)]
struct InDesc {
    seq: u32,
    vout: u32,
    pegin: u8,
    iss: u8,
    amt: char,
    keys: char,
    arp: usize,
    krp: usize,
    wit: String,
    ssl: usize,
    uasset: char,
    uvalue: char,
    uscript: usize,
}

#[derive(Clone, Debug)]
struct OutDesc {
    asset: String,
    value: String,
    nonce: char,
    script: String,
    surj: usize,
    range: usize,
}

fn parse_in(s: &str) -> InDesc {
    let f: Vec<&str> = s.split('.').collect();
    let ch = |k: usize| f[k].chars().next().unwrap();
    InDesc {
        seq: f[0].parse().unwrap(),
        vout: f[1].parse().unwrap(),
        pegin: f[2].parse().unwrap(),
        iss: f[3].parse().unwrap(),
        amt: ch(4),
        keys: ch(5),
        arp: f[6].parse().unwrap(),
        krp: f[7].parse().unwrap(),
        wit: f[8].to_string(),
        ssl: f[9].parse().unwrap(),
        uasset: ch(10),
        uvalue: ch(11),
        uscript: f[12].parse().unwrap(),
    }
}

fn parse_out(s: &str) -> OutDesc {
    let f: Vec<&str> = s.split('.').collect();
    OutDesc {
        asset: f[0].to_string(),
        value: f[1].to_string(),
        nonce: f[2].chars().next().unwrap(),
        script: f[3].to_string(),
        surj: f[4].parse().unwrap(),
        range: f[5].parse().unwrap(),
    }
}

// ---------------------------------------------------------------- generation of the concrete data

fn conf_asset(r: &mut Rng) -> confidential::Asset {
    loop {
        let mut b = vec![if r.next() & 1 == 1 { 0x0b } else { 0x0a }];
        b.extend(r.bytes(32));
        if let Ok(a) = confidential::Asset::from_commitment(&b) {
            return a;
        }
    }
}
fn conf_value(r: &mut Rng) -> confidential::Value {
    loop {
        let mut b = vec![if r.next() & 1 == 1 { 0x09 } else { 0x08 }];
        b.extend(r.bytes(32));
        if let Ok(a) = confidential::Value::from_commitment(&b) {
            return a;
        }
    }
}
fn conf_nonce(r: &mut Rng) -> confidential::Nonce {
    loop {
        let mut b = vec![if r.next() & 1 == 1 { 0x03 } else { 0x02 }];
        b.extend(r.bytes(32));
        if let Ok(a) = confidential::Nonce::from_commitment(&b) {
            return a;
        }
    }
}

fn gen_value(r: &mut Rng, class: char) -> confidential::Value {
    match class {
        'n' => confidential::Value::Null,
        'e' => {
            let sel = r.next() % 6;
            let v = match sel {
                0 => 0,
                1 => u64::MAX,
                2 => 1,
                _ => r.next() >> (r.next() % 64),
            };
            confidential::Value::Explicit(v)
        }
        _ => conf_value(r),
    }
}
fn gen_asset(r: &mut Rng, class: char) -> confidential::Asset {
    match class {
        'n' => confidential::Asset::Null,
        'e' => confidential::Asset::Explicit(AssetId::from_byte_array(r.arr32())),
        _ => conf_asset(r),
    }
}

/// a byte string the range-proof parser accepts (header only is inspected), about `len` bytes
fn gen_rangeproof(r: &mut Rng, len: usize) -> confidential::RangeProof {
    if len == 0 {
        return confidential::RangeProof::EMPTY;
    }
    let len = len.max(65);
    for _ in 0..64 {
        let mut b = r.bytes(len);
        b[0] &= 0x7f;
        if r.next() % 2 == 0 {
            b[0] = 0; // exact value, no minimum: always a valid header
        }
        if let Ok(p) = confidential::RangeProof::from_slice(&b) {
            return p;
        }
    }
    let mut b = r.bytes(len);
    b[0] = 0;
    confidential::RangeProof::from_slice(&b).expect("range proof header")
}

/// a well-formed surjection proof of about `len` bytes: 2 + ceil(n/8) + 32 * (1 + used)
fn gen_surjproof(r: &mut Rng, len: usize) -> confidential::SurjectionProof {
    if len == 0 {
        return confidential::SurjectionProof::EMPTY;
    }
    let used = (len.saturating_sub(35) / 32).min(8).max(1);
    let n = used + (r.next() % 3) as usize;
    let mut b = vec![(n & 0xff) as u8, (n >> 8) as u8];
    let mut bitmap = vec![0u8; (n + 7) / 8];
    for k in 0..used {
        bitmap[k / 8] |= 1 << (k % 8);
    }
    b.extend(bitmap);
    b.extend(r.bytes(32 * (1 + used)));
    confidential::SurjectionProof::from_slice(&b).expect("surjection proof shape")
}

fn gen_script_random(r: &mut Rng, len: usize) -> Vec<u8> {
    let mut b = r.bytes(len);
    if !b.is_empty() && b[0] == 0x6a {
        b[0] = 0x51;
    }
    b
}

fn num_after(s: &str, pos: &mut usize) -> usize {
    let b = s.as_bytes();
    let st = *pos;
    while *pos < b.len() && b[*pos].is_ascii_digit() {
        *pos += 1;
    }
    s[st..*pos].parse().unwrap_or(0)
}

fn gen_script_nulldata(r: &mut Rng, ops: &str) -> Vec<u8> {
    let mut out = vec![0x6a];
    let mut pos = 0;
    let b = ops.as_bytes();
    while pos < b.len() {
        let c = b[pos] as char;
        pos += 1;
        match c {
            'i' => {
                let l = num_after(ops, &mut pos).min(75);
                out.push(l as u8);
                out.extend(r.bytes(l));
            }
            'p' => {
                let l = num_after(ops, &mut pos).min(255);
                out.push(0x4c);
                out.push(l as u8);
                out.extend(r.bytes(l));
            }
            'q' => {
                let l = num_after(ops, &mut pos).min(65535);
                out.push(0x4d);
                out.push((l & 0xff) as u8);
                out.push((l >> 8) as u8);
                out.extend(r.bytes(l));
            }
            's' => {
                let l = num_after(ops, &mut pos);
                out.push(0x4e);
                out.extend((l as u32).to_le_bytes());
                out.extend(r.bytes(l));
            }
            'm' => out.push(0x4f),
            'v' => out.push(0x50),
            'n' => {
                let k = num_after(ops, &mut pos).clamp(1, 16);
                out.push(0x50 + k as u8);
            }
            't' => {
                // push announcing more bytes than remain
                out.push(0x20);
                out.extend(r.bytes(5));
            }
            'b' => out.push(0x61 + (r.next() % 0x40) as u8),
            _ => panic!("null data op"),
        }
    }
    out
}

fn gen_script(r: &mut Rng, d: &str) -> Vec<u8> {
    match d.chars().next().unwrap() {
        'e' => vec![],
        'r' => gen_script_random(r, d[1..].parse().unwrap()),
        'd' => gen_script_nulldata(r, &d[1..]),
        _ => panic!("script descriptor"),
    }
}

fn gen_witness(r: &mut Rng, d: &str) -> Vec<Vec<u8>> {
    if d == "0" {
        return vec![];
    }
    let mut pos = 0;
    let k = num_after(d, &mut pos).max(1);
    let kind = d.as_bytes()[pos] as char;
    pos += 1;
    let len = num_after(d, &mut pos);
    let mut st: Vec<Vec<u8>> = vec![];
    for j in 0..k - 1 {
        let l = (r.next() % 40) as usize;
        let mut e = r.bytes(l);
        // earlier elements may start with 0x50: they are not the annex
        if j % 2 == 0 && !e.is_empty() {
            e[0] = 0x50;
        }
        st.push(e);
    }
    let last = match kind {
        'a' => {
            let mut e = vec![0x50];
            e.extend(r.bytes(len));
            e
        }
        'x' => {
            let mut e = r.bytes(len.max(1));
            if e[0] == 0x50 {
                e[0] = 0x51;
            }
            e
        }
        _ => vec![],
    };
    st.push(last);
    st
}

pub struct EnvData {
    pub tx: Arc<elements::Transaction>,
    pub utxos: Vec<ElementsUtxo>,
    pub ix: u32,
    pub cmr: Cmr,
    pub cb: ControlBlock,
    pub genesis: elements::BlockHash,
}

fn build_env_data(seed: u64, version: u32, lock_time: u32, ix: u32, leafver: u8, npath: usize,
                  ins: &[InDesc], outs: &[OutDesc]) -> EnvData {
    use simplicity::bitcoin;
    use simplicity::bitcoin::hashes::Hash as _;
    let mut r = Rng::new(seed);
    // fee assets come from a fixed palette (the generator knows them: sha256("verif-palette-<k>"))
    let palette: Vec<[u8; 32]> = (0..4).map(|k| sha(format!("verif-palette-{}", k).as_bytes())).collect();
    let mut input = vec![];
    let mut utxos = vec![];
    for d in ins {
        let issuance = if d.iss == 0 {
            elements::AssetIssuance::default()
        } else {
            let nonce = if d.iss == 1 { [0u8; 32] } else {
                let mut n = r.arr32();
                // sometimes only the last byte is non-zero: still a reissuance
                if r.next() % 3 == 0 { n = [0u8; 32]; n[31] = 1 + (r.next() % 255) as u8; }
                if r.next() % 5 == 0 { n = [0u8; 32]; n[0] = 0x80; }
                n
            };
            elements::AssetIssuance {
                asset_blinding_nonce: elements::AssetBlindingNonce::from_byte_array(nonce),
                asset_entropy: elements::AssetEntropy::from_byte_array(r.arr32()),
                amount: gen_value(&mut r, d.amt),
                inflation_keys: gen_value(&mut r, d.keys),
            }
        };
        let pegin_witness = if d.pegin == 1 || d.pegin == 3 {
            elements::PeginWitness::new(elements::PeginData {
                value: r.next(),
                asset_id: AssetId::from_byte_array(r.arr32()),
                genesis_hash: bitcoin::BlockHash::from_byte_array(r.arr32()),
                claim_script: bitcoin::ScriptBuf::from_bytes(r.bytes(22)),
                transaction: r.bytes(60),
                merkle_proof: r.bytes(80),
                referenced_block: bitcoin::BlockHash::from_byte_array(r.arr32()),
            })
        } else {
            elements::PeginWitness::EMPTY
        };
        let arp = gen_rangeproof(&mut r, d.arp);
        let krp = gen_rangeproof(&mut r, d.krp);
        let stack = gen_witness(&mut r, &d.wit);
        input.push(elements::TxIn {
            previous_output: elements::OutPoint { txid: elements::Txid::from_byte_array(r.arr32()), vout: d.vout },
            is_pegin: d.pegin == 1 || d.pegin == 2,
            script_sig: elements::Script::from(r.bytes(d.ssl)),
            sequence: elements::Sequence(d.seq),
            asset_issuance: issuance,
            witness: elements::TxInWitness {
                amount_rangeproof: arp,
                inflation_keys_rangeproof: krp,
                script_witness: elements::Witness::from(stack),
                pegin_witness,
            },
        });
        utxos.push(ElementsUtxo {
            script_pubkey: elements::Script::from(r.bytes(d.uscript)),
            asset: gen_asset(&mut r, d.uasset),
            value: gen_value(&mut r, d.uvalue),
        });
    }
    let mut output = vec![];
    for d in outs {
        let asset = match d.asset.chars().next().unwrap() {
            'n' => confidential::Asset::Null,
            'e' => {
                let p: usize = d.asset[1..].parse().unwrap_or(0);
                confidential::Asset::Explicit(AssetId::from_byte_array(palette[p % 4]))
            }
            _ => conf_asset(&mut r),
        };
        let value = match d.value.chars().next().unwrap() {
            'n' => confidential::Value::Null,
            'e' => confidential::Value::Explicit(d.value[1..].parse().unwrap()),
            _ => conf_value(&mut r),
        };
        let nonce = match d.nonce {
            'n' => confidential::Nonce::Null,
            'e' => confidential::Nonce::Explicit(r.arr32()),
            _ => conf_nonce(&mut r),
        };
        output.push(elements::TxOut {
            asset,
            value,
            nonce,
            script_pubkey: elements::Script::from(gen_script(&mut r, &d.script)),
            witness: elements::TxOutWitness {
                surjection_proof: gen_surjproof(&mut r, d.surj),
                rangeproof: gen_rangeproof(&mut r, d.range),
            },
        });
    }
    let tx = elements::Transaction {
        version,
        lock_time: elements::LockTime::from_consensus(lock_time),
        input,
        output,
    };
    // control block: leaf version | parity, x-only key, path
    let cb = loop {
        let mut b = vec![(leafver & 0xfe) | (r.next() & 1) as u8];
        b.extend(r.bytes(32));
        b.extend(r.bytes(32 * npath));
        if let Ok(cb) = ControlBlock::from_slice(&b) {
            break cb;
        }
    };
    let cmr = Cmr::from_byte_array(r.arr32());
    let genesis = elements::BlockHash::from_byte_array(r.arr32());
    EnvData { tx: Arc::new(tx), utxos, ix, cmr, cb, genesis }
}

// ---------------------------------------------------------------- abstract transaction (printed for the Coq side)

fn abs_value(v: &confidential::Value, out: &mut Vec<String>) {
    match v {
        confidential::Value::Null => out.extend(["0".to_string(), "0".into()]),
        confidential::Value::Explicit(x) => out.extend(["1".to_string(), x.to_string()]),
        confidential::Value::Confidential(c) => {
            let s = c.serialize();
            out.push(if s[0] & 1 == 1 { "3" } else { "2" }.to_string());
            out.push(big(&s[1..]));
        }
    }
}
fn abs_asset(v: &confidential::Asset, out: &mut Vec<String>) {
    match v {
        confidential::Asset::Null => out.extend(["0".to_string(), "0".into()]),
        confidential::Asset::Explicit(x) => out.extend(["1".to_string(), big(&x.to_byte_array())]),
        confidential::Asset::Confidential(c) => {
            let s = c.serialize();
            out.push(if s[0] & 1 == 1 { "3" } else { "2" }.to_string());
            out.push(big(&s[1..]));
        }
    }
}
fn abs_nonce(v: &confidential::Nonce, out: &mut Vec<String>) {
    match v {
        confidential::Nonce::Null => out.extend(["0".to_string(), "0".into()]),
        confidential::Nonce::Explicit(x) => out.extend(["1".to_string(), big(&x[..])]),
        confidential::Nonce::Confidential(c) => {
            let s = c.serialize();
            out.push(if s[0] & 1 == 1 { "3" } else { "2" }.to_string());
            out.push(big(&s[1..]));
        }
    }
}

#[derive(Clone, Debug, PartialEq)]
enum NdOp {
    Push(u8, [u8; 32]),
    Neg1,
    Reserved,
    Num(u8),
}

/// independent reading of a TX_NULL_DATA script: OP_RETURN followed by data pushes / small numbers only
fn parse_null_data(s: &[u8]) -> Option<Vec<NdOp>> {
    let (first, mut rest) = s.split_first()?;
    if *first != 0x6a {
        return None;
    }
    let mut ops = vec![];
    while let Some((&op, tail)) = rest.split_first() {
        rest = tail;
        let (kind, lenbytes): (u8, usize) = match op {
            0x00..=0x4b => (0, 0),
            0x4c => (1, 1),
            0x4d => (2, 2),
            0x4e => (3, 4),
            0x4f => {
                ops.push(NdOp::Neg1);
                continue;
            }
            0x50 => {
                ops.push(NdOp::Reserved);
                continue;
            }
            0x51..=0x60 => {
                ops.push(NdOp::Num(op - 0x50));
                continue;
            }
            _ => return None,
        };
        let len: usize = if kind == 0 {
            op as usize
        } else {
            if rest.len() < lenbytes {
                return None;
            }
            let mut l = 0usize;
            for (k, b) in rest[..lenbytes].iter().enumerate() {
                l |= (*b as usize) << (8 * k);
            }
            rest = &rest[lenbytes..];
            l
        };
        if rest.len() < len {
            return None;
        }
        ops.push(NdOp::Push(kind, sha(&rest[..len])));
        rest = &rest[len..];
    }
    Some(ops)
}

fn abstract_tx(e: &EnvData) -> Vec<String> {
    let mut o: Vec<String> = vec![];
    let tx = &e.tx;
    o.push(tx.version.to_string());
    o.push(tx.lock_time.to_consensus_u32().to_string());
    o.push(e.ix.to_string());
    o.push(big(&e.genesis.to_byte_array()));
    o.push(big(&e.cmr.to_byte_array()));
    o.push(big(&tx.txid().to_byte_array()));
    o.push(e.cb.leaf_version.as_u8().to_string());
    o.push(big(&e.cb.internal_key.serialize()));
    let path = e.cb.merkle_branch.as_inner();
    o.push(path.len().to_string());
    for h in path {
        o.push(big(&h.to_byte_array()));
    }
    o.push(tx.input.len().to_string());
    for (inp, u) in tx.input.iter().zip(e.utxos.iter()) {
        o.push(big(&inp.previous_output.txid.to_byte_array()));
        o.push(inp.previous_output.vout.to_string());
        o.push(inp.sequence.0.to_string());
        o.push((inp.is_pegin as u8).to_string());
        match inp.witness.pegin_witness.data() {
            Some(d) => {
                use simplicity::bitcoin::hashes::Hash as _;
                o.push("1".into());
                o.push(big(&d.genesis_hash.to_byte_array()));
            }
            None => o.extend(["0".to_string(), "0".into()]),
        }
        o.push(big(&sha(inp.script_sig.as_bytes())));
        let stack = inp.witness.script_witness.to_vec();
        match stack.last() {
            Some(l) if !l.is_empty() => {
                o.push("1".into());
                o.push(l[0].to_string());
                o.push(big(&sha(&l[1..])));
            }
            _ => o.extend(["0".to_string(), "0".into(), "0".into()]),
        }
        let iss = &inp.asset_issuance;
        o.push(big(&iss.asset_blinding_nonce.to_byte_array()));
        o.push(big(&iss.asset_entropy.to_byte_array()));
        abs_value(&iss.amount, &mut o);
        abs_value(&iss.inflation_keys, &mut o);
        o.push(big(&sha(&inp.witness.amount_rangeproof.to_vec())));
        o.push(big(&sha(&inp.witness.inflation_keys_rangeproof.to_vec())));
        // derived identifiers for both readings of the entropy field (the specification selects)
        let e_new = AssetId::generate_asset_entropy(inp.previous_output, iss.asset_entropy.into_contract_hash());
        let e_re = iss.asset_entropy;
        o.push(big(&e_new.to_byte_array()));
        for ent in [e_new, e_re] {
            o.push(big(&AssetId::from_entropy(ent).to_byte_array()));
            o.push(big(&AssetId::reissuance_token_from_entropy(ent, false).to_byte_array()));
            o.push(big(&AssetId::reissuance_token_from_entropy(ent, true).to_byte_array()));
        }
        abs_asset(&u.asset, &mut o);
        abs_value(&u.value, &mut o);
        o.push(big(&sha(u.script_pubkey.as_bytes())));
    }
    o.push(tx.output.len().to_string());
    for out in &tx.output {
        abs_asset(&out.asset, &mut o);
        abs_value(&out.value, &mut o);
        abs_nonce(&out.nonce, &mut o);
        o.push(big(&sha(out.script_pubkey.as_bytes())));
        o.push((out.script_pubkey.is_empty() as u8).to_string());
        o.push(big(&sha(&out.witness.surjection_proof.to_vec())));
        o.push(big(&sha(&out.witness.rangeproof.to_vec())));
        match parse_null_data(out.script_pubkey.as_bytes()) {
            None => o.extend(["0".to_string(), "0".into()]),
            Some(ops) => {
                o.push("1".into());
                o.push(ops.len().to_string());
                for op in ops {
                    match op {
                        NdOp::Push(k, h) => o.extend([k.to_string(), big(&h)]),
                        NdOp::Neg1 => o.extend(["4".to_string(), "0".into()]),
                        NdOp::Reserved => o.extend(["5".to_string(), "0".into()]),
                        NdOp::Num(k) => o.extend([(5 + k as u32).to_string(), "0".into()]),
                    }
                }
            }
        }
    }
    o
}

// ---------------------------------------------------------------- oracle: direct reading of the elements structures

#[derive(Clone, Debug)]
pub enum OV {
    U,
    L(Box<OV>),
    R(Box<OV>),
    P(Box<OV>, Box<OV>),
    W(Vec<bool>),
}

impl OV {
    fn bits(&self, out: &mut Vec<bool>) {
        match self {
            OV::U => {}
            OV::L(x) => {
                out.push(false);
                x.bits(out)
            }
            OV::R(x) => {
                out.push(true);
                x.bits(out)
            }
            OV::P(a, b) => {
                a.bits(out);
                b.bits(out)
            }
            OV::W(b) => out.extend_from_slice(b),
        }
    }
}

fn wbytes(b: &[u8]) -> OV {
    OV::W(b.iter().flat_map(|x| (0..8).map(move |k| (x >> (7 - k)) & 1 == 1)).collect())
}
fn w32(x: u32) -> OV {
    wbytes(&x.to_be_bytes())
}
fn w64(x: u64) -> OV {
    wbytes(&x.to_be_bytes())
}
fn w16(x: u16) -> OV {
    wbytes(&x.to_be_bytes())
}
fn bit(b: bool) -> OV {
    OV::W(vec![b])
}
fn none() -> OV {
    OV::L(Box::new(OV::U))
}
fn some(x: OV) -> OV {
    OV::R(Box::new(x))
}
fn pair(a: OV, b: OV) -> OV {
    OV::P(Box::new(a), Box::new(b))
}
fn opt(x: Option<OV>) -> OV {
    match x {
        Some(v) => some(v),
        None => none(),
    }
}

pub enum Oracle {
    Val(OV),
    Fail,
    NoOracle,
}

fn o_asset(a: &confidential::Asset) -> OV {
    match a {
        // the C representation of an absent asset is the all-zero even-parity commitment
        confidential::Asset::Null => OV::L(Box::new(pair(bit(false), wbytes(&[0u8; 32])))),
        confidential::Asset::Explicit(id) => OV::R(Box::new(wbytes(&id.to_byte_array()))),
        confidential::Asset::Confidential(g) => {
            let s = g.serialize();
            OV::L(Box::new(pair(bit(s[0] == 0x0b), wbytes(&s[1..]))))
        }
    }
}
fn o_amount(a: &confidential::Value) -> OV {
    match a {
        confidential::Value::Null => OV::R(Box::new(w64(0))),
        confidential::Value::Explicit(v) => OV::R(Box::new(w64(*v))),
        confidential::Value::Confidential(c) => {
            let s = c.serialize();
            OV::L(Box::new(pair(bit(s[0] == 0x09), wbytes(&s[1..]))))
        }
    }
}
fn o_nonce(a: &confidential::Nonce) -> OV {
    match a {
        confidential::Nonce::Null => none(),
        confidential::Nonce::Explicit(b) => some(OV::R(Box::new(wbytes(&b[..])))),
        confidential::Nonce::Confidential(pk) => {
            let s = pk.serialize();
            some(OV::L(Box::new(pair(bit(s[0] == 0x03), wbytes(&s[1..])))))
        }
    }
}

fn annex_of(inp: &elements::TxIn) -> Option<Vec<u8>> {
    let st = inp.witness.script_witness.to_vec();
    let last = st.last()?;
    if last.first() == Some(&0x50) {
        Some(last[1..].to_vec())
    } else {
        None
    }
}

struct Iss {
    new: bool,
    entropy: [u8; 32],
    asset: [u8; 32],
    token: [u8; 32],
}
fn issuance_of(inp: &elements::TxIn) -> Option<Iss> {
    if !inp.has_issuance() {
        return None;
    }
    let i = &inp.asset_issuance;
    let new = i.asset_blinding_nonce.is_null();
    let entropy = if new {
        AssetId::generate_asset_entropy(inp.previous_output, i.asset_entropy.into_contract_hash())
    } else {
        i.asset_entropy
    };
    let (asset, token) = inp.issuance_ids();
    Some(Iss { new, entropy: entropy.to_byte_array(), asset: asset.to_byte_array(), token: token.to_byte_array() })
}
fn iss_asset_proof(inp: &elements::TxIn) -> [u8; 32] {
    if inp.has_issuance() && inp.asset_issuance.amount.is_confidential() {
        sha(&inp.witness.amount_rangeproof.to_vec())
    } else {
        sha(&[])
    }
}
fn iss_token_proof(inp: &elements::TxIn) -> [u8; 32] {
    if inp.has_issuance() && inp.asset_issuance.asset_blinding_nonce.is_null() && inp.asset_issuance.inflation_keys.is_confidential() {
        sha(&inp.witness.inflation_keys_rangeproof.to_vec())
    } else {
        sha(&[])
    }
}
fn iss_token_amount(inp: &elements::TxIn) -> OV {
    if inp.asset_issuance.asset_blinding_nonce.is_null() {
        o_amount(&inp.asset_issuance.inflation_keys)
    } else {
        OV::R(Box::new(w64(0)))
    }
}
fn out_surj(o: &elements::TxOut) -> [u8; 32] {
    if o.asset.is_confidential() { sha(&o.witness.surjection_proof.to_vec()) } else { sha(&[]) }
}
fn out_range(o: &elements::TxOut) -> [u8; 32] {
    if o.value.is_confidential() { sha(&o.witness.rangeproof.to_vec()) } else { sha(&[]) }
}

// ---- hashing of the transaction as the Simplicity signature hash commits to it (own implementation)

struct Eng(sha256::HashEngine);
impl Eng {
    fn new() -> Self {
        Eng(sha256::HashEngine::default())
    }
    fn b(&mut self, x: &[u8]) -> &mut Self {
        self.0.input(x);
        self
    }
    fn u8(&mut self, x: u8) -> &mut Self {
        self.b(&[x])
    }
    fn u32(&mut self, x: u32) -> &mut Self {
        self.b(&x.to_be_bytes())
    }
    fn asset(&mut self, a: &confidential::Asset) -> &mut Self {
        match a {
            confidential::Asset::Null => self.u8(0),
            confidential::Asset::Explicit(id) => self.u8(1).b(&id.to_byte_array()),
            confidential::Asset::Confidential(g) => self.b(&g.serialize()),
        }
    }
    fn amount(&mut self, a: &confidential::Value) -> &mut Self {
        match a {
            confidential::Value::Null => self.u8(1).b(&0u64.to_be_bytes()),
            confidential::Value::Explicit(v) => self.u8(1).b(&v.to_be_bytes()),
            confidential::Value::Confidential(c) => self.b(&c.serialize()),
        }
    }
    fn nonce(&mut self, a: &confidential::Nonce) -> &mut Self {
        match a {
            confidential::Nonce::Null => self.u8(0),
            confidential::Nonce::Explicit(x) => self.u8(1).b(&x[..]),
            confidential::Nonce::Confidential(pk) => self.b(&pk.serialize()),
        }
    }
    fn fin(&mut self) -> [u8; 32] {
        self.0.clone().finalize().to_byte_array()
    }
}

pub struct Hashes {
    h: std::collections::HashMap<&'static str, [u8; 32]>,
    input_hash: Vec<[u8; 32]>,
    input_utxo_hash: Vec<[u8; 32]>,
    issuance_hash: Vec<[u8; 32]>,
    output_hash: Vec<[u8; 32]>,
}

fn outpoint_into(e: &mut Eng, inp: &elements::TxIn) {
    // pegin presence as the transaction states it: flag and data must both be there
    match (inp.is_pegin, inp.witness.pegin_witness.data()) {
        (true, Some(d)) => {
            use simplicity::bitcoin::hashes::Hash as _;
            e.u8(1).b(&d.genesis_hash.to_byte_array());
        }
        _ => {
            e.u8(0);
        }
    }
    e.b(&inp.previous_output.txid.to_byte_array()).u32(inp.previous_output.vout);
}
fn annex_into(e: &mut Eng, inp: &elements::TxIn) {
    match annex_of(inp) {
        Some(a) => {
            e.u8(1).b(&sha(&a));
        }
        None => {
            e.u8(0);
        }
    }
}
fn issuance_amounts_into(ea: &mut Eng, et: &mut Eng, inp: &elements::TxIn) {
    match issuance_of(inp) {
        None => {
            ea.u8(0).u8(0);
            et.u8(0).u8(0);
        }
        Some(i) => {
            ea.u8(1).b(&i.asset);
            et.u8(1).b(&i.token);
            ea.amount(&inp.asset_issuance.amount);
            if i.new {
                et.amount(&inp.asset_issuance.inflation_keys);
            } else {
                et.u8(1).b(&0u64.to_be_bytes());
            }
        }
    }
}
fn blinding_entropy_into(e: &mut Eng, inp: &elements::TxIn) {
    match issuance_of(inp) {
        None => {
            e.u8(0);
        }
        Some(i) => {
            e.u8(1);
            if i.new {
                e.b(&[0u8; 32]).b(&inp.asset_issuance.asset_entropy.to_byte_array());
            } else {
                e.b(&inp.asset_issuance.asset_blinding_nonce.to_byte_array()).b(&i.entropy);
            }
        }
    }
}

pub fn hashes_of(e: &EnvData) -> Hashes {
    let tx = &e.tx;
    let mut h = std::collections::HashMap::new();
    let (mut outpoints, mut amounts, mut scripts, mut seqs, mut annexes, mut sigs) =
        (Eng::new(), Eng::new(), Eng::new(), Eng::new(), Eng::new(), Eng::new());
    let (mut iaa, mut ita, mut irp, mut ibe) = (Eng::new(), Eng::new(), Eng::new(), Eng::new());
    let mut input_hash = vec![];
    let mut input_utxo_hash = vec![];
    let mut issuance_hash = vec![];
    for (inp, u) in tx.input.iter().zip(e.utxos.iter()) {
        outpoint_into(&mut outpoints, inp);
        amounts.asset(&u.asset).amount(&u.value);
        scripts.b(&sha(u.script_pubkey.as_bytes()));
        seqs.u32(inp.sequence.0);
        annex_into(&mut annexes, inp);
        sigs.b(&sha(inp.script_sig.as_bytes()));
        issuance_amounts_into(&mut iaa, &mut ita, inp);
        blinding_entropy_into(&mut ibe, inp);
        irp.b(&iss_asset_proof(inp)).b(&iss_token_proof(inp));
        // per input digests
        let mut ih = Eng::new();
        outpoint_into(&mut ih, inp);
        ih.u32(inp.sequence.0);
        annex_into(&mut ih, inp);
        input_hash.push(ih.fin());
        let mut uh = Eng::new();
        uh.asset(&u.asset).amount(&u.value).b(&sha(u.script_pubkey.as_bytes()));
        input_utxo_hash.push(uh.fin());
        // issuance_hash: asset id+amount, token id+amount, both range proof hashes, blinding/entropy
        let mut sh = Eng::new();
        match issuance_of(inp) {
            None => {
                sh.u8(0).u8(0).u8(0).u8(0);
            }
            Some(i) => {
                sh.u8(1).b(&i.asset).amount(&inp.asset_issuance.amount).u8(1).b(&i.token);
                if i.new {
                    sh.amount(&inp.asset_issuance.inflation_keys);
                } else {
                    sh.u8(1).b(&0u64.to_be_bytes());
                }
            }
        }
        sh.b(&iss_asset_proof(inp)).b(&iss_token_proof(inp));
        blinding_entropy_into(&mut sh, inp);
        issuance_hash.push(sh.fin());
    }
    h.insert("input_outpoints_hash", outpoints.fin());
    h.insert("input_amounts_hash", amounts.fin());
    h.insert("input_scripts_hash", scripts.fin());
    h.insert("input_sequences_hash", seqs.fin());
    h.insert("input_annexes_hash", annexes.fin());
    h.insert("input_script_sigs_hash", sigs.fin());
    let utxos_hash = Eng::new().b(&h["input_amounts_hash"]).b(&h["input_scripts_hash"]).fin();
    h.insert("input_utxos_hash", utxos_hash);
    let inputs_hash = Eng::new().b(&h["input_outpoints_hash"]).b(&h["input_sequences_hash"]).b(&h["input_annexes_hash"]).fin();
    h.insert("inputs_hash", inputs_hash);
    h.insert("issuance_asset_amounts_hash", iaa.fin());
    h.insert("issuance_token_amounts_hash", ita.fin());
    h.insert("issuance_range_proofs_hash", irp.fin());
    h.insert("issuance_blinding_entropy_hash", ibe.fin());
    let issuances_hash = Eng::new()
        .b(&h["issuance_asset_amounts_hash"]).b(&h["issuance_token_amounts_hash"])
        .b(&h["issuance_range_proofs_hash"]).b(&h["issuance_blinding_entropy_hash"]).fin();
    h.insert("issuances_hash", issuances_hash);

    let (mut oaa, mut on, mut os, mut orp, mut osp) = (Eng::new(), Eng::new(), Eng::new(), Eng::new(), Eng::new());
    let mut output_hash = vec![];
    for o in &tx.output {
        oaa.asset(&o.asset).amount(&o.value);
        on.nonce(&o.nonce);
        os.b(&sha(o.script_pubkey.as_bytes()));
        orp.b(&out_range(o));
        osp.b(&out_surj(o));
        let mut oh = Eng::new();
        oh.asset(&o.asset).amount(&o.value).nonce(&o.nonce).b(&sha(o.script_pubkey.as_bytes())).b(&out_range(o));
        output_hash.push(oh.fin());
    }
    h.insert("output_amounts_hash", oaa.fin());
    h.insert("output_nonces_hash", on.fin());
    h.insert("output_scripts_hash", os.fin());
    h.insert("output_range_proofs_hash", orp.fin());
    h.insert("output_surjection_proofs_hash", osp.fin());
    let outputs_hash = Eng::new()
        .b(&h["output_amounts_hash"]).b(&h["output_nonces_hash"]).b(&h["output_scripts_hash"]).b(&h["output_range_proofs_hash"]).fin();
    h.insert("outputs_hash", outputs_hash);
    let tx_hash = Eng::new()
        .u32(tx.version).u32(tx.lock_time.to_consensus_u32())
        .b(&h["inputs_hash"]).b(&h["outputs_hash"]).b(&h["issuances_hash"])
        .b(&h["output_surjection_proofs_hash"]).b(&h["input_utxos_hash"]).fin();
    h.insert("tx_hash", tx_hash);

    // taproot environment
    let leaf = elements::taproot::TapLeafHash::from_script(
        &elements::Script::from(e.cmr.to_byte_array().to_vec()), e.cb.leaf_version);
    h.insert("tapleaf_hash", leaf.to_byte_array());
    let mut tp = Eng::new();
    for n in e.cb.merkle_branch.as_inner() {
        tp.b(&n.to_byte_array());
    }
    h.insert("tappath_hash", tp.fin());
    let tap_env = Eng::new().b(&h["tapleaf_hash"]).b(&h["tappath_hash"]).b(&e.cb.internal_key.serialize()).fin();
    h.insert("tap_env_hash", tap_env);
    let g = e.genesis.to_byte_array();
    let sig_all = Eng::new().b(&g).b(&g).b(&h["tx_hash"]).b(&h["tap_env_hash"]).u32(e.ix).fin();
    h.insert("sig_all_hash", sig_all);
    Hashes { h, input_hash, input_utxo_hash, issuance_hash, output_hash }
}

fn lock_values(tx: &elements::Transaction) -> (bool, u32, u32, u16, u16) {
    let is_final = tx.input.iter().all(|i| i.sequence == elements::Sequence::MAX);
    let lt = tx.lock_time.to_consensus_u32();
    let (height, time) = if is_final {
        (0, 0)
    } else {
        match tx.lock_time {
            elements::LockTime::Blocks(_) => (lt, 0),
            elements::LockTime::Seconds(_) => (0, lt),
        }
    };
    let mut dist = 0u16;
    let mut dur = 0u16;
    if tx.version >= 2 {
        for i in &tx.input {
            let s = i.sequence.0;
            if s & 0x8000_0000 == 0 {
                let v = (s & 0xffff) as u16;
                if s & (1 << 22) != 0 {
                    dur = dur.max(v);
                } else {
                    dist = dist.max(v);
                }
            }
        }
    }
    (is_final, height, time, dist, dur)
}

/// what the supplied data says the jet must return
pub fn oracle(e: &EnvData, hs: &Hashes, jet: &str, arg: &[u8]) -> Oracle {
    use Oracle::*;
    let tx = &e.tx;
    let nin = tx.input.len();
    let nout = tx.output.len();
    let arg_u32 = || -> usize {
        let mut a = [0u8; 4];
        a.copy_from_slice(&arg[..4]);
        u32::from_be_bytes(a) as usize
    };
    // per-input readings (shared by input_X(i) and current_X)
    let per_input = |name: &str, i: usize| -> Option<Option<OV>> {
        // outer None: not a per-input jet; inner None: oracle undefined
        let inp = &tx.input[i];
        let u = &e.utxos[i];
        let iss = issuance_of(inp);
        Some(Some(match name {
            "prev_outpoint" => pair(wbytes(&inp.previous_output.txid.to_byte_array()), w32(inp.previous_output.vout)),
            "sequence" => w32(inp.sequence.0),
            "pegin" => match (inp.is_pegin, inp.witness.pegin_witness.data()) {
                (true, Some(d)) => {
                    use simplicity::bitcoin::hashes::Hash as _;
                    some(wbytes(&d.genesis_hash.to_byte_array()))
                }
                _ => none(),
            },
            "asset" => o_asset(&u.asset),
            "amount" => pair(o_asset(&u.asset), o_amount(&u.value)),
            "script_hash" => wbytes(&sha(u.script_pubkey.as_bytes())),
            "script_sig_hash" => wbytes(&sha(inp.script_sig.as_bytes())),
            "annex_hash" => opt(annex_of(inp).map(|a| wbytes(&sha(&a)))),
            "reissuance_blinding" => opt(iss.as_ref().filter(|i| !i.new).map(|_| wbytes(&inp.asset_issuance.asset_blinding_nonce.to_byte_array()))),
            "new_issuance_contract" => opt(iss.as_ref().filter(|i| i.new).map(|_| wbytes(&inp.asset_issuance.asset_entropy.to_byte_array()))),
            "reissuance_entropy" => opt(iss.as_ref().filter(|i| !i.new).map(|_| wbytes(&inp.asset_issuance.asset_entropy.to_byte_array()))),
            "issuance_asset_amount" => opt(iss.as_ref().map(|_| o_amount(&inp.asset_issuance.amount))),
            "issuance_token_amount" => opt(iss.as_ref().map(|_| iss_token_amount(inp))),
            "issuance_asset_proof" => wbytes(&iss_asset_proof(inp)),
            "issuance_token_proof" => wbytes(&iss_token_proof(inp)),
            _ => return None,
        }))
    };
    let indexed_in = |f: &dyn Fn(usize) -> Option<OV>| -> Oracle {
        let i = arg_u32();
        if i < nin {
            match f(i) {
                Some(v) => Val(some(v)),
                None => NoOracle,
            }
        } else {
            Val(none())
        }
    };
    let indexed_out = |f: &dyn Fn(&elements::TxOut, usize) -> OV| -> Oracle {
        let i = arg_u32();
        if i < nout {
            Val(some(f(&tx.output[i], i)))
        } else {
            Val(none())
        }
    };
    let (is_final, lheight, ltime, ldist, ldur) = lock_values(tx);
    if let Some(v) = hs.h.get(jet) {
        return Val(wbytes(v));
    }
    if let Some(rest) = jet.strip_prefix("current_") {
        if rest == "index" {
            return Val(w32(e.ix));
        }
        if (e.ix as usize) >= nin {
            return Fail;
        }
        return match per_input(rest, e.ix as usize) {
            Some(Some(v)) => Val(v),
            Some(None) => NoOracle,
            None => NoOracle,
        };
    }
    const PER_INPUT: &[&str] = &[
        "prev_outpoint", "sequence", "pegin", "asset", "amount", "script_hash", "script_sig_hash", "annex_hash",
        "reissuance_blinding", "new_issuance_contract", "reissuance_entropy", "issuance_asset_amount",
        "issuance_token_amount", "issuance_asset_proof", "issuance_token_proof",
    ];
    if let Some(rest) = jet.strip_prefix("input_") {
        match rest {
            "hash" => return indexed_in(&|i| Some(wbytes(&hs.input_hash[i]))),
            "utxo_hash" => return indexed_in(&|i| Some(wbytes(&hs.input_utxo_hash[i]))),
            _ => {}
        }
        if PER_INPUT.contains(&rest) {
            return indexed_in(&|i| per_input(rest, i).flatten());
        }
        return NoOracle;
    }
    match jet {
        "version" => Val(w32(tx.version)),
        "lock_time" => Val(w32(tx.lock_time.to_consensus_u32())),
        "num_inputs" => Val(w32(nin as u32)),
        "num_outputs" => Val(w32(nout as u32)),
        "genesis_block_hash" => Val(wbytes(&e.genesis.to_byte_array())),
        "script_cmr" => Val(wbytes(&e.cmr.to_byte_array())),
        "internal_key" => Val(wbytes(&e.cb.internal_key.serialize())),
        "tapleaf_version" => Val(wbytes(&[e.cb.leaf_version.as_u8()])),
        "transaction_id" => Val(wbytes(&tx.txid().to_byte_array())),
        "tappath" => {
            let i = arg[0] as usize;
            let p = e.cb.merkle_branch.as_inner();
            Val(opt(p.get(i).map(|h| wbytes(&h.to_byte_array()))))
        }
        "tx_is_final" => Val(bit(is_final)),
        "tx_lock_height" => Val(w32(lheight)),
        "tx_lock_time" => Val(w32(ltime)),
        "broken_do_not_use_tx_lock_distance" => Val(w16(ldist)),
        "broken_do_not_use_tx_lock_duration" => Val(w16(ldur)),
        "check_lock_height" => if arg_u32() as u32 <= lheight { Val(OV::U) } else { Fail },
        "check_lock_time" => if arg_u32() as u32 <= ltime { Val(OV::U) } else { Fail },
        "broken_do_not_use_check_lock_distance" => {
            if u16::from_be_bytes([arg[0], arg[1]]) <= ldist { Val(OV::U) } else { Fail }
        }
        "broken_do_not_use_check_lock_duration" => {
            if u16::from_be_bytes([arg[0], arg[1]]) <= ldur { Val(OV::U) } else { Fail }
        }
        "reissuance_blinding" | "new_issuance_contract" | "reissuance_entropy" | "issuance_asset_amount"
        | "issuance_token_amount" | "issuance_asset_proof" | "issuance_token_proof" => {
            indexed_in(&|i| per_input(jet, i).flatten())
        }
        "issuance" => indexed_in(&|i| Some(opt(issuance_of(&tx.input[i]).map(|s| bit(!s.new))))),
        "issuance_entropy" => indexed_in(&|i| Some(opt(issuance_of(&tx.input[i]).map(|s| wbytes(&s.entropy))))),
        "issuance_asset" => indexed_in(&|i| Some(opt(issuance_of(&tx.input[i]).map(|s| wbytes(&s.asset))))),
        "issuance_token" => indexed_in(&|i| Some(opt(issuance_of(&tx.input[i]).map(|s| wbytes(&s.token))))),
        "issuance_hash" => indexed_in(&|i| Some(wbytes(&hs.issuance_hash[i]))),
        "output_asset" => indexed_out(&|o, _| o_asset(&o.asset)),
        "output_amount" => indexed_out(&|o, _| pair(o_asset(&o.asset), o_amount(&o.value))),
        "output_nonce" => indexed_out(&|o, _| o_nonce(&o.nonce)),
        "output_script_hash" => indexed_out(&|o, _| wbytes(&sha(o.script_pubkey.as_bytes()))),
        "output_surjection_proof" => indexed_out(&|o, _| wbytes(&out_surj(o))),
        "output_range_proof" => indexed_out(&|o, _| wbytes(&out_range(o))),
        // an absent (Null) amount reads as explicit zero everywhere in the jets (see o_amount), also here
        "output_is_fee" => indexed_out(&|o, _| bit(o.script_pubkey.is_empty() && o.asset.is_explicit() && !o.value.is_confidential())),
        "output_hash" => indexed_out(&|_, i| wbytes(&hs.output_hash[i])),
        "output_null_datum" => {
            let i = arg_u32();
            let mut jb = [0u8; 4];
            jb.copy_from_slice(&arg[4..8]);
            let j = u32::from_be_bytes(jb) as usize;
            let nd = if i < nout { parse_null_data(tx.output[i].script_pubkey.as_bytes()) } else { None };
            match nd {
                None => Val(none()),
                Some(ops) => Val(some(opt(ops.get(j).map(|op| match op {
                    NdOp::Push(k, h) => OV::L(Box::new(pair(OV::W(vec![k & 2 != 0, k & 1 != 0]), wbytes(h)))),
                    NdOp::Neg1 => OV::R(Box::new(OV::L(Box::new(bit(false))))),
                    NdOp::Reserved => OV::R(Box::new(OV::L(Box::new(bit(true))))),
                    NdOp::Num(k) => {
                        let v = k - 1;
                        OV::R(Box::new(OV::R(Box::new(OV::W((0..4).map(|b| (v >> (3 - b)) & 1 == 1).collect())))))
                    }
                })))),
            }
        }
        "total_fee" => {
            let mut sum = 0u64;
            for o in &tx.output {
                if o.is_fee() && o.asset.explicit().map(|a| a.to_byte_array().to_vec()) == Some(arg.to_vec()) {
                    sum = sum.wrapping_add(o.value.explicit().unwrap());
                }
            }
            Val(w64(sum))
        }
        _ => NoOracle,
    }
}

// ---------------------------------------------------------------- running one-jet programs

/// 0 value / 1 jet failed / 2 other execution error / 3 cannot build
pub fn run_jet(env: &ElementsEnv<Arc<elements::Transaction>>, jet: &str, arg: &[u8]) -> (u32, Vec<bool>) {
    let j = match prog::jet_by_name('e', jet) {
        Some(j) => j,
        None => return (3, vec![]),
    };
    let w = j.source_ty().to_bit_width();
    let pdl = if w == 0 {
        format!("jet.e.{}", jet)
    } else {
        let n = w.trailing_zeros();
        if w.count_ones() != 1 || arg.len() * 8 != w {
            return (3, vec![]);
        }
        let bits: String = arg.iter().flat_map(|x| (0..8).map(move |k| if (x >> (7 - k)) & 1 == 1 { '1' } else { '0' })).collect();
        format!("word.{}.{},jet.e.{},comp.0.1", n, bits, jet)
    };
    let specs = prog::parse_prog(&pdl);
    let red = match prog::redeem(&specs, false) {
        Ok(r) => r,
        Err(_) => return (3, vec![]),
    };
    let mut mac = match BitMachine::for_program(&red) {
        Ok(m) => m,
        Err(_) => return (3, vec![]),
    };
    match mac.exec(&red, env) {
        Ok(v) => (0, v.iter_compact().collect()),
        Err(simplicity::bit_machine::ExecutionError::JetFailed(_)) => (1, vec![]),
        Err(_) => (2, vec![]),
    }
}

fn make_env(e: &EnvData) -> ElementsEnv<Arc<elements::Transaction>> {
    ElementsEnv::new(Arc::clone(&e.tx), e.utxos.clone(), e.ix, e.cmr, e.cb.clone(), None, e.genesis)
}

pub fn run(t: &[&str]) -> String {
    match guarded(|| run_inner(t)) {
        Some(v) => v.join(" "),
        None => "9".to_string(),
    }
}

fn run_inner(t: &[&str]) -> Vec<String> {
    match t[0] {
        "env" => {
            let seed: u64 = t[1].parse().unwrap();
            let version: u32 = t[2].parse().unwrap();
            let lock_time: u32 = t[3].parse().unwrap();
            let ix: u32 = t[4].parse().unwrap();
            let leafver: u8 = t[5].parse().unwrap();
            let npath: usize = t[6].parse().unwrap();
            let mut pos = 7;
            assert_eq!(t[pos], "IN");
            pos += 1;
            let mut ins = vec![];
            while t[pos] != "OUT" {
                ins.push(parse_in(t[pos]));
                pos += 1;
            }
            pos += 1;
            let mut outs = vec![];
            while t[pos] != "Q" {
                outs.push(parse_out(t[pos]));
                pos += 1;
            }
            pos += 1;
            let data = build_env_data(seed, version, lock_time, ix, leafver, npath, &ins, &outs);
            let hs = hashes_of(&data);
            let env = make_env(&data);
            let mut out = vec!["0".to_string()];
            out.extend(abstract_tx(&data));
            out.push("77777".into());
            for q in &t[pos..] {
                let (jet, a) = q.split_once(':').unwrap();
                let arg = unhex(a);
                let (st, bits) = run_jet(&env, jet, &arg);
                out.push(st.to_string());
                chunks32(&bits, &mut out);
                match oracle(&data, &hs, jet, &arg) {
                    Oracle::Val(v) => {
                        let mut b = vec![];
                        v.bits(&mut b);
                        // the oracle value must be of the jet's target type
                        let tt = prog::jet_by_name('e', jet).unwrap().target_ty().to_final();
                        let typed = prog::value_of_compact(&b, &tt).is_some();
                        out.push(if typed { "0" } else { "4" }.to_string());
                        chunks32(&b, &mut out);
                    }
                    Oracle::Fail => out.extend(["1".to_string(), "0".into()]),
                    Oracle::NoOracle => out.extend(["3".to_string(), "0".into()]),
                }
            }
            out.push("88888".into());
            // the four signature hashes: environment accessor, jet in a program, own computation, SighashCache
            out.push(big(&env.c_tx_env().sighash_all().to_byte_array()));
            let (st, bits) = run_jet(&env, "sig_all_hash", &[]);
            out.push(if st == 0 { big_bits(&bits) } else { format!("{}", 1000 + st) });
            out.push(big(&hs.h["sig_all_hash"]));
            let prevouts: Vec<elements::TxOut> = data.utxos.iter().map(|u| elements::TxOut {
                asset: u.asset,
                value: u.value,
                nonce: confidential::Nonce::Null,
                script_pubkey: u.script_pubkey.clone(),
                witness: elements::TxOutWitness::default(),
            }).collect();
            let mut cache = simplicity::sighash::SighashCache::new(Arc::clone(&data.tx));
            let r = cache.simplicity_spend_signature_hash(
                data.ix as usize,
                &elements::sighash::Prevouts::All(&prevouts),
                data.cmr,
                data.cb.clone(),
                data.genesis,
            );
            out.push(match r {
                Ok(h) => big(&h.to_byte_array()),
                Err(_) => "1".into(),
            });
            drop(env);
            out
        }
        // jets <name>*: 7 <len> <name bytes> <source type> 6 <target type> for every name (99 = unknown jet)
        "jets" => {
            let mut out: Vec<u128> = vec![];
            for name in &t[1..] {
                match prog::jet_by_name('e', name) {
                    None => out.push(99),
                    Some(j) => {
                        out.push(7);
                        out.push(name.len() as u128);
                        out.extend(name.bytes().map(|b| b as u128));
                        prog::ty_nums(&j.source_ty().to_final(), &mut out);
                        out.push(6);
                        prog::ty_nums(&j.target_ty().to_final(), &mut out);
                    }
                }
            }
            out.iter().map(|x| x.to_string()).collect()
        }
        _ => panic!("kind"),
    }
}
