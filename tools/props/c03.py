"""C03 - Validity, Merkle roots and cost agree with libsimplicity  (level: other).

Differential check Rust (RedeemNode::decode + cmr/amr/ihr/bounds().cost) vs the vendored C
(decodeMallocDag, mallocTypeInference, fillWitnessData, verifyNoDuplicateIdentityHashes,
computeAnnotatedMerkleRoot, analyseBounds -- called stage by stage, and once more through
simplicity_sys::tests::run_program(.., TestUpTo::CheckOneOne)) vs the Coq reference
Cdiff/Reference.v (decode + structural pass + inference + witness fill + CMR/AMR/IHR over SHA-256 + cost,
assembled from the Codec / Infer / Merkle / CostRef families) evaluated with vm_compute on a stated sample
of the same byte pairs, and, for the cost clause, Cdiff/CostRef.v on the typed node table of every
accepted program."""
import os

import proggen as pg
import vplib
from vplib import Case
from props import cdiff_common as cc

PROP = "C03"
LEVEL = "other"
IMPORTS = ["Cdiff.Run", "Ty.Ty", "Core.Prog"]
REF_IMPORTS = ["Cdiff.Run3"]
# primitives of Coq's Uint63 library that the SHA-256 instance (Merkle/Sha256.v) computes with; Print Assumptions
# lists them for the theorems that mention the concrete roots (as for C09)
UINT63_PRIMS = ["Uint63.int", "Uint63.add", "Uint63.sub", "Uint63.land", "Uint63.lor", "Uint63.lxor", "Uint63.lsl", "Uint63.lsr",
                "Uint63.eqb", "PrimInt63.int", "PrimInt63.add", "PrimInt63.sub", "PrimInt63.land", "PrimInt63.lor",
                "PrimInt63.lxor", "PrimInt63.lsl", "PrimInt63.lsr", "PrimInt63.eqb", "int", "add", "sub", "land", "lor", "lxor",
                "lsl", "lsr", "eqb"]
try:
    # coqchk (thorough tier) lists every primitive and axiom of Coq.Numbers.Cyclic.Int63 in the closure of the checked library,
    # used or not, under fully qualified names (list kept by the C09 check); Print Assumptions prints the short names above
    from props.c09 import _INT63 as _C09_INT63
    UINT63_PRIMS = UINT63_PRIMS + ["Coq.Numbers.Cyclic.Int63." + x for x in _C09_INT63.split()]
except ImportError:  # pragma: no cover
    pass
CELLS_MAX = cc.LIMITS["CELLS_MAX"]

STATS = {}


def bump(k, n=1):
    STATS[k] = STATS.get(k, 0) + n


# ------------------------------------------------------------------ generators
def mutate(rng, prog, wit, others):
    """one mutation of a valid (program, witness) byte pair"""
    prog = list(prog)
    wit = list(wit)
    kind = rng.below(12)
    tgt = prog if (not wit or rng.below(4) != 0) else wit
    name = "p" if tgt is prog else "w"
    if kind < 4 and tgt:
        for _ in range(rng.choice([1, 1, 1, 2, 3])):
            j = rng.below(len(tgt) * 8)
            tgt[j // 8] ^= 0x80 >> (j % 8)
        return prog, wit, "flip-" + name
    if kind < 6 and tgt:
        del tgt[rng.below(len(tgt)):]
        if tgt and rng.below(2):
            tgt[-1] &= (0xFF << rng.below(8)) & 0xFF
        return prog, wit, "truncate-" + name
    if kind < 8:
        ext = rng.bytes(rng.range(1, 3)) if rng.below(2) else [0] * rng.range(1, 2)
        tgt.extend(ext)
        return prog, wit, "extend-" + name
    if kind < 10 and tgt:
        a = rng.below(len(tgt))
        b = min(len(tgt), a + rng.range(1, 4))
        if others and rng.below(2):
            src = rng.choice(others)
            src = src[0] if src[0] else [0]
            s0 = rng.below(len(src))
            tgt[a:b] = src[s0:s0 + (b - a)]
        else:
            tgt[a:b] = rng.bytes(b - a)
        return prog, wit, "splice-" + name
    if kind == 10 and tgt:
        # set trailing padding bits / last byte
        tgt[-1] |= 1 << rng.below(3)
        return prog, wit, "padding-" + name
    # swap: witness of another program
    if others:
        o = rng.choice(others)
        return prog, list(o[1]), "other-witness"
    return prog, wit + [0], "extend-w"


def natural_bits(n):
    if n == 1:
        return [0]
    ln = n.bit_length() - 1
    return [1] + natural_bits(ln) + [(n >> i) & 1 for i in range(ln - 1, -1, -1)]


def pack(bits):
    out = []
    for i in range(0, len(bits), 8):
        ch = bits[i:i + 8] + [0] * (8 - len(bits[i:i + 8]))
        v = 0
        for b in ch:
            v = 2 * v + b
        out.append(v)
    return out


def random_strings(rng, n):
    """random byte strings, most of them with a plausible length prefix so that decoding gets somewhere"""
    out = []
    for _ in range(n):
        r = rng.below(10)
        if r < 3:
            prog = rng.bytes(rng.below(12))
        else:
            ln = rng.range(1, 6)
            bits = natural_bits(ln)
            # node codes: mostly non-jet combinators with small back references
            for i in range(ln):
                k = rng.below(12)
                if k < 3:
                    bits += [0, 1, 0, 0, rng.below(2), rng.below(2)]  # iden / unit / fail.. / disconnect1
                    if bits[-2:] == [1, 0]:
                        bits += rng.bits(rng.choice([0, 512]))
                    if bits[-2:] == [1, 1]:
                        bits += natural_bits(rng.range(1, max(1, i)))
                elif k < 6:
                    bits += [0, 0, 1] + rng.bits(2) + natural_bits(rng.range(1, max(1, i)))
                elif k < 9:
                    bits += [0, 0, 0] + rng.bits(2) + natural_bits(rng.range(1, max(1, i))) + natural_bits(rng.range(1, max(1, i)))
                elif k == 9:
                    bits += [0, 1, 1, 1]  # witness
                elif k == 10:
                    d = rng.range(1, 4)
                    bits += [1, 0] + natural_bits(d) + rng.bits(2 ** (d - 1))
                else:
                    bits += [1, 1] + rng.bits(rng.range(3, 12))
            if rng.below(3) == 0:
                bits += rng.bits(rng.below(9))
            prog = pack(bits)
        wit = rng.bytes(rng.choice([0, 0, 0, 1, 2, 5]))
        out.append((prog, wit))
    return out


# ------------------------------------------------------------------ the property on one result
def prop_check(c, r):
    if r in ("CRASH", "TIMEOUT") or r is None:
        return ("crash", "harness process died or hung (C assertion / abort?) on %s %s" % (c.kind, c.line[:200]))
    if r == [9]:
        return ("harness-panic", "panic outside the guarded sections on %s %s" % (c.kind, c.line[:200]))
    d = c.meta.get("parsed")
    if d is None:
        try:
            d = cc.parse_c03(r, c.kind == "pdl")
        except (AssertionError, IndexError) as e:
            return ("unparsable", "harness output not understood: %s" % (e,))
        c.meta["parsed"] = d
    if "build_error" in d:
        bump("build_error_%s" % d["build_error"])
        return None
    what = "program %s witness %s" % (cc.hexs(d["prog"]) if "prog" in d else c.meta.get("prog_hex"),
                                      cc.hexs(d["wit"]) if "wit" in d else c.meta.get("wit_hex"))
    rc, ccl = d["r_class"], d["c_class"]
    bump("matrix r=%s c=%s" % (cc.DECODE_CLASS.get(rc, rc), cc.DECODE_CLASS.get(ccl, ccl)))
    if rc == 13:
        return ("rust-panic", "RedeemNode::decode panicked on " + what)
    # the library's own entry point must tell the same story as the staged pipeline
    rp_ok = d["rp_status"] == 0
    if d["rp_status"] == 9:
        return ("run_program-panic", "simplicity_sys::tests::run_program panicked on " + what)
    if rp_ok != (ccl == 0):
        return ("c-pipeline-mismatch", "run_program(CheckOneOne) %s but the staged C pipeline %s on %s"
                % ("accepts" if rp_ok else "rejects (-%d)" % d["rp_raw"], "accepts" if ccl == 0 else "rejects (-%d)" % d["c_raw"], what))
    if rp_ok and (d["rp_cmr"], d["rp_amr"], d["rp_ihr"], d["rp_cost"]) != (d["c_cmr"], d["c_amr"], d["c_ihr"], d["c_cost"]):
        return ("c-pipeline-mismatch", "run_program and the staged C pipeline report different roots/cost on " + what)
    # documented limits: a witness wider than CELLS_MAX is refused by C before anything else
    if ccl == 11:
        bump("outside_limits_c_resource")
        return None
    # the designed exception
    if ccl == 5:
        bump("fail_node_excluded")
        if rc == 0 and d["r_nfail"] == 0:
            return ("fail-code-without-fail-node", "C reports FAIL_CODE but the program Rust decoded has no fail node: " + what)
        return None
    if rc == 0 and d["r_nfail"] > 0 and ccl == 0:
        return ("fail-accepted-by-c", "Rust decoded a fail node, C accepted: " + what)
    if (rc == 0) != (ccl == 0):
        if rc == 0:
            return ("verdict-rust-accepts", "Rust accepts, C rejects with -%d (%s, stage %d): %s"
                    % (d["c_raw"], cc.DECODE_CLASS.get(ccl), d["c_stage"], what))
        return ("verdict-rust-rejects", "C accepts, Rust rejects with class %s/%d: %s" % (cc.DECODE_CLASS.get(rc), d["r_detail"], what))
    if rc != 0:
        if rc != ccl:
            bump("both_reject_different_class")
        return None
    # both accept
    bump("both_accept")
    for nm in ("cmr", "amr", "ihr"):
        if d["r_" + nm] != d["c_" + nm]:
            return (nm, "%s differs: Rust %s, C %s on %s" % (nm.upper(), cc.hexs(d["r_" + nm]), cc.hexs(d["c_" + nm]), what))
    if d["c_cells"] > CELLS_MAX:
        bump("accepted_beyond_CELLS_MAX")
        if d["r_cost"] != d["c_cost"]:
            bump("cost_differs_beyond_CELLS_MAX")
    elif d["r_cost"] != d["c_cost"]:
        return ("cost", "cost bound differs: Rust %d, C %d (cells %d) on %s" % (d["r_cost"], d["c_cost"], d["c_cells"], what))
    if "built_cmr" in d:
        if (d["built_cmr"], d["built_amr"], d["built_ihr"], d["built_cost"]) != (d["r_cmr"], d["r_amr"], d["r_ihr"], d["r_cost"]):
            return ("encode-decode-roots", "roots/cost of the program as built differ from those after encode+decode: " + what)
    return None


def finding_match(c, r, cls):
    for f in vplib.open_findings(PROP):
        if f.get("match", {}).get("kind") == cls:
            return f["id"]
    return None


def nontrivial(c, r):
    d = c.meta.get("parsed")
    if d is None and isinstance(r, list) and r != [9]:
        try:
            d = cc.parse_c03(r, c.kind == "pdl")
            c.meta["parsed"] = d
        except (AssertionError, IndexError):
            return None
    if not d or "build_error" in d:
        return None
    p = tuple(d["prog"]) if "prog" in d else tuple(c.meta.get("prog", ()))
    w = tuple(d["wit"]) if "wit" in d else tuple(c.meta.get("wit", ()))
    if len(p) < 2:
        return None
    return (p, w)



# ------------------------------------------------------------------ three-way: Coq reference vs Rust vs C
TWO32 = 2 ** 32


def parse_ref(v):
    """Cdiff/Run3.v run_ref -> dict"""
    if v is None or not v:
        return {"kind": "none"}
    if v[0] == 0:
        return {"kind": "accept", "fail": v[1], "cmr": v[2:34], "amr": v[34:66], "ihr": v[66:98], "rust_cost": v[98],
                "c_cost": v[99], "ideal_cost": v[100], "core_cost": v[101], "entries": v[102]}
    if v[0] == 1:
        return {"kind": "reject", "cls": v[1]}
    return {"kind": "internal", "code": v[1] if len(v) > 1 else -1}


def ref_check(c, r):
    """the property with the reference as third party: Rust and C are each compared with Cdiff/Reference.v"""
    d = c.meta.get("parsed")
    ref = c.meta.get("ref")
    if d is None or ref is None:
        return None
    what = "program %s witness %s (%s)" % (cc.hexs(d["prog"]) if "prog" in d else c.meta.get("prog_hex"),
                                           cc.hexs(d["wit"]) if "wit" in d else c.meta.get("wit_hex"), c.meta.get("origin", "generated"))
    rc, ccl = d["r_class"], d["c_class"]
    if ref["kind"] == "none":
        bump("ref skipped (evaluation failed or too large)")
        return None
    if ref["kind"] == "internal":
        return ("reference-internal", "the Coq reference reports an internal error (code %s) on %s" % (ref["code"], what))
    bump("ref3 ref=%s rust=%s c=%s" % ("accept" if ref["kind"] == "accept" else cc.DECODE_CLASS.get(ref["cls"], ref["cls"]),
                                        cc.DECODE_CLASS.get(rc, rc), cc.DECODE_CLASS.get(ccl, ccl)))
    if ref["kind"] == "reject":
        k = ref["cls"]
        if k == 11:
            bump("ref outside limits (witness wider than CELLS_MAX)")
            if ccl == 0:
                return ("ref-limit-c-accepts", "reference: witness wider than CELLS_MAX, C accepts: " + what)
            return None
        if rc == 0:
            return ("ref-rejects-rust-accepts", "the reference rejects (%s), Rust accepts; C: %s: %s"
                    % (cc.DECODE_CLASS.get(k), cc.DECODE_CLASS.get(ccl), what))
        if ccl == 0:
            return ("ref-rejects-c-accepts", "the reference rejects (%s), C accepts; Rust: %s: %s"
                    % (cc.DECODE_CLASS.get(k), cc.DECODE_CLASS.get(rc), what))
        if rc == 13:
            return None   # reported by prop_check
        bump("ref3 all three reject")
        if k == rc:
            bump("ref3 reject class equal to Rust's")
        return None
    # the reference accepts
    if rc != 0:
        return ("ref-accepts-rust-rejects", "the reference accepts, Rust rejects with class %s/%d; C: %s: %s"
                % (cc.DECODE_CLASS.get(rc), d["r_detail"], cc.DECODE_CLASS.get(ccl), what))
    for nm in ("cmr", "amr", "ihr"):
        if d["r_" + nm] != ref[nm]:
            cside = ("C agrees with the reference" if d.get("c_" + nm) == ref[nm] else
                     "C agrees with Rust" if d.get("c_" + nm) == d["r_" + nm] else "C: " + cc.hexs(d.get("c_" + nm) or []))
            return ("ref-" + nm, "%s differs: Rust %s, reference %s (%s) on %s"
                    % (nm.upper(), cc.hexs(d["r_" + nm]), cc.hexs(ref[nm]), cside, what))
    if ref["rust_cost"] >= TWO32:
        return ("ref-cost-panic", "the Rust-shaped cost formula panics in the reference, Rust returned %d: %s" % (d["r_cost"], what))
    if d["r_cost"] != ref["rust_cost"] or ref["core_cost"] != ref["rust_cost"]:
        return ("ref-cost", "cost bound differs: Rust %d, reference (analysis.rs shape) %d, Core/Bounds.v %d: %s"
                % (d["r_cost"], ref["rust_cost"], ref["core_cost"], what))
    if bool(ref["fail"]) != (d["r_nfail"] > 0):
        return ("ref-fail-flag", "fail nodes: reference %s, Rust counts %d: %s" % (ref["fail"], d["r_nfail"], what))
    if ref["fail"]:
        bump("ref3 accept with fail node (C: %s)" % cc.DECODE_CLASS.get(ccl))
        if ccl == 0:
            return ("fail-accepted-by-c", "program with a fail node accepted by C: " + what)
        return None
    if ccl == 11:
        return None
    if ccl != 0:
        return ("ref-accepts-c-rejects", "the reference and Rust accept, C rejects with -%d (%s, stage %d): %s"
                % (d["c_raw"], cc.DECODE_CLASS.get(ccl), d["c_stage"], what))
    for nm in ("cmr", "amr", "ihr"):
        if d["c_" + nm] != ref[nm]:
            return ("ref-c-" + nm, "%s differs: C %s, reference %s on %s" % (nm.upper(), cc.hexs(d["c_" + nm]), cc.hexs(ref[nm]), what))
    if d["c_cells"] <= CELLS_MAX and (d["c_cost"] != ref["c_cost"] or ref["ideal_cost"] != ref["c_cost"]):
        return ("ref-c-cost", "cost bound differs: C %d, reference (eval.c shape) %d, ideal clipped %d: %s"
                % (d["c_cost"], ref["c_cost"], ref["ideal_cost"], what))
    bump("ref3 all three accept, roots and costs identical")
    return None


def ref_sample(cases, quick, rng):
    """the byte pairs handed to the Coq reference: every case of the width family (one per width class and kind in the
    quick tier), and a stratified sample of the other origins; returns (list, description of the sampling)"""
    groups = {}
    for c in cases:
        d = c.meta.get("parsed")
        if not d or "build_error" in d or d.get("r_class") == 13:
            continue
        pb = d["prog"] if "prog" in d else c.meta.get("prog")
        wb = d["wit"] if "wit" in d else c.meta.get("wit")
        if pb is None or len(pb) > 700 or len(wb) > 700:
            continue
        if d.get("r_class") == 0:
            tsz = cc.table_size_from_nums(d["table"])
            if tsz is None or tsz > 60000:
                bump("ref skipped: types too large to expand")
                continue
        o = c.meta.get("origin", "generated-pruned" if c.meta.get("pruned") else "generated")
        g = o.split("+")[0].split("&")[0]
        if g.startswith("width-family"):
            g = "width-family"
        elif g.startswith("grammar:"):
            g = "grammar"
        elif g.startswith("table:"):
            g = "table"
        elif g not in ("generated", "generated-pruned", "random", "corpus"):
            g = "bytes"
        verdict = "acc" if (d.get("r_class") == 0 and d.get("c_class") == 0) else ("rej" if d.get("r_class") != 0 and d.get("c_class") != 0 else "mixed")
        groups.setdefault((g, verdict), []).append((c, pb, wb))
    caps = {"width-family": 60 if quick else 10000, "generated": 70 if quick else 1500, "generated-pruned": 50 if quick else 1200,
            "bytes": 60 if quick else 1500, "table": 40 if quick else 1200, "grammar": 100 if quick else 2500,
            "random": 40 if quick else 800, "corpus": 40 if quick else 1000}
    out = []
    desc = {}
    for (g, verdict), lst in sorted(groups.items()):
        cap = caps[g]
        if verdict == "mixed":
            cap = len(lst) if g != "grammar" else max(cap, 60)   # fail-node programs and every disagreement candidate
        elif verdict == "rej":
            cap = max(10, cap // 2)
        if g == "width-family" and quick:
            # one case per (kind, width)
            seen = set()
            sel = []
            for x in lst:
                key = x[0].meta.get("origin")
                if key not in seen:
                    seen.add(key)
                    sel.append(x)
            lst = sel
            cap = len(lst)
        if len(lst) > cap:
            stride = len(lst) / float(cap)
            lst = [lst[int(i * stride)] for i in range(cap)]
        desc["%s/%s" % (g, verdict)] = len(lst)
        # priority: the width family first, then the groups interleaved (any prefix of the list is a stratified sample)
        for i, x in enumerate(lst):
            out.append(((0 if g == "width-family" else 1, (i + 0.5) / len(lst), g, verdict), x))
    out.sort(key=lambda kx: kx[0])
    return [x for _k, x in out], desc

# ------------------------------------------------------------------ run
def bytes_case(cid, prog, wit, meta):
    m = {"prog": list(prog), "wit": list(wit), "prog_hex": cc.hexs(prog), "wit_hex": cc.hexs(wit)}
    m.update(meta)
    return Case(cid, "bytes", "%s %s" % (cc.hexs(prog), cc.hexs(wit)), None, m)


def corpus_cases():
    out = []
    d = os.path.join(vplib.VERIF, "corpus", PROP)
    if os.path.isdir(d):
        for fn in sorted(os.listdir(d)):
            if fn.endswith(".case"):
                for k, line in enumerate(open(os.path.join(d, fn))):
                    t = line.split()
                    if not t or t[0].startswith("#"):
                        continue
                    if t[0] == "bytes":
                        out.append(bytes_case("k%s_%d" % (fn[:-5], k), vplib_unhex(t[1]), vplib_unhex(t[2]), {"origin": "corpus"}))
                    else:
                        out.append(Case("k%s_%d" % (fn[:-5], k), "pdl", " ".join(t[1:]), None, {"origin": "corpus"}))
    return out


def vplib_unhex(s):
    return [] if s == "-" else [int(s[i:i + 2], 16) for i in range(0, len(s), 2)]


def cost_cases(cases):
    """cases accepted by both sides with a printable table -> (case for Coq, expected numbers)"""
    out = []
    for c in cases:
        d = c.meta.get("parsed")
        if not d or d.get("r_class") != 0 or d.get("c_class") != 0:
            continue
        if d["c_cells"] > CELLS_MAX:
            continue
        tsz = cc.table_size_from_nums(d["table"])
        if tsz is None or tsz > 120000:
            bump("cost_ref_skipped_type_too_large")
            continue
        rows = cc.parse_table(d["table"])
        jl, tp = cc.table_coq(rows)
        out.append((Case(c.cid, "cost", c.line, "run_cost %s %s" % (jl, tp), {"of": c.cid}),
                    [0, d["r_cost"], d["c_cost"], d["c_cost"]]))
    return out


def run(rep, tier, rng):
    import time
    STATS.clear()
    T = {}
    t0 = time.time()

    def lap(name):
        nonlocal t0
        T[name] = round(time.time() - t0, 1)
        t0 = time.time()
    rep.coverage["explanation"] = (
        "Level 'other': no theorem mentions the Rust or the C code.  The universally quantified clause of the property is "
        "proved about an executable REFERENCE, Cdiff/Reference.v, assembled from the reference components of the sibling "
        "families: decode (Codec's dec_prog over the regenerated Elements jet code, the structural pass dec_struct, the "
        "closing rule of the bit stream) -> infer (Infer's `infer` with program root 1 -> 1, jets typed by the regenerated "
        "Elements table) -> witness fill (Ty.of_compact at the inferred target types, stream closed) -> roots (Merkle: CMR "
        "of every node = cmr_spec of the committed structure, IMR/IHR/AMR by redeem_table over SHA-256, identity hashes "
        "pairwise different) -> cost (Cdiff/CostRef.v ideal / eval.c-shaped / analysis.rs-shaped, and Core/Bounds.v as a "
        "fourth opinion) -> verdict (accept with roots and costs | reject with a class).  Theorems (Props/C03.v 6-14): what "
        "the reference accepts is the canonical encoding of a table in canonical order, is well typed with principal "
        "arrows and root 1 -> 1, its witness stream is exactly the compact encodings of typed values, its CMR is the Merkle "
        "spec of the erased structure, its cost is the ideal bound clipped at 2^32-1; it rejects only with the classes "
        "1,2,3,4,6,7,8,9,10,11 (never for a fail node), class 8 exactly when no typing exists; the witness hash inside "
        "AMR/IHR is SHA-256 with minimal FIPS padding for every bit length (the `> 56` threshold of compact_value is "
        "exact).  Rust and C are EACH tied to the reference by comparison: every generated input goes through "
        "RedeemNode::decode (Rust) and the libsimplicity pipeline decodeMallocDag -> closeBitstream -> "
        "mallocTypeInference -> 1->1 check -> fillWitnessData -> closeBitstream -> verifyNoDuplicateIdentityHashes -> "
        "computeAnnotatedMerkleRoot -> analyseBounds (C, staged, and again through simplicity_sys::tests::run_program up to "
        "CheckOneOne) and is compared two-way (verdict, CMR, AMR, IHR bit-identical, cost); a stated sample of the same byte "
        "pairs (coverage.three_way_reference) is evaluated in Coq with vm_compute and compared three-way.  Inputs C refuses "
        "for a documented libsimplicity limit (witness wider than CELLS_MAX) and programs on which C reports FAIL_CODE are "
        "excluded from the verdict comparison as the property says (the reference accepts fail programs and flags them; "
        "Rust is still compared with it); costs are compared with C only when C's cell bound is within CELLS_MAX (beyond "
        "it Rust's Cost::of_type truncates where C saturates: theorem C03_rust_c_differ_wide).  Input streams: generated "
        "well-typed programs (unpruned and pruned), a systematic family with one witness of every width class around the "
        "SHA-256 padding boundaries, byte-level mutations, node-table mutations, a grammar-based layer (valid encodings "
        "disassembled, mutated on the node grammar and re-assembled by the python codec of codec_common.py; per-class "
        "(Rust verdict, C verdict) counts in coverage.grammar_layer), random strings.  "
        + cc.CLASS_MAPPING_TEXT)
    vplib.proof_stage(rep, "Props/C03.v", extra_targets=["Cdiff/Run.vo", "Cdiff/Run3.vo"],
                      translators=("xlate_consts.py", "xlate_jets.py", "xlate_ivs.py"), allowed_axioms=UINT63_PRIMS)
    rep.coverage["trusted_base"] = vplib.GENERIC_TRUSTED + [
        "vendored libsimplicity compiled by simplicity-sys's build.rs (the reference the property names) and its Rust FFI bindings (simplicity-sys/src/tests/ffi.rs)",
        "harness_cdiff: staged port of simplicity_sys::tests::run_program (cross-checked against run_program on every case)",
        "models Cdiff/CostRef.v, CostRustC.v, VerdictRef.v written by hand from analysis.rs, eval.c, errorCodes.h",
        "Cdiff/Reference.v: hand-written composition of the models of the sibling families (Codec/NodeCodec.v, Decode.v, "
        "RealJets.v, WitnessCodec.v; Infer/*.v; Merkle/Sha256.v, Tagged.v, Cmr.v, Ihr.v, Real.v; Ty/Ty.v), each tied to the "
        "Rust code by its own family's correspondence check (C01/C02, C04, C09)",
        "translators tools/xlate_jets.py (Elements jet codes, type names, costs), tools/xlate_ivs.py (IV constants, jet CMRs), "
        "tools/xlate_consts.py, regenerated from the tree under test on every run",
        "executable SHA-256 Merkle/Sha256.v on Coq's Uint63 primitives: Print Assumptions of the theorems that mention the "
        "reference lists PrimInt63.{int,add,sub,land,lor,lxor,lsl,lsr,eqb} (primitive operations, no logical axiom)",
        "python disassembler / assembler of tools/props/codec_common.py (grammar layer; checked to reproduce every encoding it mutates)",
    ]
    lap("proof_stage_s")
    lim, lerr = cc.read_limits()
    if lerr:
        rep.violation("libsimplicity limits changed: " + lerr, {"limits": lim}, False)
    binary, out = vplib.harness_build("debug", crate=cc.CRATE)
    if binary is None:
        raise vplib.Infra("harness build failed:\n" + out[-3000:])
    lap("harness_build_s")
    wd = rep.workdir()
    quick = tier == "quick"

    # phase 1: generated programs, unpruned and pruned
    progs, gstats = cc.typed_programs(rng.fork("gen"), binary, wd, 350 if quick else 6000, [1, 2, 2, 3, 3, 4])
    cases = corpus_cases()
    k = 0
    for p, _ar, _st in progs:
        pdl = pg.prog_pdl(p)
        feats = cc.prog_features(p)
        cases.append(Case("u%d" % k, "pdl", "0 " + pdl, None, {"features": feats, "pruned": 0}))
        if feats["fail"] == 0:
            cases.append(Case("q%d" % k, "pdl", "1 " + pdl, None, {"features": feats, "pruned": 1}))
        k += 1
    # systematic family: one witness of every width class (SHA-256 padding boundaries of compact_value and others)
    fam = cc.width_family(rng.fork("widths"), per_width=2 if quick else 6)
    for j, (p, w, desc) in enumerate(fam):
        cases.append(Case("w%d" % j, "pdl", "0 " + pg.prog_pdl(p), None,
                          {"features": cc.prog_features(p), "pruned": 0, "origin": "width-family:" + desc, "wit_width": w}))
    impl = vplib.run_harness(binary, "c03", ["%s %s %s" % (c.cid, c.kind, c.line) for c in cases], workdir=wd, timeout=600)
    pf1, _ = vplib.decide(rep, cases, impl, {}, prop_check, finding_match, nontrivial, what="Rust vs libsimplicity on generated programs")

    lap("generated_programs_s")
    # phase 2: mutations of the valid encodings, and random strings
    valid = []
    seen = set()
    for c in cases:
        d = c.meta.get("parsed")
        if d and "prog" in d and d.get("r_class") == 0:
            key = (tuple(d["prog"]), tuple(d["wit"]))
            if key not in seen:
                seen.add(key)
                valid.append((d["prog"], d["wit"]))
    r2 = rng.fork("mut")
    cases2 = []
    nmut = 4 if quick else 12
    for i, (p, w) in enumerate(valid):
        if len(p) > 400:
            continue
        for j in range(nmut):
            mp, mw, how = mutate(r2, p, w, valid)
            if r2.below(5) == 0:
                mp, mw, how2 = mutate(r2, mp, mw, valid)
                how += "+" + how2
            cases2.append(bytes_case("m%d_%d" % (i, j), mp, mw, {"origin": how}))
    # structural mutations of the node tables, encoded by the independent python encoder
    codes = cc.jet_codes(binary, wd)
    r3 = rng.fork("table")
    ntab = 6 if quick else 14
    for i, (p, ar, _st) in enumerate(progs):
        if len(p) > 150:
            continue
        canon = cc.canon_table(p, ar)
        if i % 4 == 0:
            pb, wb = cc.encode_table(p, codes)
            cases2.append(bytes_case("tr%d" % i, pb, wb, {"origin": "table:as-generated"}))
        if i % 7 == 0:
            pb, wb = cc.encode_table(canon, codes)
            cases2.append(bytes_case("tc%d" % i, pb, wb, {"origin": "table:canonical"}))
        for j in range(ntab):
            q, how = cc.mutate_table(r3, canon)
            if how == "none":
                continue
            if r3.below(6) == 0:
                q, how2 = cc.mutate_table(r3, q)
                how += "&" + how2
            pb, wb = cc.encode_table(q, codes)
            cases2.append(bytes_case("t%d_%d" % (i, j), pb, wb, {"origin": "table:" + how}))
    # grammar-based layer: the valid encodings disassembled by the python decoder of codec_common.py, mutated at the
    # level of the node grammar and re-assembled by its bit assembler
    from props import codec_common as kc
    jt = cc.codec_jt(binary, wd)
    by_arrow = {}
    for j in cc.all_jets(binary, wd):
        by_arrow.setdefault((j[2], j[3]), []).append(j[0])
    same_arrow = {}
    for lst in by_arrow.values():
        for a in lst:
            same_arrow[a] = [b for b in lst if b != a]
    r4 = rng.fork("grammar")
    gsel = [v for v in valid if len(v[0]) <= 300]
    gcap = 330 if quick else 5000
    if len(gsel) > gcap:
        stride = len(gsel) / float(gcap)
        gsel = [gsel[int(i * stride)] for i in range(gcap)]
    cm = vplib.run_harness(binary, "c03", ["g%d nodecmrs %s %s" % (i, cc.hexs(p), cc.hexs(w)) for i, (p, w) in enumerate(gsel)], workdir=wd)
    gram_stats = {"sources": len(gsel), "python_decoder_disagrees": 0}
    for i, (p, w) in enumerate(gsel):
        dec = kc.dec_prog(kc.bits_of_bytes(p), jt)
        if dec[0] != "ok":
            gram_stats["python_decoder_disagrees"] += 1
            continue
        dnodes = dec[1]
        cmrs = None
        x = cm.get("g%d" % i)
        if isinstance(x, list) and x and x[0] == 0:
            flat = x[2:]
            per = [flat[32 * k:32 * k + 32] for k in range(x[1])]
            it = iter(per)
            cmrs = {}
            try:
                for k, dn_ in enumerate(dnodes):
                    cmrs[k] = list(dn_[1]) if dn_[0] == "hid" else next(it)
            except StopIteration:
                cmrs = None
        if kc.pack(kc.enc_prog(dnodes, jt)) != list(p):
            gram_stats["python_decoder_disagrees"] += 1
            continue
        for j, (cls, mp, mw) in enumerate(cc.grammar_mutations(r4, dnodes, w, jt, node_cmrs=cmrs, jets_by_arrow=same_arrow,
                                                                 count=3 if quick else 8)):
            cases2.append(bytes_case("y%d_%d" % (i, j), mp, mw, {"origin": "grammar:" + cls}))
    if gram_stats["python_decoder_disagrees"]:
        rep.violation("the python disassembler/assembler of codec_common.py does not reproduce %d encodings produced by the Rust library"
                      % gram_stats["python_decoder_disagrees"], {"grammar": gram_stats}, False)
    for i, (p, w) in enumerate(random_strings(r2, 600 if quick else 20000)):
        cases2.append(bytes_case("r%d" % i, p, w, {"origin": "random"}))
    impl2 = vplib.run_harness(binary, "c03", ["%s %s %s" % (c.cid, c.kind, c.line) for c in cases2], workdir=wd, timeout=600)
    pf2, _ = vplib.decide(rep, cases2, impl2, {}, prop_check, finding_match, nontrivial, what="Rust vs libsimplicity on mutated and random byte strings")
    gmatrix = {}
    for c in cases2:
        o = c.meta.get("origin", "?").split("+")[0].split("&")[0]
        bump("origin " + o)
        d = c.meta.get("parsed")
        if o.startswith("grammar:") and d:
            key = "rust=%s c=%s" % (cc.DECODE_CLASS.get(d["r_class"], d["r_class"]), cc.DECODE_CLASS.get(d["c_class"], d["c_class"]))
            m = gmatrix.setdefault(o[8:], {})
            m[key] = m.get(key, 0) + 1
    rep.coverage["grammar_layer"] = {
        "what": "valid encodings disassembled by tools/props/codec_common.py (python), mutated on the node grammar, re-assembled "
                "by its bit assembler; per class the counts of (Rust verdict, C verdict) pairs",
        "classes": cc.GRAMMAR_CLASSES, "sources": gram_stats, "verdict_pairs_per_class": {k: dict(sorted(v.items())) for k, v in sorted(gmatrix.items())}}

    # witness widths actually hashed by both sides (accepted by Rust and C): residues mod 512 and the stated classes
    wl_seen = set()
    wl_mod = {}
    for c in cases + cases2:
        d = c.meta.get("parsed")
        if d and d.get("r_class") == 0 and d.get("c_class") == 0:
            tn = d["table"]
            if tn and tn[0] == 0:
                pos = 2
                for _ in range(tn[1]):
                    code, extra, marker = tn[pos], tn[pos + 3], tn[pos + 4]
                    pos += 5
                    if marker != 5:
                        _a, pos = cc._nums_ty_size(tn, pos)
                        _b, pos = cc._nums_ty_size(tn, pos)
                    if code == 14:
                        wl_seen.add(extra)
                        wl_mod[extra % 512] = wl_mod.get(extra % 512, 0) + 1
    missing = [w for w in cc.WIDTH_CLASSES if w not in wl_seen]
    rep.coverage["witness_widths"] = {
        "classes_required": cc.WIDTH_CLASSES, "classes_missing": missing, "distinct_compact_lengths_seen": len(wl_seen),
        "witnesses_with_length_mod_512_in_440_447": sum(v for k, v in wl_mod.items() if 440 <= k <= 447),
        "witnesses_with_length_mod_512_in_448_511": sum(v for k, v in wl_mod.items() if 448 <= k <= 511),
        "witnesses_with_length_mod_512_in_0_7": sum(v for k, v in wl_mod.items() if k <= 7),
        "max_compact_length": max(wl_seen) if wl_seen else 0}
    if missing:
        rep.violation("generator coverage: no accepted program carried a witness of compact length %s (width family broken?)" % missing[:8],
                      {"missing_width_classes": missing}, False)
    lap("mutated_strings_s")
    # phase 3: the cost clause three ways (Coq reference vs Rust vs C) and the class tables
    cc_cases = cost_cases(cases + cases2)
    # spread the selection over all phases (generated, pruned, mutated)
    cap = 240 if quick else 6000
    if len(cc_cases) > cap:
        stride = len(cc_cases) / float(cap)
        cc_cases = [cc_cases[int(i * stride)] for i in range(cap)]
    ccs = [x[0] for x in cc_cases]
    expected = dict((x[0].cid, x[1]) for x in cc_cases)
    ccs.append(Case("classes", "classes", "60", "run_classes 60", {}))
    timpl = vplib.run_harness(binary, "c06", ["classes classes 60"], workdir=wd)
    expected["classes"] = timpl.get("classes")
    vals, logs = vplib.coq_eval(IMPORTS, [c.expr for c in ccs], workdir=wd, tag="c03cost", batch=80)
    if any(logs):
        raise vplib.Infra("model evaluation failed in Coq:\n" + [l for l in logs if l][0][-3000:])
    model = dict((c.cid, v) for c, v in zip(ccs, vals))
    ev0 = rep.coverage.get("evaluations", 0)
    ci0 = rep.coverage["correspondence"]["cases_impl"]
    nviol = len(rep.violations)
    vplib.decide(rep, ccs, expected, model, None, None, None, what="cost reference Cdiff/CostRef.v vs Rust and C cost bounds (and class tables)")
    if (pf1 or pf2) and len(rep.violations) > nviol:
        # a concrete failing input was already reported above; do not add a second, input-less line for the same cause
        rep.notes.append("cost reference also disagrees with the implementation: " + rep.violations[-1][2])
        del rep.violations[nviol:]
    rep.coverage["evaluations"] = ev0
    rep.coverage["correspondence"]["cases_impl"] = ci0
    rep.coverage["cost_three_way_cases"] = len(cc_cases)
    lap("cost_reference_s")
    # phase 4: the whole property three ways: Cdiff/Reference.v (decode, structure, inference, witnesses, CMR/AMR/IHR, cost)
    # evaluated on a sample of the byte pairs of phases 1 and 2
    sample, sdesc = ref_sample(cases + cases2, quick, rng.fork("refsample"))
    exprs = ["run_ref %s %s" % (vplib.coq_list(pb), vplib.coq_list(wb)) for (_c, pb, wb) in sample]
    vals, nfail_batches = cc.ref_eval(REF_IMPORTS, exprs, wd, "c03ref", batch=10 if quick else 24, budget_s=70 if quick else 540)
    not_evaluated = len([v for v in vals if v is None])
    rcases = []
    for (c, pb, wb), v in zip(sample, vals):
        if v is None:
            continue
        c.meta["ref"] = parse_ref(v)
        rcases.append(c)
    ev0 = rep.coverage.get("evaluations", 0)
    dn0 = rep.coverage.get("distinct_nontrivial", 0)
    ci0 = rep.coverage["correspondence"]["cases_impl"]
    hist0 = dict(rep.coverage["correspondence"]["kind_histogram"])
    nviol = len(rep.violations)
    allimpl = dict(impl)
    allimpl.update(impl2)
    pf3, _ = vplib.decide(rep, rcases, allimpl, {}, ref_check, finding_match, None,
                          what="Coq reference Cdiff/Reference.v vs Rust vs libsimplicity (three-way)")
    if (pf1 or pf2) and len(rep.violations) > nviol:
        # the two-way comparison already reported a concrete input for (very likely) the same cause; keep the
        # three-way diagnosis (which side deviates from the reference) as a note
        rep.notes.append("three-way: " + rep.violations[-1][2])
        del rep.violations[nviol:]
    rep.coverage["evaluations"] = ev0
    rep.coverage["distinct_nontrivial"] = dn0
    rep.coverage["correspondence"]["cases_impl"] = ci0
    rep.coverage["correspondence"]["kind_histogram"] = hist0
    rep.coverage["correspondence"]["cases_model"] += len([v for v in vals if v is not None])
    rep.coverage["three_way_reference"] = {
        "cases_evaluated_in_coq": len([v for v in vals if v is not None]), "cases_selected": len(sample),
        "batches_retried_case_by_case": nfail_batches,
        "selected_but_not_evaluated": not_evaluated,
        "time_budget": "the selection is evaluated in priority order (width family first, then the groups interleaved) in slices of "
                       "16 coqc processes; no new slice is started after %d s, so that the quick tier stays within its time on a "
                       "loaded machine; cases left over are counted in selected_but_not_evaluated" % (70 if quick else 540),
        "sampling": "of the byte pairs of phases 1 and 2 (every pair goes through Rust and C): per (origin, verdict) group an evenly "
                    "spaced selection with the caps below; groups where Rust and C differ by design (fail nodes) are taken whole; "
                    "the width family contributes one case per (shape, width class) in the quick tier and all cases in the thorough "
                    "tier; pairs longer than 700 bytes and accepted programs whose types have more than 60000 tree nodes in total "
                    "are not handed to Coq",
        "selected_per_group": sdesc,
        "compared": "accept/reject verdict (Coq vs Rust, Coq vs C, fail nodes and CELLS_MAX as the property says), CMR, AMR, IHR "
                    "(bit-identical, three ways), cost bound (Rust vs analysis.rs-shaped formula vs Core/Bounds.v; C vs eval.c-shaped "
                    "formula vs ideal value clipped at 2^32-1)"}
    lap("three_way_reference_s")
    rep.coverage["timing"] = T

    import re
    used = set()
    feat = {}
    for c in cases:
        if c.kind != "pdl":
            continue
        used.update(re.findall(r"jet\.e\.(\w+)", c.line))
        for fk, fv in c.meta.get("features", {}).items():
            if fv and fk != "nodes":
                feat["programs_with_" + fk] = feat.get("programs_with_" + fk, 0) + 1
    rep.coverage["distinct_jets_in_generated_programs"] = len(used)
    rep.coverage["feature_histogram"] = feat
    rep.coverage["generator"] = gstats
    rep.coverage["statistics"] = dict(sorted(STATS.items()))
    rep.coverage["limits"] = lim
    rep.coverage["notes_on_the_code"] = cc.CODE_NOTES
    rep.coverage["rule"] = (
        "inputs: (i) encodings (program bytes, witness bytes) of generated well-typed 1->1 Elements programs (jets of I/O "
        "width <= 600 bits as leaves, witnesses filled at the inferred types, hidden branches/assertions, disconnect, words, "
        "DAG sharing), each unpruned and pruned with the dummy environment; (i') the width family: for every compact witness "
        "length in cdiff_common.WIDTH_CLASSES (0,1,7,8,9,63,64,65,255,256,257, 440..448, 504..513, 952..960, 1016,1017,1023,"
        "1024,1025) a program whose single witness has a product-of-words type of exactly that width (all-zero/all-one and "
        "random values) and one of type (words of width-1)+1 holding a left value; (ii) mutations of those encodings (bit flips, "
        "truncation, extension, splice, padding bits, foreign witness), node-table mutations, grammar-level mutations through "
        "the python codec, and random strings with plausible structure.  "
        "distinct = distinct (program bytes, witness bytes) pair; non-trivial = program of at least 2 bytes that the harness "
        "could process")
    alls = cases + cases2
    step = max(1, len(alls) // 5)
    rep.coverage["samples"] = [
        {"kind": c.kind, "origin": c.meta.get("origin", "generated"), "args": c.line[:300],
         "rust_class": (c.meta.get("parsed") or {}).get("r_class"), "c_class": (c.meta.get("parsed") or {}).get("c_class"),
         "c_raw_err": (c.meta.get("parsed") or {}).get("c_raw"), "rust_cost": (c.meta.get("parsed") or {}).get("r_cost"),
         "c_cost": (c.meta.get("parsed") or {}).get("c_cost")}
        for c in alls[::step][:6]]
    vplib.finish_proof_verdict(rep, pf1 or pf2 or pf3)
    rep.assumptions += [
        "FAIL_CODE verdicts of C are excluded from the accept/reject comparison (the property's designed exception); hits: %d" % STATS.get("fail_node_excluded", 0),
        "inputs refused by C for a resource limit (EXEC_MEMORY in fillWitnessData, MALLOC) are outside the property; hits: %d" % STATS.get("outside_limits_c_resource", 0),
        "cost bounds are compared only when C's cell bound <= CELLS_MAX; accepted beyond: %d, of which with different cost: %d"
        % (STATS.get("accepted_beyond_CELLS_MAX", 0), STATS.get("cost_differs_beyond_CELLS_MAX", 0)),
        "three-way part: the Coq reference is evaluated on a sample (%d of %d byte pairs this run; selection rule in "
        "coverage.three_way_reference.sampling); the other pairs are compared Rust vs C only"
        % (rep.coverage["three_way_reference"]["cases_evaluated_in_coq"], len(cases) + len(cases2)),
        "reject CLASSES are tallied, not required to agree: the property is about accept/reject (statistics 'ref3 ...')",
    ]


def replay(obj):
    import json
    print(json.dumps({k: v for k, v in obj.items() if k != "case"}, indent=1)[:3000])
    c = obj.get("case")
    if not c:
        return 0
    binary, _ = vplib.harness_build("debug", crate=cc.CRATE)
    case = Case(c["id"], c["kind"], c["harness_args"], None, {})
    wd = os.path.join(vplib.WORK, PROP)
    os.makedirs(wd, exist_ok=True)
    if case.kind in ("bytes", "pdl"):
        impl = vplib.run_harness(binary, "c03", ["%s %s %s" % (case.cid, case.kind, case.line)], workdir=wd)
        r = impl.get(case.cid)
        print("case          :", case.kind, case.line)
        chk = prop_check(case, r)
        d = case.meta.get("parsed") or {}
        print("rust          : class %s detail %s cost %s" % (d.get("r_class"), d.get("r_detail"), d.get("r_cost")))
        print("C             : class %s raw -%s stage %s cost %s cells %s" % (d.get("c_class"), d.get("c_raw"), d.get("c_stage"), d.get("c_cost"), d.get("c_cells")))
        for nm in ("cmr", "amr", "ihr"):
            print("%s rust / C  : %s / %s" % (nm, cc.hexs(d.get("r_" + nm) or []), cc.hexs(d.get("c_" + nm) or [])))
        print("property      :", chk)
        pb = d["prog"] if "prog" in d else vplib_unhex(case.line.split()[0])
        wb = d["wit"] if "wit" in d else vplib_unhex(case.line.split()[1])
        if pb is not None and len(pb) <= 2000:
            vals, _n = cc.ref_eval(REF_IMPORTS, ["run_ref %s %s" % (vplib.coq_list(pb), vplib.coq_list(wb))], wd, "c03replay", batch=1)
            ref = parse_ref(vals[0])
            print("reference     :", {k: (cc.hexs(v) if isinstance(v, list) else v) for k, v in ref.items()})
            case.meta["ref"] = ref
            print("three-way     :", ref_check(case, r))
    else:
        print("model-only case:", case.kind, case.line[:500])
    return 0
