(* C03 / C06 - the small shared enumerations into which the harness maps libsimplicity's
   SIMPLICITY_ERR_* codes and the Rust error enums before anything is compared.  These tables are
   the reference copies; harness_cdiff/src/cdiff.rs (c_class, c_exec_class, exec_class) is compared
   with them on every run (command `c06 classes`). *)
From RS Require Import Lib.Tac.
Import ListNotations.
Local Open Scope Z_scope.

(* ---------------------------------------------------------------- execution verdicts (C06) *)
Inductive kind := KOk | KAssert | KJet | KFail | KLimit | KInput | KJetFamily | KAntiDos | KOther.

Definition kind_code (k : kind) : N :=
  match k with
  | KOk => 0 | KAssert => 1 | KJet => 2 | KFail => 3 | KLimit => 4 | KInput => 5
  | KJetFamily => 6 | KAntiDos => 7 | KOther => 12
  end%N.

(* simplicity_err returned by evalTCOExpression (include/simplicity/errorCodes.h) *)
Definition c_exec_kind (err : Z) : kind :=
  match err with
  | 0 => KOk
  | -40 => KAssert                 (* SIMPLICITY_ERR_EXEC_ASSERT *)
  | -38 => KJet                    (* SIMPLICITY_ERR_EXEC_JET *)
  | -34 | -36 | -1 => KLimit       (* EXEC_BUDGET, EXEC_MEMORY, MALLOC *)
  | -42 => KAntiDos                (* SIMPLICITY_ERR_ANTIDOS *)
  | _ => KOther
  end.

(* bit_machine::ExecutionError, in declaration order *)
Inductive rust_exec_error :=
| RInputWrongType | RReachedFailNode | RReachedPrunedBranch | RLimitExceeded | RJetFailed | RJetTypeMismatch.

Definition rust_exec_kind (r : option rust_exec_error) : kind :=
  match r with
  | None => KOk
  | Some RInputWrongType => KInput
  | Some RReachedFailNode => KFail
  | Some RReachedPrunedBranch => KAssert
  | Some RLimitExceeded => KLimit
  | Some RJetFailed => KJet
  | Some RJetTypeMismatch => KJetFamily
  end.

Definition all_rust_exec : list (option rust_exec_error) :=
  [None; Some RInputWrongType; Some RReachedFailNode; Some RReachedPrunedBranch; Some RLimitExceeded;
   Some RJetFailed; Some RJetTypeMismatch].

(* the comparison made by the check: same kind; resource-limit verdicts are outside the property *)
Definition same_verdict (r : option rust_exec_error) (c : Z) : bool :=
  (kind_code (rust_exec_kind r) =? kind_code (c_exec_kind c))%N.

Lemma kind_code_inj a b : kind_code a = kind_code b -> a = b.
Proof. destruct a, b; cbn; intros H; try reflexivity; discriminate H. Qed.

Lemma rust_exec_kind_inj a b : rust_exec_kind a = rust_exec_kind b -> a = b.
Proof. destruct a as [[]|], b as [[]|]; cbn; intros H; try reflexivity; discriminate H. Qed.

(* the three verdicts the property names are each produced by exactly one C code *)
Lemma c_exec_kind_ok e : c_exec_kind e = KOk <-> e = 0.
Proof.
  split; [|intros ->; reflexivity].
  destruct e as [|p|p]; [reflexivity|discriminate|].
  unfold c_exec_kind. repeat (destruct p as [p|p|]; try discriminate).
Qed.

Lemma c_exec_kind_assert e : c_exec_kind e = KAssert <-> e = -40.
Proof.
  split; [|intros ->; reflexivity].
  destruct e as [|p|p]; [discriminate|discriminate|].
  unfold c_exec_kind. repeat (destruct p as [p|p|]; try discriminate); reflexivity.
Qed.

Lemma c_exec_kind_jet e : c_exec_kind e = KJet <-> e = -38.
Proof.
  split; [|intros ->; reflexivity].
  destruct e as [|p|p]; [discriminate|discriminate|].
  unfold c_exec_kind. repeat (destruct p as [p|p|]; try discriminate); reflexivity.
Qed.

(* agreement of verdicts means: both succeed, or both fail with the same named reason *)
Theorem same_verdict_spec r c : same_verdict r c = true ->
  (r = None <-> c = 0) /\
  (r = Some RReachedPrunedBranch <-> c = -40) /\
  (r = Some RJetFailed <-> c = -38).
Proof.
  unfold same_verdict. intros H. apply N.eqb_eq, kind_code_inj in H.
  repeat split; intros E.
  - subst r. symmetry in H. apply c_exec_kind_ok in H. exact H.
  - apply c_exec_kind_ok in E. rewrite E in H. apply (rust_exec_kind_inj r None H).
  - subst r. symmetry in H. apply c_exec_kind_assert in H. exact H.
  - apply c_exec_kind_assert in E. rewrite E in H. apply (rust_exec_kind_inj r (Some RReachedPrunedBranch) H).
  - subst r. symmetry in H. apply c_exec_kind_jet in H. exact H.
  - apply c_exec_kind_jet in E. rewrite E in H. apply (rust_exec_kind_inj r (Some RJetFailed) H).
Qed.

(* ---------------------------------------------------------------- decoding verdicts (C03) *)
(* class numbers: 0 ok, 1 program eof, 2 program trailing/padding, 3 out of range, 4 order, 5 fail code,
   6 reserved code, 7 hidden, 8 type, 9 witness stream, 10 sharing, 11 resource limit, 12 other *)
Definition c_decode_class (err : Z) : N :=
  match err with
  | 0 => 0%N
  | -12 => 1%N
  | -14 | -16 => 2%N
  | -2 => 3%N
  | -4 => 4%N
  | -6 => 5%N
  | -8 => 6%N
  | -10 | -44 => 7%N
  | -18 | -20 | -22 => 8%N
  | -24 | -26 | -28 => 9%N
  | -30 => 10%N
  | -36 | -1 => 11%N
  | _ => 12%N
  end.

Definition accepts (cls : N) : bool := (cls =? 0)%N.

Lemma c_decode_class_ok e : c_decode_class e = 0%N <-> e = 0.
Proof.
  split; [|intros ->; reflexivity].
  destruct e as [|p|p]; [reflexivity|discriminate|].
  unfold c_decode_class. repeat (destruct p as [p|p|]; try discriminate).
Qed.

Lemma c_decode_class_fail e : c_decode_class e = 5%N <-> e = -6.
Proof.
  split; [|intros ->; reflexivity].
  destruct e as [|p|p]; [discriminate|discriminate|].
  unfold c_decode_class. repeat (destruct p as [p|p|]; try discriminate); reflexivity.
Qed.

Lemma c_decode_class_range e : (c_decode_class e <= 12)%N.
Proof.
  destruct e as [|p|p]; [cbn; lia|cbn; lia|].
  unfold c_decode_class. repeat (destruct p as [p|p|]; try (cbn; lia)).
Qed.
