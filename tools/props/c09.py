"""C09 - The commitment root depends only on committed structure."""
import hashlib
import os

import proggen as pg
import vplib
from vplib import Case

PROP = "C09"
LEVEL = "proof"
IMPORTS = ["Ty.Ty", "Core.Prog", "Merkle.Run"]
CRATE = None  # merged into the main harness crate
COMMAND = "roots"

# Print Assumptions lists the primitive-integer operations the executable SHA-256 is written with
# (primitives of Coq's kernel, not axioms); only theorems about the SHA-256 instance mention them.
UINT63_PRIMS = ["eqb_refl", "eqb_correct", "Uint63.eqb_refl", "Uint63.eqb_correct",   # axioms of Uint63.v (C09_real_cmr_collision only)
                "int", "add", "sub", "land", "lor", "lxor", "lsl", "lsr", "eqb", "ltb", "leb", "mul", "div", "mod",
                "Uint63.int", "Uint63.add", "Uint63.sub", "Uint63.land", "Uint63.lor", "Uint63.lxor", "Uint63.lsl",
                "Uint63.lsr", "Uint63.eqb", "PrimInt63.int", "PrimInt63.add", "PrimInt63.sub", "PrimInt63.land",
                "PrimInt63.lor", "PrimInt63.lxor", "PrimInt63.lsl", "PrimInt63.lsr", "PrimInt63.eqb"]

# coqchk (thorough tier) lists every primitive and axiom of Coq.Numbers.Cyclic.Int63 in the closure of the
# checked library, whether used or not (Print Assumptions above shows the ones actually used)
_INT63 = """PrimInt63.compares Uint63.mod_spec Uint63.addcarryc_def_spec PrimInt63.diveucl_21 Uint63.subc_def_spec
Uint63.addmuldiv_def_spec Uint63.tail0_spec Uint63.leb_spec Uint63.head0_spec PrimInt63.addmuldiv PrimInt63.addcarryc
Uint63.mulc_spec Uint63.diveucl_def_spec Uint63.add_spec PrimInt63.tail0 PrimInt63.head0 PrimInt63.subc PrimInt63.mulc
PrimInt63.mods PrimInt63.lxor PrimInt63.ltsb PrimInt63.lesb PrimInt63.land PrimInt63.divs PrimInt63.addc PrimInt63.sub
PrimInt63.mul PrimInt63.mod PrimInt63.ltb PrimInt63.lsr PrimInt63.lsl PrimInt63.lor PrimInt63.leb PrimInt63.int PrimInt63.eqb
PrimInt63.div PrimInt63.asr PrimInt63.add Uint63.eqb_correct Uint63.lxor_spec Uint63.eqb_refl PrimInt63.subcarryc
Uint63.ltb_spec Uint63.lsr_spec Uint63.lsl_spec Uint63.subcarryc_def_spec Uint63.compare_def_spec Uint63.div_spec
Uint63.mul_spec Uint63.of_to_Z Uint63.sub_spec Uint63.land_spec Uint63.lor_spec PrimInt63.diveucl Uint63.diveucl_21_spec
PrimInt63.compare Uint63.addc_def_spec"""
UINT63_PRIMS += ["Coq.Numbers.Cyclic.Int63." + x for x in _INT63.split()]

PATH_NAMES = {1: "construct (no witnesses, before inference)", 2: "construct after inference", 3: "finalize_types -> CommitNode",
              4: "CommitNode::unfinalize_types", 5: "construct with witness values", 6: "finalize_unpruned -> RedeemNode",
              7: "RedeemNode::unfinalize", 8: "RedeemNode::to_construct_node", 9: "Node::from_parts",
              10: "CommitNode::finalize(SimpleFinalizer)", 11: "RedeemNode::prune", 12: "encode / CommitNode::decode"}


# ------------------------------------------------------------------ PDL parsing (corpus, replay)
def parse_pdl(s):
    out = []
    for tok in s.split(","):
        f = tok.split(".")
        k = f[0]
        if k in ("iden", "unit"):
            out.append((k,))
        elif k in ("injl", "injr", "take", "drop"):
            out.append((k, int(f[1])))
        elif k in ("comp", "case", "pair"):
            out.append((k, int(f[1]), int(f[2])))
        elif k == "disc":
            out.append((k, int(f[1]), None if f[2] == "-" else int(f[2])))
        elif k in ("hid", "fail"):
            out.append((k, f[1]))
        elif k == "jet":
            out.append((k, f[1], f[2]))
        elif k == "word":
            out.append((k, int(f[1]), [int(c) for c in f[2]]))
        elif k == "wit":
            if f[1] == "-":
                out.append((k, None))
            elif f[1] == "c":
                out.append((k, ("c", [] if f[2] == "-" else [int(c) for c in f[2]])))
            else:
                out.append((k, ("t", parse_ty(f[2]), [] if f[3] == "-" else [int(c) for c in f[3]])))
        else:
            raise ValueError(tok)
    return out


def parse_ty(s):
    def go(pos):
        c = s[pos]
        if c == "u":
            return pg.U, pos + 1
        if c == "w":
            return pg.word(pg.DIG.index(s[pos + 1])), pos + 2
        a, p1 = go(pos + 1)
        b, p2 = go(p1)
        return ((pg.S if c == "s" else pg.P)(a, b)), p2
    return go(0)[0]


# ------------------------------------------------------------------ python reference: erasure keys
class Keys:
    """Interned committed structures.  key(node) ignores witness values and disconnected branches; a
    hidden node whose bytes are the known root of a structure is identified with that structure
    (equality up to hiding)."""

    def __init__(self):
        self.ids = {}
        self.cmr_of = {}      # key id -> cmr tuple
        self.key_of_cmr = {}  # cmr tuple -> key id
        self.desc = {}

    def intern(self, k):
        if k not in self.ids:
            self.ids[k] = len(self.ids)
        return self.ids[k]

    def node_keys(self, prog, tab):
        """tab: the implementation's root of every node (used for jets only: a jet is an opaque leaf identified
        with the root its table gives it, exactly as in the Coq relation heq; Core and Elements jets of the same
        name are different table entries)"""
        ks = []
        for i, n in enumerate(prog):
            k = n[0]
            if k in ("iden", "unit"):
                key = (k,)
            elif k in ("injl", "injr", "take", "drop"):
                key = (k, ks[n[1]])
            elif k in ("comp", "case", "pair"):
                key = (k, ks[n[1]], ks[n[2]])
            elif k == "disc":
                key = (k, ks[n[1]])
            elif k == "hid":
                h = tuple(bytes.fromhex(n[1]))
                if h in self.key_of_cmr:
                    ks.append(self.key_of_cmr[h])
                    continue
                key = (k, n[1])
            elif k == "fail":
                key = (k, n[1])
            elif k == "jet":
                key = (k, tuple(tab[i]))
            elif k == "word":
                key = (k, n[1], tuple(n[2]))
            elif k == "wit":
                key = ("wit",)
            else:
                raise ValueError(k)
            ks.append(self.intern(key))
        return ks

    def record(self, kid, cmr):
        """returns None or (class, text)"""
        cmr = tuple(cmr)
        if kid in self.cmr_of and self.cmr_of[kid] != cmr:
            return ("not-a-function", "the same committed structure got two different roots")
        if cmr in self.key_of_cmr and self.key_of_cmr[cmr] != kid:
            return ("collision", "two different committed structures got the same root")
        self.cmr_of[kid] = cmr
        self.key_of_cmr[cmr] = kid
        return None



# ------------------------------------------------------------------ python reference: SHA-256 and cmr from scratch
_K = [0x428a2f98, 0x71374491, 0xb5c0fbcf, 0xe9b5dba5, 0x3956c25b, 0x59f111f1, 0x923f82a4, 0xab1c5ed5,
      0xd807aa98, 0x12835b01, 0x243185be, 0x550c7dc3, 0x72be5d74, 0x80deb1fe, 0x9bdc06a7, 0xc19bf174,
      0xe49b69c1, 0xefbe4786, 0x0fc19dc6, 0x240ca1cc, 0x2de92c6f, 0x4a7484aa, 0x5cb0a9dc, 0x76f988da,
      0x983e5152, 0xa831c66d, 0xb00327c8, 0xbf597fc7, 0xc6e00bf3, 0xd5a79147, 0x06ca6351, 0x14292967,
      0x27b70a85, 0x2e1b2138, 0x4d2c6dfc, 0x53380d13, 0x650a7354, 0x766a0abb, 0x81c2c92e, 0x92722c85,
      0xa2bfe8a1, 0xa81a664b, 0xc24b8b70, 0xc76c51a3, 0xd192e819, 0xd6990624, 0xf40e3585, 0x106aa070,
      0x19a4c116, 0x1e376c08, 0x2748774c, 0x34b0bcb5, 0x391c0cb3, 0x4ed8aa4a, 0x5b9cca4f, 0x682e6ff3,
      0x748f82ee, 0x78a5636f, 0x84c87814, 0x8cc70208, 0x90befffa, 0xa4506ceb, 0xbef9a3f7, 0xc67178f2]
_IV0 = (0x6a09e667, 0xbb67ae85, 0x3c6ef372, 0xa54ff53a, 0x510e527f, 0x9b05688c, 0x1f83d9ab, 0x5be0cd19)
_M = 0xFFFFFFFF


def _rotr(x, n):
    return ((x >> n) | (x << (32 - n))) & _M


def sha_compress(state, block):
    """one SHA-256 compression: state = 8 words, block = 64 bytes"""
    w = [int.from_bytes(block[4 * i:4 * i + 4], "big") for i in range(16)]
    for t in range(16, 64):
        s0 = _rotr(w[t - 15], 7) ^ _rotr(w[t - 15], 18) ^ (w[t - 15] >> 3)
        s1 = _rotr(w[t - 2], 17) ^ _rotr(w[t - 2], 19) ^ (w[t - 2] >> 10)
        w.append((w[t - 16] + s0 + w[t - 7] + s1) & _M)
    a, b, c, d, e, f, g, h = state
    for t in range(64):
        t1 = (h + (_rotr(e, 6) ^ _rotr(e, 11) ^ _rotr(e, 25)) + ((e & f) ^ (~e & _M & g)) + _K[t] + w[t]) & _M
        t2 = ((_rotr(a, 2) ^ _rotr(a, 13) ^ _rotr(a, 22)) + ((a & b) ^ (a & c) ^ (b & c))) & _M
        h, g, f, e, d, c, b, a = g, f, e, (d + t1) & _M, c, b, a, (t1 + t2) & _M
    return tuple((x + y) & _M for x, y in zip(state, (a, b, c, d, e, f, g, h)))


def _bytes(state):
    return b"".join(x.to_bytes(4, "big") for x in state)


def _state(bs):
    return tuple(int.from_bytes(bs[4 * i:4 * i + 4], "big") for i in range(8))


_tag_cache = {}


def tag_iv(tag):
    """BIP-340 style tagged-hash midstate: SHA256 state after SHA256(tag) || SHA256(tag)"""
    if tag not in _tag_cache:
        d = hashlib.sha256(tag).digest()
        _tag_cache[tag] = sha_compress(_IV0, d + d)
    return _tag_cache[tag]


def _c(name):
    return tag_iv(b"Simplicity\x1fCommitment\x1f" + name)


class RefCmr:
    """The commitment root hashed from scratch from the tag strings of the Simplicity specification
    (independent of the constants in the Rust source and of the Coq model); jets are opaque."""
    Z = bytes(32)

    def __init__(self):
        self.tmr = [None] * 32

    def up(self, iv, l, r):
        return _bytes(sha_compress(iv, l + r))

    def tmr_pow(self, n):
        if self.tmr[n] is None:
            if n == 0:
                u = _bytes(tag_iv(b"Simplicity\x1fType\x1funit"))
                self.tmr[0] = self.up(tag_iv(b"Simplicity\x1fType\x1fsum"), u, u)
            else:
                x = self.tmr_pow(n - 1)
                self.tmr[n] = self.up(tag_iv(b"Simplicity\x1fType\x1fprod"), x, x)
        return self.tmr[n]

    def word(self, n, bits):
        unit = _bytes(_c(b"unit"))
        leaf = [self.up(_c(b"injl"), self.Z, unit), self.up(_c(b"injr"), self.Z, unit)]
        level = [leaf[b] for b in bits]
        while len(level) > 1:
            level = [self.up(_c(b"pair"), level[i], level[i + 1]) for i in range(0, len(level), 2)]
        p1 = self.up(tag_iv(b"Simplicity\x1fIdentity"), self.Z, level[0])
        p2 = _bytes(sha_compress(_state(p1), _bytes(tag_iv(b"Simplicity\x1fType\x1funit")) + self.tmr_pow(n)))
        weight = bytes(24) + (len(bits)).to_bytes(8, "big")
        return self.up(tag_iv(b"Simplicity\x1fJet"), weight, p2)

    def table(self, p, impl_tab):
        """root of every node; jets take the implementation's value (opaque)"""
        out = []
        for i, n in enumerate(p):
            k = n[0]
            if k in ("iden", "unit"):
                v = _bytes(_c(k.encode()))
            elif k == "wit":
                v = _bytes(_c(b"witness"))
            elif k in ("injl", "injr", "take", "drop"):
                v = self.up(_c(k.encode()), self.Z, out[n[1]])
            elif k in ("comp", "case", "pair"):
                v = self.up(_c(k.encode()), out[n[1]], out[n[2]])
            elif k == "disc":
                v = self.up(_c(b"disconnect"), self.Z, out[n[1]])
            elif k == "hid":
                v = bytes.fromhex(n[1])
            elif k == "fail":
                e = bytes.fromhex(n[1])
                v = self.up(_c(b"fail"), e[:32], e[32:])
            elif k == "jet":
                v = bytes(impl_tab[i])
            elif k == "word":
                v = self.word(n[1], n[2])
            else:
                raise ValueError(k)
            out.append(v)
        return out


# ------------------------------------------------------------------ generation
class MBuilder(pg.Builder):
    """proggen.Builder plus: jets from the whole table (sandwiched between generated adapters), word
    constants under any source type, bigger words."""

    def __init__(self, rng, opts, jets):
        super().__init__(rng, opts)
        self.jets_all = jets

    def gen(self, a, b, depth):
        rng = self.rng
        if depth > 0 and self.jets_all and rng.below(100) < self.opts.get("jet_sandwich", 10):
            j = rng.choice(self.jets_all)
            x = self.gen(a, j[2], depth - 1)
            ji = self.add(("jet", j[0], j[1]))
            y = self.gen(j[3], b, depth - 1)
            c1 = self.add(("comp", ji, y))
            return self.add(("comp", x, c1), (a, b))
        if depth > 0 and rng.below(100) < self.opts.get("case_sandwich", 10):
            # comp (gen a -> (x + y) * c) (case l r), one branch hidden now and then
            x, y, c = pg.rand_ty(rng, 1), pg.rand_ty(rng, 1), pg.rand_ty(rng, 1)
            m = pg.P(pg.S(x, y), c)
            src = self.gen(a, m, depth - 1)
            r = rng.below(100)
            hp = self.opts.get("hidden", 10)
            if r < hp // 2:
                l = self.add(("hid", "".join("%02x" % v for v in rng.bytes(32))))
                rr = self.gen(pg.P(y, c), b, depth - 1)
            elif r < hp:
                l = self.gen(pg.P(x, c), b, depth - 1)
                rr = self.add(("hid", "".join("%02x" % v for v in rng.bytes(32))))
            else:
                l = self.gen(pg.P(x, c), b, depth - 1)
                rr = self.gen(pg.P(y, c), b, depth - 1)
            cs = self.add(("case", l, rr))
            return self.add(("comp", src, cs), (a, b))
        if depth > 0 and rng.below(100) < self.opts.get("disc_sandwich", 5):
            # comp (disconnect (l : 2^256 * a -> b1 * c) (r : c -> b2)) (gen b1 * b2 -> b)
            b1, b2, c = pg.rand_ty(rng, 1), pg.rand_ty(rng, 1), pg.rand_ty(rng, 1)
            l = self.gen(pg.P(pg.word(8), a), pg.P(b1, c), depth - 1)
            rr = self.gen(c, b2, depth - 1) if rng.below(100) < 85 else None
            d = self.add(("disc", l, rr))
            t = self.gen(pg.P(b1, b2), b, depth - 1)
            return self.add(("comp", d, t), (a, b))
        n = pg.as_word(b)
        if n is not None and a != pg.U and rng.below(100) < 40:
            u = self.add(("unit",))
            w = self.add(("word", n, rng.bits(2 ** n)))
            return self.add(("comp", u, w), (a, b))
        if n is not None and n >= 4 and a == pg.U:
            return self.add(("word", n, rng.bits(2 ** n)), (a, b))
        return super().gen(a, b, depth)


def gen_base(rng, jets, maxnodes, want):
    """type-directed programs (structure only: witness nodes without values)"""
    out = []
    tries = 0
    while len(out) < want and tries < want * 30:
        tries += 1
        program = rng.chance(1, 2)
        if program:
            a, b = pg.U, pg.U
        else:
            a, b = pg.rand_ty(rng, 2), pg.rand_ty(rng, 2)
        opts = dict(share=rng.choice([0, 25, 50]), witness=rng.choice([5, 15, 30]), fail=rng.choice([0, 2, 6]),
                    hidden=rng.choice([0, 20, 50]), disconnect=rng.choice([0, 10, 30]), word=rng.choice([5, 20, 40]),
                    comp=rng.choice([15, 30, 45]), jet_sandwich=rng.choice([0, 8, 20]),
                    case_sandwich=rng.choice([0, 10, 25]), disc_sandwich=rng.choice([0, 5, 15]))
        bld = MBuilder(rng, opts, jets)
        if program:
            # 1 -> 1 programs are boring at the root: comp (gen 1 -> m) (gen m -> 1)
            m = pg.rand_ty(rng, 2)
            x = bld.gen(pg.U, m, rng.range(2, 5))
            y = bld.gen(m, pg.U, rng.range(2, 5))
            bld.add(("comp", x, y))
        else:
            bld.gen(a, b, rng.range(2, 6))
        p = pg.compact_prog(bld.nodes)
        if 2 <= len(p) <= maxnodes:
            out.append((program, p))
    return out


def has(p, kind):
    return any(n[0] == kind for n in p)


def hide_child(p, i, side, cmr):
    """node table in which child `side` (1 left, 2 right) of case node i is replaced by a hidden node carrying cmr"""
    hexs = "".join("%02x" % b for b in cmr)
    q = []
    for k, n in enumerate(p):
        if k == i:
            q.append(("hid", hexs))
        sh = lambda c: c + 1 if c >= i else c  # noqa: E731
        kk = n[0]
        if k == i:
            l, r = sh(n[1]), sh(n[2])
            if side == 1:
                l = i
            else:
                r = i
            q.append(("case", l, r))
        elif kk in ("injl", "injr", "take", "drop"):
            q.append((kk, sh(n[1])))
        elif kk in ("comp", "case", "pair"):
            q.append((kk, sh(n[1]), sh(n[2])))
        elif kk == "disc":
            q.append((kk, sh(n[1]), None if n[2] is None else sh(n[2])))
        else:
            q.append(n)
    return pg.compact_prog(q)


def hidden_flags(p, hs):
    """python reference of what Hiding propagates: which positions end up hidden"""
    hid = []
    for i, n in enumerate(p):
        k = n[0]
        if k == "hid":
            h = True
        elif k in ("injl", "injr", "take", "drop"):
            h = hid[n[1]]
        elif k in ("comp", "pair"):
            h = hid[n[1]] or hid[n[2]]
        elif k == "case":
            h = hid[n[1]] and hid[n[2]]
        elif k == "disc":
            h = hid[n[1]]
        else:
            h = False
        hid.append(h or (i in hs))
    return hid


def rand_policy(rng, depth):
    r = rng.below(10)
    if depth <= 0 or r < 4:
        c = rng.below(6)
        if c == 0:
            return "T"
        if c == 1:
            return "U" + "".join("%02x" % b for b in rng.bytes(64))
        if c == 2:
            return "A%d;" % rng.below(2 ** 32)
        if c == 3:
            return "O%d;" % rng.below(2 ** 16)
        if c == 4:
            return "K" + "".join("%02x" % b for b in ([0] * 24 + [1] + rng.bytes(7)))
        return "S" + "".join("%02x" % b for b in rng.bytes(32))
    if r < 6:
        return "&" + rand_policy(rng, depth - 1) + rand_policy(rng, depth - 1)
    if r < 8:
        return "|" + rand_policy(rng, depth - 1) + rand_policy(rng, depth - 1)
    m = rng.range(1, 4)
    return "%%%d:%d;" % (rng.range(1, m), m) + "".join(rand_policy(rng, depth - 1) for _ in range(m))


def coq_prog(p, jet_ids):
    """proggen.prog_coq with the nat literal under `Some` scoped explicitly (case files open N_scope)"""
    import re
    return re.sub(r"\(Some (\d+)\)", r"(Some \1%nat)", pg.prog_coq(p, jet_ids))


def coq_typed_prog(p, arrows, jet_ids):
    """Core/Prog.v typed_prog: every node with the final arrow the implementation inferred"""
    import re
    items = []
    for n, ar in zip(p, arrows):
        nc = re.sub(r"\(Some (\d+)\)", r"(Some \1%nat)", pg.node_coq(n, jet_ids))
        items.append("(%s, %s)" % (nc, "None" if ar is None else "Some (%s, %s)" % (pg.ty_coq(ar[0]), pg.ty_coq(ar[1]))))
    return "[" + "; ".join(items) + "]"


def hexs(bs):
    return "".join("%02x" % b for b in bs) if bs else "-"


def load_corpus():
    d = os.path.join(vplib.VERIF, "corpus", PROP)
    out = []
    if os.path.isdir(d):
        for fn in sorted(os.listdir(d)):
            if fn.endswith(".case"):
                for line in open(os.path.join(d, fn)):
                    line = line.strip()
                    if line and not line.startswith("#"):
                        out.append((fn, line))
    return out


def table_of(r):
    """`tab` / `paths` / result prefix: 0 n (32 bytes)*n -> list of tuples, or None"""
    if not isinstance(r, list) or len(r) < 2 or r[0] != 0:
        return None
    n = r[1]
    if len(r) < 2 + 32 * n:
        return None
    return [tuple(r[2 + 32 * i: 2 + 32 * (i + 1)]) for i in range(n)]


def parse_paths(r):
    """-> (table, {code: ('ok', cmr, aux) | ('err', code)}) or None"""
    t = table_of(r)
    if t is None:
        return None
    pos = 2 + 32 * len(t)
    if pos >= len(r) or r[pos] != 77:
        return None
    pos += 1
    res = {}
    while pos < len(r):
        code, st = r[pos], r[pos + 1]
        if st == 0:
            res[code] = ("ok", tuple(r[pos + 2: pos + 34]), r[pos + 34])
            pos += 35
        else:
            res[code] = ("err", r[pos + 2])
            pos += 3
    return t, res


class Gen:
    def __init__(self, rng, tier, binary, workdir):
        self.rng = rng
        self.tier = tier
        self.binary = binary
        self.workdir = workdir
        self.cases = []
        self.k = 0
        self.jet_ids = {}
        self.groups = {}    # group id -> base root cmr
        self.base_tables = {}
        self.base_progs = {}

    def add(self, kind, line, expr, meta):
        self.k += 1
        c = Case("m%d" % self.k, kind, line, expr, meta)
        self.cases.append(c)
        return c

    def prog_case(self, kind, program, p, extra_line="", expr_fn=None, meta=None):
        m = {"prog": p, "program": program}
        m.update(meta or {})
        line = "%d %s%s" % (1 if program else 0, extra_line, pg.prog_pdl(p))
        expr = None if expr_fn is None else "%s %s" % (expr_fn, coq_prog(p, self.jet_ids))
        return self.add(kind, line, expr, m)

    def harness(self, command, lines):
        return vplib.run_harness(self.binary, command, lines, workdir=self.workdir)

    def build(self):
        rng, tier = self.rng, self.tier
        quick = tier == "quick"
        jc = pg.jet_list(self.binary, "c", self.workdir)
        je = pg.jet_list(self.binary, "e", self.workdir)
        for fam, lst in (("c", jc), ("e", je)):
            for idx, name, _s, _t in lst:
                self.jet_ids[(fam, name)] = idx
        jets = [("c", n, s, t) for _i, n, s, t in jc if pg.width(s) <= 64 and pg.width(t) <= 64]
        jets += [("e", n, s, t) for _i, n, s, t in je if pg.width(s) <= 64 and pg.width(t) <= 64]
        self.n_jets = len(jets)

        # ---- corpus first
        for fn, line in load_corpus():
            f = line.split()
            if f[0] in ("tab", "paths"):
                p = parse_pdl(f[2])
                self.prog_case(f[0], f[1] == "1", p, expr_fn="run_tab" if f[0] == "tab" else None, meta={"corpus": fn, "group": None})
            elif f[0] == "word":
                bits = [int(c) for c in f[2]]
                self.add("word", "%s %s" % (f[1], f[2]), "run_word %s %s" % (f[1], pg.coq_bools(bits)), {"n": int(f[1]), "bits": bits, "corpus": fn})
            elif f[0] in ("sha", "tag"):
                bs = list(bytes.fromhex(f[1])) if f[1] != "-" else []
                self.add(f[0], f[1], "run_%s %s" % (f[0], vplib.coq_list(bs)), {"bytes": bs, "corpus": fn})

        # ---- base programs; phase A: which of them build, their node cmrs and arrows
        want = 130 if quick else 1500
        maxnodes = 40 if quick else 90
        base = gen_base(rng, jets, maxnodes, want)
        ra = self.harness("roots", ["a%d tab %d %s" % (i, 1 if pr else 0, pg.prog_pdl(p)) for i, (pr, p) in enumerate(base)])
        rb = self.harness("prog", ["a%d arrows %d %s" % (i, 1 if pr else 0, pg.prog_pdl(p)) for i, (pr, p) in enumerate(base)])
        self.dropped = 0
        for i, (program, p) in enumerate(base):
            tab = table_of(ra.get("a%d" % i))
            arr = pg.parse_arrows(rb.get("a%d" % i))
            if tab is None:
                self.dropped += 1
                continue
            g = "g%d" % i
            self.groups[g] = tab[-1]
            self.base_tables[g] = tab
            self.base_progs[g] = p
            typed = isinstance(arr, list)
            # (1) the table itself: model correspondence node by node, and all paths without witnesses
            self.prog_case("tab", program, p, expr_fn="run_tab", meta={"group": g, "variant": "base"})
            self.prog_case("paths", program, p, meta={"group": g, "variant": "base", "typed": typed})
            # (2) witness values (two independent assignments)
            if typed and has(p, "wit"):
                for v in range(2):
                    q = pg.fill_witnesses(rng, p, arr, zero=(v == 1 and rng.chance(1, 2)))
                    self.prog_case("paths", program, q, meta={"group": g, "variant": "witness%d" % v, "typed": True})
                    if v == 0:
                        self.mr_case(program, q, arr, g)
            elif typed and i % 2 == 0:
                self.mr_case(program, p, arr, g)
            # (3) disconnected branch: dropped, or replaced by something else
            for k, n in enumerate(p):
                if n[0] == "disc" and n[2] is not None:
                    q = list(p)
                    q[k] = ("disc", n[1], None)
                    q = pg.compact_prog(q)
                    self.prog_case("paths", program, q, meta={"group": g, "variant": "no-disconnect", "typed": False})
                    q = list(p)
                    others = [j for j in range(k) if p[j][0] != "hid" and j != n[2]]
                    if others:
                        q[k] = ("disc", n[1], rng.choice(others))
                        self.prog_case("paths", program, pg.compact_prog(q), meta={"group": g, "variant": "other-disconnect", "typed": False})
                    break
            # (4) a sub-expression in a case-child position replaced by a hidden node carrying its root
            cs = [k for k, n in enumerate(p) if n[0] == "case" and p[n[1]][0] != "hid" and p[n[2]][0] != "hid"]
            for k in rng.shuffle(cs)[:2]:
                side = 1 + rng.below(2)
                q = hide_child(p, k, side, tab[p[k][side]])
                self.prog_case("tab", program, q, expr_fn="run_tab", meta={"group": g, "variant": "hidden-child"})
                self.prog_case("paths", program, q, meta={"group": g, "variant": "hidden-child", "typed": False})
            # (5) through the Hiding wrapper with a random set of hidden positions
            nh = 1 if quick else 2
            for _ in range(nh):
                cand = [k for k in range(len(p) - 1)]
                hs = sorted(set(rng.choice(cand) for _ in range(rng.below(4)))) if cand else []
                self.prog_case("hid", program, p, extra_line="%s " % (",".join(map(str, hs)) if hs else "-"),
                               expr_fn="run_hid [%s]" % "; ".join("%d%%nat" % h for h in hs),
                               meta={"group": g, "variant": "hiding", "hs": hs})
            # (5b) the "every child hidden" fallbacks of Hiding's case / assertl / assertr: hide exactly the children of a
            # case node that are not hidden nodes already, so that the node itself becomes hidden with the root of the case
            cs_all = [k for k, n in enumerate(p) if n[0] == "case" and k < len(p) - 1]
            for k in (cs_all if len(cs_all) <= 3 else [cs_all[0], cs_all[len(cs_all) // 2], cs_all[-1]]):
                hs = sorted(set(c for c in (p[k][1], p[k][2]) if p[c][0] != "hid"))
                if hs:
                    self.prog_case("hid", program, p, extra_line="%s " % ",".join(map(str, hs)),
                                   expr_fn="run_hid [%s]" % "; ".join("%d%%nat" % h for h in hs),
                                   meta={"group": g, "variant": "hiding-case-children", "hs": hs})
            # (6) from scratch: cmr_spec of the erased tree of every node (only when the unfolding is small)
            if tree_size(p) <= 400:
                self.prog_case("tab", program, p, expr_fn="run_spec_tab", meta={"group": g, "variant": "spec"})
        # ---- structural mutants: must change the root
        muts = 0
        for g, tab in list(self.base_tables.items()):
            if muts >= (40 if quick else 600):
                break
            program, p = base[int(g[1:])]
            q = mutate(rng, p)
            if q is not None:
                muts += 1
                self.prog_case("tab", program, q, expr_fn=None, meta={"group": None, "variant": "mutant", "of": g})

        # ---- words of all sizes
        for n in range(0, 3):
            for v in range(2 ** (2 ** n)):
                bits = [(v >> (2 ** n - 1 - i)) & 1 for i in range(2 ** n)]
                self.word(n, bits)
        for n in (3, 4):
            for _ in range(24 if quick else 400):
                self.word(n, rng.bits(2 ** n))
            self.word(n, [0] * 2 ** n)
            self.word(n, [1] * 2 ** n)
        for n in range(5, 10 if quick else 13):
            for _ in range((2 if n < 8 else 1) if quick else 6):
                self.word(n, rng.bits(2 ** n))
        # ---- SHA-256 itself
        lens = list(range(0, 70)) + [111, 112, 118, 119, 120, 121, 127, 128, 129, 183, 184, 191, 192, 193, 247, 248, 255, 256, 257]
        if not quick:
            lens += list(range(70, 400)) + [1000, 4096]
        for ln in lens:
            bs = rng.bytes(ln)
            self.add("sha", hexs(bs), "run_sha %s" % vplib.coq_list(bs), {"bytes": bs})
        for _ in range(20 if quick else 300):
            bs = rng.bytes(rng.range(0, 60))
            self.add("tag", hexs(bs), "run_tag %s" % vplib.coq_list(bs), {"bytes": bs})
        # ---- policies: ConstructibleCmr against the node route
        for _ in range(40 if quick else 600):
            e = rand_policy(rng, 3)
            self.add("policy", e, None, {"expr": e})
        return self.cases

    def mr_case(self, program, q, arr, g):
        """identity and annotated roots of the redeem program (library Merkle/Ihr.v; not part of the C09 claim)"""
        if max(pg.width(a[0]) + pg.width(a[1]) for a in arr if a is not None) > 2 ** 17:
            return
        line = "%d %s" % (1 if program else 0, pg.prog_pdl(q))
        self.add("mr", line, "run_mr %s" % coq_typed_prog(q, arr, self.jet_ids), {"prog": q, "program": program, "group": g, "variant": "mr"})

    def word(self, n, bits):
        self.add("word", "%d %s" % (n, pg.bstr(bits)), "run_word %d %s" % (n, pg.coq_bools(bits)), {"n": n, "bits": bits})


def tree_size(p):
    """size of the unfolded committed tree (what cmr_spec traverses)"""
    sz = []
    for n in p:
        cs = [n[1]] if n[0] == "disc" else pg.children(n)
        sz.append(1 + sum(sz[c] for c in cs))
    return sz[-1]


def mutate(rng, p):
    """a program with a different committed structure (swap a combinator for its sibling, flip a word bit,
    change fail entropy / hidden root); typing is preserved often enough"""
    idx = [k for k, n in enumerate(p) if n[0] in ("injl", "injr", "take", "drop", "word", "fail", "hid", "pair", "comp")]
    if not idx:
        return None
    k = rng.choice(idx)
    n = p[k]
    q = list(p)
    sw = {"injl": "injr", "injr": "injl", "take": "drop", "drop": "take"}
    if n[0] in sw:
        q[k] = (sw[n[0]], n[1])
    elif n[0] == "word":
        b = list(n[2])
        b[rng.below(len(b))] ^= 1
        q[k] = ("word", n[1], b)
    elif n[0] in ("fail", "hid"):
        h = bytearray(bytes.fromhex(n[1]))
        h[rng.below(len(h))] ^= 1 << rng.below(8)
        q[k] = (n[0], h.hex())
    elif n[0] in ("pair", "comp"):
        if n[1] == n[2]:
            return None
        q[k] = (n[0], n[2], n[1])
    return q


# ------------------------------------------------------------------ the property, tested directly on the implementation
class Checker:
    def __init__(self, gen, impl):
        self.gen = gen
        self.impl = impl
        self.keys = Keys()
        self.ref = RefCmr()
        self.fail = {}      # cid -> (class, text)
        self.stats = {"paths_ok": {}, "paths_err": {}, "pruned_nodes": 0, "nodes": 0, "hidden_variants": 0,
                      "mutants_built": 0, "policies": 0}
        self.prepass()

    def note(self, c, cls, text):
        if c.cid not in self.fail:
            self.fail[c.cid] = (cls, text)

    def prepass(self):
        cases = self.gen.cases
        # pass 1: base tables define root of every structure; everything else is checked against them
        order = sorted(cases, key=lambda c: 0 if c.meta.get("variant") == "base" else 1)
        for c in order:
            r = self.impl.get(c.cid)
            if c.kind in ("tab", "paths", "hid") and isinstance(r, list) and r and r[0] == 0:
                p = c.meta["prog"]
                if c.kind == "hid":
                    tab = [tuple(r[2 + 33 * i + 1: 2 + 33 * (i + 1)]) for i in range(r[1])]
                else:
                    tab = table_of(r)
                if tab is None or len(tab) != len(p):
                    self.note(c, "shape", "result does not list one root per node")
                    continue
                if c.kind == "tab" or (c.kind == "paths" and c.meta.get("variant") != "base"):
                    ref = self.ref.table(p, tab)
                    for i, (a, b) in enumerate(zip(ref, tab)):
                        if tuple(a) != tuple(b):
                            self.note(c, "from-scratch", "node %d `%s` of %s: root differs from the root hashed from scratch "
                                      "(tag strings of the specification)" % (i, pg.node_pdl(p[i])[:80], pg.prog_pdl(p)[:200]))
                            break
                ks = self.keys.node_keys(p, tab)
                for i, (kid, cm) in enumerate(zip(ks, tab)):
                    if p[i][0] == "hid":
                        continue
                    bad = self.keys.record(kid, cm)
                    if bad:
                        self.note(c, bad[0], "%s (node %d `%s` of %s, variant %s)" % (bad[1], i, pg.node_pdl(p[i]), pg.prog_pdl(p)[:200], c.meta.get("variant")))
                self.stats["nodes"] += len(p)

    def check(self, c, r):
        if r in ("CRASH", "TIMEOUT") or r is None:
            return ("crash", "implementation crashed or hung on %s %s" % (c.kind, c.line[:200]))
        if r == [9]:
            return ("panic", "implementation panicked on %s %s" % (c.kind, c.line[:200]))
        if c.cid in self.fail:
            return self.fail[c.cid]
        m = c.meta
        g = m.get("group")
        root = self.gen.groups.get(g) if g else None
        if c.kind == "tab":
            tab = table_of(r)
            if m.get("variant") == "mutant":
                if tab is not None:
                    same = (self.keys.node_keys(m["prog"], tab)[-1] ==
                            self.keys.node_keys(self.gen.base_progs[m["of"]], self.gen.base_tables[m["of"]])[-1])
                    if same:
                        return None   # the mutation did not change the committed structure (e.g. swapped equal children)
                    self.stats["mutants_built"] += 1
                    if tab[-1] == self.gen.groups[m["of"]]:
                        return ("collision", "a program with a different committed structure has the same root")
                return None
            if tab is None:
                return ("build", "table that built in phase A no longer builds: %s" % r[:3])
            if root is not None and tab[-1] != root:
                return ("root-changed", "variant %s changes the root of the program" % m.get("variant"))
            if m.get("variant") == "hidden-child":
                self.stats["hidden_variants"] += 1
        elif c.kind == "paths":
            pp = parse_paths(r)
            if pp is None:
                if m.get("variant") in ("other-disconnect",):
                    return None   # replacing the branch may not type check
                return ("build", "program no longer builds: %s" % r[:3])
            tab, res = pp
            if root is not None and tab[-1] != root:
                return ("root-changed", "variant %s changes the root of the program" % m.get("variant"))
            for code, v in sorted(res.items()):
                if v[0] == "ok":
                    self.stats["paths_ok"][code] = self.stats["paths_ok"].get(code, 0) + 1
                    if v[1] != tab[-1]:
                        return ("path-root", "conversion path %d (%s) gives a different root" % (code, PATH_NAMES.get(code)))
                    if code == 11:
                        if v[2] >= 100000:
                            return ("path-nodes", "pruning introduced %d nodes whose cmr the unpruned program does not contain" % (v[2] - 100000))
                        self.stats["pruned_nodes"] += v[2]
                    elif v[2] != 0:
                        return ("path-nodes", "conversion path %d (%s): %d converted nodes carry a cmr that no source node has"
                                % (code, PATH_NAMES.get(code), v[2]))
                else:
                    self.stats["paths_err"][code] = self.stats["paths_err"].get(code, 0) + 1
            for must in (1, 2, 9):
                if must not in res or res[must][0] != "ok":
                    return ("path-missing", "path %d did not produce a root" % must)
        elif c.kind == "hid":
            if r[0] != 0:
                if r[:2] == [1, 12]:
                    return None   # hidden right branch of a disconnect: not expressible
                return ("build", "Hiding construction failed: %s" % r[:3])
            p = m["prog"]
            n = r[1]
            flags = [r[2 + 33 * i] for i in range(n)]
            tab = [tuple(r[3 + 33 * i: 2 + 33 * (i + 1)]) for i in range(n)]
            base = self.gen.base_tables.get(g)
            if base is not None and tab != base:
                return ("hiding-root", "Hiding with hidden set %s changes a root" % m["hs"])
            exp = [1 if h else 0 for h in hidden_flags(p, set(m["hs"]))]
            if flags != exp:
                return ("hiding-flags", "Hiding with hidden set %s: hidden/visible pattern %s, expected %s" % (m["hs"], flags, exp))
            tail = r[2 + 33 * n:]
            if tail[:1] != [77]:
                return ("shape", "malformed result")
            if tail[1:2] == [1]:
                if tuple(tail[2:34]) != tab[-1]:
                    return ("hiding-root", "the node unwrapped from Hiding has a different root")
                if tail[34:35] == [0] and tuple(tail[35:67]) != tab[-1]:
                    return ("path-root", "finalising the node unwrapped from Hiding changes the root")
        elif c.kind == "mr":
            pass  # IHR / AMR: compared with the model only
        elif c.kind == "word":
            if r[0] != 0 or len(r) != 65:
                return ("word", "const_word roots not produced")
            if bytes(r[1:33]) != self.ref.word(m["n"], m["bits"]):
                return ("from-scratch", "Cmr::const_word of the %d-bit word %s differs from the root hashed from scratch"
                        % (2 ** m["n"], pg.bstr(m["bits"])[:80]))
            if r[1:33] != r[33:65]:
                return ("const-word-scribe", "Cmr::const_word of the %d-bit word %s differs from the jet-tagged identity root of "
                        "its scribe program" % (2 ** m["n"], pg.bstr(m["bits"])[:80]))
        elif c.kind == "sha":
            if r != list(hashlib.sha256(bytes(m["bytes"])).digest()):
                return ("sha", "hashes crate disagrees with hashlib on %s" % hexs(m["bytes"]))
        elif c.kind == "tag":
            if r != list(_bytes(tag_iv(bytes(m["bytes"])))):
                return ("sha", "Midstate::hash_tag disagrees with the reference on %s" % hexs(m["bytes"]))
        elif c.kind == "policy":
            if r[0] != 0 or len(r) != 65:
                return ("policy", "policy roots not produced")
            self.stats["policies"] += 1
            if r[1:33] != r[33:65]:
                return ("policy-root", "Policy::cmr differs from Policy::commit().cmr() for %s" % m["expr"][:200])
        return None


def nontrivial(c, r):
    m = c.meta
    if c.kind in ("tab", "paths", "hid", "mr") and isinstance(r, list) and r and r[0] == 0:
        p = m["prog"]
        if any(n[0] in ("wit", "disc", "hid", "word", "jet", "fail") for n in p):
            return (c.kind, m.get("variant"), pg.prog_pdl(p), tuple(m.get("hs", ())))
        return None
    if c.kind == "word":
        return ("word", m["n"], tuple(m["bits"])) if m["n"] >= 1 else None
    if c.kind in ("sha", "tag"):
        return (c.kind, tuple(m["bytes"])) if len(m["bytes"]) > 0 else None
    if c.kind == "policy":
        return ("policy", m["expr"]) if len(m["expr"]) > 1 else None
    return None


def run(rep, tier, rng):
    vplib.proof_stage(rep, "Props/C09.v", extra_targets=["Merkle/Run.vo"], allowed_axioms=UINT63_PRIMS,
                      translators=("xlate_ivs.py",))
    rep.coverage["trusted_base"] = vplib.GENERIC_TRUSTED + [
        "models Merkle/Tagged.v, Merkle/Cmr.v written by hand from merkle/{midstate,cmr}.rs, node/{mod,hiding,convert}.rs",
        "translator tools/xlate_ivs.py (regex over merkle/{cmr,ihr,amr,tmr}.rs and jet/init/{core,elements}.rs: IV constants, "
        "tag strings of the `ivs` tests, Cmr::BITS, Tmr::TWO_TWO_N, run-time tags, jet cmr tables)",
        "executable SHA-256 Merkle/Sha256.v on Uint63 primitives (FIPS vectors by vm_compute; differential against the hashes crate)",
        "injectivity (cmr_injective) assumes an injective compression function and a start state without preimage: "
        "a premise of the theorem (collision-freeness idealisation), false of any function on a finite type",
        "node tables model Arc sharing by index; post-order iteration and sharing trackers are C18's subject; "
        "type errors of the constructors are not modelled (no root exists then)",
    ]
    binary, out = vplib.harness_build("debug", crate=CRATE)
    if binary is None:
        raise vplib.Infra("harness build failed:\n" + out[-3000:])
    gen = Gen(rng, tier, binary, rep.workdir())
    cases = gen.build()
    impl, model = vplib.eval_cases(rep, binary, COMMAND, cases, IMPORTS, tag="c09", batch=60 if tier == "quick" else 120,
                                   harness_timeout=900)
    chk = Checker(gen, impl)
    pfail, mism = vplib.decide(rep, cases, impl, model, chk.check, None, nontrivial,
                               what="correspondence Merkle/Run.v vs merkle/cmr.rs + node/mod.rs")
    st = chk.stats
    rep.coverage["paths"] = {"succeeded": {PATH_NAMES[k]: v for k, v in sorted(st["paths_ok"].items())},
                             "not_applicable_or_error": {PATH_NAMES[k]: v for k, v in sorted(st["paths_err"].items())},
                             "nodes_removed_by_prune": st["pruned_nodes"]}
    rep.coverage["program_stats"] = {"base": len(gen.groups), "dropped_ill_typed": gen.dropped, "nodes_checked": st["nodes"],
                                "distinct_structures": len(chk.keys.cmr_of), "hidden_child_variants": st["hidden_variants"],
                                "mutants_built": st["mutants_built"], "policies": st["policies"], "jets_available": gen.n_jets}
    rep.coverage["rule"] = ("type-directed programs (Core + Elements jets, words of 2^0..2^10+ bits, fail, hidden branches, disconnect, "
                            "witnesses, DAG sharing); per program: node table vs model (node by node), all conversion paths, "
                            "two witness assignments, disconnected branch dropped / replaced, case children replaced by hidden nodes "
                            "carrying their root, random hidden sets through the Hiding wrapper, root hashed from scratch by cmr_spec; "
                            "globally: erased structure <-> root is a bijection over all nodes of the run; structural mutants change the "
                            "root; words exhaustive up to 4 bits and random up to 2^9 bits (quick) / 2^12 (thorough); SHA-256 on lengths around block "
                            "boundaries; policies.  Distinct = distinct (kind, variant, program); non-trivial = program with a witness, "
                            "disconnect, hidden, word, jet or fail node / word of >= 2 bits / non-empty byte string")
    rep.coverage["samples"] = [{"kind": c.kind, "args": c.line[:160], "impl": (impl.get(c.cid) or [])[:40]}
                               for c in cases[::max(1, len(cases) // 5)][:6]]
    vplib.finish_proof_verdict(rep, pfail)
    rep.assumptions += ["cmr_injective: Hypothesis compress_inj / iv_leaf (collision-freeness idealisation); cmr_collision / "
                        "C09_real_cmr_collision: no idealising premise (conclusion: equal up to hiding or an explicit collision)",
                        "C09_real_cmr_collision uses Uint63.eqb_spec: standard-library axioms eqb_correct, eqb_refl of Uint63.v",
                        "theorems about the SHA-256 instance list Uint63 primitives under Print Assumptions (kernel primitives, not axioms)"]


def replay(obj):
    import json
    print(json.dumps(obj, indent=1)[:6000])
    c = obj.get("case")
    if not c:
        return 0
    binary, _ = vplib.harness_build("debug", crate=CRATE)
    case = Case(c["id"], c["kind"], c["harness_args"], c["model_expr"], c.get("meta"))
    rep = vplib.Report(PROP, "quick", 0)
    impl, model = vplib.eval_cases(rep, binary, COMMAND, [case], IMPORTS, tag="replay")
    print("implementation:", impl.get(case.cid))
    print("model         :", model.get(case.cid))
    return 0
