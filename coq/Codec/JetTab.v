(* C01 / C02 - a concrete jet code for the codec sections: a table of codes indexed by the jet's
   position in `J::ALL`, and the decoder that the `decode_bits!` tree of a prefix-free table amounts to.
     src/jet/init/ (core, elements)   Jet::encode (`w.write_bits_be(n, len)`), Jet::decode (decode_bits! tree)
     src/macros.rs       decode_bits!: `{}` -> InvalidJet (before reading), `{jet}` -> Ok, otherwise read a
                         bit (EndOfStream) and descend
   The three hypotheses of Codec/ProgCodec.v are proved here for every table that passes [table_ok]
   (no code is a prefix of another one; in particular no duplicates).  That the real decode trees of the
   Core / Elements families are the trees of their code tables is C14's theorem (directory Jets); the
   correspondence check evaluates this decoder on the tables read from the implementation. *)
From RS Require Import Lib.Tac Lib.Outcome Lib.Bits Lib.Sweep Codec.NodeCodec.
Import ListNotations.
Local Open Scope N_scope.

Definition jtable := list (list bool).

Definition jet_okb_tab (jt : jtable) (j : N) : bool := j <? N.of_nat (length jt).
Definition jet_enc_tab (jt : jtable) (j : N) : list bool := nth (N.to_nat j) jt [].

(* candidates: (jet, bits of its code still to be matched) *)
Fixpoint cands_from (i : N) (jt : jtable) : list (N * list bool) :=
  match jt with
  | [] => []
  | c :: r => (i, c) :: cands_from (i + 1) r
  end.

Fixpoint filter_step (b : bool) (cs : list (N * list bool)) : list (N * list bool) :=
  match cs with
  | [] => []
  | (i, []) :: r => filter_step b r
  | (i, x :: c) :: r => if Bool.eqb x b then (i, c) :: filter_step b r else filter_step b r
  end.

Fixpoint find_done (cs : list (N * list bool)) : option N :=
  match cs with
  | [] => None
  | (i, []) :: _ => Some i
  | _ :: r => find_done r
  end.

Fixpoint jet_dec_go (cs : list (N * list bool)) (l : list bool) : outcome dec_err (N * list bool) :=
  match cs with
  | [] => Err EInvalidJet
  | _ =>
      match find_done cs with
      | Some i => Ok (i, l)
      | None =>
          match l with
          | [] => Err EEndOfStream
          | b :: r => jet_dec_go (filter_step b cs) r
          end
      end
  end.

Definition jet_dec_tab (jt : jtable) (l : list bool) : outcome dec_err (N * list bool) :=
  jet_dec_go (cands_from 0 jt) l.

(* the table from the (n, len) pairs of `Jet::encode` *)
Definition jet_table_of (pairs : list (N * N)) : jtable :=
  map (fun '(n, len) => bits_be (N.to_nat len) n) pairs.

(* ------------------------------------------------------------------ prefix-freeness *)
Fixpoint is_prefix (a b : list bool) : bool :=
  match a, b with
  | [], _ => true
  | x :: a', y :: b' => Bool.eqb x y && is_prefix a' b'
  | _ :: _, [] => false
  end.

(* no entry is a prefix of a later or earlier one *)
Fixpoint no_prefix_of_any (c : list bool) (r : jtable) : bool :=
  match r with
  | [] => true
  | d :: r' => negb (is_prefix c d) && negb (is_prefix d c) && no_prefix_of_any c r'
  end.
Fixpoint table_ok (jt : jtable) : bool :=
  match jt with
  | [] => true
  | c :: r => no_prefix_of_any c r && table_ok r
  end.

Lemma is_prefix_spec a : forall b, is_prefix a b = true <-> exists s, b = a ++ s.
Proof.
  induction a as [|x a IH]; intros b.
  - cbn. split; [intros _; exists b; reflexivity|auto].
  - destruct b as [|y b]; cbn.
    + split; [discriminate|intros [s H]; discriminate].
    + rewrite andb_true_iff, IH. split.
      * intros [E [s ->]]. apply eqb_prop in E. subst. exists s. reflexivity.
      * intros [s H]. injection H as -> ->. split; [apply eqb_reflx|exists s; reflexivity].
Qed.

(* ------------------------------------------------------------------ the invariant of the walk *)
(* every candidate's code is [pre ++ its remaining bits], where [pre] are the bits consumed so far *)
Definition cand_inv (jt : jtable) (pre : list bool) (cs : list (N * list bool)) : Prop :=
  forall i c, In (i, c) cs -> jet_okb_tab jt i = true /\ jet_enc_tab jt i = pre ++ c.

Lemma cands_from_In jt0 : forall jt k i c, In (i, c) (cands_from k jt) ->
  (forall m, nth (N.to_nat k + m) jt0 [] = nth m jt []) ->
  N.of_nat (length jt0) = k + N.of_nat (length jt) ->
  jet_okb_tab jt0 i = true /\ jet_enc_tab jt0 i = c.
Proof.
  induction jt as [|d jt IH]; intros k i c Hin Hn Hl; [destruct Hin|].
  cbn [cands_from] in Hin. destruct Hin as [H|H].
  - injection H as <- <-. split.
    + unfold jet_okb_tab. apply N.ltb_lt. cbn [length] in Hl. lia.
    + unfold jet_enc_tab. specialize (Hn O). rewrite Nat.add_0_r in Hn. exact Hn.
  - apply (IH (k + 1) i c H).
    + intros m. specialize (Hn (S m)). cbn [nth] in Hn. rewrite <- Hn. f_equal. lia.
    + cbn [length] in Hl. lia.
Qed.

Lemma cand_inv_init jt : cand_inv jt [] (cands_from 0 jt).
Proof.
  intros i c Hin. apply (cands_from_In jt jt 0 i c Hin); [intros m; reflexivity|lia].
Qed.

Lemma filter_step_In b cs : forall i c, In (i, c) (filter_step b cs) <-> In (i, b :: c) cs.
Proof.
  induction cs as [|[k [|x d]] r IH]; intros i c; cbn [filter_step].
  - tauto.
  - rewrite IH. cbn [In]. split; [auto|intros [H|H]; [discriminate|exact H]].
  - destruct (Bool.eqb x b) eqn:E.
    + apply eqb_prop in E. subst x. cbn [In]. rewrite IH. split.
      * intros [H|H]; [injection H as <- <-; auto|auto].
      * intros [H|H]; [injection H as <- <-; auto|auto].
    + rewrite IH. cbn [In]. split; [auto|].
      intros [H|H]; [|exact H]. injection H as _ -> _. rewrite eqb_reflx in E. discriminate.
Qed.

Lemma cand_inv_step jt pre b cs : cand_inv jt pre cs -> cand_inv jt (pre ++ [b]) (filter_step b cs).
Proof.
  intros H i c Hin. apply filter_step_In in Hin. destruct (H _ _ Hin) as [H1 H2].
  split; [exact H1|]. rewrite H2, <- app_assoc. reflexivity.
Qed.

Lemma find_done_In cs i : find_done cs = Some i -> In (i, []) cs.
Proof.
  induction cs as [|[k [|x d]] r IH]; cbn [find_done]; intros H; [discriminate| |].
  - injection H as ->. left. reflexivity.
  - right. apply IH, H.
Qed.

Lemma find_done_None cs : find_done cs = None -> forall i, ~ In (i, []) cs.
Proof.
  induction cs as [|[k [|x d]] r IH]; cbn [find_done]; intros H i Hin; [destruct Hin|discriminate|].
  destruct Hin as [E|Hin]; [discriminate|]. exact (IH H i Hin).
Qed.

(* whatever the walk accepts is a code of the table followed by the unread bits *)
Lemma jet_dec_go_inv jt : forall l pre cs j r, cand_inv jt pre cs ->
  jet_dec_go cs l = Ok (j, r) -> pre ++ l = jet_enc_tab jt j ++ r /\ jet_okb_tab jt j = true.
Proof.
  induction l as [|b l IH]; intros pre cs j r Hinv H.
  - destruct cs as [|c0 cs']; [discriminate|]. cbn [jet_dec_go] in H.
    destruct (find_done (c0 :: cs')) as [i|] eqn:E; [|discriminate]. injection H as <- <-.
    apply find_done_In in E. destruct (Hinv _ _ E) as [H1 H2]. rewrite H2, !app_nil_r. auto.
  - destruct cs as [|c0 cs']; [discriminate|]. cbn [jet_dec_go] in H.
    destruct (find_done (c0 :: cs')) as [i|] eqn:E.
    + injection H as <- <-. apply find_done_In in E. destruct (Hinv _ _ E) as [H1 H2]. rewrite H2, app_nil_r. auto.
    + destruct (IH (pre ++ [b]) _ j r (cand_inv_step jt pre b _ Hinv) H) as [H1 H2].
      rewrite <- app_assoc in H1. auto.
Qed.

Theorem jet_enc_dec_tab jt l j r : jet_dec_tab jt l = Ok (j, r) ->
  l = jet_enc_tab jt j ++ r /\ jet_okb_tab jt j = true.
Proof. intros H. exact (jet_dec_go_inv jt l [] _ j r (cand_inv_init jt) H). Qed.

Theorem jet_dec_total_tab jt l :
  match jet_dec_tab jt l with Panic _ | OutOfFuel => False | _ => True end.
Proof.
  unfold jet_dec_tab. generalize (cands_from 0 jt). induction l as [|b l IH]; intros cs.
  - destruct cs as [|c0 cs']; [exact I|]. cbn [jet_dec_go]. destruct (find_done (c0 :: cs')); exact I.
  - destruct cs as [|c0 cs']; [exact I|]. cbn [jet_dec_go]. destruct (find_done (c0 :: cs')); [exact I|apply IH].
Qed.

(* ------------------------------------------------------------------ round trip under prefix-freeness *)
Definition pf (jt : jtable) : Prop :=
  forall i k, jet_okb_tab jt i = true -> jet_okb_tab jt k = true -> i <> k ->
    is_prefix (jet_enc_tab jt i) (jet_enc_tab jt k) = false.

Lemma no_prefix_of_any_spec c r : no_prefix_of_any c r = true ->
  forall m, (m < length r)%nat -> is_prefix c (nth m r []) = false /\ is_prefix (nth m r []) c = false.
Proof.
  induction r as [|d r IH]; intros H m Hm; [cbn in Hm; lia|].
  cbn [no_prefix_of_any] in H. apply andb_true_iff in H. destruct H as [H H3].
  apply andb_true_iff in H. destruct H as [H1 H2].
  destruct m as [|m]; cbn [nth].
  - split; [destruct (is_prefix c d); [discriminate|reflexivity]|destruct (is_prefix d c); [discriminate|reflexivity]].
  - apply IH; [exact H3|cbn in Hm; lia].
Qed.

Lemma table_ok_nth jt : table_ok jt = true ->
  forall a b, (a < b)%nat -> (b < length jt)%nat ->
    is_prefix (nth a jt []) (nth b jt []) = false /\ is_prefix (nth b jt []) (nth a jt []) = false.
Proof.
  induction jt as [|c r IH]; intros H a b Hab Hb; [cbn in Hb; lia|].
  cbn [table_ok] in H. apply andb_true_iff in H. destruct H as [H1 H2].
  destruct b as [|b]; [lia|]. destruct a as [|a]; cbn [nth].
  - apply (no_prefix_of_any_spec c r H1 b). cbn in Hb. lia.
  - apply IH; [exact H2|lia|cbn in Hb; lia].
Qed.

Theorem table_ok_pf jt : table_ok jt = true -> pf jt.
Proof.
  intros H i k Hi Hk Hne. unfold jet_okb_tab in Hi, Hk. apply N.ltb_lt in Hi. apply N.ltb_lt in Hk.
  unfold jet_enc_tab.
  destruct (Nat.lt_total (N.to_nat i) (N.to_nat k)) as [Hlt|[Heq|Hgt]]; [| lia |].
  - apply (table_ok_nth jt H _ _ Hlt). lia.
  - apply (table_ok_nth jt H _ _ Hgt). lia.
Qed.

Lemma jet_dec_go_enc jt (Hpf : pf jt) j : jet_okb_tab jt j = true ->
  forall c pre cs r, cand_inv jt pre cs -> In (j, c) cs ->
  jet_dec_go cs (c ++ r) = Ok (j, r).
Proof.
  intros Hj. induction c as [|b c IH]; intros pre cs r Hinv Hin.
  - (* j is done: it is the first done candidate, any other done one would have the same code *)
    destruct cs as [|c0 cs']; [destruct Hin|]. cbn [app].
    assert (Hfd : find_done (c0 :: cs') = Some j).
    { destruct (find_done (c0 :: cs')) as [i|] eqn:E; [|exfalso; exact (find_done_None _ E j Hin)].
      f_equal. destruct (N.eq_dec i j) as [->|Hne]; [reflexivity|exfalso].
      apply find_done_In in E. destruct (Hinv _ _ E) as [Hi Ei]. destruct (Hinv _ _ Hin) as [_ Ej].
      pose proof (Hpf i j Hi Hj Hne) as P. rewrite Ei, Ej in P.
      assert (Q : is_prefix (pre ++ []) (pre ++ []) = true) by (apply is_prefix_spec; exists []; rewrite !app_nil_r; reflexivity).
      congruence. }
    destruct r; cbn [jet_dec_go]; rewrite Hfd; reflexivity.
  - destruct cs as [|c0 cs']; [destruct Hin|]. cbn [app jet_dec_go].
    assert (Hfd : find_done (c0 :: cs') = None).
    { destruct (find_done (c0 :: cs')) as [i|] eqn:E; [exfalso|reflexivity].
      apply find_done_In in E. destruct (Hinv _ _ E) as [Hi Ei]. destruct (Hinv _ _ Hin) as [_ Ej].
      assert (Hne : i <> j).
      { intros ->. rewrite Ei in Ej. apply app_inv_head in Ej. discriminate. }
      pose proof (Hpf i j Hi Hj Hne) as P. rewrite Ei, Ej in P.
      assert (Q : is_prefix (pre ++ []) (pre ++ b :: c) = true)
        by (apply is_prefix_spec; exists (b :: c); rewrite !app_nil_r; reflexivity).
      congruence. }
    rewrite Hfd. apply (IH (pre ++ [b])).
    + apply cand_inv_step, Hinv.
    + apply filter_step_In, Hin.
Qed.

Theorem jet_dec_enc_tab jt : table_ok jt = true -> forall j r, jet_okb_tab jt j = true ->
  jet_dec_tab jt (jet_enc_tab jt j ++ r) = Ok (j, r).
Proof.
  intros H j r Hj. unfold jet_dec_tab.
  apply (jet_dec_go_enc jt (table_ok_pf jt H) j Hj _ [] _ r (cand_inv_init jt)).
  (* (j, code j) is among the initial candidates *)
  unfold jet_okb_tab in Hj. apply N.ltb_lt in Hj. unfold jet_enc_tab.
  assert (G : forall jt' k m, (m < length jt')%nat -> In (k + N.of_nat m, nth m jt' []) (cands_from k jt')).
  { induction jt' as [|d jt' IH]; intros k m Hm; [cbn in Hm; lia|].
    destruct m as [|m]; cbn [cands_from nth].
    - left. f_equal. lia.
    - right. replace (k + N.of_nat (S m)) with (k + 1 + N.of_nat m) by lia. apply IH. cbn in Hm. lia. }
  specialize (G jt 0 (N.to_nat j) ltac:(lia)). rewrite N.add_0_l, N2Nat.id in G. exact G.
Qed.

(* non-vacuity: a three-jet table *)
Example table_ok_ex : table_ok [[false; false]; [false; true; true]; [true]] = true.
Proof. reflexivity. Qed.
Example jet_dec_ex :
  jet_dec_tab [[false; false]; [false; true; true]; [true]] [false; true; true; false] = Ok (1, [false])
  /\ jet_dec_tab [[false; false]; [false; true; true]; [true]] [false; true; false] = Err EInvalidJet
  /\ jet_dec_tab [[false; false]; [false; true; true]; [true]] [false; true] = Err EEndOfStream.
Proof. repeat split. Qed.
