(* C17 - executable entry point for the token-level rendering of definition lines (correspondence kind
   `linetok`: the text of string_serialize, tokenised by an independent reader in the driver, against
   the model's token list), and the parser applied to it. *)
From RS Require Import Lib.Tac Lib.Outcome Lib.Sweep Core.Prog Ty.Ty Human.Namer Human.Render Human.Resolve Human.Run
  Human.TypeText Human.TypeTextProofs Human.TypeRun Human.LineText Human.LineTextProofs.
Import ListNotations.
Local Open Scope N_scope.

Definition ltok_nums (t : ltok) : list N :=
  match t with
  | LAssign => [20] | LArrow => [21] | LHashBrace => [22] | LRBrace => [23] | LColon => [24]
  | LKw k => [25; kind_code k]
  | LJet (Some j) => [26; j]
  | LJet None => [26; 99999]
  | LLit data nbits => 27 :: nbits :: N.of_nat (length data) :: data
  | LCmr bytes => 28 :: bytes
  | LSym n => 29 :: name_nums n
  | LTy x => 30 :: token_nums x
  end.

(* the line with its arrow given as compressed ASTs (words as one node): the same tokens as
   line_tokens at the denoted types (line_tokens_a_eq, by C17_print_a_reify) *)
Definition line_tokens_a (l : defline) (a b : aty) : list ltok :=
  LSym (dl_name l) :: LAssign :: expr_tokens l ++
  [LColon] ++ map LTy (print_a true a) ++ [LArrow] ++ map LTy (print_a true b).

Lemma line_tokens_a_eq l a b : pow_ok a = true -> pow_ok b = true ->
  line_tokens_a l a b = line_tokens l (reify a) (reify b).
Proof.
  intros Ha Hb. unfold line_tokens_a, line_tokens, print_ty.
  rewrite (print_a_reify a true Ha), (print_a_reify b true Hb). reflexivity.
Qed.

Fixpoint zip_lines (ls : list defline) (arrows : list (aty * aty)) : list (defline * (aty * aty)) :=
  match ls, arrows with
  | l :: r, a :: ar => (l, a) :: zip_lines r ar
  | l :: r, [] => (l, (AOne, AOne)) :: zip_lines r []
  | [], _ => []
  end.

Definition text_tokens_a (xs : list (defline * (aty * aty))) : list ltok :=
  flat_map (fun x => line_tokens_a (fst x) (fst (snd x)) (snd (snd x))) xs.

(* what the token parser makes of the rendered tokens: 1 when it returns exactly the rendered
   definitions (names, expressions as Resolve.parse_lines has them, arrows) *)
Fixpoint expr_nums (e : expr) : list N :=
  match e with
  | ERef n => 1 :: name_nums n
  | EHole n => 2 :: name_nums n
  | ENode k pay l r =>
      3 :: kind_code k :: N.of_nat (length pay) :: pay ++
      match l with Some a => 1 :: expr_nums a | None => [0] end ++
      match r with Some b => 1 :: expr_nums b | None => [0] end
  | EAssertLit k c pay => 4 :: kind_code k :: expr_nums c ++ pay
  | EAssertExpr k c h => 5 :: kind_code k :: expr_nums c ++ expr_nums h
  end.

Definition oa_nums (o : option aty) : list N := match o with Some a => 1 :: show_a a | None => [0] end.

Definition pline_nums (p : pline_t) : list N :=
  name_nums (ln_name (pl_line p)) ++
  match ln_expr (pl_line p) with Some e => 1 :: expr_nums e | None => [0] end ++
  oa_nums (fst (pl_arrow p)) ++ oa_nums (snd (pl_arrow p)).

Definition expected_nums (x : defline * (aty * aty)) : list N :=
  name_nums (dl_name (fst x)) ++ 1 :: expr_nums (expr_of_defline (fst x)) ++
  (1 :: show_a (fst (snd x))) ++ (1 :: show_a (snd (snd x))).

Definition reparsed_same (ps : list pline_t) (xs : list (defline * (aty * aty))) : bool :=
  list_beq (list_beq N.eqb) (map pline_nums ps) (map expected_nums xs).

(* kind linetok: `0 <all_ok> <reparsed> 8 <tokens>`; the arrows of the lines (in text order) are data *)
Definition run_linetok (p : prog) (ihr cmr : list N) (arrows : list (aty * aty)) : list N :=
  let d := name_program p (parse_keys ihr) cmr in
  let xs := zip_lines (render d) arrows in
  let toks := text_tokens_a xs in
  let all_ok := forallb (fun x => line_ok (fst x) && pow_ok (fst (snd x)) && pow_ok (snd (snd x))) xs in
  let re := match plines toks with
            | Ok ps => if reparsed_same ps xs then 1 else 0
            | Err _ => 2
            | _ => 9
            end in
  0 :: b2N all_ok :: re :: 8 :: flat_map ltok_nums toks.
