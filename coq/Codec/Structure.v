(* C01 / C02 - structural layer: what the post-order traversal yields, and why a table that the decoder's
   second pass accepts is re-encoded as itself.
   Main results (sharing ids = any assignment that gives distinct positions distinct ids, which is what the
   decoder's identity-hash test establishes; `key_ptr` is the instance used by the decoder itself):
     visit_spec        invariant of the traversal: yielded positions are distinct, the tracker maps every
                       yielded position to its index, every yielded item carries the indices of its children,
                       nothing above the visited position is yielded
     dec_struct_order  dec_struct ns = Ok tt  ->  the yield order is 0, 1, ..., len-1 (canonical order)
     reencode_id       dec_struct ns = Ok tt  ->  linearise ns key = ns
     dec_struct_total  the second pass never panics on a table whose children point backwards *)
From RS Require Import Lib.Tac Lib.Outcome Lib.Bits Lib.ListExtra Lib.Sweep Bits.Natural Bits.BitIter
  Codec.NodeCodec Codec.Linearise Codec.Decode.
Import ListNotations.
Local Open Scope N_scope.

(* yield index of position p in an output list (newest first) *)
Fixpoint idx_in (out : list (N * list N)) (p : N) : option N :=
  match out with
  | [] => None
  | (q, _) :: r => if q =? p then Some (N.of_nat (length r)) else idx_in r p
  end.

Lemma idx_in_In out p i : idx_in out p = Some i -> In p (map fst out).
Proof.
  induction out as [|[q cs] r IH]; cbn [idx_in]; intros H; [discriminate|].
  destruct (N.eqb_spec q p) as [->|Hne]; [left; reflexivity|right; apply IH, H].
Qed.

Lemma idx_in_None out p : idx_in out p = None -> ~ In p (map fst out).
Proof.
  induction out as [|[q cs] r IH]; cbn [idx_in]; intros H Hin; [destruct Hin|].
  destruct (N.eqb_spec q p) as [->|Hne]; [discriminate|].
  destruct Hin as [E|Hin]; [cbn in E; congruence|exact (IH H Hin)].
Qed.

Lemma idx_in_lt out p i : idx_in out p = Some i -> i < N.of_nat (length out).
Proof.
  induction out as [|[q cs] r IH]; cbn [idx_in]; intros H; [discriminate|].
  cbn [length]. destruct (q =? p); [injection H as <-; lia|specialize (IH H); lia].
Qed.

Lemma Forall2_idx_cons out q qc : forall cs is_,
  Forall2 (fun c i => idx_in out c = Some i) cs is_ -> (forall c, In c cs -> c <> q) ->
  Forall2 (fun c i => idx_in ((q, qc) :: out) c = Some i) cs is_.
Proof.
  induction 1 as [|c i cs is_ Hci HF IH]; intros Hne; constructor.
  - cbn [idx_in]. replace (q =? c) with false; [exact Hci|].
    symmetry. apply N.eqb_neq. intros E. apply (Hne c (or_introl eq_refl)). congruence.
  - apply IH. intros c' Hc'. apply Hne. right. exact Hc'.
Qed.

Lemma Forall2_idx_self (idx : N -> option N) : forall cs is_,
  Forall2 (fun c i => idx c = Some i) cs is_ -> (forall c, In c cs -> idx c = Some c) -> is_ = cs.
Proof.
  induction 1 as [|c i cs is_ Hci HF IH]; intros Hs; [reflexivity|].
  rewrite (Hs c (or_introl eq_refl)) in Hci. injection Hci as <-. f_equal.
  apply IH. intros c' Hc'. apply Hs. right. exact Hc'.
Qed.

Lemma map_nth_seq_id {A} (l : list A) d : map (fun x => nth x l d) (seq 0 (length l)) = l.
Proof.
  induction l as [|a l IH]; cbn [length seq map nth]; [reflexivity|].
  f_equal. rewrite <- seq_shift, map_map. cbn [nth]. exact IH.
Qed.

Section Trav.
Variable ch : N -> list N.
Variable key : N -> option N.
Variable kf : N -> N.
Variable bound : N.                       (* positions below [bound] are the table *)
Hypothesis ch_wf : forall n c, In c (ch n) -> c < n.
Hypothesis key_total : forall p, p < bound -> key p = Some (kf p).
Hypothesis kf_inj : forall p q, p < bound -> q < bound -> kf p = kf q -> p = q.

Definition inv (s : tstate) : Prop :=
  ts_next s = N.of_nat (length (ts_out s)) /\
  (forall p, p < bound -> tm_get (ts_map s) (kf p) = idx_in (ts_out s) p) /\
  (forall p cis, In (p, cis) (ts_out s) -> Forall2 (fun c i => idx_in (ts_out s) c = Some i) (ch p) cis) /\
  (forall p, In p (map fst (ts_out s)) -> p < bound).

(* s' extends s by items at positions <= n; indices already assigned stay *)
Definition ext (n : N) (s s' : tstate) : Prop :=
  (exists new, ts_out s' = new ++ ts_out s /\ forall q, In q (map fst new) -> q <= n) /\
  (forall c i, idx_in (ts_out s) c = Some i -> idx_in (ts_out s') c = Some i).

Lemma ext_refl n s : ext n s s.
Proof. split; [exists []; split; [reflexivity|intros q []]|auto]. Qed.

Lemma ext_trans n m s1 s2 s3 : n <= m -> ext n s1 s2 -> ext m s2 s3 -> ext m s1 s3.
Proof.
  intros Hnm [[new1 [E1 B1]] M1] [[new2 [E2 B2]] M2]. split.
  - exists (new2 ++ new1). split; [rewrite E2, E1, app_assoc; reflexivity|].
    intros q Hq. rewrite map_app in Hq. apply in_app_or in Hq. destruct Hq as [Hq|Hq]; [apply B2, Hq|].
    specialize (B1 q Hq). lia.
  - intros c i H. apply M2, M1, H.
Qed.

Lemma ext_weaken n m s s' : n <= m -> ext n s s' -> ext m s s'.
Proof.
  intros Hnm [[new [E B]] M]. split; [exists new; split; [exact E|intros q Hq; specialize (B q Hq); lia]|exact M].
Qed.

Lemma seen_key s p : inv s -> p < bound -> seen key (ts_map s) p = idx_in (ts_out s) p.
Proof. intros (_ & H & _) Hp. unfold seen. rewrite key_total by exact Hp. apply H, Hp. Qed.

(* the children list: every child visited with a visitor that satisfies the node specification *)
Definition vspec (v : N -> tstate -> N * tstate) (c : N) : Prop :=
  forall s, inv s -> c < bound ->
    inv (snd (v c s)) /\ idx_in (ts_out (snd (v c s))) c = Some (fst (v c s)) /\ ext c s (snd (v c s)).

Lemma go_list_spec v : forall cs m s, (forall c, In c cs -> vspec v c /\ c <= m /\ c < bound) -> inv s ->
  inv (snd (go_list v cs s)) /\
  Forall2 (fun c i => idx_in (ts_out (snd (go_list v cs s))) c = Some i) cs (fst (go_list v cs s)) /\
  ext m s (snd (go_list v cs s)).
Proof.
  induction cs as [|c r IH]; intros m s Hv Hs; cbn [go_list].
  - cbn [fst snd]. split; [exact Hs|]. split; [constructor|apply ext_refl].
  - destruct (Hv c (or_introl eq_refl)) as (Hc & Hcm & Hcb).
    destruct (Hc s Hs Hcb) as (I1 & X1 & E1).
    destruct (v c s) as [i s1] eqn:Ev. cbn [fst snd] in *.
    destruct (IH m s1 (fun c' H' => Hv c' (or_intror H')) I1) as (I2 & F2 & E2).
    destruct (go_list v r s1) as [is_ s2] eqn:Eg. cbn [fst snd] in *.
    split; [exact I2|]. split.
    + constructor; [apply (proj2 E2), X1|exact F2].
    + apply (ext_trans c m s s1 s2 Hcm E1 E2).
Qed.

Lemma visit_spec : forall fuel n, n < N.of_nat fuel -> vspec (visit ch key fuel) n.
Proof.
  induction fuel as [|f IH]; intros n Hn s Hs Hb; [lia|].
  cbn [visit]. rewrite (seen_key s n Hs Hb).
  destruct (idx_in (ts_out s) n) as [i|] eqn:E0.
  - cbn [fst snd]. split; [exact Hs|]. split; [exact E0|apply ext_refl].
  - assert (Hch : forall c, In c (ch n) -> vspec (visit ch key f) c /\ c <= n - 1 /\ c < bound).
    { intros c Hc. pose proof (ch_wf n c Hc). split; [apply IH; lia|lia]. }
    destruct (go_list_spec (visit ch key f) (ch n) (n - 1) s Hch Hs) as (I1 & F1 & E1).
    destruct (go_list (visit ch key f) (ch n) s) as [cis s1] eqn:Eg. cbn [fst snd] in *.
    rewrite (seen_key s1 n I1 Hb).
    destruct (idx_in (ts_out s1) n) as [i|] eqn:E1n.
    + cbn [fst snd]. split; [exact I1|]. split; [exact E1n|]. apply (ext_weaken (n - 1) n); [lia|exact E1].
    + cbn [fst snd]. rewrite (key_total n Hb).
      destruct I1 as (N1 & M1 & C1 & B1).
      split; [|split].
      * (* invariant of the new state *)
        split; [cbn [ts_next ts_out length]; lia|]. split; [|split].
        -- intros p Hp. cbn [ts_map ts_out tm_get idx_in].
           destruct (N.eqb_spec n p) as [->|Hne].
           ++ rewrite N.eqb_refl. rewrite N1. reflexivity.
           ++ replace (kf n =? kf p) with false; [apply M1, Hp|].
              symmetry. apply N.eqb_neq. intros Hk. apply Hne, kf_inj; assumption.
        -- intros p cs Hin. cbn [ts_out] in *. destruct Hin as [Hin|Hin].
           ++ injection Hin as <- <-.
              apply Forall2_idx_cons; [exact F1|]. intros c Hc. pose proof (ch_wf n c Hc). lia.
           ++ specialize (C1 p cs Hin). apply Forall2_idx_cons; [exact C1|].
              intros c Hc E. subst c.
              (* a child of a yielded item has an index, n has none *)
              clear - C1 Hc E1n. induction C1 as [|c i cs' is' Hci HF IHF]; [destruct Hc|].
              destruct Hc as [->|Hc]; [congruence|exact (IHF Hc)].
        -- intros p Hin. cbn [ts_out map fst] in Hin. destruct Hin as [<-|Hin]; [exact Hb|apply B1, Hin].
      * cbn [ts_out idx_in]. rewrite N.eqb_refl, N1. reflexivity.
      * destruct E1 as [[new [En Bn]] Mn]. split.
        -- exists ((n, cis) :: new). cbn [ts_out]. split; [rewrite En; reflexivity|].
           cbn [map fst]. intros q [<-|Hq]; [lia|]. specialize (Bn q Hq). lia.
        -- intros c i Hci. cbn [ts_out idx_in]. specialize (Mn c i Hci).
           destruct (N.eqb_spec n c) as [->|Hne]; [congruence|exact Mn].
Qed.

Lemma inv_init : inv ts_init.
Proof.
  split; [reflexivity|]. split; [intros p _; reflexivity|]. split; [intros p cis []|intros p []].
Qed.

(* the traversal from [root]: the root is the last item, all positions are <= root and distinct, and every
   item carries the yield indices of the children of its position *)
Definition final (root : N) : tstate := snd (visit ch key (S (N.to_nat root)) root ts_init).

Lemma final_spec root : root < bound ->
  inv (final root) /\
  (exists i, idx_in (ts_out (final root)) root = Some i) /\
  (forall q, In q (map fst (ts_out (final root))) -> q <= root).
Proof.
  intros Hb. destruct (visit_spec (S (N.to_nat root)) root ltac:(lia) ts_init inv_init Hb) as (I & X & [[new [En Bn]] _]).
  fold (final root) in *. split; [exact I|]. split; [eexists; exact X|].
  intros q Hq. rewrite En in Hq. cbn [ts_out ts_init] in Hq. rewrite app_nil_r in Hq. apply Bn, Hq.
Qed.

End Trav.

(* ------------------------------------------------------------------ any injective key = pointer identity *)
Section Sim.
Variable ch : N -> list N.
Variable key : N -> option N.
Variable kf : N -> N.
Variable bound : N.
Hypothesis ch_wf : forall n c, In c (ch n) -> c < n.
Hypothesis key_total : forall p, p < bound -> key p = Some (kf p).
Hypothesis kf_inj : forall p q, p < bound -> q < bound -> kf p = kf q -> p = q.

Notation inv_k := (inv ch kf bound).
Notation inv_p := (inv ch (fun p => p) bound).

Definition same (a b : tstate) : Prop := ts_out a = ts_out b /\ ts_next a = ts_next b.

Lemma ptr_total : forall p, p < bound -> key_ptr p = Some ((fun p => p) p).
Proof. reflexivity. Qed.
Lemma ptr_inj : forall p q : N, p < bound -> q < bound -> (fun p => p) p = (fun p => p) q -> p = q.
Proof. auto. Qed.

Definition vsim (vk vp : N -> tstate -> N * tstate) (c : N) : Prop :=
  forall sk sp, inv_k sk -> inv_p sp -> same sk sp ->
    fst (vk c sk) = fst (vp c sp) /\ same (snd (vk c sk)) (snd (vp c sp)).

Lemma go_list_sim vk vp : forall cs sk sp,
  (forall c, In c cs -> vsim vk vp c /\ vspec ch kf bound vk c /\ vspec ch (fun p => p) bound vp c /\ c < bound) ->
  inv_k sk -> inv_p sp -> same sk sp ->
  fst (go_list vk cs sk) = fst (go_list vp cs sp) /\ same (snd (go_list vk cs sk)) (snd (go_list vp cs sp)).
Proof.
  induction cs as [|c r IH]; intros sk sp Hc Ik Ip Hs; cbn [go_list].
  - cbn [fst snd]. auto.
  - destruct (Hc c (or_introl eq_refl)) as (Hsim & Hvk & Hvp & Hcb).
    destruct (Hsim sk sp Ik Ip Hs) as [E1 S1].
    destruct (Hvk sk Ik Hcb) as (Ik1 & _ & _). destruct (Hvp sp Ip Hcb) as (Ip1 & _ & _).
    destruct (vk c sk) as [ik sk1]. destruct (vp c sp) as [ip sp1]. cbn [fst snd] in *.
    destruct (IH sk1 sp1 (fun c' H' => Hc c' (or_intror H')) Ik1 Ip1 S1) as [E2 S2].
    destruct (go_list vk r sk1) as [isk sk2]. destruct (go_list vp r sp1) as [isp sp2]. cbn [fst snd] in *.
    split; [congruence|exact S2].
Qed.

Lemma visit_sim : forall fuel n, n < N.of_nat fuel -> n < bound ->
  vsim (visit ch key fuel) (visit ch key_ptr fuel) n.
Proof.
  induction fuel as [|f IH]; intros n Hn Hb sk sp Ik Ip [So Sn]; [lia|].
  cbn [visit].
  rewrite (seen_key ch key kf bound key_total sk n Ik Hb).
  rewrite (seen_key ch key_ptr (fun p => p) bound ptr_total sp n Ip Hb). rewrite So.
  destruct (idx_in (ts_out sp) n) as [i|] eqn:E0.
  - cbn [fst snd]. split; [reflexivity|split; assumption].
  - assert (Hc : forall c, In c (ch n) ->
              vsim (visit ch key f) (visit ch key_ptr f) c /\ vspec ch kf bound (visit ch key f) c /\
              vspec ch (fun p => p) bound (visit ch key_ptr f) c /\ c < bound).
    { intros c Hin. pose proof (ch_wf n c Hin). split; [apply IH; lia|].
      split; [apply (visit_spec ch key kf bound ch_wf key_total kf_inj); lia|].
      split; [apply (visit_spec ch key_ptr (fun p => p) bound ch_wf ptr_total ptr_inj); lia|lia]. }
    destruct (go_list_sim _ _ (ch n) sk sp Hc Ik Ip (conj So Sn)) as [Ec [So1 Sn1]].
    assert (Hk : forall c, In c (ch n) -> vspec ch kf bound (visit ch key f) c /\ c <= n - 1 /\ c < bound).
    { intros c H. destruct (Hc c H) as (_ & A & _ & B). pose proof (ch_wf n c H). split; [exact A|split; [lia|exact B]]. }
    assert (Hp : forall c, In c (ch n) -> vspec ch (fun p => p) bound (visit ch key_ptr f) c /\ c <= n - 1 /\ c < bound).
    { intros c H. destruct (Hc c H) as (_ & _ & A & B). pose proof (ch_wf n c H). split; [exact A|split; [lia|exact B]]. }
    destruct (go_list_spec ch key kf bound ch_wf key_total kf_inj (visit ch key f) (ch n) (n - 1) sk Hk Ik) as (Ik1 & _ & _).
    destruct (go_list_spec ch key_ptr (fun p => p) bound ch_wf ptr_total ptr_inj (visit ch key_ptr f) (ch n) (n - 1) sp Hp Ip) as (Ip1 & _ & _).
    destruct (go_list (visit ch key f) (ch n) sk) as [cisk sk1].
    destruct (go_list (visit ch key_ptr f) (ch n) sp) as [cisp sp1]. cbn [fst snd] in *.
    rewrite (seen_key ch key kf bound key_total sk1 n Ik1 Hb).
    rewrite (seen_key ch key_ptr (fun p => p) bound ptr_total sp1 n Ip1 Hb). rewrite So1.
    destruct (idx_in (ts_out sp1) n) as [i|].
    + cbn [fst snd]. split; [reflexivity|split; assumption].
    + cbn [fst snd]. split; [exact Sn1|]. split; cbn [ts_out ts_next]; congruence.
Qed.

Theorem traverse_key_ptr root : root < bound -> traverse ch key root = traverse ch key_ptr root.
Proof.
  intros Hb. unfold traverse.
  destruct (visit_sim (S (N.to_nat root)) root ltac:(lia) Hb ts_init ts_init
              (inv_init ch kf bound) (inv_init ch (fun p => p) bound) (conj eq_refl eq_refl)) as [_ [So _]].
  rewrite So. reflexivity.
Qed.

End Sim.

(* ------------------------------------------------------------------ consequences for node tables *)
Section Tables.
Variable jet : Type.
Variable jet_okb : jet -> bool.
Notation dnode := (dnode jet).

Definition tch (ns : list dnode) : N -> list N := fun n => dchildren (node_at ns n).

Lemma wf_nodes_at (ns : list dnode) : forall index, wf_nodes jet jet_okb index ns ->
  forall m, (m < length ns)%nat -> wf_node jet jet_okb (index + N.of_nat m) (nth m ns DUnit).
Proof.
  induction ns as [|d ns IH]; intros index H m Hm; [cbn in Hm; lia|].
  destruct H as [Hd Hns]. destruct m as [|m]; cbn [nth].
  - replace (index + N.of_nat 0) with index by lia. exact Hd.
  - replace (index + N.of_nat (S m)) with (index + 1 + N.of_nat m) by lia. apply IH; [exact Hns|cbn in Hm; lia].
Qed.

Lemma tch_wf (ns : list dnode) : wf_nodes jet jet_okb 0 ns -> forall n c, In c (tch ns n) -> c < n.
Proof.
  intros H n c Hc. unfold tch, node_at in Hc.
  destruct (Nat.lt_ge_cases (N.to_nat n) (length ns)) as [Hlt|Hge].
  - pose proof (wf_nodes_at ns 0 H (N.to_nat n) Hlt) as W. rewrite N.add_0_l, N2Nat.id in W.
    destruct (nth (N.to_nat n) ns DUnit); cbn [dchildren wf_node] in *;
      repeat (destruct Hc as [<-|Hc]; [lia|]); try destruct Hc; try lia.
  - rewrite nth_overflow in Hc by exact Hge. destruct Hc.
Qed.

Lemma relabel_id (d : dnode) : relabel d (dchildren d) = d.
Proof. destruct d; reflexivity. Qed.

(* the items of a traversal in yield order *)
Lemma traverse_final ch key root : traverse ch key root = rev (ts_out (final ch key root)).
Proof. reflexivity. Qed.

(* position of the k-th item when the yield order is 0, 1, 2, ... *)
Lemma idx_in_rev_upto : forall (out : list (N * list N)),
  map fst (rev out) = upto (length out) -> forall p, p < N.of_nat (length out) -> idx_in out p = Some p.
Proof.
  induction out as [|[q cs] r IH]; intros H p Hp; [cbn in Hp; lia|].
  cbn [rev] in H. rewrite map_app in H. cbn [length] in H.
  unfold upto in H. rewrite seq_S, map_app in H. cbn [map Nat.add] in H.
  apply app_inj_tail in H. destruct H as [Hr Hq]. cbn [fst] in Hq.
  cbn [idx_in length]. destruct (N.eqb_spec q p) as [->|Hne].
  - f_equal. lia.
  - apply IH; [exact Hr|]. cbn [length] in Hp. lia.
Qed.

Section Accept.
Variable ns : list dnode.
Variable key : N -> option N.
Variable kf : N -> N.
Hypothesis ns_wf : wf_nodes jet jet_okb 0 ns.
Hypothesis ns_ne : ns <> [].
Hypothesis key_total : forall p, p < N.of_nat (length ns) -> key p = Some (kf p).
Hypothesis kf_inj : forall p q, p < N.of_nat (length ns) -> q < N.of_nat (length ns) -> kf p = kf q -> p = q.

Let len := N.of_nat (length ns).
Let root := len - 1.

Lemma root_lt : root < len.
Proof. unfold root, len. destruct ns; [congruence|cbn [length]; lia]. Qed.

(* the encoder writes the table itself as soon as the yield order is the identity *)
Lemma linearise_of_order : order_of ns key = upto (length ns) -> linearise ns key = ns.
Proof.
  intros Ho. unfold linearise, order_of in Ho |- *. fold len in Ho |- *. fold root in Ho |- *.
  rewrite traverse_final in Ho |- *. fold (tch ns) in Ho |- *.
  destruct (final_spec (tch ns) key kf len (tch_wf ns ns_wf) key_total kf_inj root root_lt) as ((N1 & M1 & C1 & B1) & _ & _).
  set (out := ts_out (final (tch ns) key root)) in *.
  assert (Hlen : length out = length ns).
  { apply (f_equal (@length N)) in Ho. rewrite map_length, rev_length in Ho. unfold upto in Ho.
    rewrite map_length, seq_length in Ho. exact Ho. }
  assert (Hidx : forall p, p < len -> idx_in out p = Some p).
  { intros p Hp. apply idx_in_rev_upto; [rewrite Hlen; exact Ho|rewrite Hlen; exact Hp]. }
  (* every item carries the children of its own position *)
  assert (Hitems : forall p cis, In (p, cis) out -> cis = tch ns p).
  { intros p cis Hin. specialize (C1 p cis Hin).
    assert (Hp : p < len) by (apply B1, in_map_iff; exists (p, cis); auto).
    apply (Forall2_idx_self (idx_in out) _ _ C1).
    intros c Hc. apply Hidx. pose proof (tch_wf ns ns_wf p c Hc). lia. }
  (* map over the items = map over the positions *)
  transitivity (map (fun p => node_at ns p) (map fst (rev out))).
  - rewrite map_map. apply map_ext_in. intros [p cis] Hin. cbn [fst snd].
    apply in_rev in Hin. rewrite (Hitems p cis Hin). apply relabel_id.
  - rewrite Ho. unfold upto. rewrite map_map. unfold node_at.
    rewrite <- (map_nth_seq_id ns DUnit) at 2. apply map_ext. intros x. rewrite Nat2N.id. reflexivity.
Qed.

End Accept.

(* ------------------------------------------------------------------ the decoder's loop *)
(* a successful conversion loop has seen the positions k, k+1, ... in this order *)
Lemma conv_loop_items (ns : list dnode) : forall items k converted hidden res,
  conv_loop ns items k converted hidden = Ok res ->
  items = map (fun i => k + N.of_nat i) (seq 0 (length items)) /\ length res = (length converted + length items)%nat.
Proof.
  induction items as [|n rest IH]; intros k converted hidden res H; cbn [conv_loop] in H.
  - injection H as <-. split; [reflexivity|cbn; lia].
  - destruct (N.eqb_spec k n) as [<-|Hne]; cbn [negb] in H; [|discriminate].
    destruct (conv_node (node_at ns k) converted hidden) as [[c hidden']| | |]; try discriminate.
    destruct (IH _ _ _ _ H) as [Hr Hl]. split.
    + cbn [length seq map]. f_equal; [lia|]. rewrite Hr at 1. rewrite <- seq_shift, map_map.
      apply map_ext. intros i. lia.
    + rewrite Hl, app_length. cbn [length]. lia.
Qed.

Theorem dec_struct_order (ns : list dnode) :
  wf_nodes jet jet_okb 0 ns -> dec_struct ns = Ok tt -> order_of ns key_ptr = upto (length ns).
Proof.
  intros Hwf H. unfold dec_struct in H.
  destruct (Nat.eqb_spec (length ns) 0) as [E0|E0]; [discriminate|].
  destruct (conv_loop ns (order_of ns key_ptr) 0 [] []) as [converted| | |] eqn:Ec; try discriminate.
  destruct (conv_loop_items _ _ _ _ _ _ Ec) as [Hitems Hlen]. cbn [length Nat.add] in Hlen.
  (* the final lookup succeeded: at least len items; all positions are <= root: at most len *)
  unfold conv_get in H.
  destruct (nth_error converted (N.to_nat (N.of_nat (length ns) - 1))) as [b|] eqn:En; [|discriminate].
  assert (Hge : (length ns <= length (order_of ns key_ptr))%nat).
  { assert (Hs : nth_error converted (N.to_nat (N.of_nat (length ns) - 1)) <> None) by congruence.
    apply nth_error_Some in Hs. lia. }
  assert (Hne : ns <> []) by (intros ->; cbn in E0; lia).
  assert (Hle : (length (order_of ns key_ptr) <= length ns)%nat).
  { set (m := length (order_of ns key_ptr)) in *.
    destruct (Nat.le_gt_cases m (length ns)) as [Hm|Hm]; [exact Hm|exfalso].
    (* position [length ns] would be among the items *)
    assert (Hin : In (N.of_nat (length ns)) (order_of ns key_ptr)).
    { rewrite Hitems. apply in_map_iff. exists (length ns). split; [lia|apply in_seq; lia]. }
    unfold order_of in Hin. rewrite traverse_final in Hin. rewrite map_rev in Hin. apply in_rev in Hin.
    destruct (final_spec (tch ns) key_ptr (fun p => p) (N.of_nat (length ns)) (tch_wf ns Hwf)
                (fun p _ => eq_refl) (fun p q _ _ E => E) (N.of_nat (length ns) - 1)) as (_ & _ & B).
    { destruct ns; [congruence|cbn [length]; lia]. }
    specialize (B _ Hin). destruct ns; [congruence|cbn [length] in B; lia]. }
  rewrite Hitems. replace (length (order_of ns key_ptr)) with (length ns) by lia.
  unfold upto. apply map_ext. intros i. lia.
Qed.

(* any assignment of sharing ids that gives distinct positions distinct ids (what the identity-hash test of
   the decoders establishes, and what the hidden_set test establishes for hidden nodes) re-encodes an
   accepted table as itself *)
Theorem reencode_id (ns : list dnode) (key : N -> option N) (kf : N -> N) :
  wf_nodes jet jet_okb 0 ns ->
  (forall p, p < N.of_nat (length ns) -> key p = Some (kf p)) ->
  (forall p q, p < N.of_nat (length ns) -> q < N.of_nat (length ns) -> kf p = kf q -> p = q) ->
  dec_struct ns = Ok tt -> linearise ns key = ns.
Proof.
  intros Hwf Hk Hinj H.
  assert (Hne : ns <> []) by (intros ->; discriminate H).
  apply (linearise_of_order ns key kf Hwf Hne Hk Hinj).
  rewrite <- (dec_struct_order ns Hwf H). unfold order_of. f_equal.
  apply (traverse_key_ptr (tch ns) key kf (N.of_nat (length ns)) (tch_wf ns Hwf) Hk Hinj).
  destruct ns; [congruence|cbn [length]; lia].
Qed.

(* ------------------------------------------------------------------ no panic in the second pass *)
Lemma conv_get_total converted i : (N.to_nat i < length converted)%nat ->
  match conv_get converted i with Panic _ | OutOfFuel => False | _ => True end.
Proof.
  intros H. unfold conv_get. destruct (nth_error converted (N.to_nat i)) as [[|]|] eqn:E; try exact I.
  apply nth_error_None in E. lia.
Qed.

Lemma conv_node_total (d : dnode) converted hidden :
  (forall c, In c (dchildren d) -> (N.to_nat c < length converted)%nat) ->
  match conv_node d converted hidden with Panic _ | OutOfFuel => False | _ => True end.
Proof.
  intros H.
  assert (U : forall c, In c (dchildren d) ->
            match conv_get converted c with Panic _ | OutOfFuel => False | _ => True end).
  { intros c Hc. apply conv_get_total, H, Hc. }
  destruct d; cbn [conv_node dchildren] in *; try exact I.
  - pose proof (U i (or_introl eq_refl)) as T. destruct (conv_get converted i); auto.
  - pose proof (U i (or_introl eq_refl)) as T. destruct (conv_get converted i); auto.
  - pose proof (U i (or_introl eq_refl)) as T. destruct (conv_get converted i); auto.
  - pose proof (U i (or_introl eq_refl)) as T. destruct (conv_get converted i); auto.
  - pose proof (U i (or_introl eq_refl)) as T. pose proof (U j (or_intror (or_introl eq_refl))) as T2.
    destruct (conv_get converted i); auto. destruct (conv_get converted j); auto.
  - (* case *)
    destruct (nth_error converted (N.to_nat i)) as [x|] eqn:Ei.
    + destruct (nth_error converted (N.to_nat j)) as [y|] eqn:Ej.
      * destruct (negb x && negb y); exact I.
      * apply nth_error_None in Ej. specialize (H j (or_intror (or_introl eq_refl))). lia.
    + apply nth_error_None in Ei. specialize (H i (or_introl eq_refl)). lia.
  - pose proof (U i (or_introl eq_refl)) as T. pose proof (U j (or_intror (or_introl eq_refl))) as T2.
    destruct (conv_get converted i); auto. destruct (conv_get converted j); auto.
  - pose proof (U i (or_introl eq_refl)) as T. destruct (conv_get converted i); auto.
  - pose proof (U i (or_introl eq_refl)) as T. pose proof (U j (or_intror (or_introl eq_refl))) as T2.
    destruct (conv_get converted i); auto. destruct (conv_get converted j); auto.
  - destruct (cmr_mem cmr hidden); exact I.
Qed.

Lemma conv_loop_total (ns : list dnode) : wf_nodes jet jet_okb 0 ns ->
  forall items k converted hidden, length converted = N.to_nat k ->
  match conv_loop ns items k converted hidden with Panic _ | OutOfFuel => False | _ => True end.
Proof.
  intros Hwf. induction items as [|n rest IH]; intros k converted hidden Hl; cbn [conv_loop]; [exact I|].
  destruct (N.eqb_spec k n) as [<-|Hne]; cbn [negb]; [|exact I].
  pose proof (conv_node_total (node_at ns k) converted hidden) as T.
  assert (Hc : forall c, In c (dchildren (node_at ns k)) -> (N.to_nat c < length converted)%nat).
  { intros c Hc. pose proof (tch_wf ns Hwf k c Hc). lia. }
  specialize (T Hc). destruct (conv_node (node_at ns k) converted hidden) as [[c hidden']| | |]; auto.
  apply IH. rewrite app_length. cbn [length]. lia.
Qed.

Theorem dec_struct_total (ns : list dnode) : wf_nodes jet jet_okb 0 ns -> ns <> [] ->
  match dec_struct ns with Panic _ | OutOfFuel => False | _ => True end.
Proof.
  intros Hwf Hne. unfold dec_struct.
  destruct (Nat.eqb_spec (length ns) 0) as [E0|E0]; [destruct ns; [congruence|discriminate]|].
  pose proof (conv_loop_total ns Hwf (order_of ns key_ptr) 0 [] [] eq_refl) as T.
  destruct (conv_loop ns (order_of ns key_ptr) 0 [] []) as [converted| | |] eqn:Ec; auto.
  apply conv_get_total.
  (* the root is among the items, and the items are 0 .. m-1 *)
  destruct (conv_loop_items _ _ _ _ _ _ Ec) as [Hitems Hlen]. cbn [length Nat.add] in Hlen.
  destruct (final_spec (tch ns) key_ptr (fun p => p) (N.of_nat (length ns)) (tch_wf ns Hwf)
              (fun p _ => eq_refl) (fun p q _ _ E => E) (N.of_nat (length ns) - 1) ltac:(lia)) as (_ & [i Hi] & _).
  apply idx_in_In in Hi. apply in_rev in Hi. rewrite <- map_rev in Hi.
  change (In (N.of_nat (length ns) - 1) (order_of ns key_ptr)) in Hi.
  rewrite Hitems in Hi. apply in_map_iff in Hi. destruct Hi as (x & Hx & Hin). apply in_seq in Hin. lia.
Qed.

End Tables.
