(* C04, phase 3 - layer (c), assembled: the construction stage of the slab model (all arrow constructors in
   sequence, then set_arrow_to_program) against the reference inference.

     construct_sim    if the reference generates constraints for the table (gen = Some g, root_tmpl = Some ..),
                      then the construction stage of Slab/RunSlab.r_infer
                        - fails with Error::Bind at stage st (0: a constructor, 1: the program root) only when
                          the reference `infer` returns Err (EBind st), for the same st;
                        - never reports a shape error or an occurs-check error;
                        - when it succeeds, the reference passes both unification stages (infer returns Ok or
                          Err EOccurs), and the slab state has exactly the models of ALL generated constraints
                          through an embedding em of UbElements into store variables - in finite types and in
                          infinite trees - with the node arrows corresponding: g_arr g = map (amap em) ar.
   (Panic / OutOfFuel outcomes of the slab model are not excluded.) *)
From RS Require Import Lib.Tac Lib.Outcome Ty.Ty Core.Prog Infer.Constraints Infer.Unify Infer.Infer Infer.Gen Infer.Theorems
  Infer.Principal Infer.Order Infer.Run Infer.UnionFind Infer.Slab Infer.SlabProofs Infer.Rational Infer.ErrClass Infer.SlabSim Infer.SlabSimInst
  Infer.SlabPrims Infer.SlabNodes Infer.SlabNodes2 Infer.SlabNodes3 Infer.SlabNodes4 Infer.SlabNodes5.
Import ListNotations.
Local Open Scope outcome_scope.

(* the first two steps of RunSlab.r_infer *)
Definition r_construct (fuel : nat) (jt : jet_table) (program : bool) (p : prog) (root : nat) : rres (ctx * list (option varrow)) :=
  '(c, ar) <- r_nodes fuel jt empty_ctx [] p ;;
  c <- (if program then
          match nth root ar None with
          | Some a => r_set_program fuel c a
          | None => Err (RShape, c)
          end
        else Ok c) ;;
  Ok (c, ar).

Lemma Sim_consistent c s eqs em : Sim c s eqs em -> consistent s eqs.
Proof.
  intros [(CW & _) _ [_ M2]]. destruct (M2 (rwalk c) (rwalk_model c CW)) as (al & [Sa Ea] & _).
  exists al. split; assumption.
Qed.

Lemma arr_of_nth {A} (ar : list (option A)) r : arr_of ar r = nth r ar None.
Proof.
  unfold arr_of. destruct (nth_error ar r) as [[a|]|] eqn:E.
  - symmetry. apply nth_error_nth with (d := None) in E. exact E.
  - symmetry. apply nth_error_nth with (d := None) in E. exact E.
  - symmetry. apply nth_overflow. apply nth_error_None. exact E.
Qed.

Lemma infer_err_kinds jt root p g rb re e : gen jt p = Some g -> root_tmpl g root = Some (rb, re) ->
  infer jt root p = Err e -> e = EBind 0 \/ e = EBind 1 \/ e = EOccurs.
Proof.
  intros G R. unfold infer. rewrite G, R.
  destruct (solve (g_store g) (g_eqs g)) as [s1|[]| |]; cbn [lift_solve obind]; try discriminate.
  - destruct (solve (s1 ++ rb) re) as [s2|[]| |]; cbn [lift_solve obind]; try discriminate.
    + destruct (occurs_ok s2); [discriminate|]. intros E. injection E as <-. auto.
    + intros E. injection E as <-. auto.
  - intros E. injection E as <-. auto.
Qed.

Theorem construct_sim (fuel : nat) (jt : jet_table) (program : bool) (p : prog) (root : nat) (g : gstate) rb re :
  gen jt p = Some g -> root_tmpl g (if program then Some root else None) = Some (rb, re) ->
  match r_construct fuel jt program p root with
  | Ok (c, ar) =>
      (exists em, Sim c (g_store g ++ rb) (g_eqs g ++ re) em /\ g_arr g = map (amap em) ar /\ arr_in (length (c_uf c)) ar) /\
      ((exists tau, infer jt (if program then Some root else None) p = Ok tau) \/
       infer jt (if program then Some root else None) p = Err EOccurs)
  | Err (RBind st _ _, _) => infer jt (if program then Some root else None) p = Err (EBind st)
  | Err _ => False
  | _ => True
  end.
Proof.
  intros G R. unfold r_construct.
  destruct (infer_class_char jt (if program then Some root else None) p g rb re G R) as (C0 & C1 & C2 & C3).
  pose proof (r_nodes_sim fuel jt p empty_ctx [] [] (fun e => e) [] g Sim_empty) as N.
  specialize (N ltac:(intros ch x y E; destruct ch; discriminate) G).
  destruct (r_nodes fuel jt empty_ctx [] p) as [[c ar]|[[|st0 ex0 nb0|] ce]| |]; cbn [obind]; try exact N; try exact I.
  2:{ destruct st0; [|destruct N]. apply C0. exact N. }
  destruct N as (em & S0 & Ea & Ai).
  pose proof (Sim_consistent _ _ _ _ S0) as Cons0.
  assert (Fin : forall c' em', Sim c' (g_store g ++ rb) (g_eqs g ++ re) em' ->
            (exists tau, infer jt (if program then Some root else None) p = Ok tau) \/
            infer jt (if program then Some root else None) p = Err EOccurs).
  { intros c' em' S'. pose proof (Sim_consistent _ _ _ _ S') as Cons1.
    destruct (infer jt (if program then Some root else None) p) as [tau|e| |] eqn:Inf.
    - left. eauto.
    - right. destruct (infer_err_kinds _ _ _ _ _ _ _ G R Inf) as [-> | [-> | ->]].
      + exfalso. apply (proj1 C0 eq_refl). exact Cons0.
      + exfalso. apply (proj1 C1 eq_refl). exact Cons1.
      + reflexivity.
    - exfalso. pose proof (infer_total_outcome jt (if program then Some root else None) p) as T. rewrite Inf in T. exact T.
    - exfalso. pose proof (infer_total_outcome jt (if program then Some root else None) p) as T. rewrite Inf in T. exact T. }
  destruct program.
  - (* set_arrow_to_program *)
    cbn [root_tmpl] in R. rewrite Ea, arr_of_amap, arr_of_nth in R.
    destruct (nth root ar None) as [[x y]|] eqn:Er; cbn [amap] in R; [|discriminate]. injection R as <- <-.
    assert (Lxy : (x < length (c_uf c))%nat /\ (y < length (c_uf c))%nat) by (apply (Ai root); rewrite arr_of_nth; exact Er).
    destruct Lxy as [Lx Ly].
    pose proof (set_program_sim fuel c _ _ em x y S0 Lx Ly) as P.
    destruct (r_set_program fuel c (x, y)) as [c'|[[|st0 ex0 nb0|] ce]| |]; cbn [obind]; try exact P; try exact I.
    + destruct P as (em' & Ex & S' & Lc). split; [|apply (Fin c' em' S')].
      exists em'. split; [exact S'|]. split.
      * rewrite Ea. symmetry. apply (map_amap_ext em em' (length (c_uf c))); assumption.
      * intros ch a b E. destruct (Ai ch a b E). lia.
    + destruct st0 as [|[q|q|]]; try (destruct P; fail).
      apply C1. split; [exact Cons0|exact P].
  - cbn [root_tmpl] in R. injection R as <- <-. rewrite !app_nil_r in *.
    split; [exists em; auto|]. apply (Fin c em). exact S0.
Qed.
