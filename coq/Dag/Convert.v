(* C18 - model of the generic conversion driven by the post-order iterator:
     src/node/mod.rs      Node::convert
     src/node/convert.rs  trait Converter (visit_node, convert_witness, convert_disconnect,
                          prune_case -> Hide, convert_data)
     src/node/inner.rs    Inner::{as_dag, map_left_right, map_witness_result,
                          map_disconnect_result, map}
     src/dag.rs           impl DagLike for &Node<N> (as_dag_node), Disconnectable::disconnect_dag_ref

   Conventions (those of DagModel.v)
   - The source DAG is a node table `list snode`; pointer identity of a source node is its
     position; children sit at smaller positions.
   - `converted : Vec<Arc<Node<M>>>` is a `list tnode`; every `Arc::new` of the loop creates one new
     entry, so pointer identity of a converted node is its position in `converted`, and
     `Arc::clone(&converted[idx])` is the number idx.  The result `converted.pop().unwrap()` is the
     last entry; the model returns the whole vector (root = last position).
   - The converter is an abstract record of state-passing hooks (`&mut self` = the state St);
     a hook that is given `&Arc<Node<M>>` arguments receives `converted` and positions into it.
   - unwrap / indexing are explicit Panic outcomes:
       20  the item's node is not in the table (model artefact: `data.node` is a reference)
       21  `data.left_index.unwrap()`            22  `data.right_index.unwrap()`
       23  `&converted[idx]` of maybe_converted  24  `Arc::clone(&converted[*idx])`
       25  `converted.pop().unwrap()` on an empty vector
   - CMRs, fail entropy, jets and words are numbers (the conversion only copies them). *)
From RS Require Import Lib.Tac Lib.Outcome Dag.DagModel.
Import ListNotations.
Local Open Scope N_scope.

(* ------------------------------------------------------------------ Inner<C, X, W> *)
Inductive inner (C X W : Type) : Type :=
| IIden
| IUnit
| IInjL (c : C)
| IInjR (c : C)
| ITake (c : C)
| IDrop (c : C)
| IComp (l r : C)
| ICase (l r : C)
| IAssertL (c : C) (h : N)
| IAssertR (h : N) (c : C)
| IPair (l r : C)
| IDisconnect (c : C) (x : X)
| IWitness (w : W)
| IFail (e : N)
| IJet (j : N)
| IWord (w : N).
Arguments IIden {C X W}. Arguments IUnit {C X W}. Arguments IInjL {C X W}. Arguments IInjR {C X W}.
Arguments ITake {C X W}. Arguments IDrop {C X W}. Arguments IComp {C X W}. Arguments ICase {C X W}.
Arguments IAssertL {C X W}. Arguments IAssertR {C X W}. Arguments IPair {C X W}.
Arguments IDisconnect {C X W}. Arguments IWitness {C X W}. Arguments IFail {C X W}.
Arguments IJet {C X W}. Arguments IWord {C X W}.

(* the combinator, as a number (used by Run and by the statements about hooks) *)
Definition kind_of {C X W} (i : inner C X W) : N :=
  match i with
  | IIden => 0 | IUnit => 1 | IInjL _ => 2 | IInjR _ => 3 | ITake _ => 4 | IDrop _ => 5
  | IComp _ _ => 6 | ICase _ _ => 7 | IAssertL _ _ => 8 | IAssertR _ _ => 9 | IPair _ _ => 10
  | IDisconnect _ _ => 11 | IWitness _ => 12 | IFail _ => 13 | IJet _ => 14 | IWord _ => 15
  end.

(* the child pointers held directly by the combinator (not the one inside the disconnect data) *)
Definition ichildren {C X W} (i : inner C X W) : list C :=
  match i with
  | IInjL c | IInjR c | ITake c | IDrop c | IAssertL c _ | IAssertR _ c | IDisconnect c _ => [c]
  | IComp l r | ICase l r | IPair l r => [l; r]
  | _ => []
  end.

(* Inner::map / map_disconnect / map_witness in one *)
Definition imap {C X W C2 X2 W2} (f : C -> C2) (g : X -> X2) (k : W -> W2) (i : inner C X W)
  : inner C2 X2 W2 :=
  match i with
  | IIden => IIden | IUnit => IUnit
  | IInjL c => IInjL (f c) | IInjR c => IInjR (f c) | ITake c => ITake (f c) | IDrop c => IDrop (f c)
  | IComp l r => IComp (f l) (f r) | ICase l r => ICase (f l) (f r)
  | IAssertL c h => IAssertL (f c) h | IAssertR h c => IAssertR h (f c)
  | IPair l r => IPair (f l) (f r)
  | IDisconnect c x => IDisconnect (f c) (g x)
  | IWitness w => IWitness (k w)
  | IFail e => IFail e | IJet j => IJet j | IWord w => IWord w
  end.

Inductive hide : Type := HideNeither | HideLeft | HideRight.

Definition dag_kids (dn : dagnode) : list nat :=
  match dn with Nul => [] | Un c => [c] | Bin l r => [l; r] end.

Section Convert.
Context {X W D X' W' D' St Er : Type}.

(* Disconnectable::disconnect_dag_ref : Some r = Dag::Binary(left, r), None = Dag::Unary(left)
   (NoDisconnect / Arc<str>: always None; Arc<L>: always Some; Option<Arc<L>>: either) *)
Variable dis : X -> option nat.

Record snode : Type := mk_snode { sn_inner : inner nat X W; sn_cmr : N; sn_data : D }.
Record tnode : Type := mk_tnode { tn_inner : inner nat X' W'; tn_cmr : N; tn_data : D' }.

(* impl DagLike for &Node<N> :: as_dag_node *)
Definition as_dag (i : inner nat X W) : dagnode :=
  match i with
  | IIden | IUnit | IFail _ | IJet _ | IWord _ | IWitness _ => Nul
  | IInjL c | IInjR c | ITake c | IDrop c | IAssertL c _ | IAssertR _ c => Un c
  | IComp l r | ICase l r | IPair l r => Bin l r
  | IDisconnect l x => match dis x with Some r => Bin l r | None => Un l end
  end.

Definition src_children (t : list snode) : nat -> dagnode :=
  fun n => match nth_error t n with Some s => as_dag (sn_inner s) | None => Nul end.

(* children sit at smaller positions *)
Definition swf (t : list snode) : Prop :=
  forall n s, nth_error t n = Some s -> node_ok n (as_dag (sn_inner s)).

(* Result<A, C::Error> *)
Inductive result (A : Type) : Type := ROk (a : A) | RErr (e : Er).
Arguments ROk {A} a. Arguments RErr {A} e.

(* trait Converter<N, M>.  Every hook gets the iterator item; hooks that are handed converted
   nodes get the vector and the positions. *)
Record converter : Type := mk_converter {
  cv_visit : St -> po_item -> St;
  cv_witness : St -> po_item -> W -> St * result W';
  cv_disconnect : St -> po_item -> list tnode -> option nat -> X -> St * result X';
  cv_prune : St -> po_item -> list tnode -> nat -> nat -> St * result hide;
  cv_data : St -> po_item -> list tnode -> inner nat X' W' -> St * result D' }.

Definition oc (A : Type) : Type := outcome (St * Er) A.

Definition lift_hook {A B} (r : St * result A) (k : St -> A -> oc B) : oc B :=
  match r with
  | (s, ROk a) => k s a
  | (s, RErr e) => Err (s, e)
  end.

Definition unwrap_idx {A} (code : N) (o : option A) : oc A :=
  match o with Some i => Ok i | None => Panic code end.

(* `.map_left_right(|_| data.left_index.unwrap(), |_| data.right_index.unwrap())` *)
Definition idx_inner (i : inner nat X W) (li ri : option N) : oc (inner N X W) :=
  match i with
  | IIden => Ok IIden
  | IUnit => Ok IUnit
  | IInjL _ => omap IInjL (unwrap_idx 21 li)
  | IInjR _ => omap IInjR (unwrap_idx 21 li)
  | ITake _ => omap ITake (unwrap_idx 21 li)
  | IDrop _ => omap IDrop (unwrap_idx 21 li)
  | IComp _ _ => obind (unwrap_idx 21 li) (fun l => omap (IComp l) (unwrap_idx 22 ri))
  | ICase _ _ => obind (unwrap_idx 21 li) (fun l => omap (ICase l) (unwrap_idx 22 ri))
  | IAssertL _ h => omap (fun l => IAssertL l h) (unwrap_idx 21 li)
  | IAssertR h _ => omap (IAssertR h) (unwrap_idx 21 li)
  | IPair _ _ => obind (unwrap_idx 21 li) (fun l => omap (IPair l) (unwrap_idx 22 ri))
  | IDisconnect _ x => omap (fun l => IDisconnect l x) (unwrap_idx 21 li)
  | IWitness w => Ok (IWitness w)
  | IFail e => Ok (IFail e)
  | IJet j => Ok (IJet j)
  | IWord w => Ok (IWord w)
  end.

Variable cv : converter.

(* `.map_witness_result(|wit| converter.convert_witness(&data, wit))?` *)
Definition wit_inner (it : po_item) (s : St) (i : inner N X W) : oc (St * inner N X W') :=
  match i with
  | IWitness w => lift_hook (cv_witness cv s it w) (fun s' w' => Ok (s', IWitness w'))
  | IIden => Ok (s, IIden) | IUnit => Ok (s, IUnit)
  | IInjL c => Ok (s, IInjL c) | IInjR c => Ok (s, IInjR c)
  | ITake c => Ok (s, ITake c) | IDrop c => Ok (s, IDrop c)
  | IComp l r => Ok (s, IComp l r) | ICase l r => Ok (s, ICase l r)
  | IAssertL c h => Ok (s, IAssertL c h) | IAssertR h c => Ok (s, IAssertR h c)
  | IPair l r => Ok (s, IPair l r)
  | IDisconnect c x => Ok (s, IDisconnect c x)
  | IFail e => Ok (s, IFail e) | IJet j => Ok (s, IJet j) | IWord w => Ok (s, IWord w)
  end.

(* `let maybe_converted = data.right_index.map(|idx| &converted[idx]);` (evaluated for every node) *)
Definition maybe_converted (conv : list tnode) (ri : option N) : oc (option nat) :=
  match ri with
  | Some idx =>
      match nth_error conv (N.to_nat idx) with
      | Some _ => Ok (Some (N.to_nat idx))
      | None => Panic 23
      end
  | None => Ok None
  end.

(* `.map_disconnect_result(|disc| converter.convert_disconnect(&data, maybe_converted, disc))?` *)
Definition disc_inner (it : po_item) (conv : list tnode) (mc : option nat) (s : St) (i : inner N X W')
  : oc (St * inner N X' W') :=
  match i with
  | IDisconnect c x =>
      lift_hook (cv_disconnect cv s it conv mc x) (fun s' x' => Ok (s', IDisconnect c x'))
  | IIden => Ok (s, IIden) | IUnit => Ok (s, IUnit)
  | IInjL c => Ok (s, IInjL c) | IInjR c => Ok (s, IInjR c)
  | ITake c => Ok (s, ITake c) | IDrop c => Ok (s, IDrop c)
  | IComp l r => Ok (s, IComp l r) | ICase l r => Ok (s, ICase l r)
  | IAssertL c h => Ok (s, IAssertL c h) | IAssertR h c => Ok (s, IAssertR h c)
  | IPair l r => Ok (s, IPair l r)
  | IWitness w => Ok (s, IWitness w)
  | IFail e => Ok (s, IFail e) | IJet j => Ok (s, IJet j) | IWord w => Ok (s, IWord w)
  end.

(* `witness_inner.map(|idx| Arc::clone(&converted[*idx]))` *)
Definition clone_idx (conv : list tnode) (idx : N) : oc nat :=
  match nth_error conv (N.to_nat idx) with
  | Some _ => Ok (N.to_nat idx)
  | None => Panic 24
  end.

Definition clone_inner (conv : list tnode) (i : inner N X' W') : oc (inner nat X' W') :=
  match i with
  | IIden => Ok IIden | IUnit => Ok IUnit
  | IInjL c => omap IInjL (clone_idx conv c)
  | IInjR c => omap IInjR (clone_idx conv c)
  | ITake c => omap ITake (clone_idx conv c)
  | IDrop c => omap IDrop (clone_idx conv c)
  | IComp l r => obind (clone_idx conv l) (fun l' => omap (IComp l') (clone_idx conv r))
  | ICase l r => obind (clone_idx conv l) (fun l' => omap (ICase l') (clone_idx conv r))
  | IAssertL c h => omap (fun c' => IAssertL c' h) (clone_idx conv c)
  | IAssertR h c => omap (IAssertR h) (clone_idx conv c)
  | IPair l r => obind (clone_idx conv l) (fun l' => omap (IPair l') (clone_idx conv r))
  | IDisconnect c x => omap (fun c' => IDisconnect c' x) (clone_idx conv c)
  | IWitness w => Ok (IWitness w)
  | IFail e => Ok (IFail e) | IJet j => Ok (IJet j) | IWord w => Ok (IWord w)
  end.

(* `left.cmr()` of a converted node (the position was checked by clone_idx) *)
Definition cmr_at (conv : list tnode) (i : nat) : N :=
  match nth_error conv i with Some t => tn_cmr t | None => 0 end.

(* Hide::Neither / Left / Right applied to a Case *)
Definition apply_hide (conv : list tnode) (h : hide) (l r : nat) : inner nat X' W' :=
  match h with
  | HideNeither => ICase l r
  | HideLeft => IAssertR (cmr_at conv l) r
  | HideRight => IAssertL l (cmr_at conv r)
  end.

(* "prune case nodes into asserts, if applicable" *)
Definition prune_inner (it : po_item) (conv : list tnode) (s : St) (i : inner nat X' W')
  : oc (St * inner nat X' W') :=
  match i with
  | ICase l r => lift_hook (cv_prune cv s it conv l r) (fun s' h => Ok (s', apply_hide conv h l r))
  | x => Ok (s, x)
  end.

(* the body of `for data in self.post_order_iter::<S>() { .. }` up to the push *)
Definition conv_item (t : list snode) (it : po_item) (s : St) (conv : list tnode) : oc (St * tnode) :=
  let s0 := cv_visit cv s it in
  match nth_error t (it_node it) with
  | None => Panic 20
  | Some sn =>
      obind (idx_inner (sn_inner sn) (it_left it) (it_right it)) (fun i1 =>
      obind (wit_inner it s0 i1) (fun '(s1, i2) =>
      obind (maybe_converted conv (it_right it)) (fun mc =>
      obind (disc_inner it conv mc s1 i2) (fun '(s2, i3) =>
      obind (clone_inner conv i3) (fun i4 =>
      obind (prune_inner it conv s2 i4) (fun '(s3, i5) =>
      lift_hook (cv_data cv s3 it conv i5) (fun s4 d =>
      Ok (s4, mk_tnode i5 (sn_cmr sn) d))))))))
  end.

(* `Ok(converted.pop().unwrap())` : the vector as it is before the pop, root = last *)
Definition conv_finish (s : St) (conv : list tnode) : oc (St * list tnode) :=
  match conv with [] => Panic 25 | _ => Ok (s, conv) end.

Variable key : nat -> option N.   (* the sharing tracker S of `convert::<S, M, C>` *)

(* Node::convert : the iterator is advanced between the loop bodies (one unit of fuel per
   iteration of the `loop` inside PostOrderIter::next) *)
Fixpoint convert_loop (t : list snode) (fuel : nat) (st : po_state) (s : St) (conv : list tnode)
  : oc (St * list tnode) :=
  match fuel with
  | O => OutOfFuel
  | S f =>
      match po_step (src_children t) key st with
      | PDone => conv_finish s conv
      | PYield it st' =>
          obind (conv_item t it s conv) (fun '(s', n) => convert_loop t f st' s' (conv ++ [n]))
      | PCont st' => convert_loop t f st' s conv
      | PPanic c => Panic c
      end
  end.

Definition convert (t : list snode) (fuel : nat) (root : nat) (s : St) : oc (St * list tnode) :=
  convert_loop t fuel (po_init root) s [].

(* the same loop over an already collected item list *)
Fixpoint conv_items (t : list snode) (items : list po_item) (s : St) (conv : list tnode)
  : oc (St * list tnode) :=
  match items with
  | [] => conv_finish s conv
  | it :: rest => obind (conv_item t it s conv) (fun '(s', n) => conv_items t rest s' (conv ++ [n]))
  end.

Lemma convert_loop_items t : forall fuel st items s conv,
  po_run (src_children t) key fuel st = Ok items ->
  convert_loop t fuel st s conv = conv_items t items s conv.
Proof.
  induction fuel as [|f IH]; intros st items s conv H; [discriminate|].
  cbn [po_run] in H. cbn [convert_loop].
  destruct (po_step (src_children t) key st) as [|it st'|st'|c]; try discriminate.
  - injection H as <-. reflexivity.
  - destruct (po_run (src_children t) key f st') as [l| | |] eqn:Ep; try discriminate.
    cbn in H. injection H as <-. cbn [conv_items].
    destruct (conv_item t it s conv) as [[s' n]| | |]; cbn [obind]; try reflexivity.
    apply IH. exact Ep.
  - apply IH. exact H.
Qed.

End Convert.

Arguments mk_snode {X W D}. Arguments sn_inner {X W D}. Arguments sn_cmr {X W D}. Arguments sn_data {X W D}.
Arguments mk_tnode {X' W' D'}. Arguments tn_inner {X' W' D'}. Arguments tn_cmr {X' W' D'}.
Arguments tn_data {X' W' D'}.
Arguments ROk {Er A}. Arguments RErr {Er A}.
