(* C04, phase 4 - totality, part 2: bind / unify.
     bind_complete_total   bind against a complete type t with fuel > depth t: Ok or Err, never Panic / OutOfFuel
                           (these arms never unify, so no rank assertion and no re-assignment of a complete bound) *)
From RS Require Import Lib.Tac Lib.Outcome Lib.Sweep Ty.Ty Core.Prog Infer.Constraints Infer.Unify Infer.Infer Infer.Gen Infer.Rational
  Infer.UnionFind Infer.Slab Infer.RunSlab Infer.SlabProofs Infer.SlabSim Infer.SlabSimInst Infer.SlabFin Infer.SlabWfd Infer.SlabTotal Infer.SlabNoP10.
Import ListNotations.
Local Open Scope outcome_scope.

Definition oe (r : bres) : Prop := match r with Ok _ | Err _ => True | _ => False end.

Theorem bind_complete_total : forall fuel c b t eb, cwf c -> holds_ref c eb b -> (tdepth t < fuel)%nat ->
  oe (bind fuel c b (RComplete t)).
Proof.
  induction fuel as [|f IH]; intros c b t eb CW HR Hf; [lia|].
  pose proof CW as (W & Ch & Un & Br). rewrite bind_S.
  assert (CC : forall x1 x2 c1 c2, (x1 < length (c_uf c))%nat -> (x2 < length (c_uf c))%nat ->
            (tdepth c1 < f)%nat -> (tdepth c2 < f)%nat -> oe (comp_chain f c x1 x2 c1 c2)).
  { intros x1 x2 c1 c2 L1 L2 D1 D2. unfold comp_chain.
    destruct (c_root_spec c x1 CW L1) as (ua & Ea & Pa). rewrite Ea. cbn [obind].
    pose proof (cwf_same_part c ua CW Pa) as CWa.
    assert (La : length ua = length (c_uf c)) by (destruct Pa as (_ & L & _); exact L).
    destruct (c_root_spec (put_uf c ua) x2 CWa ltac:(cbn [put_uf c_uf]; lia)) as (ub & Eb2 & Pb). rewrite Eb2. cbn [obind put_uf c_uf c_slab].
    set (cb0 := mk_ctx (c_slab c) ub). change (put_uf (put_uf c ua) ub) with cb0.
    pose proof (same_part_trans _ _ _ Pa Pb) as Pab.
    assert (CWb : cwf cb0) by (apply (cwf_same_part c ub CW Pab)).
    set (r1 := rep (c_uf c) x1). set (r2 := rep ua x2).
    destruct (rep_root (c_uf c) x1 W L1) as [Rr1 Lr1]. fold r1 in Rr1, Lr1.
    assert (Wa : uf_wf ua) by (destruct Pa; assumption).
    destruct (rep_root ua x2 Wa ltac:(lia)) as [Rr2 Lr2]. fold r2 in Rr2, Lr2.
    assert (Lab : length ub = length (c_uf c)) by (destruct Pab as (_ & L & _); exact L).
    assert (H1 : holds_ref cb0 r1 (bref_of (c_uf c) r1)).
    { unfold holds_ref, cb0. cbn [c_uf]. split; [lia|]. split; [apply (proj1 (same_part_root _ _ r1 Pab)); exact Rr1|].
      apply same_part_bref; [exact Pab|exact Rr1]. }
    pose proof (IH cb0 _ c1 r1 CWb H1 D1) as T1.
    destruct (bind f cb0 (bref_of (c_uf c) r1) (RComplete c1)) as [cc|e1| |] eqn:B1; cbn [obind]; try exact T1; try exact I.
    destruct (bc_post f cb0 _ c1 r1 CWb H1 cc B1) as [CWc Kc].
    assert (H2 : holds_ref cc r2 (bref_of ua r2)).
    { apply (holds_ref_keeps cb0); [exact Kc|]. unfold holds_ref, cb0. cbn [c_uf]. split; [lia|].
      split; [apply (proj1 (same_part_root _ _ r2 Pb)); exact Rr2|apply same_part_bref; [exact Pb|exact Rr2]]. }
    apply (IH cc _ c2 r2 CWc H2 D2). }
  cbn [tdepth] in Hf.
  destruct (slab_get c b) as [|ef|x1 x2|x1 x2] eqn:Eb.
  - unfold reassign_non_complete. rewrite Eb. exact I.
  - assert (G : forall (A : Type) (x : A), match ef with One | _ => x end = x) by (intros; destruct ef; reflexivity).
    rewrite G. destruct (ty_eqb ef t); exact I.
  - destruct (Ch b x1 x2 (or_introl Eb)) as [L1 L2]. destruct t as [|c1 c2|c1 c2]; try exact I.
    cbn [tdepth] in Hf. apply CC; auto; lia.
  - destruct (Ch b x1 x2 (or_intror Eb)) as [L1 L2]. destruct t as [|c1 c2|c1 c2]; try exact I.
    cbn [tdepth] in Hf. apply CC; auto; lia.
Qed.

(* ================================================================== potential and rank invariant *)
Definition rootb (u : uf) (i : nat) : bool := match ub_data (ufget u i) with URoot _ => true | UEq _ => false end.
Definition nr (u : uf) : nat := length (filter (rootb u) (seq 0 (length u))).
Definition pairb (r : rbound) : bool := match r with RSum _ _ | RProd _ _ => true | _ => false end.
Definition np (c : ctx) : nat := length (filter (fun b => pairb (slab_get c b)) (seq 0 (length (c_slab c)))).
Definition cdb (r : rbound) : nat := match r with RComplete t => tdepth t | _ => 0%nat end.
Definition mcd (c : ctx) : nat := fold_right (fun b acc => Nat.max (cdb (slab_get c b)) acc) 0%nat (seq 0 (length (c_slab c))).
Definition pot (c : ctx) : nat := (nr (c_uf c) + mcd c + np c)%nat.
(* ranks are bounded by the number of linked elements *)
Definition RKI (u : uf) : Prop := (max_rank u + N.of_nat (nr u) <= N.of_nat (length u))%N.

Lemma rootb_iff u i : rootb u i = true <-> is_uroot u i.
Proof. unfold rootb, is_uroot. destruct (ub_data (ufget u i)); split; auto; discriminate. Qed.

Lemma nr_same_part u u' : same_part u u' -> nr u' = nr u.
Proof.
  intros P. pose proof P as (_ & L & _). unfold nr. rewrite L. apply f_equal. apply filter_ext_in. intros i Hi.
  destruct (rootb u i) eqn:E.
  - apply rootb_iff. apply (proj1 (same_part_root _ _ i P)). apply rootb_iff. exact E.
  - destruct (rootb u' i) eqn:E'; [|reflexivity]. apply rootb_iff in E'. apply (proj2 (same_part_root _ _ i P)) in E'. apply rootb_iff in E'. congruence.
Qed.

Lemma nr_pos u x : (x < length u)%nat -> is_uroot u x -> (1 <= nr u)%nat.
Proof.
  intros Hx Rx. unfold nr. assert (In x (filter (rootb u) (seq 0 (length u)))) by (apply filter_In; split; [apply in_seq; lia|apply rootb_iff; exact Rx]).
  destruct (filter (rootb u) (seq 0 (length u))); [destruct H|cbn; lia].
Qed.

Lemma nr_link u x y : uf_wf u -> (x < length u)%nat -> (y < length u)%nat -> is_uroot u x -> is_uroot u y -> x <> y ->
  (ub_rank (ufget u y) <= ub_rank (ufget u x))%N -> (nr (ub_link u x y) < nr u)%nat.
Proof.
  intros W Hx Hy Rx Ry Nxy Rk. destruct (ub_link_spec u x y W Hx Hy Rx Ry Nxy Rk) as (_ & L & _).
  unfold nr. rewrite L. apply (filter_length_lt _ _ _ y).
  - intros i Hi. destruct (Nat.eq_dec i y) as [->|Ni].
    + unfold rootb in Hi. rewrite (ub_link_data_y u x y Hy) in Hi. discriminate.
    + unfold rootb in *. rewrite (ub_link_data_other u x y i Hx Ni) in Hi. exact Hi.
  - apply in_seq. lia.
  - apply rootb_iff. exact Ry.
  - unfold rootb. rewrite (ub_link_data_y u x y Hy). reflexivity.
Qed.

Lemma max_rank_ufset u : forall e v, (max_rank (ufset u e v) <= N.max (max_rank u) (ub_rank v))%N.
Proof.
  induction u as [|y r IH]; intros [|e] v; cbn [ufset max_rank]; try lia.
  specialize (IH e v). lia.
Qed.

Lemma max_rank_link u x y : (x < length u)%nat -> (y < length u)%nat -> (max_rank (ub_link u x y) <= max_rank u + 1)%N.
Proof.
  intros Hx Hy. unfold ub_link. pose proof (max_rank_ge u x Hx) as Gx.
  destruct (N.eqb _ _).
  - rewrite set_data_max_rank by (rewrite set_rank_length; exact Hy).
    unfold set_rank. pose proof (max_rank_ufset u x (mk_ub (ub_data (ufget u x)) (ub_rank (ufget u x) + 1))) as M. cbn [ub_rank] in M. lia.
  - rewrite set_data_max_rank by exact Hy. lia.
Qed.

Lemma RKI_link u x y : uf_wf u -> (x < length u)%nat -> (y < length u)%nat -> is_uroot u x -> is_uroot u y -> x <> y ->
  (ub_rank (ufget u y) <= ub_rank (ufget u x))%N -> RKI u -> RKI (ub_link u x y).
Proof.
  intros W Hx Hy Rx Ry Nxy Rk H. unfold RKI in *.
  destruct (ub_link_spec u x y W Hx Hy Rx Ry Nxy Rk) as (_ & L & _). rewrite L.
  pose proof (nr_link u x y W Hx Hy Rx Ry Nxy Rk). pose proof (max_rank_link u x y Hx Hy). lia.
Qed.

(* ---- the slab part of the potential *)
Lemma mcd_ge c b : (b < length (c_slab c))%nat -> (cdb (slab_get c b) <= mcd c)%nat.
Proof.
  intros Hb. unfold mcd. assert (Hin : In b (seq 0 (length (c_slab c)))) by (apply in_seq; lia).
  induction (seq 0 (length (c_slab c))) as [|x l IH]; [destruct Hin|]. cbn [fold_right].
  destruct Hin as [->|Hin]; [lia|]. specialize (IH Hin). lia.
Qed.

Lemma mcd_le c M : (forall b, (b < length (c_slab c))%nat -> (cdb (slab_get c b) <= M)%nat) -> (mcd c <= M)%nat.
Proof.
  intros H. unfold mcd. assert (Hall : forall b, In b (seq 0 (length (c_slab c))) -> (cdb (slab_get c b) <= M)%nat) by (intros b Hb; apply H; apply in_seq in Hb; lia).
  induction (seq 0 (length (c_slab c))) as [|x l IH]; cbn [fold_right]; [lia|].
  pose proof (Hall x (or_introl eq_refl)). specialize (IH ltac:(intros b Hb; apply Hall; right; exact Hb)). lia.
Qed.

Lemma mcd_cset c b new : (b < length (c_slab c))%nat -> (mcd (cset c b new) <= Nat.max (mcd c) (cdb new))%nat.
Proof.
  intros Hb. apply mcd_le. intros b' Hb'. rewrite cset_len in Hb'. destruct (Nat.eq_dec b b') as [<-|N].
  - rewrite cset_get_eq by exact Hb. lia.
  - rewrite cset_get_neq by exact N. pose proof (mcd_ge c b' Hb'). lia.
Qed.

Lemma mcd_cset_ge c b new : cdb (slab_get c b) = 0%nat -> (mcd c <= mcd (cset c b new))%nat.
Proof.
  intros Z. apply mcd_le. intros b' Hb'. destruct (Nat.eq_dec b b') as [<-|N]; [lia|].
  rewrite <- (cset_get_neq c b new b' N). apply mcd_ge. rewrite cset_len. exact Hb'.
Qed.

Lemma filter_length_le1 {A} (f g : A -> bool) (dec : forall x y : A, {x = y} + {x <> y}) l b : NoDup l ->
  (forall x, x <> b -> g x = f x) -> (length (filter g l) <= length (filter f l) + 1)%nat.
Proof.
  intros ND H. induction ND as [|x l Nx ND IH]; cbn [filter]; [lia|].
  destruct (dec x b) as [->|Nb].
  - assert (E : filter g l = filter f l) by (apply filter_ext_in; intros y Hy; apply H; intros ->; contradiction).
    rewrite E. destruct (g b), (f b); cbn [length]; lia.
  - rewrite (H x Nb). destruct (f x); cbn [length]; lia.
Qed.

Lemma np_cset_le c b new : (np (cset c b new) <= np c + 1)%nat.
Proof.
  unfold np. rewrite cset_len. apply (filter_length_le1 _ _ Nat.eq_dec _ b); [apply seq_NoDup|].
  intros x Nx. rewrite cset_get_neq by congruence. reflexivity.
Qed.

Lemma np_cset_nopair c b new : pairb new = false -> (np (cset c b new) <= np c)%nat.
Proof.
  intros Hn. unfold np. rewrite cset_len. apply filter_length_le. intros x Hx.
  destruct (Nat.eq_dec b x) as [<-|N]; [|rewrite cset_get_neq in Hx by exact N; exact Hx].
  destruct (Nat.lt_ge_cases b (length (c_slab c))) as [L|G].
  - rewrite cset_get_eq in Hx by exact L. congruence.
  - unfold slab_get in Hx. cbn [cset c_slab] in Hx. rewrite nth_overflow in Hx by (rewrite lset_length; exact G). discriminate.
Qed.

Lemma np_cset_lt c b new : (b < length (c_slab c))%nat -> pairb (slab_get c b) = true -> pairb new = false -> (np (cset c b new) < np c)%nat.
Proof.
  intros Hb Ho Hn. unfold np. rewrite cset_len. apply (filter_length_lt _ _ _ b).
  - intros x Hx. destruct (Nat.eq_dec b x) as [<-|N]; [rewrite cset_get_eq in Hx by exact Hb; congruence|rewrite cset_get_neq in Hx by exact N; exact Hx].
  - apply in_seq. lia.
  - exact Ho.
  - rewrite cset_get_eq by exact Hb. exact Hn.
Qed.

(* ================================================================== unify / bind terminate (up to the re-assignment assertion) *)
Definition TI (c : ctx) : Prop := cwf c /\ RKI (c_uf c) /\ (N.of_nat (length (c_uf c)) <= usize_max)%N.

Definition fuel_ok (f : nat) (c : ctx) (new : rbound) : Prop :=
  match new with
  | RComplete t => (tdepth t < f)%nat
  | RFree => (0 < f)%nat
  | _ => (pot c < f)%nat
  end.

Definition tb_post (c : ctx) (extra : nat) (r : bres) : Prop :=
  match r with
  | Ok c' => RKI (c_uf c') /\ length (c_uf c') = length (c_uf c) /\ (pot c' <= pot c + extra)%nat /\ (mcd c <= mcd c')%nat
  | Err _ => True
  | Panic _ => False
  | OutOfFuel => False
  end.

Definition TB (f : nat) : Prop := forall c b new eb, TI c -> holds_ref c eb b -> bound_in (length (c_uf c)) new ->
  (cdb new <= mcd c)%nat -> fuel_ok f c new -> tb_post c (if pairb new then 1 else 0)%nat (bind f c b new).

Definition TU (f : nat) : Prop := forall c x y, TI c -> (x < length (c_uf c))%nat -> (y < length (c_uf c))%nat ->
  (pot c <= f)%nat -> tb_post c 0 (ctx_unify f c x y).

Lemma RKI_same u u' : RKI u -> same_part u u' -> max_rank u' = max_rank u -> RKI u'.
Proof. intros H P M. unfold RKI in *. rewrite M, (nr_same_part u u' P). destruct P as (_ & -> & _). exact H. Qed.

Lemma c_root_spec2 c e : cwf c -> (e < length (c_uf c))%nat ->
  exists u', c_root c e = Ok (put_uf c u', bref_of (c_uf c) (rep (c_uf c) e)) /\ same_part (c_uf c) u' /\ max_rank u' = max_rank (c_uf c).
Proof.
  intros (W & _) He. unfold c_root, root.
  destruct (root_element_ok (c_uf c) e W He) as (u' & E & W' & L & M & K & R & D & I).
  rewrite E. cbn [obind lift_u].
  destruct (rep_root (c_uf c) e W He) as [Rr Lr].
  unfold unwrap_root. rewrite (D _ Rr). unfold is_uroot in Rr. unfold bref_of.
  destruct (ub_data (ufget (c_uf c) (rep (c_uf c) e))) as [b|p]; [|tauto].
  cbn [obind lift_u]. exists u'. split; [reflexivity|]. split; [repeat split; auto|exact M].
Qed.

Lemma TI_same c u' : TI c -> same_part (c_uf c) u' -> max_rank u' = max_rank (c_uf c) -> TI (put_uf c u').
Proof.
  intros (CW & RK & LB) P M. split; [apply cwf_same_part; assumption|]. cbn [put_uf c_uf].
  split; [apply (RKI_same (c_uf c)); assumption|]. destruct P as (_ & -> & _). exact LB.
Qed.

Lemma pot_put_uf_same c u' : same_part (c_uf c) u' -> pot (put_uf c u') = pot c.
Proof. intros P. unfold pot. cbn [put_uf c_uf]. rewrite (nr_same_part _ _ P). reflexivity. Qed.

Lemma TU_of_TB f : TB f -> TU f.
Proof.
  intros BS c x y (CW & RK & LB) Lx Ly Hf. pose proof CW as (W & Ch & Un & Br).
  unfold ctx_unify, ub_unify. cbv zeta.
  destruct (root_element_ok (c_uf c) x W Lx) as (u1 & E1 & W1 & L1 & M1 & K1 & R1 & D1 & I1).
  rewrite E1. cbn [lift_unit obind].
  destruct (root_element_ok u1 y W1 ltac:(lia)) as (u2 & E2 & W2 & L2 & M2 & K2 & R2 & D2 & I2).
  rewrite E2. cbn [lift_unit obind].
  assert (P1 : same_part (c_uf c) u1) by (repeat split; auto).
  assert (P2 : same_part u1 u2) by (repeat split; auto).
  pose proof (same_part_trans _ _ _ P1 P2) as P12.
  assert (Ey : rep u1 y = rep (c_uf c) y) by (apply R1; exact Ly).
  rewrite Ey.
  set (xr := rep (c_uf c) x). set (yr := rep (c_uf c) y).
  destruct (rep_root _ x W Lx) as [Rx0 Lxr]. destruct (rep_root _ y W Ly) as [Ry0 Lyr]. fold xr in Rx0, Lxr. fold yr in Ry0, Lyr.
  pose proof (proj1 (same_part_root _ _ xr P12) Rx0) as Rx2. pose proof (proj1 (same_part_root _ _ yr P12) Ry0) as Ry2.
  rewrite (unwrap_root_root u2 xr Rx2), (unwrap_root_root u2 yr Ry2). cbn [lift_unit obind].
  set (c2 := put_uf c u2).
  assert (M12 : max_rank u2 = max_rank (c_uf c)) by congruence.
  pose proof (TI_same c u2 (conj CW (conj RK LB)) P12 M12) as T2. fold c2 in T2. destruct T2 as (CW2 & RK2 & LB2).
  assert (Pot2 : pot c2 = pot c) by (apply pot_put_uf_same; exact P12).
  assert (Len2 : length u2 = length (c_uf c)) by lia.
  destruct (Nat.eqb (bref_of u2 xr) (bref_of u2 yr)) eqn:Eqb.
  { cbn [tb_post]. split; [exact RK2|]. split; [exact Len2|]. fold c2. split; [lia|]. change (mcd c2) with (mcd c). lia. }
  assert (Nxy : xr <> yr) by (intros Exy; rewrite Exy, Nat.eqb_refl in Eqb; discriminate).
  assert (Tail : forall xr' yr' (eqr : bool) (rx0 : N),
    (xr' < length u2)%nat -> (yr' < length u2)%nat -> is_uroot u2 xr' -> is_uroot u2 yr' -> xr' <> yr' ->
    (ub_rank (ufget u2 yr') <= ub_rank (ufget u2 xr'))%N ->
    eqr = N.eqb (ub_rank (ufget u2 xr')) (ub_rank (ufget u2 yr')) -> (eqr = true -> rx0 = ub_rank (ufget u2 xr')) ->
    tb_post c 0
      (if (eqr && (rx0 =? usize_max)%N)%bool then Panic 3 else
        ' x_data <- @lift_unit ctx berr nat (unwrap_root (if eqr then set_rank u2 xr' (rx0 + 1) else u2) xr') ;;
        match ub_data (ufget (if eqr then set_rank u2 xr' (rx0 + 1) else u2) yr') with
        | URoot y_data =>
            match bind f (put_uf c (set_data (if eqr then set_rank u2 xr' (rx0 + 1) else u2) yr' (UEq xr'))) x_data
                    (slab_get (put_uf c (set_data (if eqr then set_rank u2 xr' (rx0 + 1) else u2) yr' (UEq xr'))) y_data)
            with
            | Ok st' => Ok st'
            | Err (e, st') => Err (e, put_uf st' (set_data (c_uf st') yr'
                                (ub_data (ufget (if eqr then set_rank u2 xr' (rx0 + 1) else u2) yr'))))
            | Panic c0 => Panic c0
            | OutOfFuel => OutOfFuel
            end
        | UEq _ => Panic 4
        end)).
  { intros xr' yr' eqr rx0 Lx' Ly' Rx' Ry' Nxy' Rk' Heq Hrx.
    destruct (eqr && (rx0 =? usize_max)%N)%bool eqn:Pc.
    { (* the rank assertion cannot fail *)
      exfalso. apply andb_true_iff in Pc. destruct Pc as [Pe Pm]. apply N.eqb_eq in Pm. rewrite (Hrx Pe) in Pm.
      pose proof (max_rank_ge u2 xr' Lx'). pose proof (nr_pos u2 xr' Lx' Rx'). unfold RKI in RK2. cbn [c2 put_uf c_uf] in RK2, LB2. lia. }
    assert (U4 : set_data (if eqr then set_rank u2 xr' (rx0 + 1) else u2) yr' (UEq xr') = ub_link u2 xr' yr').
    { unfold ub_link. rewrite <- Heq. destruct eqr; [rewrite (Hrx eq_refl)|]; reflexivity. }
    set (u3 := if eqr then set_rank u2 xr' (rx0 + 1) else u2) in *.
    assert (D3 : forall e, ub_data (ufget u3 e) = ub_data (ufget u2 e)).
    { intros e. unfold u3. destruct eqr; [|reflexivity]. apply set_rank_data. exact Lx'. }
    assert (Rx3 : is_uroot u3 xr') by (unfold is_uroot; rewrite D3; exact Rx').
    rewrite (unwrap_root_root u3 xr' Rx3). cbn [lift_unit obind].
    assert (B3 : bref_of u3 xr' = bref_of u2 xr') by (unfold bref_of; rewrite D3; reflexivity).
    rewrite B3, D3.
    assert (Dy : ub_data (ufget u2 yr') = URoot (bref_of u2 yr')).
    { unfold is_uroot in Ry'. unfold bref_of. destruct (ub_data (ufget u2 yr')); [reflexivity|tauto]. }
    rewrite Dy, U4.
    set (c4 := put_uf c (ub_link u2 xr' yr')).
    destruct (link_state_fin c2 xr' yr' CW2 Lx' Ly' Rx' Ry' Nxy' Rk') as [CW4 HR4].
    change (put_uf c2 (ub_link (c_uf c2) xr' yr')) with c4 in CW4, HR4. cbn [c2 put_uf c_uf] in HR4.
    destruct (ub_link_spec u2 xr' yr' W2 Lx' Ly' Rx' Ry' Nxy' Rk') as (_ & L4 & _).
    pose proof (nr_link u2 xr' yr' W2 Lx' Ly' Rx' Ry' Nxy' Rk') as Nr4.
    assert (T4 : TI c4).
    { split; [exact CW4|]. cbn [c4 put_uf c_uf]. split; [apply RKI_link; assumption|]. rewrite L4. exact LB2. }
    assert (Pot4 : (pot c4 + 1 <= pot c)%nat).
    { assert (E1' : mcd c4 = mcd c) by reflexivity. assert (E2' : np c4 = np c) by reflexivity.
      pose proof (nr_same_part _ _ P12) as E3'. unfold pot. rewrite E1', E2'. change (c_uf c4) with (ub_link u2 xr' yr'). lia. }
    assert (Lyb : (bref_of u2 yr' < length (c_slab c))%nat).
    { destruct CW2 as (_ & _ & _ & Br2). apply (Br2 yr'); assumption. }
    pose proof (mcd_ge c4 (bref_of u2 yr') Lyb) as Mg.
    pose proof (BS c4 (bref_of u2 xr') (slab_get c4 (bref_of u2 yr')) xr' T4 HR4 (cwf_bound_in c4 _ CW4) Mg) as B.
    assert (Fo : fuel_ok f c4 (slab_get c4 (bref_of u2 yr'))).
    { unfold fuel_ok. destruct (slab_get c4 (bref_of u2 yr')) as [|t|? ?|? ?]; cbn [cdb] in Mg; unfold pot in *; lia. }
    specialize (B Fo).
    destruct (bind f c4 (bref_of u2 xr') (slab_get c4 (bref_of u2 yr'))) as [c'|[e st']|k|]; cbn [tb_post] in *; auto.
    destruct B as (RK' & L' & P' & Mm). split; [exact RK'|]. split; [rewrite L'; cbn [c4 put_uf c_uf]; lia|].
    split; [destruct (pairb (slab_get c4 (bref_of u2 yr'))); lia|]. change (mcd c4) with (mcd c) in Mm. exact Mm. }
  set (rx := ub_rank (ufget u2 xr)) in *. set (ry := ub_rank (ufget u2 yr)) in *.
  destruct (N.ltb rx ry) eqn:Lt.
  - apply N.ltb_lt in Lt.
    assert (Ne : N.eqb rx ry = false) by (apply N.eqb_neq; lia). rewrite Ne.
    apply (Tail yr xr false rx); auto; try lia; try discriminate.
    all: try (fold rx ry; lia).
    all: try (fold rx ry; symmetry; apply N.eqb_neq; lia).
  - apply N.ltb_ge in Lt.
    apply (Tail xr yr (N.eqb rx ry) rx); auto; try lia.
    all: try (fold rx ry; lia).
Qed.

Lemma unify_post f c x y c' : cwf c -> (x < length (c_uf c))%nat -> (y < length (c_uf c))%nat ->
  ctx_unify f c x y = Ok c' -> post c c'.
Proof.
  intros CW Lx Ly E. pose proof (unify_spec_all ty eq One Sum Prod) as S.
  specialize (S ltac:(fin_hyps) ltac:(fin_hyps) ltac:(fin_hyps) ltac:(fin_hyps) ltac:(fin_hyps) ltac:(fin_hyps) ltac:(fin_hyps)
                ltac:(fin_hyps) ltac:(fin_hyps) ltac:(fin_hyps) f c x y CW Lx Ly).
  rewrite E in S. apply S.
Qed.

Lemma TI_of c c' : TI c -> cwf c' -> RKI (c_uf c') -> length (c_uf c') = length (c_uf c) -> TI c'.
Proof. intros (_ & _ & LB) CW' RK' L. split; [exact CW'|]. split; [exact RK'|]. rewrite L. exact LB. Qed.

Lemma comp_chain_total f : TB f -> forall c t1 t2 c1 c2, TI c -> (t1 < length (c_uf c))%nat -> (t2 < length (c_uf c))%nat ->
  (tdepth c1 < f)%nat -> (tdepth c2 < f)%nat -> (tdepth c1 <= mcd c)%nat -> (tdepth c2 <= mcd c)%nat ->
  tb_post c 0 (comp_chain f c t1 t2 c1 c2).
Proof.
  intros BS c x1 x2 c1 c2 T L1 L2 D1 D2 M1 M2. pose proof T as (CW & RK & LB). pose proof CW as (W & _). unfold comp_chain.
  destruct (c_root_spec2 c x1 CW L1) as (ua & Ea & Pa & Ma). rewrite Ea. cbn [obind].
  pose proof (TI_same c ua T Pa Ma) as Ta. pose proof Ta as (CWa & _).
  assert (La : length ua = length (c_uf c)) by (destruct Pa as (_ & L & _); exact L).
  destruct (c_root_spec2 (put_uf c ua) x2 CWa ltac:(cbn [put_uf c_uf]; lia)) as (ub & Eb2 & Pb & Mb). rewrite Eb2. cbn [obind].
  pose proof (TI_same (put_uf c ua) ub Ta Pb Mb) as Tb.
  cbn [put_uf c_uf c_slab] in *.
  set (cb0 := mk_ctx (c_slab c) ub) in *. change (put_uf (put_uf c ua) ub) with cb0 in *.
  pose proof Tb as (CWb & _).
  pose proof (same_part_trans _ _ _ Pa Pb) as Pab.
  assert (Lab : length ub = length (c_uf c)) by (destruct Pab as (_ & L & _); exact L).
  assert (Potb : pot cb0 = pot c) by (apply (pot_put_uf_same c ub Pab)).
  set (r1 := rep (c_uf c) x1) in *. set (r2 := rep ua x2) in *.
  destruct (rep_root (c_uf c) x1 W L1) as [Rr1 Lr1]. fold r1 in Rr1, Lr1.
  assert (Wa : uf_wf ua) by (destruct Pa; assumption).
  destruct (rep_root ua x2 Wa ltac:(lia)) as [Rr2 Lr2]. fold r2 in Rr2, Lr2.
  assert (H1 : holds_ref cb0 r1 (bref_of (c_uf c) r1)).
  { unfold holds_ref, cb0. cbn [c_uf]. split; [lia|]. split; [apply (proj1 (same_part_root _ _ r1 Pab)); exact Rr1|].
    apply same_part_bref; [exact Pab|exact Rr1]. }
  pose proof (BS cb0 _ (RComplete c1) r1 Tb H1 I ltac:(cbn [cdb]; change (mcd cb0) with (mcd c); exact M1) D1) as B1.
  destruct (bind f cb0 (bref_of (c_uf c) r1) (RComplete c1)) as [cc|e1|k|] eqn:E1; cbn [obind tb_post pairb] in *; auto.
  destruct B1 as (RKc & Lc & Pc & Mc).
  destruct (bc_post f cb0 _ c1 r1 CWb H1 cc E1) as [CWc Kc].
  pose proof (TI_of cb0 cc Tb CWc RKc Lc) as Tc.
  assert (H2 : holds_ref cc r2 (bref_of ua r2)).
  { apply (holds_ref_keeps cb0); [exact Kc|]. unfold holds_ref, cb0. cbn [c_uf]. split; [lia|].
    split; [apply (proj1 (same_part_root _ _ r2 Pb)); exact Rr2|apply same_part_bref; [exact Pb|exact Rr2]]. }
  pose proof (BS cc _ (RComplete c2) r2 Tc H2 I ltac:(cbn [cdb]; change (mcd cb0) with (mcd c) in Mc; lia) D2) as B2.
  destruct (bind f cc (bref_of ua r2) (RComplete c2)) as [c'|e2|k|]; cbn [tb_post pairb] in *; auto.
  destruct B2 as (RK' & L' & P' & M'). split; [exact RK'|]. split; [cbn [cb0 c_uf] in Lc; lia|].
  split; [lia|]. change (mcd cb0) with (mcd c) in Mc. lia.
Qed.

Lemma struct_chain_total f : TU f -> forall c b eb s x1 x2 y1 y2, TI c -> holds_ref c eb b -> slab_get c b = rpair s x1 x2 ->
  (y1 < length (c_uf c))%nat -> (y2 < length (c_uf c))%nat -> (pot c <= f)%nat ->
  tb_post c 0 (struct_chain f c b s x1 x2 y1 y2).
Proof.
  intros US c b eb s x1 x2 y1 y2 T HR Eb Ly1 Ly2 Hf. pose proof T as (CW & RK & LB). pose proof CW as (W & Ch & Un & Br).
  assert (Lx : (x1 < length (c_uf c))%nat /\ (x2 < length (c_uf c))%nat) by (apply (Ch b x1 x2); rewrite Eb; destruct s; auto).
  destruct Lx as [Lx1 Lx2].
  assert (Lb : (b < length (c_slab c))%nat) by (apply slab_get_in; rewrite Eb; destruct s; discriminate).
  unfold struct_chain.
  pose proof (US c x1 y1 T Lx1 Ly1 Hf) as U1.
  destruct (ctx_unify f c x1 y1) as [c1|e1|k|] eqn:E1; cbn [obind tb_post] in *; auto.
  destruct U1 as (RK1 & L1 & P1 & M1). pose proof (unify_post f c x1 y1 c1 CW Lx1 Ly1 E1) as Po1. pose proof Po1 as (CW1 & _ & Ls1 & Mo1 & _).
  pose proof (TI_of c c1 T CW1 RK1 L1) as T1.
  pose proof (US c1 x2 y2 T1 ltac:(lia) ltac:(lia) ltac:(lia)) as U2.
  destruct (ctx_unify f c1 x2 y2) as [c2|e2|k|] eqn:E2; cbn [obind tb_post] in *; auto.
  destruct U2 as (RK2 & L2 & P2 & M2). pose proof (unify_post f c1 x2 y2 c2 CW1 ltac:(lia) ltac:(lia) E2) as Po2. pose proof Po2 as (CW2 & _ & Ls2 & Mo2 & _).
  pose proof (TI_of c1 c2 T1 CW2 RK2 L2) as T2. pose proof CW2 as (W2 & _ & _ & Br2).
  unfold complete_pair_data.
  destruct (c_root_spec2 c2 y1 CW2 ltac:(lia)) as (ua & Ea & Pa & Ma). rewrite Ea. cbn [obind].
  pose proof (TI_same c2 ua T2 Pa Ma) as Ta. pose proof Ta as (CWa & _).
  assert (La : length ua = length (c_uf c2)) by (destruct Pa as (_ & L & _); exact L).
  destruct (c_root_spec2 (put_uf c2 ua) y2 CWa ltac:(cbn [put_uf c_uf]; lia)) as (ub & Eb2 & Pb & Mb). rewrite Eb2. cbn [obind].
  pose proof (TI_same (put_uf c2 ua) ub Ta Pb Mb) as T3.
  cbn [put_uf c_uf c_slab] in *.
  set (c3 := mk_ctx (c_slab c2) ub) in *. change (put_uf (put_uf c2 ua) ub) with c3 in *.
  pose proof (same_part_trans _ _ _ Pa Pb) as Pab.
  assert (Pot3 : pot c3 = pot c2) by (apply (pot_put_uf_same c2 ub Pab)).
  assert (L3 : length (c_uf c3) = length (c_uf c)) by (cbn [c3 c_uf]; destruct Pab as (_ & L & _); lia).
  assert (NoneCase : tb_post c 0 (Ok c3)).
  { cbn [tb_post]. destruct T3 as (_ & RK3 & _). split; [exact RK3|]. split; [exact L3|]. split; [lia|]. change (mcd c3) with (mcd c2). lia. }
  set (b1 := bref_of (c_uf c2) (rep (c_uf c2) y1)) in *. set (b2 := bref_of ua (rep ua y2)) in *.
  assert (Lb1 : (b1 < length (c_slab c2))%nat) by (destruct (rep_root _ y1 W2 ltac:(lia)); apply Br2; assumption).
  assert (Lb2 : (b2 < length (c_slab c2))%nat).
  { destruct CWa as (Wa & _ & _ & Bra). destruct (rep_root ua y2 Wa ltac:(lia)). apply (Bra (rep ua y2)); assumption. }
  destruct (slab_get c3 b1) as [|d1|? ?|? ?] eqn:G1; try exact NoneCase.
  destruct (slab_get c3 b2) as [|d2|? ?|? ?] eqn:G2; try exact NoneCase.
  cbn [obind]. unfold reassign_non_complete.
  pose proof (slab_mono_trans _ _ _ Mo1 Mo2 b) as Mb0. rewrite Eb in Mb0.
  assert (Mb' : slab_get c3 b = rpair s x1 x2 \/ exists t, slab_get c3 b = RComplete t) by (destruct s; exact Mb0).
  destruct Mb' as [Eb3|(t & Eb3)].
  2:{ (* the assertion of reassign_non_complete cannot fail *)
      exfalso. apply (no_panic10 f c b eb s x1 x2 y1 y2 c1 c2 ub t d1 d2 CW HR Eb Ly1 Ly2 E1 E2 Pab); [|exact Eb3].
      intros be Sb. change (mk_ctx (c_slab c2) ub) with c3 in Sb.
      pose proof CW2 as (W2' & _). pose proof CWa as (Wa' & _).
      assert (CW3 : cwf c3) by (apply (cwf_same_part c2 ub CW2 Pab)).
      assert (Ly1' : (y1 < length (c_uf c3))%nat) by (cbn [c3 c_uf]; destruct Pab as (_ & Lx & _); lia).
      assert (Ly2' : (y2 < length (c_uf c3))%nat) by (cbn [c3 c_uf]; destruct Pab as (_ & Lx & _); lia).
      pose proof (drsat_bound itree teq tone tsum tprod teq_trans be c3 y1 CW3 Sb Ly1') as H1.
      pose proof (drsat_bound itree teq tone tsum tprod teq_trans be c3 y2 CW3 Sb Ly2') as H2.
      assert (B1' : bref_of (c_uf c3) (rep (c_uf c3) y1) = b1).
      { change (c_uf c3) with ub. destruct Pab as (_ & _ & R & _). rewrite (R y1 ltac:(lia)). apply (same_part_bref _ _ _ (same_part_trans _ _ _ Pa Pb)). apply rep_root; [exact W2'|lia]. }
      assert (B2' : bref_of (c_uf c3) (rep (c_uf c3) y2) = b2).
      { change (c_uf c3) with ub. pose proof Pb as (_ & _ & R & _). cbn [put_uf c_uf] in R. rewrite (R y2 ltac:(lia)). apply (same_part_bref _ _ _ Pb). apply rep_root; [exact Wa'|lia]. }
      rewrite B1', G1 in H1. rewrite B2', G2 in H2. cbn [dholds_r] in H1, H2. split; assumption. }
  assert (Lb3 : (b < length (c_slab c3))%nat) by (cbn [c3 c_slab]; lia).
  assert (D1 : (tdepth d1 <= mcd c3)%nat) by (pose proof (mcd_ge c3 b1 Lb1) as G; rewrite G1 in G; exact G).
  assert (D2 : (tdepth d2 <= mcd c3)%nat) by (pose proof (mcd_ge c3 b2 Lb2) as G; rewrite G2 in G; exact G).
  destruct s; cbn [rpair] in Eb3; rewrite Eb3; cbn [tb_post].
  - change (mk_ctx (lset (c_slab c3) b (RComplete (Sum d1 d2))) (c_uf c3)) with (cset c3 b (RComplete (Sum d1 d2))).
    destruct T3 as (_ & RK3 & _). split; [exact RK3|]. split; [exact L3|].
    pose proof (np_cset_lt c3 b (RComplete (Sum d1 d2)) Lb3 ltac:(rewrite Eb3; reflexivity) eq_refl).
    pose proof (mcd_cset c3 b (RComplete (Sum d1 d2)) Lb3) as Mc. cbn [cdb tdepth] in Mc.
    pose proof (mcd_cset_ge c3 b (RComplete (Sum d1 d2)) ltac:(rewrite Eb3; reflexivity)).
    unfold pot in *. change (c_uf (cset c3 b (RComplete (Sum d1 d2)))) with (c_uf c3). change (mcd c3) with (mcd c2) in *. split; lia.
  - change (mk_ctx (lset (c_slab c3) b (RComplete (Prod d1 d2))) (c_uf c3)) with (cset c3 b (RComplete (Prod d1 d2))).
    destruct T3 as (_ & RK3 & _). split; [exact RK3|]. split; [exact L3|].
    pose proof (np_cset_lt c3 b (RComplete (Prod d1 d2)) Lb3 ltac:(rewrite Eb3; reflexivity) eq_refl).
    pose proof (mcd_cset c3 b (RComplete (Prod d1 d2)) Lb3) as Mc. cbn [cdb tdepth] in Mc.
    pose proof (mcd_cset_ge c3 b (RComplete (Prod d1 d2)) ltac:(rewrite Eb3; reflexivity)).
    unfold pot in *. change (c_uf (cset c3 b (RComplete (Prod d1 d2)))) with (c_uf c3). change (mcd c3) with (mcd c2) in *. split; lia.
Qed.

Lemma reassign_total c b new eb extra : TI c -> holds_ref c eb b -> slab_get c b = RFree -> (cdb new <= mcd c)%nat ->
  ((if pairb new then 1 else 0) <= extra)%nat ->
  tb_post c extra (reassign_non_complete c b new).
Proof.
  intros (CW & RK & LB) (Le & Re & Be) Eb Cd Ex. pose proof CW as (_ & _ & _ & Br).
  assert (Lb : (b < length (c_slab c))%nat) by (rewrite <- Be; apply Br; assumption).
  unfold reassign_non_complete. rewrite Eb. cbn [tb_post].
  change (mk_ctx (lset (c_slab c) b new) (c_uf c)) with (cset c b new).
  split; [exact RK|]. split; [reflexivity|].
  pose proof (mcd_cset c b new Lb). pose proof (mcd_cset_ge c b new ltac:(rewrite Eb; reflexivity)).
  assert (Np : (np (cset c b new) <= np c + (if pairb new then 1 else 0))%nat).
  { destruct (pairb new) eqn:Pn; [apply np_cset_le|rewrite Nat.add_0_r; apply np_cset_nopair; exact Pn]. }
  unfold pot. change (c_uf (cset c b new)) with (c_uf c). split; lia.
Qed.

Lemma TB_step f : TB f -> TB (S f).
Proof.
  intros BS. pose proof (TU_of_TB f BS) as US.
  intros c b new eb T HR BI Cd Fo. pose proof T as (CW & RK & LB). pose proof CW as (W & Ch & Un & Br). pose proof HR as (Le & Re & Be).
  assert (Lb : (b < length (c_slab c))%nat) by (rewrite <- Be; apply Br; assumption).
  assert (Same : tb_post c 0 (Ok c)) by (cbn [tb_post]; repeat split; auto; lia).
  assert (Same1 : tb_post c 1 (Ok c)) by (cbn [tb_post]; repeat split; auto; lia).
  rewrite bind_S.
  destruct new as [|t|y1 y2|y1 y2]; cbn [pairb fuel_ok cdb] in *.
  - destruct (slab_get c b) as [|[|? ?|? ?]|? ?|? ?]; exact Same.
  - destruct (slab_get c b) as [|ef|x1 x2|x1 x2] eqn:Eb.
    + apply (reassign_total c b (RComplete t) eb 0 T HR Eb Cd). cbn. lia.
    + assert (G : forall (A : Type) (x : A), match ef with One | _ => x end = x) by (intros; destruct ef; reflexivity).
      rewrite G. destruct (ty_eqb ef t); [exact Same|exact I].
    + destruct (Ch b x1 x2 (or_introl Eb)) as [L1 L2]. destruct t as [|c1 c2|c1 c2]; try exact I.
      cbn [tdepth] in Fo, Cd. apply (comp_chain_total f BS c x1 x2 c1 c2 T L1 L2); lia.
    + destruct (Ch b x1 x2 (or_intror Eb)) as [L1 L2]. destruct t as [|c1 c2|c1 c2]; try exact I.
      cbn [tdepth] in Fo, Cd. apply (comp_chain_total f BS c x1 x2 c1 c2 T L1 L2); lia.
  - destruct BI as [Ly1 Ly2].
    destruct (slab_get c b) as [|ef|x1 x2|x1 x2] eqn:Eb.
    + apply (reassign_total c b (RSum y1 y2) eb 1 T HR Eb Cd). cbn. lia.
    + pose proof (mcd_ge c b Lb) as Mg. rewrite Eb in Mg. cbn [cdb] in Mg.
      destruct ef as [|c1 c2|c1 c2]; try exact I. cbn [tdepth] in Mg.
      pose proof (comp_chain_total f BS c y1 y2 c1 c2 T Ly1 Ly2 ltac:(unfold pot in Fo; lia) ltac:(unfold pot in Fo; lia) ltac:(lia) ltac:(lia)) as Cc.
      destruct (comp_chain f c y1 y2 c1 c2) as [c'|e|k|]; cbn [tb_post] in *; auto. destruct Cc as (A1 & A2 & A3 & A4). repeat split; auto; lia.
    + pose proof (struct_chain_total f US c b eb true x1 x2 y1 y2 T HR Eb Ly1 Ly2 ltac:(lia)) as Sc.
      destruct (struct_chain f c b true x1 x2 y1 y2) as [c'|e|k|]; cbn [tb_post] in *; auto. destruct Sc as (A1 & A2 & A3 & A4). repeat split; auto; lia.
    + exact I.
  - destruct BI as [Ly1 Ly2].
    destruct (slab_get c b) as [|ef|x1 x2|x1 x2] eqn:Eb.
    + apply (reassign_total c b (RProd y1 y2) eb 1 T HR Eb Cd). cbn. lia.
    + pose proof (mcd_ge c b Lb) as Mg. rewrite Eb in Mg. cbn [cdb] in Mg.
      destruct ef as [|c1 c2|c1 c2]; try exact I. cbn [tdepth] in Mg.
      pose proof (comp_chain_total f BS c y1 y2 c1 c2 T Ly1 Ly2 ltac:(unfold pot in Fo; lia) ltac:(unfold pot in Fo; lia) ltac:(lia) ltac:(lia)) as Cc.
      destruct (comp_chain f c y1 y2 c1 c2) as [c'|e|k|]; cbn [tb_post] in *; auto. destruct Cc as (A1 & A2 & A3 & A4). repeat split; auto; lia.
    + exact I.
    + pose proof (struct_chain_total f US c b eb false x1 x2 y1 y2 T HR Eb Ly1 Ly2 ltac:(lia)) as Sc.
      destruct (struct_chain f c b false x1 x2 y1 y2) as [c'|e|k|]; cbn [tb_post] in *; auto. destruct Sc as (A1 & A2 & A3 & A4). repeat split; auto; lia.
Qed.

Theorem TB_all : forall f, TB f.
Proof.
  induction f as [|f IH]; [|apply TB_step; exact IH].
  intros c b new eb T HR BI Cd Fo. destruct new; cbn [fuel_ok] in Fo; lia.
Qed.

Theorem TU_all : forall f, TU f.
Proof. intros f. apply TU_of_TB. apply TB_all. Qed.
