(* Executable entry points of the C14 correspondence check: for jet i of a family, everything the harness
   observes through the real library (Jet::encode, Jet::decode, Display, FromStr, cmr, source_ty/target_ty
   expanded with to_final and measured with to_bit_width, cost), computed by the model functions of
   Jets/JetTable.v and Jets/TypeName.v over the generated tables.  Output format = harness_jets `jet` case. *)
From RS Require Import Lib.Tac Lib.Outcome Lib.Bits Ty.Ty Jets.TypeName Jets.JetTable
  Generated.Jets_core Generated.Jets_elements.
From Coq Require Import String Ascii.
Import ListNotations.
Local Open Scope N_scope.

(* compact, injective printing of a type: 2^(2^k)-bit words as [3; k] *)
Fixpoint word_log (t : ty) : option N :=
  match t with
  | Sum One One => Some 0
  | Prod a b => match word_log a, word_log b with
                | Some x, Some y => if x =? y then Some (x + 1) else None
                | _, _ => None
                end
  | _ => None
  end.

Fixpoint ty_compact (t : ty) : list N :=
  match word_log t with
  | Some k => [3; k]
  | None => match t with
            | One => [0]
            | Sum a b => 1 :: ty_compact a ++ ty_compact b
            | Prod a b => 2 :: ty_compact a ++ ty_compact b
            end
  end.

Definition str_codes (s : string) : list N := map N_of_ascii (list_ascii_of_string s).
Definition with_len (l : list N) : list N := N.of_nat (List.length l) :: l.

Definition show_type (s : string) : list N :=
  match tn_to_bit_width s, tn_to_final s with
  | Ok w, Ok t => [0; w] ++ with_len (ty_compact t)
  | _, _ => [9]
  end.

(* jet index and number of bits consumed *)
Definition show_decode (bits : list bool) (r : outcome dec_err (N * list bool)) : list N :=
  match r with
  | Ok (i, rest) => [0; i; N.of_nat (List.length bits - List.length rest)]
  | Err DEndOfStream => [1]
  | Err DInvalidJet => [2]
  | Panic c => [9; c]
  | OutOfFuel => [8]
  end.

Definition run_row (fam : family) (j : jet_row) : list N :=
  match jet_encode j with
  | Ok code => [0; N.of_nat (List.length code); val_be code] ++ show_decode code (decode (f_tree fam) code)
  | _ => [9]
  end ++
  with_len (str_codes (j_name j)) ++
  match parse fam (j_name j) with Ok i => [0; i] | _ => [1] end ++
  with_len (j_cmr j) ++ show_type (j_src j) ++ show_type (j_tgt j) ++ [j_cost j].

Definition run_jet (fam : family) (i : N) : list N :=
  match row_at fam i with Some j => run_row fam j | None => [7] end.

(* decoding an arbitrary bit string with the family's decode tree *)
Definition run_decode (fam : family) (bits : list bool) : list N := show_decode bits (decode (f_tree fam) bits).
(* parsing an arbitrary name *)
Definition run_parse (fam : family) (s : list N) : list N :=
  match parse fam (string_of_list_ascii (map ascii_of_N s)) with Ok i => [0; i] | _ => [1] end.

Definition fam_of (k : N) : family := if k =? 0 then core_family else elements_family.
