(* Specifications of the SHA-256 family of Core jets, of parse_lock / parse_sequence and of
   the field and scalar arithmetic of secp256k1, as functions on typed values.
     src/jet/init/core.rs                               names, table order, types
     simplicity-sys/depend/simplicity/jets.c            sha_256_iv, sha_256_block, sha_256_ctx_8_init,
                                                        sha_256_ctx_8_add_n, sha_256_ctx_8_add_buffer_511,
                                                        sha_256_ctx_8_finalize, tapdata_init, parse_lock,
                                                        parse_sequence (C implementations, not modelled)
     simplicity-sys/depend/simplicity/frame.c           read_sha256_context / write_sha256_context,
                                                        read_buffer8 / write_buffer8 (the CTX8 layout)
     simplicity-sys/depend/simplicity/sha256.h          sha256_uchars, sha256_finalize, the counter limit
   Unlike Jets/JetSpec.v the types here contain padding (CTX8 has six optional words), so a
   specification is a function on [sval].  The compression function is Merkle/Sha256.v
   (executable, on Uint63 primitives).

   CTX8 = (TWO^8)^<64 * TWO^64 * TWO^256: a buffer of fewer than 64 bytes (options of 32, 16, 8, 4,
   2, 1 bytes), the number of compressed blocks, the midstate.  A context whose block count is
   >= 2^55 is rejected by every jet that reads one; adding n bytes is rejected when
   2^61 - (64 * blocks + buffered) <= n. *)
From Coq Require Import String.
From RS Require Import Lib.Tac Lib.Outcome Lib.Bits Ty.Ty Core.Prog Core.Term Core.Typing Core.Sem.
From RS Require Merkle.Sha256.
Import ListNotations.
Local Open Scope N_scope.

(* ------------------------------------------------------------------ words, bytes, numbers *)
Fixpoint bytes_of_bits (n : nat) (l : list bool) : list N :=
  match n with
  | O => []
  | S k => val_be (firstn 8 l) :: bytes_of_bits k (skipn 8 l)
  end.

(* a word of 2^k bits (k >= 3) as 2^(k-3) bytes, and back *)
Definition word_bytes (k : nat) (a : sval) : list N :=
  bytes_of_bits (2 ^ (k - 3)) (padded_enc (word_ty k) a).
Definition bytes_word (k : nat) (l : list N) : sval := of_padded (word_ty k) (bits_of_bytes l).
(* a word of 2^k bits as a number, and back (reduced modulo 2^(2^k)) *)
Definition word_num (k : nat) (a : sval) : N := val_be (padded_enc (word_ty k) a).
Definition num_word (k : nat) (n : N) : sval := of_padded (word_ty k) (bits_be (2 ^ k) n).

(* ------------------------------------------------------------------ the CTX8 type *)
(* (TWO^8)^<2^(n+1): S (TWO^8)^(2^n) * ... * S (TWO^8) *)
Fixpoint buf_ty (n : nat) : ty :=
  match n with
  | O => option_ty (word_ty 3)
  | S k => Prod (option_ty (word_ty (S k + 3))) (buf_ty k)
  end.

Definition Ctx8 : ty := Prod (buf_ty 5) (Prod (word_ty 6) (word_ty 8)).

Definition opt_bytes (k : nat) (o : sval) : list N :=
  match o with SR w => word_bytes k w | _ => [] end.

(* read_buffer8 *)
Fixpoint buf_bytes (n : nat) (v : sval) : list N :=
  match n with
  | O => opt_bytes 3 v
  | S k => match v with SP o r => opt_bytes (S k + 3) o ++ buf_bytes k r | _ => [] end
  end.

(* write_buffer8: the first 2^n bytes when at least that many are left, and so on *)
Fixpoint buf_enc (n : nat) (l : list N) : sval :=
  let nb := (2 ^ n)%nat in
  let here := Nat.leb nb (length l) in
  let o := if here then SR (bytes_word (n + 3) (firstn nb l)) else SL SU in
  match n with
  | O => o
  | S k => SP o (buf_enc k (if here then skipn nb l else l))
  end.

Definition MAX_BLOCKS : N := 2 ^ 55.       (* sha256_max_counter >> 6 *)
Definition MAX_COUNTER : N := 2 ^ 61.      (* sha256_max_counter *)

Record sha_ctx := mkCtx { c_buf : list N; c_blocks : N; c_mid : Sha256.state }.

(* read_sha256_context: None when the block count is too large *)
Definition read_ctx (v : sval) : option sha_ctx :=
  match v with
  | SP b (SP c m) =>
      let cc := word_num 6 c in
      if MAX_BLOCKS <=? cc then None
      else Some (mkCtx (buf_bytes 5 b) cc (Sha256.state_of_bytes (word_bytes 8 m)))
  | _ => None
  end.

Definition state_word (s : Sha256.state) : sval := bytes_word 8 (Sha256.bytes_of_state s).

(* write_sha256_context *)
Definition write_ctx (c : sha_ctx) : sval :=
  SP (buf_enc 5 (c_buf c)) (SP (num_word 6 (c_blocks c)) (state_word (c_mid c))).

(* compress every complete 64-byte block of [l]; returns the midstate and the rest *)
Fixpoint absorb_blocks (fuel : nat) (st : Sha256.state) (l : list N) : Sha256.state * list N :=
  match fuel with
  | O => (st, l)
  | S f =>
      if Nat.leb 64 (length l)
      then absorb_blocks f (Sha256.sha_compress st (Sha256.words_of_bytes (firstn 64 l))) (skipn 64 l)
      else (st, l)
  end.

(* sha256_uchars on a context that was read successfully; None = the counter overflows *)
Definition ctx_add (c : sha_ctx) (data : list N) : option sha_ctx :=
  let counter := 64 * c_blocks c + N.of_nat (length (c_buf c)) in
  let n := N.of_nat (length data) in
  if MAX_COUNTER - counter <=? n then None
  else
    let all := c_buf c ++ data in
    let '(st, rest) := absorb_blocks (S (length all / 64)) (c_mid c) all in
    Some (mkCtx rest ((counter + n) / 64) st).

(* the FIPS padding that follows a message of [len] bytes *)
Definition pad_tail (len : N) : list N :=
  let r := (len + 1) mod 64 in
  let zeros := if r <=? 56 then 56 - r else 120 - r in
  [128] ++ repeat 0 (N.to_nat zeros) ++ Sha256.be64 (8 * len).

(* sha256_finalize *)
Definition ctx_finalize (c : sha_ctx) : Sha256.state :=
  let counter := 64 * c_blocks c + N.of_nat (length (c_buf c)) in
  let all := c_buf c ++ pad_tail counter in
  fst (absorb_blocks (S (length all / 64)) (c_mid c) all).

(* ------------------------------------------------------------------ the specifications *)
Record gspec := mkG {
  g_id : N;                       (* index in Core::ALL *)
  g_name : string;                (* Display name *)
  g_src : ty;
  g_tgt : ty;
  g_fn : sval -> option sval      (* None: the jet fails *)
}.

Definition g_sha_256_iv : gspec :=
  mkG 345 "sha_256_iv" One (word_ty 8) (fun _ => Some (state_word Sha256.sha_iv0)).

Definition g_sha_256_block : gspec :=
  mkG 331 "sha_256_block" (Prod (word_ty 8) (word_ty 9)) (word_ty 8)
      (fun a => match a with
                | SP h b => Some (state_word (Sha256.sha_compress (Sha256.state_of_bytes (word_bytes 8 h))
                                                                  (Sha256.words_of_bytes (word_bytes 9 b))))
                | _ => None
                end).

Definition g_ctx_init : gspec :=
  mkG 344 "sha_256_ctx_8_init" One Ctx8 (fun _ => Some (write_ctx (mkCtx [] 0 Sha256.sha_iv0))).

(* the midstate of the tagged hash "TapData" after the two copies of SHA256("TapData") *)
Definition tapdata_tag : list N := [84; 97; 112; 68; 97; 116; 97].
Definition g_tapdata_init : gspec :=
  mkG 356 "tapdata_init" One Ctx8 (fun _ => Some (write_ctx (mkCtx [] 1 (Sha256.sha_hash_tag tapdata_tag)))).

Definition ctx_add_fn (data : sval -> list N) (a : sval) : option sval :=
  match a with
  | SP cv d =>
      match read_ctx cv with
      | None => None
      | Some c => match ctx_add c (data d) with Some c' => Some (write_ctx c') | None => None end
      end
  | _ => None
  end.

(* sha_256_ctx_8_add_(2^(k-3)): CTX8 * 2^(2^k) -> CTX8 *)
Definition g_ctx_add (id : N) (nm : string) (k : nat) : gspec :=
  mkG id nm (Prod Ctx8 (word_ty k)) Ctx8 (ctx_add_fn (word_bytes k)).

Definition g_ctx_add_buffer : gspec :=
  mkG 342 "sha_256_ctx_8_add_buffer_511" (Prod Ctx8 (buf_ty 8)) Ctx8 (ctx_add_fn (buf_bytes 8)).

Definition g_ctx_finalize : gspec :=
  mkG 343 "sha_256_ctx_8_finalize" Ctx8 (word_ty 8)
      (fun a => match read_ctx a with
                | Some c => Some (state_word (ctx_finalize c))
                | None => None
                end).

(* parse_lock: heights to the left, times (>= 500000000) to the right *)
Definition g_parse_lock : gspec :=
  mkG 263 "parse_lock" (word_ty 5) (Sum (word_ty 5) (word_ty 5))
      (fun a => let n := word_num 5 a in
                Some (if 500000000 <=? n then SR (num_word 5 n) else SL (num_word 5 n))).

(* parse_sequence: nothing when bit 31 is set; else the low 16 bits, as a distance in blocks
   (left) or, when bit 22 is set, as a duration (right) *)
Definition g_parse_sequence : gspec :=
  mkG 264 "parse_sequence" (word_ty 5) (option_ty (Sum (word_ty 4) (word_ty 4)))
      (fun a => let n := word_num 5 a in
                Some (if n <? 2 ^ 31
                      then SR (if N.testbit n 22 then SR (num_word 4 (n mod 2 ^ 16)) else SL (num_word 4 (n mod 2 ^ 16)))
                      else SL SU)).

(* ------------------------------------------------------------------ secp256k1: field and scalar arithmetic
   Field elements and scalars are 256-bit words; every input is reduced first (the C code
   accepts any 256-bit pattern), every output is the canonical representative. *)
Definition FE_P : N := 2 ^ 256 - 2 ^ 32 - 977.
Definition SC_N : N := 115792089237316195423570985008687907852837564279074904382605163141518161494337.
Definition FE_BETA : N := 55594575648329892869085402983802832744385952214688224221778511981742606582254.
Definition SC_LAMBDA : N := 37718080363155996902926221483475020450927657555482586988616620542887997980018.

(* m^e mod p by repeated squaring over the binary digits of e *)
Definition pow_mod (m e p : N) : N :=
  match e with
  | N0 => 1 mod p
  | Npos q =>
      (fix go (q : positive) : N :=
         match q with
         | xH => m mod p
         | xO r => let x := go r in (x * x) mod p
         | xI r => let x := go r in ((x * x) mod p * m) mod p
         end) q
  end.

Definition W8 : ty := word_ty 8.
Definition W9 : ty := word_ty 9.

Definition g_mod1 (f : N -> N) (id : N) (nm : string) : gspec :=
  mkG id nm W8 W8 (fun a => Some (num_word 8 (f (word_num 8 a)))).
Definition g_mod2 (f : N -> N -> N) (id : N) (nm : string) : gspec :=
  mkG id nm W9 W8 (fun a => match a with
                            | SP x y => Some (num_word 8 (f (word_num 8 x) (word_num 8 y)))
                            | _ => None
                            end).
Definition g_pred1 (f : N -> bool) (id : N) (nm : string) : gspec :=
  mkG id nm W8 Bit (fun a => Some (if f (word_num 8 a) then SR SU else SL SU)).

Definition fe_sqrt (x : N) : sval :=
  let a := x mod FE_P in
  let r := pow_mod a ((FE_P + 1) / 4) FE_P in
  if (r * r) mod FE_P =? a then SR (num_word 8 r) else SL SU.

Definition secp_table : list gspec :=
  [ g_mod2 (fun x y => (x + y) mod FE_P) 49 "fe_add";
    g_mod1 (fun x => pow_mod x (FE_P - 2) FE_P) 50 "fe_invert";
    g_pred1 (fun x => N.odd (x mod FE_P)) 51 "fe_is_odd";
    g_pred1 (fun x => x mod FE_P =? 0) 52 "fe_is_zero";
    g_mod2 (fun x y => (x * y) mod FE_P) 53 "fe_multiply";
    g_mod1 (fun x => (x * FE_BETA) mod FE_P) 54 "fe_multiply_beta";
    g_mod1 (fun x => (FE_P - x mod FE_P) mod FE_P) 55 "fe_negate";
    g_mod1 (fun x => x mod FE_P) 56 "fe_normalize";
    g_mod1 (fun x => (x * x) mod FE_P) 57 "fe_square";
    mkG 58 "fe_square_root" W8 (option_ty W8) (fun a => Some (fe_sqrt (word_num 8 a)));
    g_mod2 (fun x y => (x + y) mod SC_N) 322 "scalar_add";
    g_mod1 (fun x => pow_mod x (SC_N - 2) SC_N) 323 "scalar_invert";
    g_pred1 (fun x => x mod SC_N =? 0) 324 "scalar_is_zero";
    g_mod2 (fun x y => (x * y) mod SC_N) 325 "scalar_multiply";
    g_mod1 (fun x => (x * SC_LAMBDA) mod SC_N) 326 "scalar_multiply_lambda";
    g_mod1 (fun x => (SC_N - x mod SC_N) mod SC_N) 327 "scalar_negate";
    g_mod1 (fun x => x mod SC_N) 328 "scalar_normalize";
    g_mod1 (fun x => (x * x) mod SC_N) 329 "scalar_square" ].

(* ------------------------------------------------------------------ the table *)
Definition sha_table : list gspec :=
  [ g_parse_lock; g_parse_sequence; g_sha_256_block;
    g_ctx_add 332 "sha_256_ctx_8_add_1" 3; g_ctx_add 333 "sha_256_ctx_8_add_128" 10;
    g_ctx_add 334 "sha_256_ctx_8_add_16" 7; g_ctx_add 335 "sha_256_ctx_8_add_2" 4;
    g_ctx_add 336 "sha_256_ctx_8_add_256" 11; g_ctx_add 337 "sha_256_ctx_8_add_32" 8;
    g_ctx_add 338 "sha_256_ctx_8_add_4" 5; g_ctx_add 339 "sha_256_ctx_8_add_512" 12;
    g_ctx_add 340 "sha_256_ctx_8_add_64" 9; g_ctx_add 341 "sha_256_ctx_8_add_8" 6;
    g_ctx_add_buffer; g_ctx_finalize; g_ctx_init; g_sha_256_iv; g_tapdata_init ].

Definition gtable : list gspec := sha_table ++ secp_table.

Fixpoint find_g (tab : list gspec) (j : N) : option gspec :=
  match tab with
  | [] => None
  | s :: r => if g_id s =? j then Some s else find_g r j
  end.

(* the specification of jet j on a: the result is checked against the target type, which makes
   [jets_typed] hold by construction (a wrong entry shows up as a correspondence failure) *)
Definition gspec_sem (tab : list gspec) (j : N) (a : sval) : option (option sval) :=
  match find_g tab j with
  | None => None
  | Some g =>
      Some (match g_fn g a with
            | Some b => if has_ty b (g_tgt g) then Some b else None
            | None => None
            end)
  end.

Definition gspec_ty (tab : list gspec) (j : N) : option arrow :=
  match find_g tab j with
  | Some g => Some (g_src g, g_tgt g)
  | None => None
  end.

Lemma gspec_sem_typed tab j A B a r b :
  gspec_ty tab j = Some (A, B) -> gspec_sem tab j a = Some r -> r = Some b -> has_ty b B = true.
Proof.
  unfold gspec_ty, gspec_sem. destruct (find_g tab j) as [g|]; [|discriminate].
  intros [= <- <-] [= <-]. destruct (g_fn g a) as [x|]; [|discriminate].
  destruct (has_ty x (g_tgt g)) eqn:E; [|discriminate]. intros [= <-]. exact E.
Qed.
