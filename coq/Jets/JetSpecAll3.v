(* The dispatcher over all specified Core jets, extended with the secp256k1 point jets of
   Jets/JetSpecSecp.v and the signature jets of Jets/JetSpecSecpSig.v (all 368 Core jets are
   specified), and the entry points of the correspondence checks of C05 / C07 over it
   (the functions of Core/Run2.v and Core/RunV.v instantiated with [jet_spec3]). *)
From Coq Require Import String.
From RS Require Import Lib.Tac Lib.Outcome Lib.Bits Ty.Ty Core.Prog Core.Term Core.Typing Core.Sem
  Core.Bounds Core.Limits Core.Machine Core.Run Core.Run2 Core.ExecValue
  Jets.JetSpec Jets.JetSpecSha Jets.JetSpecAll Jets.JetSpecSecp Jets.JetSpecSecpSig.
From RS Require Value.ValueModel.
Import ListNotations.
Local Open Scope N_scope.

Definition ec_table3 : list gspec := ec_table ++ sig_table.

Definition jet_spec3_ty (j : N) : option arrow :=
  match gspec_ty ec_table3 j with
  | Some ar => Some ar
  | None => jet_spec2_ty j
  end.

Definition jet_spec3 (j : N) (a : sval) : option sval :=
  match gspec_sem ec_table3 j a with
  | Some r => r
  | None => jet_spec2 j a
  end.

Theorem jet_spec3_typed : jets_typed jet_spec3_ty jet_spec3.
Proof.
  intros j A B a b Hty Ha Hs. unfold jet_spec3_ty, jet_spec3 in *.
  destruct (gspec_ty ec_table3 j) as [ar|] eqn:Et.
  - injection Hty as ->. destruct (gspec_sem ec_table3 j a) as [r|] eqn:Es.
    + eapply gspec_sem_typed; eauto.
    + unfold gspec_ty, gspec_sem in *. destruct (find_g ec_table3 j); discriminate.
  - assert (gspec_sem ec_table3 j a = None) as Es.
    { unfold gspec_ty, gspec_sem in *. destruct (find_g ec_table3 j); [discriminate|reflexivity]. }
    rewrite Es in Hs. eapply jet_spec2_typed; eauto.
Qed.

(* the extension is conservative: the jets specified before keep their specification *)
Lemma jet_spec3_old j a :
  find_g ec_table3 j = None -> jet_spec3 j a = jet_spec2 j a /\ jet_spec3_ty j = jet_spec2_ty j.
Proof. intros E. unfold jet_spec3, jet_spec3_ty, gspec_sem, gspec_ty. rewrite E. auto. Qed.

Lemma ec_table_disjoint :
  forallb (fun g => match find_g ec_table3 (g_id g) with None => true | Some _ => false end) gtable = true /\
  forallb (fun s => match find_g ec_table3 (j_id s) with None => true | Some _ => false end) jet_table = true.
Proof. vm_compute. auto. Qed.

Lemma ec_table_ids_distinct :
  (fix distinct (l : list N) : bool :=
     match l with
     | [] => true
     | x :: r => negb (existsb (N.eqb x) r) && distinct r
     end) (map g_id ec_table3) = true.
Proof. vm_compute. reflexivity. Qed.

Definition jet_table_names3 : list (list N) :=
  jet_table_names2 ++ map (fun g => g_id g :: string_bytes (g_name g)) ec_table3.

(* ------------------------------------------------------------------ entry points *)
Definition run_exec3 := run_exec_gen jet_spec3_ty jet_spec3.
Definition run_eval3 := run_eval_gen jet_spec3.
Definition run_jet_names3 : list (list N) := jet_table_names3.

(* Core/RunV.v run_exec_v over [jet_spec3] *)
Definition run_exec_v3 (prof : N) (p : typed_prog) (cm : cmr_table) (jc : list (N * N))
    (inp : option (list N * N * ty)) : list N :=
  match root_term p cm with
  | None => [7]
  | Some t =>
      let pr := prof_of prof in
      let jcost := lookup_cost jc in
      let b := bounds jcost t in
      let head := head_of b (bw (src t)) (bw (tgt t)) in
      match for_program pr jcost t with
      | Err e => 2 :: head ++ show_limit e
      | Panic _ => [9]
      | OutOfFuel => [8]
      | Ok st0 =>
          let vin := match inp with
                     | None => None
                     | Some (bytes, off, ty) => Some (ValueModel.mkV bytes off ty)
                     end in
          let echo := match inp with
                      | None => [0; 0]
                      | Some (bytes, off, _) => off :: N.of_nat (length bytes) :: bytes
                      end in
          0 :: head ++ [msize (mem st0); machine_cap jcost t; b2n (wt jet_spec3_ty t)] ++
          match machine_exec_v pr jcost jet_spec3 t (mem st0) vin with
          | Ok (st, v) =>
              [0; hwc st; hwf st] ++ echo ++
              [ValueModel.off v; N.of_nat (length (ValueModel.buf v))] ++ ValueModel.buf v ++
              [b2n (ty_eqb (ValueModel.vty v) (tgt t)); b2n (ty_eqb (ValueModel.vty v) One)]
          | Err (e, st) => [1; hwc st; hwf st] ++ show_error e
          | Panic _ => [9]
          | OutOfFuel => [8]
          end
      end
  end.
