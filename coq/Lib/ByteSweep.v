(* Shift/mask facts about u8 values, each discharged by a finite sweep over all
   bytes and all offsets 0..7 (vm_compute) and lifted with forallb_forall. *)
From Coq Require Import List NArith ZArith Lia Bool.
From RS Require Import Lib.Bits Lib.Sweep.
Import ListNotations.
Local Open Scope N_scope.

Definition u8 (x : N) : N := x mod 256.

Lemma mask_is_testbit c k : c < 256 -> k < 8 ->
  negb (N.land c (N.shiftl 1 k) =? 0) = N.testbit c k.
Proof.
  intros Hc Hk.
  pose proof (sweep2 256 8
    (fun c k => Bool.eqb (negb (N.land c (N.shiftl 1 k) =? 0)) (N.testbit c k))
    ltac:(vm_compute; reflexivity) c k Hc Hk) as H.
  apply eqb_prop in H. exact H.
Qed.

(* u8 shift / mask facts used by read_u8, by finite sweep *)
Lemma read_u8_sweep c nb rb : c < 256 -> nb < 256 -> rb < 8 -> 1 <= rb ->
  let v := u8 (N.shiftl c rb) + N.shiftr nb (8 - rb) in
  v < 256 /\
  bits_be 8 v = bits_be (N.to_nat (8 - rb)) c ++ firstn (N.to_nat rb) (bits_be 8 nb) /\
  skipn (N.to_nat rb) (bits_be 8 nb) = bits_be (N.to_nat (8 - rb)) nb.
Proof.
  intros Hc Hnb Hrb H1.
  pose proof (sweep3 256 256 8
    (fun c nb rb =>
       (rb =? 0) ||
       (let v := u8 (N.shiftl c rb) + N.shiftr nb (8 - rb) in
        (v <? 256) &&
        list_beq Bool.eqb (bits_be 8 v)
          (bits_be (N.to_nat (8 - rb)) c ++ firstn (N.to_nat rb) (bits_be 8 nb)) &&
        list_beq Bool.eqb (skipn (N.to_nat rb) (bits_be 8 nb)) (bits_be (N.to_nat (8 - rb)) nb)))
    ltac:(vm_compute; reflexivity) c nb rb Hc Hnb Hrb) as H.
  cbv beta in H. apply orb_true_iff in H. destruct H as [H|H]; [apply N.eqb_eq in H; lia|].
  cbv zeta in H. apply andb_true_iff in H. destruct H as [H Hs].
  apply andb_true_iff in H. destruct H as [Hv Hb].
  apply N.ltb_lt in Hv. apply list_beq_bool in Hb. apply list_beq_bool in Hs.
  cbv zeta. auto.
Qed.

Lemma close_mask_sweep c k : c < 256 -> k < 8 ->
  (N.land c (N.shiftl 1 k - 1) =? 0) = forallb negb (bits_be (N.to_nat k) c).
Proof.
  intros Hc Hk.
  pose proof (sweep2 256 8
    (fun c k => Bool.eqb (N.land c (N.shiftl 1 k - 1) =? 0) (forallb negb (bits_be (N.to_nat k) c)))
    ltac:(vm_compute; reflexivity) c k Hc Hk) as H.
  apply eqb_prop in H. exact H.
Qed.

