(* C18 - theorems about the model of Node::convert (Dag/Convert.v): no panic, one converted
   node per yielded item, child pointers = the converted nodes of the children's classes,
   structure of the result. *)
From RS Require Import Lib.Tac Lib.Outcome Dag.DagModel Dag.PostOrderSpec Dag.PostOrderProps
  Dag.VisitFacts Dag.Convert.
Import ListNotations.
Local Open Scope N_scope.

Definition olist {A} (o : option A) : list A := match o with Some a => [a] | None => [] end.

(* the payload a combinator carries besides children, disconnect and witness data *)
Definition pay_of {C X W} (i : inner C X W) : option N :=
  match i with
  | IAssertL _ h | IAssertR h _ => Some h
  | IFail e => Some e | IJet j => Some j | IWord w => Some w
  | _ => None
  end.

(* the child indices `map_left_right` takes from the item *)
Definition own_idx {C X W} (i : inner C X W) (li ri : option N) : list N :=
  match i with
  | IInjL _ | IInjR _ | ITake _ | IDrop _ | IAssertL _ _ | IAssertR _ _ | IDisconnect _ _ => olist li
  | IComp _ _ | ICase _ _ | IPair _ _ => olist li ++ olist ri
  | _ => []
  end.

Definition slot_ok (oc : option nat) (oi : option N) (n : nat) : Prop :=
  match oc, oi with
  | None, None => True
  | Some _, Some j => (N.to_nat j < n)%nat
  | _, _ => False
  end.

Section Item.
Context {X W D X' W' D' St Er : Type}.
Variable dis : X -> option nat.
Variable cv : @converter X W X' W' D' St Er.
Variable t : list (@snode X W D).

(* what one loop body produces from the source combinator `si` and the item's indices:
   the same combinator over the indices (h = HideNeither), or - for a Case - an assertion that
   keeps one child and the CMR `cm` of the other converted child *)
Definition shape_rel (cm : nat -> N) (si : inner nat X W) (li ri : option N) (ti : inner nat X' W') : Prop :=
  exists h,
    match h with
    | HideNeither =>
        kind_of ti = kind_of si /\ map N.of_nat (ichildren ti) = own_idx si li ri /\ pay_of ti = pay_of si
    | HideLeft => kind_of si = 7 /\ exists l r, li = Some l /\ ri = Some r /\
                    ti = IAssertR (cm (N.to_nat l)) (N.to_nat r)
    | HideRight => kind_of si = 7 /\ exists l r, li = Some l /\ ri = Some r /\
                    ti = IAssertL (N.to_nat l) (cm (N.to_nat r))
    end.

Lemma nth_error_lt {A} (l : list A) i : (i < length l)%nat -> exists x, nth_error l i = Some x.
Proof. intros H. destruct (nth_error l i) eqn:E; [eauto|]. apply nth_error_None in E. lia. Qed.

Ltac slots :=
  repeat match goal with
  | H : slot_ok (Some _) None _ |- _ => destruct H
  | H : slot_ok None (Some _) _ |- _ => destruct H
  | H : slot_ok (Some _) (Some ?j) (length ?c) |- _ =>
      let x := fresh "x" in let E := fresh "E" in
      destruct (nth_error_lt c (N.to_nat j) H) as (x & E); clear H
  end.

Lemma conv_item_no_panic it sn s conv :
  nth_error t (it_node it) = Some sn ->
  slot_ok (left_child_of (as_dag dis (sn_inner sn))) (it_left it) (length conv) ->
  slot_ok (right_child_of (as_dag dis (sn_inner sn))) (it_right it) (length conv) ->
  match conv_item cv t it s conv with Panic _ | OutOfFuel => False | _ => True end.
Proof.
  intros Hn Hl Hr. unfold conv_item. rewrite Hn.
  destruct (sn_inner sn) as [| |c|c|c|c|l r|l r|c h|h c|l r|c x|w|e|j|w] eqn:Ei;
    cbn [as_dag left_child_of right_child_of] in Hl, Hr;
    try (destruct (dis x) as [rr|] eqn:Edis; cbn [left_child_of right_child_of] in Hl, Hr);
    destruct (it_left it) as [li|]; destruct (it_right it) as [ri|]; slots;
    repeat (first
      [ progress cbn [idx_inner unwrap_idx omap obind wit_inner disc_inner clone_inner prune_inner lift_hook]
      | progress unfold clone_idx, maybe_converted
      | match goal with
        | H : nth_error conv _ = Some _ |- _ => rewrite H
        | |- context [cv_witness ?a ?b ?c ?d] => destruct (cv_witness a b c d) as [? [?|?]]
        | |- context [cv_disconnect ?a ?b ?c ?d ?e ?f] => destruct (cv_disconnect a b c d e f) as [? [?|?]]
        | |- context [cv_prune ?a ?b ?c ?d ?e ?f] => destruct (cv_prune a b c d e f) as [? [?|?]]
        | |- context [cv_data ?a ?b ?c ?d ?e] => destruct (cv_data a b c d e) as [? [?|?]]
        end ]);
    try exact I.
Qed.

Ltac conv_steps conv :=
  repeat (first
    [ progress cbn [idx_inner unwrap_idx omap obind wit_inner disc_inner clone_inner prune_inner lift_hook] in *
    | progress unfold clone_idx, maybe_converted in *
    | match goal with
      | H : nth_error conv _ = Some _ |- _ => rewrite H in *
      | H : context [cv_witness ?a ?b ?c ?d] |- _ => destruct (cv_witness a b c d) as [? [?|?]]
      | H : context [cv_disconnect ?a ?b ?c ?d ?e ?f] |- _ => destruct (cv_disconnect a b c d e f) as [? [?|?]]
      | H : context [cv_prune ?a ?b ?c ?d ?e ?f] |- _ => destruct (cv_prune a b c d e f) as [? [[| |]|?]]
      | H : context [cv_data ?a ?b ?c ?d ?e] |- _ => destruct (cv_data a b c d e) as [? [?|?]]
      | H : context [match nth_error conv ?i with _ => _ end] |- _ => destruct (nth_error conv i) eqn:?
      end ]).

Lemma conv_item_shape it sn s conv s' tn :
  nth_error t (it_node it) = Some sn ->
  conv_item cv t it s conv = Ok (s', tn) ->
  tn_cmr tn = sn_cmr sn /\
  shape_rel (cmr_at conv) (sn_inner sn) (it_left it) (it_right it) (tn_inner tn) /\
  (forall c, In c (ichildren (tn_inner tn)) -> (c < length conv)%nat).
Proof.
  intros Hn H. unfold conv_item in H. rewrite Hn in H.
  destruct (sn_inner sn) as [| |c|c|c|c|l r|l r|c h|h c|l r|c x|w|e|j|w] eqn:Ei;
    destruct (it_left it) as [li|]; destruct (it_right it) as [ri|];
    conv_steps conv; try discriminate.
  all: injection H as <- <-; cbn [tn_cmr tn_inner]; split; [reflexivity|].
  all: split; [|cbn [ichildren apply_hide]; intros c0 Hc; cbn [In] in Hc;
                repeat match goal with H : _ \/ _ |- _ => destruct H end; subst; try contradiction;
                match goal with H : nth_error _ ?i = Some _ |- (?i < _)%nat =>
                  apply nth_error_Some; rewrite H; discriminate end].
  all: try (exists HideNeither; cbn [kind_of ichildren own_idx olist pay_of map app];
            rewrite ?Nnat.N2Nat.id; repeat split; reflexivity).
  - exists HideLeft. split; [reflexivity|]. exists li, ri. repeat split.
  - exists HideRight. split; [reflexivity|]. exists li, ri. repeat split.
Qed.
End Item.

Section Run.
Context {X W D X' W' D' St Er : Type}.
Variable dis : X -> option nat.
Variable cv : @converter X W X' W' D' St Er.
Variable key : nat -> option N.
Variable t : list (@snode X W D).
Hypothesis Hwf : swf dis t.
Notation ch := (src_children dis t).

Lemma swf_wfc : wfc ch.
Proof.
  intros n. unfold src_children. destruct (nth_error t n) as [s|] eqn:E; [apply (Hwf n s E)|exact I].
Qed.

Variable root : nat.
Hypothesis Hroot : (root < length t)%nat.
Notation items := (po_spec ch key root).

Lemma item_node_in it : In it items -> exists sn, nth_error t (it_node it) = Some sn.
Proof.
  intros H. apply (po_only_reachable ch key swf_wfc) in H. apply (reach_le ch swf_wfc) in H.
  apply nth_error_lt. lia.
Qed.

Lemma child_ok_slot all b oc oi n : child_ok key all b oc oi -> b = N.of_nat n -> slot_ok oc oi n.
Proof.
  unfold child_ok, slot_ok. destruct oc, oi; auto. intros (Hb & _) ->. lia.
Qed.

Lemma item_slots i it sn : nth_error items i = Some it -> nth_error t (it_node it) = Some sn ->
  slot_ok (left_child_of (as_dag dis (sn_inner sn))) (it_left it) i /\
  slot_ok (right_child_of (as_dag dis (sn_inner sn))) (it_right it) i.
Proof.
  intros Hi Hn.
  pose proof (po_children ch key swf_wfc root it (nth_error_In _ _ Hi)) as [Hl Hr].
  pose proof (po_indices ch key swf_wfc root i it Hi) as Hx.
  unfold src_children in Hl, Hr. rewrite Hn in Hl, Hr.
  split; eapply child_ok_slot; eassumption.
Qed.

Lemma items_nonempty : items <> [].
Proof.
  destruct (po_root ch key swf_wfc root) as (it & Hin & _). intros E. rewrite E in Hin. destruct Hin.
Qed.

(* the converted vector against the items it was made from *)
Definition tbl_rel (its : list po_item) (tbl : list (@tnode X' W' D')) : Prop :=
  length tbl = length its /\
  forall i it tn, nth_error its i = Some it -> nth_error tbl i = Some tn ->
    exists sn, nth_error t (it_node it) = Some sn /\ tn_cmr tn = sn_cmr sn /\
      shape_rel (cmr_at tbl) (sn_inner sn) (it_left it) (it_right it) (tn_inner tn) /\
      (forall c, In c (ichildren (tn_inner tn)) -> (c < i)%nat).

Lemma shape_rel_ext (cm cm' : nat -> N) (si : inner nat X W) li ri (ti : inner nat X' W') :
  (forall l, li = Some l -> cm (N.to_nat l) = cm' (N.to_nat l)) ->
  (forall r, ri = Some r -> cm (N.to_nat r) = cm' (N.to_nat r)) ->
  shape_rel cm si li ri ti -> shape_rel cm' si li ri ti.
Proof.
  intros Hl Hr [h H]. exists h. destruct h; [exact H| |].
  - destruct H as (Hk & l & r & -> & -> & ->). split; [exact Hk|]. exists l, r.
    rewrite (Hl l eq_refl). repeat split.
  - destruct H as (Hk & l & r & -> & -> & ->). split; [exact Hk|]. exists l, r.
    rewrite (Hr r eq_refl). repeat split.
Qed.

Lemma cmr_at_app (conv : list (@tnode X' W' D')) ext j : (j < length conv)%nat ->
  cmr_at conv j = cmr_at (conv ++ ext) j.
Proof. intros H. unfold cmr_at. rewrite nth_error_app1 by exact H. reflexivity. Qed.

(* indices reported by an item of a Case are below the item's position *)
Lemma case_slots i it sn : nth_error items i = Some it -> nth_error t (it_node it) = Some sn ->
  (forall l, it_left it = Some l -> (N.to_nat l < i)%nat \/ left_child_of (as_dag dis (sn_inner sn)) = None) /\
  (forall r, it_right it = Some r -> (N.to_nat r < i)%nat \/ right_child_of (as_dag dis (sn_inner sn)) = None).
Proof.
  intros Hi Hn. destruct (item_slots i it sn Hi Hn) as [Hl Hr]. unfold slot_ok in Hl, Hr. split.
  - intros l E. rewrite E in Hl. destruct (left_child_of _); [left; exact Hl|right; reflexivity].
  - intros r E. rewrite E in Hr. destruct (right_child_of _); [left; exact Hr|right; reflexivity].
Qed.

Lemma conv_items_inv : forall rest pre s conv,
  items = pre ++ rest -> tbl_rel pre conv ->
  match conv_items cv t rest s conv with
  | Ok (_, tbl) => tbl_rel items tbl
  | Err _ => True
  | _ => False
  end.
Proof.
  induction rest as [|it rest IH]; intros pre s conv Hsplit [Hlen Hrel].
  - rewrite app_nil_r in Hsplit. subst pre. cbn [conv_items]. unfold conv_finish.
    destruct conv as [|x conv']; [|split; [exact Hlen|exact Hrel]].
    apply items_nonempty. destruct items; [reflexivity|discriminate].
  - cbn [conv_items].
    assert (Hi : nth_error items (length pre) = Some it).
    { rewrite Hsplit, nth_error_app2 by lia. rewrite Nat.sub_diag. reflexivity. }
    destruct (item_node_in it (nth_error_In _ _ Hi)) as (sn & Hn).
    destruct (item_slots _ _ _ Hi Hn) as [Hl Hr]. rewrite <- Hlen in Hl, Hr.
    pose proof (conv_item_no_panic dis cv t it sn s conv Hn Hl Hr) as Hnp.
    destruct (conv_item cv t it s conv) as [[s' n]| | |] eqn:Ec; cbn [obind]; try exact I; try destruct Hnp.
    destruct (conv_item_shape cv t it sn s conv s' n Hn Ec) as (Hcmr & Hsh & Hkids).
    apply (IH (pre ++ [it])); [rewrite <- app_assoc; exact Hsplit|].
    split; [rewrite !app_length, Hlen; reflexivity|].
    intros i it0 tn Hi0 Ht0.
    assert (Hii : nth_error items i = Some it0).
    { rewrite Hsplit. change (it :: rest) with ([it] ++ rest). rewrite app_assoc. rewrite nth_error_app1; [exact Hi0|]. apply nth_error_Some. rewrite Hi0. discriminate. }
    destruct (Nat.lt_ge_cases i (length pre)) as [Hlt|Hge].
    + rewrite nth_error_app1 in Hi0 by exact Hlt. rewrite nth_error_app1 in Ht0 by lia.
      destruct (Hrel i it0 tn Hi0 Ht0) as (sn0 & Hn0 & Hc0 & Hs0 & Hk0).
      exists sn0. repeat split; try assumption.
      destruct (case_slots i it0 sn0 Hii Hn0) as [Cl Cr].
      destruct Hs0 as [h Hh]. exists h. destruct h; [exact Hh| |].
      * destruct Hh as (Hk & l & r & El & Er0 & ->). split; [exact Hk|]. exists l, r.
        repeat split; try assumption. f_equal. apply cmr_at_app.
        destruct (Cl l El) as [?|Hnone]; [lia|].
        destruct (sn_inner sn0); discriminate.
      * destruct Hh as (Hk & l & r & El & Er0 & ->). split; [exact Hk|]. exists l, r.
        repeat split; try assumption. f_equal. apply cmr_at_app.
        destruct (Cr r Er0) as [?|Hnone]; [lia|].
        destruct (sn_inner sn0); discriminate.
    + rewrite nth_error_app2 in Hi0 by exact Hge. rewrite nth_error_app2 in Ht0 by lia.
      rewrite Hlen in Ht0.
      destruct (i - length pre)%nat as [|d] eqn:Hd; [|destruct d; discriminate].
      cbn in Hi0, Ht0. injection Hi0 as <-. injection Ht0 as <-.
      assert (i = length pre) by lia. subst i.
      exists sn. repeat split; try assumption.
      * eapply shape_rel_ext; [| |exact Hsh].
        -- intros l El. rewrite El in Hl. apply cmr_at_app.
           unfold slot_ok in Hl. destruct (left_child_of _) eqn:Elc.
           ++ exact Hl.
           ++ exfalso. exact Hl.
        -- intros r Er0. rewrite Er0 in Hr. apply cmr_at_app.
           unfold slot_ok in Hr. destruct (right_child_of _); [exact Hr|exfalso; exact Hr].
      * intros c Hc. rewrite <- Hlen. apply Hkids. exact Hc.
Qed.
End Run.

(* ------------------------------------------------------------------ theorems about a whole conversion *)
Section Whole.
Context {X W D X' W' D' St Er : Type}.
Variable dis : X -> option nat.
Variable cv : @converter X W X' W' D' St Er.
Variable key : nat -> option N.
Variable t : list (@snode X W D).
Hypothesis Hwf : swf dis t.
Variable root : nat.
Hypothesis Hroot : (root < length t)%nat.
Notation ch := (src_children dis t).
Notation items := (po_spec ch key root).

Lemma convert_items fuel s : (po_fuel ch root <= fuel)%nat ->
  convert dis cv key t fuel root s = conv_items cv t items s [].
Proof.
  intros Hf. unfold convert. apply convert_loop_items.
  replace fuel with (po_fuel ch root + (fuel - po_fuel ch root))%nat by lia.
  apply po_run_more. apply po_refines. apply swf_wfc. exact Hwf.
Qed.

Lemma tbl_rel_nil : @tbl_rel X W D X' W' D' t [] [].
Proof. split; [reflexivity|]. intros i it tn H. destruct i; discriminate. Qed.

(* THEOREM convert_no_panic: every unwrap of a child index succeeds and every `converted[..]`
   lookup is in range; the final pop finds the root; enough fuel is 2 * tree size + 1 *)
Theorem convert_no_panic fuel s : (po_fuel ch root <= fuel)%nat ->
  match convert dis cv key t fuel root s with Panic _ | OutOfFuel => False | _ => True end.
Proof.
  intros Hf. rewrite (convert_items fuel s Hf).
  pose proof (conv_items_inv dis cv key t Hwf root Hroot items [] s [] eq_refl tbl_rel_nil) as H.
  destruct (conv_items cv t items s []) as [[s' tbl]| | |]; auto.
Qed.

(* the converted vector of a successful conversion, item by item *)
Theorem convert_table fuel s s' tbl : (po_fuel ch root <= fuel)%nat ->
  convert dis cv key t fuel root s = Ok (s', tbl) -> tbl_rel t items tbl.
Proof.
  intros Hf H. rewrite (convert_items fuel s Hf) in H.
  pose proof (conv_items_inv dis cv key t Hwf root Hroot items [] s [] eq_refl tbl_rel_nil) as Hi.
  rewrite H in Hi. exact Hi.
Qed.

(* a converted child pointer `j` of the item at position i stands for the class of source child c *)
Definition refers (j : nat) (c : nat) : Prop :=
  exists it', nth_error items j = Some it' /\ same_class key c (it_node it').

(* the child pointers of a converted node against the children of the source combinator:
   same number of direct children, each the converted node of the child's class; for a hidden
   Case the kept child is the converted node of that child's class *)
Definition kids_refer (si : inner nat X W) (ti : inner nat X' W') : Prop :=
  match si, ti with
  | ICase l r, IAssertL l' _ => refers l' l
  | ICase l r, IAssertR _ r' => refers r' r
  | _, _ => Forall2 refers (ichildren ti) (ichildren si)
  end.

Lemma child_ok_refers all b c j : child_ok key all b (Some c) (Some j) ->
  exists it', nth_error all (N.to_nat j) = Some it' /\ same_class key c (it_node it').
Proof. intros (_ & it' & Hi & Hc). exists it'. split; [exact Hi|exact Hc]. Qed.

(* THEOREM convert_once: one converted node per yielded item, in the order of the items, with
   the CMR of that item's node; a keyed class has one converted node; every child pointer of a
   converted node is an earlier converted node, namely the one made for the child's class *)
Theorem convert_once fuel s s' tbl : (po_fuel ch root <= fuel)%nat ->
  convert dis cv key t fuel root s = Ok (s', tbl) ->
  length tbl = length items /\
  (forall i j it1 it2 k, nth_error items i = Some it1 -> nth_error items j = Some it2 ->
     key (it_node it1) = Some k -> key (it_node it2) = Some k -> i = j) /\
  (forall i it, nth_error items i = Some it ->
     exists sn tn, nth_error t (it_node it) = Some sn /\ nth_error tbl i = Some tn /\
       tn_cmr tn = sn_cmr sn /\
       (forall c, In c (ichildren (tn_inner tn)) -> (c < i)%nat) /\
       kids_refer (sn_inner sn) (tn_inner tn)).
Proof.
  intros Hf H. destruct (convert_table fuel s s' tbl Hf H) as [Hlen Hrel].
  split; [exact Hlen|]. split; [apply (po_once ch key (swf_wfc dis t Hwf) root)|].
  intros i it Hi.
  destruct (nth_error_lt tbl i) as (tn & Ht).
  { rewrite Hlen. apply nth_error_Some. rewrite Hi. discriminate. }
  destruct (Hrel i it tn Hi Ht) as (sn & Hn & Hc & Hs & Hk).
  exists sn, tn. repeat split; try assumption.
  pose proof (po_children ch key (swf_wfc dis t Hwf) root it (nth_error_In _ _ Hi)) as [Cl Cr].
  unfold src_children in Cl, Cr. rewrite Hn in Cl, Cr.
  destruct Hs as [h Hh]. destruct h.
  - destruct Hh as (Hkind & Hch & _).
    assert (Hgoal : Forall2 refers (ichildren (tn_inner tn)) (ichildren (sn_inner sn))).
    { destruct (sn_inner sn) as [| |c|c|c|c|l r|l r|c h|h c|l r|c x|w|e|j|w] eqn:Ei;
        destruct (tn_inner tn) as [| |c'|c'|c'|c'|l' r'|l' r'|c' h'|h' c'|l' r'|c' x'|w'|e'|j'|w'];
        try discriminate Hkind; cbn [ichildren own_idx map] in *; try constructor;
        cbn [as_dag left_child_of right_child_of] in Cl, Cr;
        try (destruct (dis x); cbn [left_child_of right_child_of] in Cl, Cr);
        destruct (it_left it) as [li|]; try (exfalso; exact Cl);
        destruct (it_right it) as [ri|]; try (exfalso; exact Cr);
        cbn [olist app] in Hch; try discriminate Hch;
        repeat match goal with
        | H : _ :: _ = _ :: _ |- _ => injection H as H; subst
        end;
        repeat constructor;
        try (destruct (child_ok_refers _ _ _ _ Cl) as (it' & Hi' & Hc'); rewrite Nnat.Nat2N.id in Hi';
             exists it'; split; assumption);
        try (destruct (child_ok_refers _ _ _ _ Cr) as (it' & Hi' & Hc'); rewrite Nnat.Nat2N.id in Hi';
             exists it'; split; assumption). }
    unfold kids_refer. destruct (sn_inner sn); try exact Hgoal.
    destruct (tn_inner tn); try exact Hgoal; discriminate Hkind.
  - destruct Hh as (Hkind & l & r & El & Er0 & Eti). rewrite Eti.
    destruct (sn_inner sn); try discriminate Hkind. cbn [kids_refer].
    cbn [as_dag right_child_of] in Cr. rewrite Er0 in Cr.
    destruct (child_ok_refers _ _ _ _ Cr) as (it' & Hi' & Hc'). exists it'. split; assumption.
  - destruct Hh as (Hkind & l & r & El & Er0 & Eti). rewrite Eti.
    destruct (sn_inner sn); try discriminate Hkind. cbn [kids_refer].
    cbn [as_dag left_child_of] in Cl. rewrite El in Cl.
    destruct (child_ok_refers _ _ _ _ Cl) as (it' & Hi' & Hc'). exists it'. split; assumption.
Qed.
End Whole.
