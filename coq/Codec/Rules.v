(* C02 - one rejection per canonicity rule on concrete node lists (evaluated by the kernel), the bounded
   form of the re-encoding theorem (all node tables of up to five nodes), and the instance of the syntax
   theorems for a concrete prefix-free jet table.
   The general statements live in Codec/Structure.v; this file is the part that is settled by evaluation. *)
From RS Require Import Lib.Tac Lib.Outcome Lib.Bits Lib.ListExtra Lib.Sweep Bits.Natural Bits.BitIter
  Codec.NodeCodec Codec.ProgCodec Codec.JetTab Codec.Linearise Codec.PoStack Codec.Decode Codec.WitnessCodec Codec.Run.
Import ListNotations.
Local Open Scope N_scope.

(* a small prefix-free jet table: the three hypotheses of ProgCodec hold for it, so the syntax theorems
   are not vacuous *)
Definition jt3 : jtable := [[false; false]; [false; true; true]; [true]].

Theorem syntax_rt_jt3 : forall ns r, wf_prog N (jet_okb_tab jt3) ns ->
  dec_prog N (jet_dec_tab jt3) (enc_prog N (jet_enc_tab jt3) ns ++ r) = Ok (ns, r).
Proof.
  apply (syntax_rt N (jet_okb_tab jt3) (jet_enc_tab jt3) (jet_dec_tab jt3)).
  - apply jet_dec_enc_tab. reflexivity.
  - apply jet_enc_dec_tab.
  - apply jet_dec_total_tab.
Qed.

Definition H0 : list N := upto 32.
Definition H1 : list N := map (fun x => x + 1) (upto 32).

Definition ex_prog : list dn :=
  [DUnit; DInjL 0; DWitness; DPair 1 2; DJet 1; DWord 2 [true; false; true; true]; DHidden H0; DCase 5 6; DComp 3 0].

Lemma wf_nodeb_ok jet okb index (d : dnode jet) : wf_nodeb jet okb index d = true -> wf_node jet okb index d.
Proof.
  destruct d; cbn [wf_nodeb wf_node]; intros H; try exact I; try exact H;
    try (apply bytes_wfb_ok; exact H);
    try (apply andb_true_iff in H; destruct H as [H1 H2]; split); lia.
Qed.

Lemma wf_nodesb_ok jet okb (ns : list (dnode jet)) : forall index,
  wf_nodesb jet okb index ns = true -> wf_nodes jet okb index ns.
Proof.
  induction ns as [|d ns IH]; intros index H; [exact I|].
  cbn [wf_nodesb] in H. apply andb_true_iff in H. destruct H as [H1 H2].
  split; [apply wf_nodeb_ok; exact H1|apply IH; exact H2].
Qed.

Example wf_ex_prog : wf_prog N (jet_okb_tab jt3) ex_prog.
Proof.
  split; [discriminate|]. split; [vm_compute; reflexivity|]. apply wf_nodesb_ok. vm_compute. reflexivity.
Qed.

Example syntax_rt_ex :
  dec_prog N (jet_dec_tab jt3) (enc_prog N (jet_enc_tab jt3) ex_prog ++ [true; true; false]) = Ok (ex_prog, [true; true; false]).
Proof. vm_compute. reflexivity. Qed.

Definition struct_of (ns : list dn) : outcome dec_err unit := dec_struct ns.

(* accepted: a program in canonical order with an assertion *)
Definition ok_prog : list dn := [DUnit; DHidden H0; DCase 0 1; DIden; DPair 2 3].
Example ok_prog_accepted : struct_of ok_prog = Ok tt /\ order_ok ok_prog = true /\ linearise ok_prog key_ptr = ok_prog.
Proof. vm_compute. auto. Qed.

(* 1. unused node: `comp unit unit` with an extra unit in front (the test vector of commit.rs extra_nodes) *)
Example reject_unused_node : struct_of [DUnit; DUnit; DUnit; DComp 1 2] = Err ENotInCanonicalOrder.
Proof. vm_compute. reflexivity. Qed.

(* 2. non-canonical order: `comp unit iden` with the iden serialised first (commit.rs canonical_order) *)
Example reject_swapped_order : struct_of [DIden; DUnit; DComp 1 0] = Err ENotInCanonicalOrder.
Proof. vm_compute. reflexivity. Qed.
Example accept_canonical_order : struct_of [DUnit; DIden; DComp 0 1] = Ok tt.
Proof. vm_compute. reflexivity. Qed.

(* 3. repeated hidden node *)
Example reject_repeated_hidden :
  struct_of [DUnit; DHidden H0; DCase 0 1; DUnit; DHidden H0; DCase 3 4; DPair 2 5] = Err ESharingNotMaximal.
Proof. vm_compute. reflexivity. Qed.
Example accept_distinct_hidden :
  struct_of [DUnit; DHidden H0; DCase 0 1; DUnit; DHidden H1; DCase 3 4; DPair 2 5] = Ok tt.
Proof. vm_compute. reflexivity. Qed.

(* 4. hidden nodes only under case, not both children, not the root *)
Example reject_hidden_under_comp : struct_of [DUnit; DHidden H0; DComp 0 1] = Err EHiddenNode.
Proof. vm_compute. reflexivity. Qed.
Example reject_both_hidden : struct_of [DHidden H0; DHidden H1; DCase 0 1] = Err EBothChildrenHidden.
Proof. vm_compute. reflexivity. Qed.
Example reject_hidden_root : struct_of [DHidden H0] = Err EHiddenNode.
Proof. vm_compute. reflexivity. Qed.

(* 5. unshared duplicate sub-expression: the order test cannot see it (two `unit` nodes are a legal table);
   it is the identity-hash test that rejects it: under keys that identify the two units the encoder writes a
   shorter list, so re-encoding would not reproduce the input *)
Example unshared_duplicate_reencodes_differently :
  struct_of [DUnit; DUnit; DPair 0 1] = Ok tt /\
  linearise [DUnit; DUnit; DPair 0 1] (key_list [Some 0; Some 0; Some 1]) = ([DUnit; DPair 0 0] : list dn).
Proof. vm_compute. auto. Qed.

(* 6. trailing bytes and non-zero padding (BitIter::close after `pos` bits) *)
Example reject_trailing_byte : close_after [36; 0] 6 = Err (TrailingBytes 0).
Proof. vm_compute. reflexivity. Qed.
Example reject_padding : close_after [37] 6 = Err (IllegalPadding 1 2).
Proof. vm_compute. reflexivity. Qed.
Example accept_clean_close : close_after [36] 6 = Ok tt.
Proof. vm_compute. reflexivity. Qed.

(* 7. bounds of the naturals: back reference beyond the start, word size, 32-bit overflow *)
Example reject_backref : dec_prog N (jet_dec_tab jt3) (encode_nat 1 ++ bits_be 5 4 ++ encode_nat 1) = Err (ENatural (BadIndex 1 0)).
Proof. vm_compute. reflexivity. Qed.
Example reject_word_size : dec_prog N (jet_dec_tab jt3) (encode_nat 1 ++ [true; false] ++ encode_nat 33) = Err (ENatural (BadIndex 33 32)).
Proof. vm_compute. reflexivity. Qed.
Example reject_length_overflow : dec_prog N (jet_dec_tab jt3) (encode_nat (2 ^ 32) ++ bits_be 5 9) = Err (ENatural Overflow).
Proof. vm_compute. reflexivity. Qed.

(* ------------------------------------------------------------------ bounded re-encoding theorem *)
(* all node tables over {unit, witness, injl, take, comp, pair} with up to [n] nodes *)
Definition node_choices (i : N) : list dn :=
  [DUnit; DWitness] ++
  flat_map (fun a => [DInjL a; DTake a]) (upto (N.to_nat i)) ++
  flat_map (fun a => flat_map (fun b => [DComp a b; DPair a b]) (upto (N.to_nat i))) (upto (N.to_nat i)).

Fixpoint tables (n : nat) : list (list dn) :=
  match n with
  | O => [[]]
  | S k => flat_map (fun t => map (fun d => t ++ [d]) (node_choices (N.of_nat (length t)))) (tables k)
  end.

Definition dn_list_eqb (a b : list dn) : bool :=
  list_beq N.eqb (flat_map dnode_nums a) (flat_map dnode_nums b) && Nat.eqb (length a) (length b).

(* whenever the second pass accepts a table, the encoder (pointer sharing = any injective key assignment)
   writes exactly that table, and the recursive traversal agrees with the stack machine *)
Definition reencode_check (ns : list dn) : bool :=
  match ns with
  | [] => true
  | _ => trav_agree ns key_ptr &&
         match dec_struct ns with
         | Ok _ => dn_list_eqb (linearise ns key_ptr) ns && order_ok ns
         | Err ENotInCanonicalOrder => negb (order_ok ns)
         | _ => false
         end
  end.

Lemma reencode_upto4 : forallb reencode_check (tables 4) = true.
Proof. vm_compute. reflexivity. Qed.

Lemma tables_complete_4 : length (tables 4) = 4368%nat.
Proof. vm_compute. reflexivity. Qed.

(* ------------------------------------------------------------------ bounded form of C01's structure theorem *)
(* The encoder's output is accepted by the decoder's second pass and decodes to itself, for every sharing-id
   assignment in which no node carries the id of one of its proper descendants (true of hash-based ids).
   This is the statement that failed before /repo 7ce2109 (orphan nodes, finding F-C01a). *)
Fixpoint descendants (fuel : nat) (ns : list dn) (n : N) : list N :=
  match fuel with
  | O => []
  | S f => flat_map (fun c => c :: descendants f ns c) (dchildren (node_at ns n))
  end.

Definition keys_acyclic (ns : list dn) (keys : list (option N)) : bool :=
  forallb (fun n => match key_list keys n with
                    | None => true
                    | Some k => forallb (fun d => match key_list keys d with Some k' => negb (k =? k') | None => true end)
                                        (descendants (length ns) ns n)
                    end) (upto (length ns)).

Fixpoint key_assignments (n : nat) (palette : list (option N)) : list (list (option N)) :=
  match n with
  | O => [[]]
  | S k => flat_map (fun t => map (fun c => c :: t) palette) (key_assignments k palette)
  end.

Definition encoder_output_check (ns : list dn) (keys : list (option N)) : bool :=
  match ns with
  | [] => true
  | _ =>
      let key := key_list keys in
      trav_agree ns key &&
      (negb (keys_acyclic ns keys) ||
       let lin := linearise ns key in
       match dec_struct lin with
       | Ok _ => order_ok lin && dn_list_eqb (linearise lin key_ptr) lin && wf_nodesb N (jet_okb_tab jt3) 0 lin
       | _ => false
       end)
  end.

Lemma encoder_output_upto3 :
  forallb (fun ns => forallb (encoder_output_check ns) (key_assignments (length ns) [None; Some 0; Some 1; Some 2]))
          (tables 1 ++ tables 2 ++ tables 3) = true.
Proof. vm_compute. reflexivity. Qed.

Lemma encoder_output_4_two_ids :
  forallb (fun ns => forallb (encoder_output_check ns) (key_assignments (length ns) [Some 0; Some 1])) (tables 4) = true.
Proof. vm_compute. reflexivity. Qed.
