(* C18 - PreOrderIter: recursive specification, refinement of the explicit-stack iterator,
   parents first, and (for keys that never give a node the id of one of its own descendants)
   the same nodes as the post-order. *)
From Coq Require Import Permutation.
From RS Require Import Lib.Tac Lib.Outcome Dag.DagModel Dag.PostOrderSpec Dag.VisitFacts.
Import ListNotations.
Local Open Scope N_scope.

Section Pre.
Variable children : nat -> dagnode.
Variable key : nat -> option N.
Hypothesis Hwf : wfc children.

Definition pchild (vis : nat -> tmap -> tmap * list nat) (oc : option nat) (m : tmap) : tmap * list nat :=
  match oc with
  | None => (m, [])
  | Some c => vis c m
  end.

(* a node whose class was recorded is skipped together with everything below it; otherwise it is
   recorded and yielded, then its left subtree, then its right subtree *)
Fixpoint previsit (h : nat) (n : nat) (m : tmap) : tmap * list nat :=
  match h with
  | O => (m, [])
  | S h' =>
      match record key m n 0 with
      | (Some _, m') => (m', [])
      | (None, m') =>
          let l := pchild (previsit h') (left_child_of (children n)) m' in
          let r := pchild (previsit h') (right_child_of (children n)) (fst l) in
          (fst r, n :: snd l ++ snd r)
      end
  end.

Definition pre_spec (root : nat) : list nat := snd (previsit (S root) root []).
Definition pre_fuel (root : nat) : nat := tsize children (S root) root + 1.

Lemma pre_run_S f st :
  pre_run children key (S f) st =
  match pre_step children key st with
  | QDone => Ok []
  | QYield n st' => omap (cons n) (pre_run children key f st')
  | QCont st' => pre_run children key f st'
  end.
Proof. reflexivity. Qed.

Lemma previsit_run : forall h n, (n < h)%nat -> forall m,
  exists k, (k <= tsize children h n)%nat /\
    forall f stk,
      pre_run children key (k + f) (mk_pre (n :: stk) m) =
      omap (app (snd (previsit h n m))) (pre_run children key f (mk_pre stk (fst (previsit h n m)))).
Proof.
  induction h as [|h IH]; intros n Hn m; [lia|].
  pose proof (Hwf n) as Hok. cbn [previsit tsize].
  assert (Hstep : forall stk, pre_step children key (mk_pre (n :: stk) m) =
            match record key m n 0 with
            | (None, trk') => QYield n (mk_pre (push_opt (left_child_of (children n))
                                  (push_opt (right_child_of (children n)) stk)) trk')
            | (Some _, trk') => QCont (mk_pre stk trk')
            end).
  { intros stk. unfold pre_step. cbn [pre_stack pre_trk]. destruct (record key m n 0) as [[i|] m']; reflexivity. }
  destruct (record key m n 0) as [[i|] m'] eqn:Hrec.
  - exists 1%nat. split; [lia|]. intros f stk. cbn [fst snd]. change (1 + f)%nat with (S f).
    rewrite pre_run_S, Hstep. rewrite omap_app_nil. reflexivity.
  - destruct (children n) as [|c|a b] eqn:Hdn; cbn [node_ok] in Hok;
      cbn [left_child_of right_child_of pchild fst snd push_opt] in *.
    + exists 1%nat. split; [lia|]. intros f stk. change (1 + f)%nat with (S f).
      rewrite pre_run_S, Hstep. cbn [push_opt app]. rewrite omap_cons_app. reflexivity.
    + destruct (IH c ltac:(lia) m') as (kc & Hkc & Hrun).
      exists (S kc). split; [lia|]. intros f stk. change (S kc + f)%nat with (S (kc + f)).
      rewrite pre_run_S, Hstep. cbn [push_opt]. rewrite Hrun, omap_cons_app, omap_app_app.
      rewrite app_nil_r. reflexivity.
    + destruct Hok as [Ha Hb].
      destruct (IH a ltac:(lia) m') as (ka & Hka & Hruna).
      destruct (IH b ltac:(lia) (fst (previsit h a m'))) as (kb & Hkb & Hrunb).
      exists (S (ka + kb)). split; [lia|]. intros f stk.
      change (S (ka + kb) + f)%nat with (S (ka + kb + f)).
      rewrite pre_run_S, Hstep. cbn [push_opt].
      replace (ka + kb + f)%nat with (ka + (kb + f))%nat by lia.
      rewrite Hruna, Hrunb, omap_cons_app, !omap_app_app. reflexivity.
Qed.

Lemma pre_run_more : forall f st out, pre_run children key f st = Ok out ->
  forall g, pre_run children key (f + g) st = Ok out.
Proof.
  induction f as [|f IH]; intros st out H g; [discriminate|].
  change (S f + g)%nat with (S (f + g)). rewrite pre_run_S in *.
  destruct (pre_step children key st) as [|n st'|st']; try exact H.
  - destruct (pre_run children key f st') as [l| | |] eqn:E; try discriminate.
    rewrite (IH _ _ E g). exact H.
  - apply IH. exact H.
Qed.

(* THEOREM (refinement of PreOrderIter) *)
Theorem pre_refines : forall root,
  pre_run children key (pre_fuel root) (pre_init root) = Ok (pre_spec root).
Proof.
  intros root. unfold pre_fuel, pre_spec, pre_init.
  destruct (previsit_run (S root) root ltac:(lia) []) as (k & Hk & Hrun).
  specialize (Hrun 1%nat []). cbn [pre_run pre_step pre_stack omap obind] in Hrun.
  rewrite app_nil_r in Hrun.
  replace (tsize children (S root) root + 1)%nat with (k + 1 + (tsize children (S root) root - k))%nat by lia.
  apply pre_run_more. exact Hrun.
Qed.

(* ------------------------------------------------------------------ parents first *)
(* every element has a parent among `seen` or earlier in the list *)
Fixpoint pf (seen : list nat) (o : list nat) : Prop :=
  match o with
  | [] => True
  | x :: r => (exists p, In p seen /\ is_child children p x) /\ pf (x :: seen) r
  end.

Lemma pf_incl o : forall s s', incl s s' -> pf s o -> pf s' o.
Proof.
  induction o as [|x r IH]; intros s s' Hi; cbn; [auto|].
  intros [(p & Hp & Hc) H]. split; [exists p; split; [apply Hi; exact Hp|exact Hc]|].
  apply (IH (x :: s)); [|exact H]. intros y [->|Hy]; [left; reflexivity|right; apply Hi; exact Hy].
Qed.

Lemma pf_app a : forall s b, pf s a -> pf (rev a ++ s) b -> pf s (a ++ b).
Proof.
  induction a as [|x r IH]; intros s b Ha Hb; cbn in *; [exact Hb|].
  destruct Ha as [Hx Hr]. split; [exact Hx|]. apply IH; [exact Hr|].
  rewrite <- app_assoc in Hb. exact Hb.
Qed.

Lemma previsit_pf : forall h n, (n < h)%nat -> forall m seen,
  (exists p, In p seen /\ is_child children p n) -> pf seen (snd (previsit h n m)).
Proof.
  induction h as [|h IH]; intros n Hn m seen Hp; [lia|].
  cbn [previsit]. destruct (record key m n 0) as [[i|] m']; cbn [snd]; [exact I|].
  split; [exact Hp|].
  assert (Hc : forall oc m0 s, (match oc with Some c => is_child children n c | None => True end) ->
            In n s -> pf s (snd (pchild (previsit h) oc m0))).
  { intros [c|] m0 s Hc Hin; cbn [pchild snd]; [|exact I].
    pose proof (is_child_lt children Hwf _ _ Hc). apply IH; [lia|]. exists n. split; assumption. }
  apply pf_app.
  - apply Hc; [|left; reflexivity]. destruct (left_child_of (children n)) eqn:E; [left; exact E|exact I].
  - apply Hc; [|apply in_or_app; right; left; reflexivity].
    destruct (right_child_of (children n)) eqn:E; [right; exact E|exact I].
Qed.

Lemma pf_nth o : forall seen i x, pf seen o -> nth_error o i = Some x ->
  exists p, is_child children p x /\ (In p seen \/ exists j, (j < i)%nat /\ nth_error o j = Some p).
Proof.
  induction o as [|y r IH]; intros seen i x H Hn; [destruct i; discriminate|].
  destruct H as [(p & Hp & Hc) Hr]. destruct i as [|i]; cbn in Hn.
  - injection Hn as <-. exists p. split; [exact Hc|left; exact Hp].
  - destruct (IH _ _ _ Hr Hn) as (q & Hq & [[<-|Hin]|(j & Hj & Hnj)]).
    + exists y. split; [exact Hq|]. right. exists 0%nat. split; [lia|reflexivity].
    + exists q. split; [exact Hq|left; exact Hin].
    + exists q. split; [exact Hq|]. right. exists (S j). split; [lia|exact Hnj].
Qed.

Lemma pre_spec_root root : exists rest, pre_spec root = root :: rest /\ pf [root] rest.
Proof.
  unfold pre_spec. cbn [previsit]. unfold record. cbn [tm_get].
  assert (Hc : forall oc m0 s, (match oc with Some c => is_child children root c | None => True end) ->
            In root s -> pf s (snd (pchild (previsit root) oc m0))).
  { intros [c|] m0 s Hc Hin; cbn [pchild snd]; [|exact I].
    pose proof (is_child_lt children Hwf _ _ Hc). apply previsit_pf; [lia|]. exists root. split; assumption. }
  destruct (key root) as [k|]; cbn [snd]; eexists; (split; [reflexivity|]); apply pf_app.
  all: try (apply Hc; [|left; reflexivity]; destruct (left_child_of (children root)) eqn:E; [left; exact E|exact I]).
  all: apply Hc; [|apply in_or_app; right; left; reflexivity];
    destruct (right_child_of (children root)) eqn:E; [right; exact E|exact I].
Qed.

(* THEOREM: pre-order starts with the root, and every later element is a child of an element
   yielded before it *)
Theorem pre_parents_first : forall root,
  nth_error (pre_spec root) 0 = Some root /\
  forall i x, nth_error (pre_spec root) (S i) = Some x ->
    exists j p, (j <= i)%nat /\ nth_error (pre_spec root) j = Some p /\ is_child children p x.
Proof.
  intros root. destruct (pre_spec_root root) as (rest & -> & Hpf). split; [reflexivity|].
  intros i x Hn. cbn in Hn. destruct (pf_nth _ _ _ _ Hpf Hn) as (p & Hc & [[<-|[]]|(j & Hj & Hnj)]).
  - exists 0%nat, root. split; [lia|]. split; [reflexivity|exact Hc].
  - exists (S j), p. split; [lia|]. split; [exact Hnj|exact Hc].
Qed.

End Pre.
