(* C18 - the hooks of a Converter are called in post-order: a logging wrapper around an arbitrary
   converter records every hook call with the iterator item and the child pointers it is given;
   the log of a successful conversion is, item by item in iteration order,
   visit_node, [convert_witness], [convert_disconnect], [prune_case], convert_data. *)
From RS Require Import Lib.Tac Lib.Outcome Dag.DagModel Dag.PostOrderSpec Dag.PostOrderProps
  Dag.VisitFacts Dag.Convert Dag.ConvertProps.
Import ListNotations.
Local Open Scope N_scope.

Inductive hook : Type := HVisit | HWitness | HDisconnect | HPrune | HData.

Record event : Type := mk_ev { ev_hook : hook; ev_item : po_item; ev_a : N; ev_b : N }.

Definition optn1 (o : option nat) : N := match o with Some i => N.of_nat i + 1 | None => 0 end.

(* which hooks one loop body calls, by combinator *)
Definition hooks_of {C X W} (i : inner C X W) : list hook :=
  HVisit :: match i with
            | IWitness _ => [HWitness; HData]
            | IDisconnect _ _ => [HDisconnect; HData]
            | ICase _ _ => [HPrune; HData]
            | _ => [HData]
            end.

Section Logging.
Context {X W D X' W' D' St Er : Type}.
Variable cv : @converter X W X' W' D' St Er.

Definition kid1 (i : inner nat X' W') : N := optn1 (nth_error (ichildren i) 0).
Definition kid2 (i : inner nat X' W') : N := optn1 (nth_error (ichildren i) 1).

(* the instrumented converter: same decisions as cv, every call appended to the log with the
   pointers (positions in `converted`) it was handed *)
Definition logging : @converter X W X' W' D' (St * list event) Er :=
  {| cv_visit := fun sl it => (cv_visit cv (fst sl) it, snd sl ++ [mk_ev HVisit it 0 0]);
     cv_witness := fun sl it w =>
       ((fst (cv_witness cv (fst sl) it w), snd sl ++ [mk_ev HWitness it 0 0]),
        snd (cv_witness cv (fst sl) it w));
     cv_disconnect := fun sl it conv mc x =>
       ((fst (cv_disconnect cv (fst sl) it conv mc x), snd sl ++ [mk_ev HDisconnect it (optn1 mc) 0]),
        snd (cv_disconnect cv (fst sl) it conv mc x));
     cv_prune := fun sl it conv l r =>
       ((fst (cv_prune cv (fst sl) it conv l r),
         snd sl ++ [mk_ev HPrune it (N.of_nat l + 1) (N.of_nat r + 1)]),
        snd (cv_prune cv (fst sl) it conv l r));
     cv_data := fun sl it conv i =>
       ((fst (cv_data cv (fst sl) it conv i), snd sl ++ [mk_ev HData it (kid1 i) (kid2 i)]),
        snd (cv_data cv (fst sl) it conv i)) |}.

Variable t : list (@snode X W D).

Definition ev_key (e : event) : hook * po_item := (ev_hook e, ev_item e).
Definition hooks_at (it : po_item) : list (hook * po_item) :=
  match nth_error t (it_node it) with
  | Some sn => map (fun h => (h, it)) (hooks_of (sn_inner sn))
  | None => []
  end.

Ltac log_steps conv :=
  repeat (first
    [ progress cbn [idx_inner unwrap_idx omap obind wit_inner disc_inner clone_inner prune_inner lift_hook
                    logging cv_visit cv_witness cv_disconnect cv_prune cv_data fst snd] in *
    | progress unfold clone_idx, maybe_converted in *
    | match goal with
      | H : context [match nth_error conv ?i with _ => _ end] |- _ => destruct (nth_error conv i) eqn:?
      | H : context [snd (cv_witness ?a ?b ?c ?d)] |- _ => destruct (cv_witness a b c d) as [? [?|?]]
      | H : context [snd (cv_disconnect ?a ?b ?c ?d ?e ?f)] |- _ => destruct (cv_disconnect a b c d e f) as [? [?|?]]
      | H : context [snd (cv_prune ?a ?b ?c ?d ?e ?f)] |- _ => destruct (cv_prune a b c d e f) as [? [?|?]]
      | H : context [snd (cv_data ?a ?b ?c ?d ?e)] |- _ => destruct (cv_data a b c d e) as [? [?|?]]
      end ]).

(* one loop body appends exactly the hooks of its combinator, all for this item *)
Lemma conv_item_log it sn s lg conv s' lg' tn :
  nth_error t (it_node it) = Some sn ->
  conv_item logging t it (s, lg) conv = Ok ((s', lg'), tn) ->
  map ev_key lg' = map ev_key lg ++ hooks_at it.
Proof.
  intros Hn H. unfold hooks_at. rewrite Hn. unfold conv_item in H. rewrite Hn in H.
  destruct (sn_inner sn) as [| |c|c|c|c|l r|l r|c h|h c|l r|c x|w|e|j|w] eqn:Ei;
    destruct (it_left it) as [li|]; destruct (it_right it) as [ri|];
    log_steps conv; try discriminate.
  all: injection H as <- <- <-; cbn [hooks_of map]; rewrite ?map_app, <- ?app_assoc; reflexivity.
Qed.

Lemma conv_items_log : forall items s lg conv s' lg' tbl,
  conv_items logging t items (s, lg) conv = Ok ((s', lg'), tbl) ->
  map ev_key lg' = map ev_key lg ++ flat_map hooks_at items.
Proof.
  induction items as [|it rest IH]; intros s lg conv s' lg' tbl H; cbn [conv_items] in H.
  - unfold conv_finish in H. destruct conv; [discriminate|]. injection H as <- <- <-.
    cbn [flat_map]. rewrite app_nil_r. reflexivity.
  - destruct (conv_item logging t it (s, lg) conv) as [[[s1 lg1] n]| | |] eqn:Ec; try discriminate.
    cbn [obind] in H. apply IH in H. rewrite H. cbn [flat_map]. rewrite app_assoc. f_equal.
    destruct (nth_error t (it_node it)) as [sn|] eqn:Hn.
    + apply (conv_item_log it sn s lg conv s1 lg1 n Hn Ec).
    + unfold conv_item in Ec. rewrite Hn in Ec. discriminate.
Qed.

(* the wrapper does not change what the converter does *)
Lemma conv_item_log_sim it s lg conv :
  match conv_item logging t it (s, lg) conv, conv_item cv t it s conv with
  | Ok ((s1, _), n1), Ok (s2, n2) => s1 = s2 /\ n1 = n2
  | Err ((s1, _), e1), Err (s2, e2) => s1 = s2 /\ e1 = e2
  | Panic c1, Panic c2 => c1 = c2
  | OutOfFuel, OutOfFuel => True
  | _, _ => False
  end.
Proof.
  unfold conv_item. cbn [logging cv_visit fst snd].
  destruct (nth_error t (it_node it)) as [sn|]; [|reflexivity].
  destruct (sn_inner sn) as [| |c|c|c|c|l r|l r|c h|h c|l r|c x|w|e|j|w];
    destruct (it_left it) as [li|]; destruct (it_right it) as [ri|];
    repeat (first
    [ progress cbn [idx_inner unwrap_idx omap obind wit_inner disc_inner clone_inner prune_inner lift_hook
                    logging cv_visit cv_witness cv_disconnect cv_prune cv_data fst snd]
    | progress unfold clone_idx, maybe_converted
    | match goal with
      | |- context [match nth_error conv ?i with _ => _ end] => destruct (nth_error conv i) eqn:?
      | |- context [snd (cv_witness ?a ?b ?c ?d)] => destruct (cv_witness a b c d) as [? [?|?]]
      | |- context [snd (cv_disconnect ?a ?b ?c ?d ?e ?f)] => destruct (cv_disconnect a b c d e f) as [? [?|?]]
      | |- context [snd (cv_prune ?a ?b ?c ?d ?e ?f)] => destruct (cv_prune a b c d e f) as [? [?|?]]
      | |- context [snd (cv_data ?a ?b ?c ?d ?e)] => destruct (cv_data a b c d e) as [? [?|?]]
      end ]); try reflexivity; try (split; reflexivity).
Qed.

Lemma conv_items_log_sim : forall items s lg conv,
  match conv_items logging t items (s, lg) conv, conv_items cv t items s conv with
  | Ok ((s1, _), n1), Ok (s2, n2) => s1 = s2 /\ n1 = n2
  | Err ((s1, _), e1), Err (s2, e2) => s1 = s2 /\ e1 = e2
  | Panic c1, Panic c2 => c1 = c2
  | OutOfFuel, OutOfFuel => True
  | _, _ => False
  end.
Proof.
  induction items as [|it rest IH]; intros s lg conv; cbn [conv_items].
  - unfold conv_finish. destruct conv; [reflexivity|split; reflexivity].
  - pose proof (conv_item_log_sim it s lg conv) as H.
    destruct (conv_item logging t it (s, lg) conv) as [[[s1 lg1] n1]|[[s1 lg1] e1]|c1|];
      destruct (conv_item cv t it s conv) as [[s2 n2]|[s2 e2]|c2|]; try destruct H; cbn [obind]; auto.
    subst. apply IH.
Qed.
End Logging.

Section Whole.
Context {X W D X' W' D' St Er : Type}.
Variable dis : X -> option nat.
Variable cv : @converter X W X' W' D' St Er.
Variable key : nat -> option N.
Variable t : list (@snode X W D).
Hypothesis Hwf : swf dis t.
Variable root : nat.
Hypothesis Hroot : (root < length t)%nat.
Notation ch := (src_children dis t).

(* THEOREM convert_order: the hooks are called in post-order - the log of a successful conversion
   is the concatenation, over the items in iteration order, of the hooks of each item's
   combinator (visit_node first, convert_data last), every call carrying that item *)
Theorem convert_order fuel s s' lg tbl : (po_fuel ch root <= fuel)%nat ->
  convert dis (logging cv) key t fuel root (s, []) = Ok ((s', lg), tbl) ->
  map ev_key lg = flat_map (hooks_at t) (po_spec ch key root).
Proof.
  intros Hf H. rewrite (convert_items dis (logging cv) key t Hwf root Hroot fuel (s, []) Hf) in H.
  apply conv_items_log in H. exact H.
Qed.

(* the instrumented conversion is the conversion *)
Theorem convert_logging_same fuel s lg : (po_fuel ch root <= fuel)%nat ->
  match convert dis (logging cv) key t fuel root (s, lg), convert dis cv key t fuel root s with
  | Ok ((s1, _), n1), Ok (s2, n2) => s1 = s2 /\ n1 = n2
  | Err ((s1, _), e1), Err (s2, e2) => s1 = s2 /\ e1 = e2
  | Panic c1, Panic c2 => c1 = c2
  | OutOfFuel, OutOfFuel => True
  | _, _ => False
  end.
Proof.
  intros Hf. rewrite !convert_items by assumption. apply conv_items_log_sim.
Qed.
End Whole.
