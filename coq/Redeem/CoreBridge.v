(* C08 connected to C05: the big-step run of redemption TABLES used by the pruning proofs
   (PruneProg.eval: node tables, sharing, a trace of events) agrees with the big-step semantics of the
   Bit Machine proofs (Core/Sem.v eval: trees carrying their arrows), hence - by Core's exec_correct -
   with what the Bit Machine model computes.
     [unfold_r]        a typed table unfolded into a Core term (as Core/Term.v term_of does for the
                       descriptions of C05): witness values as their padded bits, the CMR of the right
                       child of a disconnect node as 32 bytes
     [unfold_typed]    typed_from (Retype.v)  ->  Core.Typing.typed
     [eval_agree]      PruneProg.eval = Ok (o, E)  ->  Sem.eval = ROk o      (and the same for failures)
   The hash value that a disconnect node passes on is fixed here to what the machine writes:
   cmr_value of the (32-byte) CMR. *)
From RS Require Import Lib.Tac Lib.Outcome Lib.Bits Ty.Ty Core.Prog Core.Term Core.Typing Core.Sem
  Redeem.Finalize Redeem.PruneProg Redeem.Retype.
Import ListNotations.
Local Open Scope nat_scope.

(* ------------------------------------------------------------------ 32-byte roots *)

Definition fit32 (h : list N) : list N := firstn 32 (h ++ repeat 0%N 32).

Lemma fit32_length h : length (fit32 h) = 32.
Proof. unfold fit32. rewrite firstn_length, app_length, repeat_length. lia. Qed.

Lemma fit32_id h : length h = 32 -> fit32 h = h.
Proof. intros H. unfold fit32. rewrite firstn_app, <- H, Nat.sub_diag, firstn_all. cbn. apply app_nil_r. Qed.

(* the value a disconnect node puts in front of its input *)
Definition hash_val_core (h : list N) : sval := cmr_value (fit32 h).

Lemma hash_val_core_typed h : has_ty (hash_val_core h) (word_ty 8) = true.
Proof. apply cmr_value_typed. apply fit32_length. Qed.

(* ------------------------------------------------------------------ words: compact = padded *)

Lemma word_padded_compact : forall n v, has_ty v (word_ty n) = true -> padded_enc (word_ty n) v = compact_enc v.
Proof.
  induction n as [|n IH]; intros v H.
  - destruct v as [|[| | |]|[| | |]|]; try discriminate; reflexivity.
  - destruct v as [| | |a b]; try discriminate. cbn [word_ty has_ty] in H. apply andb_true_iff in H.
    cbn [word_ty padded_enc compact_enc]. rewrite (IH a), (IH b); tauto.
Qed.

Lemma word_val_of_padded n bits : length bits = 2 ^ n -> of_padded (word_ty n) bits = word_val n bits.
Proof.
  intros H. destruct (of_compact_word n bits [] H) as (v & E & T). rewrite app_nil_r in E.
  unfold word_val. rewrite E. destruct (of_compact_inv _ _ _ _ E) as [_ Eb]. rewrite app_nil_r in Eb.
  apply of_padded_spec. rewrite Eb, <- (word_padded_compact n v T). apply padded_enc_padded_of. exact T.
Qed.

Lemma word_width_nat n : N.to_nat (width (word_ty n)) = 2 ^ n.
Proof.
  rewrite width_word, N2Nat.inj_pow, Nat2N.id. reflexivity.
Qed.

(* ------------------------------------------------------------------ unfolding a table *)

Fixpoint unfold_r (fuel : nat) (p : rprog) (ar : arrows) (C : list (list N)) (i : nat) : option term :=
  match fuel with
  | O => None
  | S f =>
      match nth_error p i, ar i with
      | Some n, Some a =>
          let sub := unfold_r f p ar C in
          match n with
          | RIden => Some (Iden a)
          | RUnit => Some (Unit a)
          | RInjL c => option_map (InjL a) (sub c)
          | RInjR c => option_map (InjR a) (sub c)
          | RTake c => option_map (Take a) (sub c)
          | RDrop c => option_map (Drop a) (sub c)
          | RComp l r => match sub l, sub r with Some s, Some t => Some (Comp a s t) | _, _ => None end
          | RCase l r => match sub l, sub r with Some s, Some t => Some (Case a s t) | _, _ => None end
          | RAssertL l h => option_map (fun s => AssertL a s h) (sub l)
          | RAssertR h r => option_map (AssertR a h) (sub r)
          | RPair l r => match sub l, sub r with Some s, Some t => Some (Pair a s t) | _, _ => None end
          | RDisconnect l r =>
              match sub l, sub r with
              | Some s, Some t => Some (Disconnect a s t (fit32 (nth r C [])))
              | _, _ => None
              end
          | RWitness c => Some (Witness a (padded_enc (snd a) (cv_val c)))
          | RFail e => Some (Fail a e)
          | RJet _ j => Some (Jet a j)
          | RWord n bits => Some (Word a n bits)
          | RHole _ => None
          end
      | _, _ => None
      end
  end.

(* failures of the two semantics *)
Definition sem_of_eerr (e : eerr) : sem_error :=
  match e with EFail en => FailNode en | EPruned h => Pruned h | EJet => JetFailed end.

Section Bridge.

Variable jet_ty : N -> N -> option arrow.
Variable fam : N.          (* the jet family of the program (the type parameter J of the library) *)

Definition jet_ty1 (j : N) : option arrow := jet_ty fam j.

Definition fam_ok (p : rprog) (root : nat) : Prop :=
  forall i f j, reach p root i -> nth_error p i = Some (RJet f j) -> f = fam.

Lemma rwf_from_children' : forall p i k n, rwf_from i p = true -> nth_error p k = Some n ->
  forall c, In c (rchildren n) -> c < i + k.
Proof.
  induction p as [|a p IH]; intros i k n H Hn c Hc; [destruct k; discriminate|].
  cbn [rwf_from] in H. apply andb_true_iff in H. destruct H as [Ha Hp].
  destruct k as [|k]; cbn in Hn.
  - injection Hn as <-. rewrite forallb_forall in Ha. specialize (Ha _ Hc). apply Nat.ltb_lt in Ha. lia.
  - specialize (IH (S i) k n Hp Hn c Hc). lia.
Qed.

Ltac tyeq :=
  repeat match goal with
         | H : _ && _ = true |- _ => apply andb_true_iff in H; destruct H
         | H : ty_eqb _ _ = true |- _ => apply ty_eqb_eq in H
         | H : Nat.eqb _ _ = true |- _ => apply Nat.eqb_eq in H
         end.

Lemma reach_le p root : rwf p = true -> forall i, reach p root i -> i <= root.
Proof.
  intros W i H. induction H as [|k n c Hk IH Hn Hc]; [lia|].
  pose proof (rwf_from_children' p 0 k n W Hn c Hc). lia.
Qed.

(* a typed table unfolds, at every reachable node, into a well-typed Core term with the node's arrow *)
Theorem unfold_typed p ar root C : rwf p = true -> root < length p ->
  typed_from jet_ty p ar root -> fam_ok p root ->
  forall fuel i, i < fuel -> reach p root i ->
  exists t s t', ar i = Some (s, t') /\ unfold_r fuel p ar C i = Some t /\ typed jet_ty1 t s t'.
Proof.
  intros W Hroot Ht Hf. induction fuel as [|f IH]; intros i Hi R; [lia|].
  destruct (nth_error p i) as [n|] eqn:En.
  2:{ apply nth_error_None in En. pose proof (reach_le p root W i R). lia. }
  pose proof (Ht _ _ R En) as Ok1. unfold node_okb in Ok1.
  destruct (ar i) as [[s t]|] eqn:Ai; [|discriminate].
  assert (Hc : forall c, In c (rchildren n) ->
            exists tc sc tc', ar c = Some (sc, tc') /\ unfold_r f p ar C c = Some tc /\ typed jet_ty1 tc sc tc').
  { intros c Hc. pose proof (rwf_from_children' p 0 i n W En c Hc) as Lt. apply IH; [lia|].
    eapply reach_step; eauto. }
  cbn [unfold_r]. rewrite En, Ai.
  destruct n; cbn [rchildren] in Hc.
  - tyeq. subst. eexists _, _, _. split; [reflexivity|]. split; [reflexivity|]. constructor.
  - tyeq. subst. eexists _, _, _. split; [reflexivity|]. split; [reflexivity|]. constructor.
  - destruct (Hc c (or_introl eq_refl)) as (tc & sc & tc' & Ac & Uc & Tc). rewrite Ac in Ok1.
    destruct t as [|b c'|]; try discriminate. tyeq. subst.
    eexists _, _, _. split; [reflexivity|]. rewrite Uc. split; [reflexivity|]. constructor. exact Tc.
  - destruct (Hc c (or_introl eq_refl)) as (tc & sc & tc' & Ac & Uc & Tc). rewrite Ac in Ok1.
    destruct t as [|b c'|]; try discriminate. tyeq. subst.
    eexists _, _, _. split; [reflexivity|]. rewrite Uc. split; [reflexivity|]. constructor. exact Tc.
  - destruct (Hc c (or_introl eq_refl)) as (tc & sc & tc' & Ac & Uc & Tc). rewrite Ac in Ok1.
    destruct s as [| |a b]; try discriminate. tyeq. subst.
    eexists _, _, _. split; [reflexivity|]. rewrite Uc. split; [reflexivity|]. constructor. exact Tc.
  - destruct (Hc c (or_introl eq_refl)) as (tc & sc & tc' & Ac & Uc & Tc). rewrite Ac in Ok1.
    destruct s as [| |a b]; try discriminate. tyeq. subst.
    eexists _, _, _. split; [reflexivity|]. rewrite Uc. split; [reflexivity|]. constructor. exact Tc.
  - (* comp *)
    destruct (Hc l (or_introl eq_refl)) as (tl & sl & tl' & Al & Ul & Tl).
    destruct (Hc r (or_intror (or_introl eq_refl))) as (tr & sr & tr' & Ar & Ur & Tr).
    rewrite Al, Ar in Ok1. tyeq. subst.
    eexists _, _, _. split; [reflexivity|]. rewrite Ul, Ur. split; [reflexivity|]. econstructor; eassumption.
  - (* case *)
    destruct (Hc l (or_introl eq_refl)) as (tl & sl & tl' & Al & Ul & Tl).
    destruct (Hc r (or_intror (or_introl eq_refl))) as (tr & sr & tr' & Ar & Ur & Tr).
    rewrite Al, Ar in Ok1. destruct s as [| |[|a b|] c]; try discriminate. tyeq. subst.
    eexists _, _, _. split; [reflexivity|]. rewrite Ul, Ur. split; [reflexivity|]. constructor; assumption.
  - (* assertl *)
    destruct (Hc l (or_introl eq_refl)) as (tl & sl & tl' & Al & Ul & Tl).
    rewrite Al in Ok1. destruct s as [| |[|a b|] c]; try discriminate. tyeq. subst.
    eexists _, _, _. split; [reflexivity|]. rewrite Ul. split; [reflexivity|]. constructor; assumption.
  - (* assertr *)
    destruct (Hc r (or_introl eq_refl)) as (tr & sr & tr' & Ar & Ur & Tr).
    rewrite Ar in Ok1. destruct s as [| |[|a b|] c]; try discriminate. tyeq. subst.
    eexists _, _, _. split; [reflexivity|]. rewrite Ur. split; [reflexivity|]. constructor; assumption.
  - (* pair *)
    destruct (Hc l (or_introl eq_refl)) as (tl & sl & tl' & Al & Ul & Tl).
    destruct (Hc r (or_intror (or_introl eq_refl))) as (tr & sr & tr' & Ar & Ur & Tr).
    rewrite Al, Ar in Ok1. destruct t as [| |b c]; try discriminate. tyeq. subst.
    eexists _, _, _. split; [reflexivity|]. rewrite Ul, Ur. split; [reflexivity|]. constructor; assumption.
  - (* disconnect *)
    destruct (Hc l (or_introl eq_refl)) as (tl & sl & tl' & Al & Ul & Tl).
    destruct (Hc r (or_intror (or_introl eq_refl))) as (tr & sr & tr' & Ar & Ur & Tr).
    rewrite Al, Ar in Ok1. destruct tl' as [| |b c]; try discriminate.
    destruct t as [| |b' d']; try discriminate. tyeq. subst.
    eexists _, _, _. split; [reflexivity|]. rewrite Ul, Ur. split; [reflexivity|].
    econstructor; [exact Tl|exact Tr|apply fit32_length].
  - (* witness *)
    unfold wit_ok in Ok1. apply andb_true_iff in Ok1. destruct Ok1 as [_ Hv].
    eexists _, _, _. split; [reflexivity|]. split; [reflexivity|]. constructor. cbn [snd].
    apply padded_enc_length. exact Hv.
  - eexists _, _, _. split; [reflexivity|]. split; [reflexivity|]. constructor.
  - (* jet *)
    destruct (jet_ty family id) as [[js jt]|] eqn:J; [|discriminate]. tyeq. subst.
    pose proof (Hf _ _ _ R En) as ->.
    eexists _, _, _. split; [reflexivity|]. split; [reflexivity|]. constructor. exact J.
  - (* word *)
    tyeq. subst. eexists _, _, _. split; [reflexivity|]. split; [reflexivity|]. constructor.
    rewrite word_width_nat. assumption.
  - discriminate.
Qed.

(* ------------------------------------------------------------------ the two semantics agree *)

Variable jet_sem : N -> N -> sval -> option sval.
Definition jet_sem1 (j : N) (v : sval) : option sval := jet_sem fam j v.

Ltac ev_step H :=
  match type of H with
  | obind ?x _ = _ =>
      let E := fresh "E" in destruct x as [[? ?]| | |] eqn:E; cbn [obind fst snd] in H; try discriminate
  end.

Notation reval := (PruneProg.eval jet_sem hash_val_core).
Notation ceval := (Sem.eval jet_sem1).

(* whatever the run of the table returns - a value or a failure - the big-step semantics of C05
   returns for the unfolded term (the trace has no counterpart there) *)
Theorem eval_agree p ar root C : typed_from jet_ty p ar root -> fam_ok p root ->
  forall fe fu i v t, reach p root i -> unfold_r fu p ar C i = Some t ->
    match reval fe p C i v with
    | Ok (o, _) => ceval t v = ROk o
    | Err e => ceval t v = RErr (sem_of_eerr e)
    | _ => True
    end.
Proof.
  intros Ht Hf. induction fe as [|f IH]; intros fu i v t R U; [exact I|].
  destruct fu as [|g]; [discriminate|]. cbn [unfold_r] in U. cbn [PruneProg.eval].
  destruct (nth_error p i) as [n|] eqn:En; [|discriminate].
  destruct (ar i) as [[s t0]|] eqn:Ai; [|discriminate].
  pose proof (Ht _ _ R En) as Ok1. unfold node_okb in Ok1. rewrite Ai in Ok1.
  assert (Rc : forall c, In c (rchildren n) -> reach p root c) by (intros c Hc; eapply reach_step; eauto).
  destruct n; cbn [rchildren] in Rc.
  - injection U as <-. reflexivity.
  - injection U as <-. reflexivity.
  - destruct (unfold_r g p ar C c) as [tc|] eqn:Uc; [|discriminate]. injection U as <-.
    pose proof (IH g c v tc (Rc _ (or_introl eq_refl)) Uc) as X. cbn [Sem.eval].
    destruct (reval f p C c v) as [[o E]|e| |]; cbn [obind fst]; try exact I; rewrite X; reflexivity.
  - destruct (unfold_r g p ar C c) as [tc|] eqn:Uc; [|discriminate]. injection U as <-.
    pose proof (IH g c v tc (Rc _ (or_introl eq_refl)) Uc) as X. cbn [Sem.eval].
    destruct (reval f p C c v) as [[o E]|e| |]; cbn [obind fst]; try exact I; rewrite X; reflexivity.
  - destruct (unfold_r g p ar C c) as [tc|] eqn:Uc; [|discriminate]. injection U as <-.
    destruct v as [| | |a b]; try exact I. cbn [Sem.eval].
    pose proof (IH g c a tc (Rc _ (or_introl eq_refl)) Uc) as X.
    destruct (reval f p C c a) as [[o E]|e| |]; cbn [obind fst]; try exact I; exact X.
  - destruct (unfold_r g p ar C c) as [tc|] eqn:Uc; [|discriminate]. injection U as <-.
    destruct v as [| | |a b]; try exact I. cbn [Sem.eval].
    pose proof (IH g c b tc (Rc _ (or_introl eq_refl)) Uc) as X.
    destruct (reval f p C c b) as [[o E]|e| |]; cbn [obind fst]; try exact I; exact X.
  - (* comp *)
    destruct (unfold_r g p ar C l) as [tl|] eqn:Ul; [|discriminate].
    destruct (unfold_r g p ar C r) as [tr|] eqn:Ur; [|discriminate]. injection U as <-.
    pose proof (IH g l v tl (Rc _ (or_introl eq_refl)) Ul) as X. cbn [Sem.eval].
    destruct (reval f p C l v) as [[o E]|e| |]; cbn [obind fst snd]; try exact I; rewrite X; cbn [rbind]; [|reflexivity].
    pose proof (IH g r o tr (Rc _ (or_intror (or_introl eq_refl))) Ur) as Y.
    destruct (reval f p C r o) as [[o2 E2]|e| |]; cbn [obind fst snd]; try exact I; exact Y.
  - (* case *)
    destruct (unfold_r g p ar C l) as [tl|] eqn:Ul; [|discriminate].
    destruct (unfold_r g p ar C r) as [tr|] eqn:Ur; [|discriminate]. injection U as <-.
    destruct v as [| | |[|a|b|] c]; try exact I; cbn [Sem.eval].
    + pose proof (IH g l (SP a c) tl (Rc _ (or_introl eq_refl)) Ul) as X.
      destruct (reval f p C l (SP a c)) as [[o E]|e| |]; cbn [obind fst snd]; try exact I; exact X.
    + pose proof (IH g r (SP b c) tr (Rc _ (or_intror (or_introl eq_refl))) Ur) as X.
      destruct (reval f p C r (SP b c)) as [[o E]|e| |]; cbn [obind fst snd]; try exact I; exact X.
  - (* assertl *)
    destruct (unfold_r g p ar C l) as [tl|] eqn:Ul; [|discriminate]. injection U as <-.
    destruct v as [| | |[|a|b|] c]; try exact I; cbn [Sem.eval]; [|reflexivity].
    pose proof (IH g l (SP a c) tl (Rc _ (or_introl eq_refl)) Ul) as X.
    destruct (reval f p C l (SP a c)) as [[o E]|e| |]; cbn [obind fst snd]; try exact I; exact X.
  - (* assertr *)
    destruct (unfold_r g p ar C r) as [tr|] eqn:Ur; [|discriminate]. injection U as <-.
    destruct v as [| | |[|a|b|] c]; try exact I; cbn [Sem.eval]; [reflexivity|].
    pose proof (IH g r (SP b c) tr (Rc _ (or_introl eq_refl)) Ur) as X.
    destruct (reval f p C r (SP b c)) as [[o E]|e| |]; cbn [obind fst snd]; try exact I; exact X.
  - (* pair *)
    destruct (unfold_r g p ar C l) as [tl|] eqn:Ul; [|discriminate].
    destruct (unfold_r g p ar C r) as [tr|] eqn:Ur; [|discriminate]. injection U as <-.
    pose proof (IH g l v tl (Rc _ (or_introl eq_refl)) Ul) as X. cbn [Sem.eval].
    destruct (reval f p C l v) as [[o E]|e| |]; cbn [obind fst snd]; try exact I; rewrite X; cbn [rbind]; [|reflexivity].
    pose proof (IH g r v tr (Rc _ (or_intror (or_introl eq_refl))) Ur) as Y.
    destruct (reval f p C r v) as [[o2 E2]|e| |]; cbn [obind fst snd]; try exact I; rewrite Y; reflexivity.
  - (* disconnect *)
    destruct (unfold_r g p ar C l) as [tl|] eqn:Ul; [|discriminate].
    destruct (unfold_r g p ar C r) as [tr|] eqn:Ur; [|discriminate]. injection U as <-.
    cbn [Sem.eval]. fold (hash_val_core (nth r C [])).
    pose proof (IH g l (SP (hash_val_core (nth r C [])) v) tl (Rc _ (or_introl eq_refl)) Ul) as X.
    destruct (reval f p C l (SP (hash_val_core (nth r C [])) v)) as [[o E]|e| |]; cbn [obind fst snd]; try exact I;
      rewrite X; cbn [rbind]; [|reflexivity].
    destruct o as [| | |b c]; try exact I.
    pose proof (IH g r c tr (Rc _ (or_intror (or_introl eq_refl))) Ur) as Y.
    destruct (reval f p C r c) as [[o2 E2]|e| |]; cbn [obind fst snd]; try exact I; rewrite Y; reflexivity.
  - (* witness *)
    injection U as <-. cbn [Sem.eval snd]. unfold wit_ok in Ok1. apply andb_true_iff in Ok1. destruct Ok1 as [_ Hv].
    rewrite (of_padded_spec _ _ _ (padded_enc_padded_of _ _ Hv)). reflexivity.
  - injection U as <-. reflexivity.
  - (* jet *)
    injection U as <-. cbn [Sem.eval]. pose proof (Hf _ _ _ R En) as ->. unfold jet_sem1.
    destruct (jet_sem fam id v); reflexivity.
  - (* word *)
    injection U as <-. tyeq. subst. cbn [Sem.eval snd]. rewrite word_val_of_padded by assumption. reflexivity.
  - discriminate.
Qed.

End Bridge.
