(* Constructors and accessors are inverse (on abstractions; the bytes may be shared or
   copied), round trips through the decoders, and well-formedness of the word constructors. *)
From RS Require Import Lib.Tac Lib.Outcome Lib.Bits Lib.Sweep Lib.ListExtra Ty.Ty
  Value.ValueModel Value.ValueBits Value.ValueRefine Value.ValueCons.
Import ListNotations.
Local Open Scope N_scope.

(* ------------------------------------------------------------------ accessor soundness *)

Theorem as_left_sound v l : WF v -> as_left v = Some l ->
  WF l /\ (exists b, vty v = Sum (vty l) b) /\ absv v = SL (absv l) /\ as_right v = None.
Proof.
  intros HW E.
  destruct (vty v) as [|a b|a b] eqn:Ev.
  - destruct (as_left_not_sum v) as [H _]; [intros ? ?; rewrite Ev; discriminate|congruence].
  - pose proof (as_left_spec v a b HW Ev) as HL. pose proof (as_right_spec v a b HW Ev) as HR.
    destruct (getbit (buf v) (off v)); [congruence|].
    cbv zeta in HL. destruct HL as (EL & HWl & Habs). rewrite EL in E. injection E as <-.
    ssplit; auto. exists b. reflexivity.
  - destruct (as_left_not_sum v) as [H _]; [intros ? ?; rewrite Ev; discriminate|congruence].
Qed.

Theorem as_right_sound v r : WF v -> as_right v = Some r ->
  WF r /\ (exists a, vty v = Sum a (vty r)) /\ absv v = SR (absv r) /\ as_left v = None.
Proof.
  intros HW E.
  destruct (vty v) as [|a b|a b] eqn:Ev.
  - destruct (as_left_not_sum v) as [_ H]; [intros ? ?; rewrite Ev; discriminate|congruence].
  - pose proof (as_left_spec v a b HW Ev) as HL. pose proof (as_right_spec v a b HW Ev) as HR.
    destruct (getbit (buf v) (off v)); [|congruence].
    cbv zeta in HR. destruct HR as (ER & HWr & Habs). rewrite ER in E. injection E as <-.
    ssplit; auto. exists a. reflexivity.
  - destruct (as_left_not_sum v) as [_ H]; [intros ? ?; rewrite Ev; discriminate|congruence].
Qed.

Theorem as_product_sound v l r : WF v -> as_product v = Some (l, r) ->
  WF l /\ WF r /\ vty v = Prod (vty l) (vty r) /\ absv v = SP (absv l) (absv r).
Proof.
  intros HW E.
  destruct (vty v) as [|a b|a b] eqn:Ev;
    try (rewrite as_product_not_prod in E by (intros ? ?; rewrite Ev; discriminate); discriminate).
  destruct (as_product_spec v a b HW Ev) as (EP & HWl & HWr & Habs). cbv zeta in *.
  rewrite EP in E. injection E as <- <-. ssplit; auto.
Qed.

(* abstraction directed: the accessor that matches the denoted element succeeds *)
Theorem as_left_complete v s : WF v -> absv v = SL s ->
  exists l, as_left v = Some l /\ WF l /\ absv l = s /\ as_right v = None.
Proof.
  intros HW Ha.
  destruct (vty v) as [|a b|a b] eqn:Ev.
  - unfold absv in Ha. rewrite Ev in Ha. discriminate.
  - pose proof (as_left_spec v a b HW Ev) as HL. pose proof (as_right_spec v a b HW Ev) as HR.
    destruct (getbit (buf v) (off v)).
    + cbv zeta in HR. destruct HR as (_ & _ & Habs). congruence.
    + cbv zeta in HL. destruct HL as (EL & HWl & Habs). eexists. ssplit; eauto. congruence.
  - unfold absv in Ha. rewrite Ev in Ha. discriminate.
Qed.

Theorem as_right_complete v s : WF v -> absv v = SR s ->
  exists r, as_right v = Some r /\ WF r /\ absv r = s /\ as_left v = None.
Proof.
  intros HW Ha.
  destruct (vty v) as [|a b|a b] eqn:Ev.
  - unfold absv in Ha. rewrite Ev in Ha. discriminate.
  - pose proof (as_left_spec v a b HW Ev) as HL. pose proof (as_right_spec v a b HW Ev) as HR.
    destruct (getbit (buf v) (off v)).
    + cbv zeta in HR. destruct HR as (ER & HWr & Habs). eexists. ssplit; eauto. congruence.
    + cbv zeta in HL. destruct HL as (_ & _ & Habs). congruence.
  - unfold absv in Ha. rewrite Ev in Ha. discriminate.
Qed.

(* ------------------------------------------------------------------ constructor then accessor *)

Theorem left_inverse v r : WF v -> small (Sum (vty v) r) ->
  exists x l, v_left v r = Ok x /\ WF x /\ as_left x = Some l /\ WF l /\
              vty l = vty v /\ absv l = absv v /\ as_right x = None.
Proof.
  intros HW Hs. destruct (v_left_spec v r HW Hs) as (x & Ex & HWx & Htx & _ & Hax).
  destruct (as_left_complete x (absv v) HWx Hax) as (l & El & HWl & Hal & Er).
  exists x, l. ssplit; auto.
  destruct (as_left_sound x l HWx El) as (_ & (b & Hb) & _). congruence.
Qed.

Theorem right_inverse l v : WF v -> small (Sum l (vty v)) ->
  exists x r, v_right l v = Ok x /\ WF x /\ as_right x = Some r /\ WF r /\
              vty r = vty v /\ absv r = absv v /\ as_left x = None.
Proof.
  intros HW Hs. destruct (v_right_spec l v HW Hs) as (x & Ex & HWx & Htx & _ & Hax).
  destruct (as_right_complete x (absv v) HWx Hax) as (r & Er & HWr & Har & El).
  exists x, r. ssplit; auto.
  destruct (as_right_sound x r HWx Er) as (_ & (a & Hb) & _). congruence.
Qed.

Theorem product_inverse a b : WF a -> WF b -> small (Prod (vty a) (vty b)) ->
  exists x l r, v_product a b = Ok x /\ WF x /\ as_product x = Some (l, r) /\ WF l /\ WF r /\
                vty l = vty a /\ vty r = vty b /\ absv l = absv a /\ absv r = absv b /\
                as_left x = None /\ as_right x = None.
Proof.
  intros Ha Hb Hs. destruct (v_product_spec a b Ha Hb Hs) as (x & Ex & HWx & Htx & _ & Hax).
  destruct (as_product_spec x _ _ HWx Htx) as (EP & HWl & HWr & Habs). cbv zeta in *.
  rewrite Hax in Habs. injection Habs as H1 H2.
  destruct (as_left_not_sum x) as [E1 E2]; [intros ? ?; rewrite Htx; discriminate|].
  eexists x, _, _. ssplit; eauto.
Qed.

(* ------------------------------------------------------------------ round trips through the decoders *)

Theorem padded_roundtrip v rest : WF v ->
  exists p x, iter_padded v = Ok p /\ from_padded_bits (p ++ rest) (vty v) = Ok (x, rest) /\
              WF x /\ vty x = vty v /\ absv x = absv v.
Proof.
  intros HW. exists (vbits v).
  destruct (from_padded_bits_spec (vty v) (absv v) (vbits v) rest ltac:(apply HW) (vbits_padded_of v))
    as (x & E & HWx & Ht & Ha).
  exists x. ssplit; auto. apply iter_padded_spec, HW.
Qed.

Theorem compact_roundtrip v rest : WF v ->
  exists c x, iter_compact v = Ok c /\ from_compact_bits (c ++ rest) (vty v) = Ok (x, rest) /\
              WF x /\ vty x = vty v /\ absv x = absv v.
Proof.
  intros HW. exists (compact_enc (absv v)).
  destruct (from_compact_bits_spec (vty v) (absv v) rest ltac:(apply HW) (absv_has_ty v))
    as (x & E & HWx & Ht & Ha).
  exists x. ssplit; auto. apply iter_compact_spec, HW.
Qed.

(* a value accepted by from_compact_bits was the compact encoding of what it denotes:
   uniqueness is inherited from of_compact (Ty.v); stated here for the decoder's results *)
Theorem from_compact_bits_unique t s1 s2 rest1 rest2 : has_ty s1 t = true -> has_ty s2 t = true ->
  compact_enc s1 ++ rest1 = compact_enc s2 ++ rest2 -> s1 = s2 /\ rest1 = rest2.
Proof.
  intros H1 H2 E.
  pose proof (of_compact_enc t s1 rest1 H1) as A. pose proof (of_compact_enc t s2 rest2 H2) as B.
  rewrite E in A. rewrite A in B. injection B; auto.
Qed.

(* ------------------------------------------------------------------ word constructors *)

Lemma be_bytes_ok : forall len n, bytes_ok (be_bytes len n) /\ length (be_bytes len n) = len.
Proof.
  induction len as [|len IH]; intros n; cbn [be_bytes]; [split; [constructor|reflexivity]|].
  destruct (IH n) as [H1 H2]. split; [constructor; [apply N.mod_lt; discriminate|exact H1]|cbn; lia].
Qed.

Theorem v_word_int_WF k n v : (k <= 7)%nat -> n < 256 \/ (3 <= k)%nat -> v_word_int k n = Ok v ->
  WF v /\ vty v = word_ty k.
Proof.
  intros Hk Hn E.
  assert (Hsmall : small (word_ty k)).
  { unfold small. rewrite width_word. unfold usize_max.
    assert (2 ^ N.of_nat k <= 2 ^ 7) by (apply N.pow_le_mono_r; lia). change (2 ^ 7) with 128 in *. lia. }
  destruct k as [|[|[|k]]].
  - cbn [v_word_int] in E. destruct (n <=? 1) eqn:L; [|discriminate]. apply N.leb_le in L. injection E as <-.
    split; [|reflexivity]. split; [repeat constructor; lia|]. split; [vm_compute; discriminate|exact Hsmall].
  - cbn [v_word_int] in E. destruct (n <=? 3) eqn:L; [|discriminate]. apply N.leb_le in L. injection E as <-.
    split; [|reflexivity]. split; [repeat constructor; lia|]. split; [vm_compute; discriminate|exact Hsmall].
  - cbn [v_word_int] in E. destruct (n <=? 15) eqn:L; [|discriminate]. apply N.leb_le in L. injection E as <-.
    split; [|reflexivity]. split; [repeat constructor; lia|]. split; [vm_compute; discriminate|exact Hsmall].
  - change (@Ok verr value (mkV (be_bytes (2 ^ (S (S (S k)) - 3)) n) 0 (word_ty (S (S (S k))))) = Ok v) in E.
    assert (Ev : v = mkV (be_bytes (2 ^ (S (S (S k)) - 3)) n) 0 (word_ty (S (S (S k))))) by congruence.
    clear E. subst v. split; [|reflexivity].
    destruct (be_bytes_ok (2 ^ (S (S (S k)) - 3)) n) as [H1 H2].
    split; [exact H1|]. split; [|exact Hsmall].
    cbn [buf off vty]. unfold blen. rewrite H2, width_word.
    replace (S (S (S k)) - 3)%nat with k by lia.
    rewrite Nat2N.inj_pow. change (N.of_nat 2) with 2.
    replace (N.of_nat (S (S (S k)))) with (3 + N.of_nat k) by lia.
    rewrite N.pow_add_r. change (2 ^ 3) with 8. lia.
Qed.
