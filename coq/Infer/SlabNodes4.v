(* C04, phase 3 - layer (c), continued: word, jet, case, disconnect; then whole construction sequences. *)
From RS Require Import Lib.Tac Lib.Outcome Ty.Ty Core.Prog Infer.Constraints Infer.Unify Infer.Infer Infer.Gen
  Infer.UnionFind Infer.Slab Infer.SlabProofs Infer.Rational Infer.SlabSim Infer.SlabSimInst Infer.SlabPrims Infer.SlabNodes
  Infer.SlabNodes2 Infer.SlabNodes3.
Import ListNotations.
Local Open Scope outcome_scope.

Lemma sim_block_n c s eqs em blk n r t : Sim c s eqs em -> n = length s ->
  is_block ty eq One Sum Prod blk n r t -> is_block itree teq tone tsum tprod blk n r t ->
  Sim (fst (ty_complete c t)) (s ++ blk) eqs (upd em (length (c_uf c)) r) /\
  snd (ty_complete c t) = length (c_uf c) /\ length (c_uf (fst (ty_complete c t))) = S (length (c_uf c)).
Proof. intros S0 -> Bf Bt. apply sim_block; assumption. Qed.

(* a variable of the reference that has no counterpart on the slab: a product of existing variables *)
Section RefVar.
  Variable D : Type.
  Variable deq : D -> D -> Prop.
  Variable done : D.
  Variable dsum dprod : D -> D -> D.
  Hypothesis deq_refl : forall a, deq a a.
  Hypothesis deq_sym : forall a b, deq a b -> deq b a.
  Hypothesis deq_trans : forall a b c, deq a b -> deq b c -> deq a c.
  Hypothesis dsum_cong : forall a b c d, deq a c -> deq b d -> deq (dsum a b) (dsum c d).
  Hypothesis dprod_cong : forall a b c d, deq a c -> deq b d -> deq (dprod a b) (dprod c d).
  Hypothesis dsum_inj : forall a b c d, deq (dsum a b) (dsum c d) -> deq a c /\ deq b d.
  Hypothesis dprod_inj : forall a b c d, deq (dprod a b) (dprod c d) -> deq a c /\ deq b d.
  Hypothesis one_sum : forall a b, ~ deq done (dsum a b).
  Hypothesis one_prod : forall a b, ~ deq done (dprod a b).
  Hypothesis sum_prod : forall a b c d, ~ deq (dsum a b) (dprod c d).

  Lemma m_refvar c s eqs em x y : base c s eqs em -> simD D deq done dsum dprod c s eqs em ->
    (x < length s)%nat -> (y < length s)%nat -> simD D deq done dsum dprod c (s ++ [BProd x y]) eqs em.
  Proof.
    intros (CW & Ws & Ei & Rg) [M1 M2] Hx Hy. split.
    - intros al [Sa Ea]. apply M1. split; [|exact Ea].
      assert (G : dsat D deq done dsum dprod al s /\ dsat_from D deq done dsum dprod al (length s) [BProd x y])
        by (apply (dsat_app D deq done dsum dprod); auto). tauto.
    - intros be Sb. destruct (M2 be Sb) as (al & [Sa Ea] & Ag).
      set (al' := fun v => if Nat.eqb v (length s) then dprod (al x) (al y) else al v).
      assert (A : forall u, (u < length s)%nat -> al' u = al u) by (intros u Hu; unfold al'; destruct (Nat.eqb_spec u (length s)); [lia|reflexivity]).
      exists al'. split; [split|].
      + apply (dsat_app D deq done dsum dprod); auto. split; [apply (dsat_agree D deq done dsum dprod) with (al := al); auto|].
        apply (dsat_from_one D deq done dsum dprod); auto. cbn. unfold al' at 1. rewrite Nat.eqb_refl, !A by assumption. apply deq_refl.
      + apply (deqs_agree D deq al _ (length s)); assumption.
      + intros e He. rewrite A by (apply Rg; exact He). apply Ag. exact He.
  Qed.
End RefVar.

Lemma sim_refvar c s eqs em x y : Sim c s eqs em -> (x < length s)%nat -> (y < length s)%nat ->
  Sim c (s ++ [BProd x y]) eqs em.
Proof.
  intros [B Sf St] Hx Hy. pose proof B as (CW & Ws & Ei & Rg).
  assert (B' : base c (s ++ [BProd x y]) eqs em).
  { split; [exact CW|]. split; [apply wf_app; [exact Ws|]; constructor; [cbn; lia|constructor]|]. rewrite app_length. split.
    - intros a b Hin. destruct (Ei a b Hin). lia.
    - intros e He. pose proof (Rg e He). lia. }
  split; [exact B'| |].
  - apply (m_refvar ty eq One Sum Prod); auto; fin_hyps.
  - apply (m_refvar itree teq tone tsum tprod); auto; dom_hyps.
Qed.

Section Nodes.
  Variable fuel : nat.
  Variable jt : jet_table.

  Ltac start :=
    intros c s eqs em ar_s nb ne a_r S0 Ai H; unfold node_post; cbn [r_node]; cbn [node_tmpl] in H;
    try rewrite !arr_of_amap in H; try rewrite !hidden_at_amap in H.
  Ltac upds := repeat first [rewrite upd_eq | rewrite upd_lt by lia].

  Lemma node_word k bits : forall c s eqs em ar_s nb ne a_r, Sim c s eqs em -> arr_in (length (c_uf c)) ar_s ->
    node_tmpl jt (length s) (map (amap em) ar_s) (NWord k bits) = Some (nb, ne, a_r) -> node_post fuel jt c s eqs em ar_s (NWord k bits) nb ne a_r.
  Proof.
    start. destruct (Nat.leb k 31 && Nat.eqb (length bits) (2 ^ k))%bool; [|discriminate].
    destruct (walloc k (1 + length s)) as [wl w] eqn:Ew. injection H as <- <- <-.
    destruct (blk_g GOne (length s)) as [Bf Bt]. cbn [galloc fst snd gty_ty] in Bf, Bt.
    destruct (sim_block c s eqs em _ _ One S0 Bf Bt) as (S1 & E1 & L1).
    destruct (ty_complete c One) as [c1 x] eqn:N1. cbn [fst snd] in *. subst x.
    destruct (blk_w k (1 + length s)) as [Bf2 Bt2]. rewrite Ew in Bf2, Bt2. cbn [fst snd] in Bf2, Bt2.
    destruct (sim_block_n c1 _ eqs _ _ (1 + length s)%nat w (word_ty k) S1 ltac:(rewrite app_length; cbn; lia) Bf2 Bt2) as (S2 & E2 & L2).
    destruct (ty_complete c1 (word_ty k)) as [c2 y] eqn:N2. cbn [fst snd] in *. subst y.
    eexists. split; [|split; [|split; [|split]]].
    2:{ rewrite app_nil_r. replace (s ++ BOne :: wl) with ((s ++ [BOne]) ++ wl) by (rewrite <- app_assoc; reflexivity). exact S2. }
    - intros e He. upds. reflexivity.
    - cbn [amap]. upds. reflexivity.
    - lia.
    - intros x y E. injection E as <- <-. lia.
  Qed.

  Lemma node_jet fam id : forall c s eqs em ar_s nb ne a_r, Sim c s eqs em -> arr_in (length (c_uf c)) ar_s ->
    node_tmpl jt (length s) (map (amap em) ar_s) (NJet fam id) = Some (nb, ne, a_r) -> node_post fuel jt c s eqs em ar_s (NJet fam id) nb ne a_r.
  Proof.
    start. destruct (jet_lookup jt fam id) as [[gs gt]|]; [|discriminate].
    destruct (galloc gs (length s)) as [l1 r1] eqn:G1. destruct (galloc gt (length l1 + length s)) as [l2 r2] eqn:G2.
    injection H as <- <- <-.
    destruct (blk_g gs (length s)) as [Bf Bt]. rewrite G1 in Bf, Bt. cbn [fst snd] in Bf, Bt.
    destruct (sim_block c s eqs em _ _ _ S0 Bf Bt) as (S1 & E1 & L1).
    destruct (ty_complete c (gty_ty gs)) as [c1 x] eqn:N1. cbn [fst snd] in *. subst x.
    destruct (blk_g gt (length l1 + length s)) as [Bf2 Bt2]. rewrite G2 in Bf2, Bt2. cbn [fst snd] in Bf2, Bt2.
    destruct (sim_block_n c1 _ eqs _ _ (length l1 + length s)%nat r2 (gty_ty gt) S1 ltac:(rewrite app_length; lia) Bf2 Bt2) as (S2 & E2 & L2).
    destruct (ty_complete c1 (gty_ty gt)) as [c2 y] eqn:N2. cbn [fst snd] in *. subst y.
    eexists. split; [|split; [|split; [|split]]].
    2:{ rewrite app_nil_r, app_assoc. exact S2. }
    - intros e He. upds. reflexivity.
    - cbn [amap]. upds. reflexivity.
    - lia.
    - intros x y E. injection E as <- <-. lia.
  Qed.

  (* Arrow::for_disconnect *)
  Lemma fordis c s eqs em ls lt rs rt wl w : Sim c s eqs em ->
    (ls < length (c_uf c))%nat -> (lt < length (c_uf c))%nat -> (rs < length (c_uf c))%nat -> (rt < length (c_uf c))%nat ->
    walloc 8 (2 + length s) = (wl, w) ->
    let m := length s in
    let q := (length wl + (2 + m))%nat in
    let s' := (((((s ++ [BFree; BFree]) ++ wl) ++ [BProd w m]) ++ [BProd (1 + m) (em rs)]) ++ [BProd (1 + m) (em rt)]) in
    let eqs' := ((eqs ++ [(em ls, q)]) ++ [(em lt, 1 + q)])%nat in
    match for_disconnect fuel c ls lt rs rt with
    | Ok (c', (a, p)) =>
        exists em', (forall e, (e < length (c_uf c))%nat -> em' e = em e) /\ Sim c' s' eqs' em' /\
          em' a = m /\ em' p = (2 + q)%nat /\ (length (c_uf c) <= length (c_uf c'))%nat /\
          (a < length (c_uf c'))%nat /\ (p < length (c_uf c'))%nat
    | Err (RBind 0 _ _, _) => ~ consistent s' eqs'
    | Err _ => False
    | _ => True
    end.
  Proof.
    intros S0 Lls Llt Lrs Lrt Ew m q s' eqs'. unfold for_disconnect.
    destruct (two_free c s eqs em S0) as (c2 & E & S2 & L2).
    destruct (ty_free c) as [c1 x]. destruct (ty_free c1) as [c2' y]. injection E as -> -> ->.
    set (len := length (c_uf c)) in *.
    set (em2 := upd (upd em len (length s)) (S len) (S (length s))) in *.
    destruct (blk_w 8 (2 + length s)) as [Bf Bt]. rewrite Ew in Bf, Bt. cbn [fst snd] in Bf, Bt.
    destruct (sim_block_n c2 _ eqs _ _ (2 + length s)%nat w (word_ty 8) S2 ltac:(rewrite app_length; cbn; lia) Bf Bt) as (S3 & E3 & L3).
    destruct (ty_complete c2 (word_ty 8)) as [c3 we] eqn:N3. cbn [fst snd] in *. subst we.
    set (em3 := upd em2 (length (c_uf c2)) w) in *.
    set (s3 := (s ++ [BFree; BFree]) ++ wl) in *.
    assert (Ls3 : length s3 = q) by (unfold s3, q, m; rewrite !app_length; cbn [length]; lia).
    assert (V : em3 (length (c_uf c2)) = w /\ em3 len = m /\ em3 (S len) = (1 + m)%nat /\
                (forall e, (e < len)%nat -> em3 e = em e)).
    { unfold em3, em2. repeat split; [rewrite upd_eq; reflexivity| | |].
      - rewrite upd_lt by lia. rewrite upd_lt by lia. rewrite upd_eq. reflexivity.
      - rewrite upd_lt by lia. rewrite upd_eq. reflexivity.
      - intros e He. rewrite !upd_lt by lia. reflexivity. }
    destruct V as (Vw & Va & Vb & Vo).
    (* bind_product ls w a *)
    pose proof (sim_bindp fuel c3 s3 eqs em3 ls (length (c_uf c2)) len S3 ltac:(lia) ltac:(lia) ltac:(lia)) as U1.
    unfold a_bind_product.
    rewrite Vw, Va, (Vo ls Lls), Ls3 in U1.
    destruct (bind_product fuel c3 ls (length (c_uf c2)) len) as [c4|[[ex new] ce]| |]; cbn [lift_bind obind alloc_bound]; try exact I.
    2:{ intros C. apply U1. unfold s', eqs' in C. apply (consistent_mono _ ([BProd (1 + m) (em rs)] ++ [BProd (1 + m) (em rt)]) _ [(em lt, (1 + q)%nat)]).
        rewrite app_assoc. exact C. }
    destruct U1 as [S4 L4].
    (* bind_product lt b rs *)
    pose proof (sim_bindp fuel c4 _ _ em3 lt (S len) rs S4 ltac:(lia) ltac:(lia) ltac:(lia)) as U2.
    rewrite Vb, (Vo rs Lrs), (Vo lt Llt) in U2.
    assert (Ls4 : length (s3 ++ [BProd w m]) = (1 + q)%nat) by (rewrite app_length, Ls3; cbn [length]; lia).
    rewrite Ls4 in U2.
    destruct (bind_product fuel c4 lt (S len) rs) as [c5|[[ex new] ce]| |]; cbn [lift_bind obind alloc_bound]; try exact I.
    2:{ intros C. apply U2. unfold s', eqs' in C. apply (consistent_mono _ [BProd (1 + m) (em rt)] _ []).
        rewrite app_nil_r. exact C. }
    destruct U2 as [S5 L5].
    (* Type::product b rt *)
    destruct (sim_pair false c5 _ _ em3 (S len) rt S5 ltac:(lia) ltac:(lia)) as (c6 & E6 & S6 & L6).
    rewrite E6. cbn [lift_unwrap obind].
    rewrite Vb, (Vo rt Lrt) in S6.
    exists (upd em3 (length (c_uf c5)) (length ((s3 ++ [BProd w m]) ++ [BProd (1 + m) (em rs)]))).
    split; [intros e He; rewrite upd_lt by lia; apply Vo; exact He|].
    split; [exact S6|]. split; [rewrite upd_lt by lia; exact Va|]. split; [|lia].
    rewrite upd_eq. rewrite app_length, Ls4. cbn [length]. lia.
  Qed.

  Local Opaque walloc.

  Lemma node_disconnect l ro : forall c s eqs em ar_s nb ne a_r, Sim c s eqs em -> arr_in (length (c_uf c)) ar_s ->
    node_tmpl jt (length s) (map (amap em) ar_s) (NDisconnect l ro) = Some (nb, ne, a_r) ->
    node_post fuel jt c s eqs em ar_s (NDisconnect l ro) nb ne a_r.
  Proof.
    start. destruct (arr_of ar_s l) as [[ls lt]|] eqn:El; cbn [amap] in H; [|discriminate].
    destruct (Ai l ls lt El) as [Lls Llt].
    destruct ro as [r|].
    - (* with a right child *)
      rewrite arr_of_amap in H.
      destruct (arr_of ar_s r) as [[rs rt]|] eqn:Er; cbn [amap] in H; [|discriminate].
      destruct (Ai r rs rt Er) as [Lrs Lrt].
      cbn [length Nat.add app] in H.
      destruct (walloc 8 _) as [wl w] eqn:Ew in H. injection H as <- <- <-.
      pose proof (fordis c s eqs em ls lt rs rt wl w S0 Lls Llt Lrs Lrt Ew) as F. cbv zeta in F.
      destruct (for_disconnect fuel c ls lt rs rt) as [[c' [a p]]|[[| |] ce]| |]; cbn [obind]; try exact F; try exact I.
      + destruct F as (em' & Ex & S' & Ea & Ep & Ll & La & Lp).
        exists em'. split; [exact Ex|]. split; [|split; [|split; [exact Ll|]]].
        * repeat rewrite <- app_assoc in S'. repeat rewrite <- app_assoc. cbn [app Nat.add] in S' |- *. exact S'.
        * cbn [amap]. rewrite Ea, Ep. cbn [Nat.add]. reflexivity.
        * intros x y E. injection E as <- <-. split; assumption.
      + destruct stage; [|exact F]. repeat rewrite <- app_assoc in F. repeat rewrite <- app_assoc. cbn [app Nat.add] in F |- *. exact F.
    - (* without: two fresh variables for the missing branch *)
      cbn [length Nat.add app] in H.
      destruct (walloc 8 _) as [wl w] eqn:Ew in H. injection H as <- <- <-.
      destruct (two_free c s eqs em S0) as (c2 & E & S2 & L2).
      destruct (ty_free c) as [c1 x]. destruct (ty_free c1) as [c2' y]. injection E as -> -> ->.
      set (len := length (c_uf c)) in *.
      set (em2 := upd (upd em len (length s)) (S len) (S (length s))) in *.
      assert (Ls2 : length (s ++ [BFree; BFree]) = (2 + length s)%nat) by (rewrite app_length; cbn; lia).
      pose proof (fordis c2 _ eqs em2 ls lt len (S len) wl w S2 ltac:(lia) ltac:(lia) ltac:(lia) ltac:(lia) ltac:(rewrite Ls2; exact Ew)) as F.
      cbv zeta in F. rewrite Ls2 in F.
      assert (V : em2 len = length s /\ em2 (S len) = S (length s) /\ em2 ls = em ls /\ em2 lt = em lt).
      { unfold em2. repeat split; [rewrite upd_lt by lia; rewrite upd_eq; reflexivity|rewrite upd_eq; reflexivity| |]; rewrite !upd_lt by lia; reflexivity. }
      destruct V as (V1 & V2 & V3 & V4). rewrite V1, V2, V3, V4 in F.
      destruct (for_disconnect fuel c2 ls lt len (S len)) as [[c' [a p]]|[[| |] ce]| |]; cbn [obind]; try exact F; try exact I.
      + destruct F as (em' & Ex & S' & Ea & Ep & Ll & La & Lp).
        exists em'. split; [intros e He; rewrite Ex by lia; unfold em2; rewrite !upd_lt by lia; reflexivity|].
        split; [|split; [|split; [lia|]]].
        * repeat rewrite <- app_assoc in S'. repeat rewrite <- app_assoc. cbn [app Nat.add] in S' |- *. exact S'.
        * cbn [amap]. rewrite Ea, Ep. cbn [Nat.add]. reflexivity.
        * intros x y E. injection E as <- <-. split; assumption.
      + destruct stage; [|exact F]. repeat rewrite <- app_assoc in F. repeat rewrite <- app_assoc. cbn [app Nat.add] in F |- *. exact F.
  Qed.

  (* one branch of Arrow::for_case *)
  Definition side_eqs (em : nat -> nat) (n tgt : nat) (o : option varrow) : list (nat * nat) :=
    match o with Some (ss, st) => [(em ss, n); (em tgt, em st)] | None => [] end.

  Lemma case_side (unw : bool) c s eqs em o pa pc tgt x y : Sim c s eqs em ->
    (pa < length (c_uf c))%nat -> (pc < length (c_uf c))%nat -> (tgt < length (c_uf c))%nat ->
    (forall ss st, o = Some (ss, st) -> (ss < length (c_uf c))%nat /\ (st < length (c_uf c))%nat) ->
    em pa = x -> em pc = y ->
    match (match o with
           | Some (ss, st) => c1 <- a_bind_product fuel c ss pa pc ;;
                              (if unw then lift_unwrap (ctx_unify fuel c1 tgt st) else a_unify fuel c1 tgt st)
           | None => Ok c
           end) with
    | Ok c' => Sim c' (s ++ [BProd x y]) (eqs ++ side_eqs em (length s) tgt o) em /\ length (c_uf c') = length (c_uf c)
    | Err (RBind 0 _ _, _) => ~ consistent (s ++ [BProd x y]) (eqs ++ side_eqs em (length s) tgt o)
    | Err _ => False
    | _ => True
    end.
  Proof.
    intros S0 La Lc Lt Lo Ex Ey. pose proof S0 as [(CW & Ws & Ei & Rg) _ _].
    destruct o as [[ss st]|]; cbn [side_eqs].
    - destruct (Lo ss st eq_refl) as [Lss Lst].
      pose proof (sim_bindp fuel c s eqs em ss pa pc S0 Lss La Lc) as U. rewrite Ex, Ey in U. unfold a_bind_product.
      destruct (bind_product fuel c ss pa pc) as [c1|[[ex new] ce]| |]; cbn [lift_bind obind alloc_bound]; try exact I.
      2:{ intros C. apply U. apply (consistent_mono _ [] _ [(em tgt, em st)]). rewrite app_nil_r.
          replace (eqs ++ [(em ss, length s); (em tgt, em st)]) with ((eqs ++ [(em ss, length s)]) ++ [(em tgt, em st)]) in C
            by (rewrite <- app_assoc; reflexivity). exact C. }
      destruct U as [S1 L1].
      pose proof (sim_unify fuel c1 _ _ em tgt st S1 ltac:(lia) ltac:(lia)) as U2.
      replace (eqs ++ [(em ss, length s); (em tgt, em st)]) with ((eqs ++ [(em ss, length s)]) ++ [(em tgt, em st)])
        by (rewrite <- app_assoc; reflexivity).
      destruct unw; unfold a_unify.
      + destruct (ctx_unify fuel c1 tgt st) as [c2|e| |]; cbn [lift_unwrap lift_bind]; try exact I.
        destruct U2 as [S2 L2]. split; [exact S2|lia].
      + destruct (ctx_unify fuel c1 tgt st) as [c2|[[ex new] ce]| |]; cbn [lift_unwrap lift_bind alloc_bound]; try exact I.
        * destruct U2 as [S2 L2]. split; [exact S2|lia].
        * exact U2.
    - rewrite app_nil_r. split; [|reflexivity]. subst x y. apply sim_refvar; [exact S0|apply Rg; exact La|apply Rg; exact Lc].
  Qed.

  Definition nb8 (n : nat) : list bnd :=
    [BFree; BFree; BFree; BSum n (1 + n); BProd (3 + n) (2 + n); BFree; BProd n (2 + n); BProd (1 + n) (2 + n)].

  Lemma forcase c s eqs em la ra : Sim c s eqs em ->
    (forall ss st, la = Some (ss, st) -> (ss < length (c_uf c))%nat /\ (st < length (c_uf c))%nat) ->
    (forall ss st, ra = Some (ss, st) -> (ss < length (c_uf c))%nat /\ (st < length (c_uf c))%nat) ->
    let n := length s in
    match for_case fuel c la ra with
    | Ok (c', (p, t)) =>
        exists em', (forall e, (e < length (c_uf c))%nat -> em' e = em e) /\
          Sim c' (s ++ nb8 n) (eqs ++ side_eqs em' (6 + n) (length (c_uf c) + 5) la ++ side_eqs em' (7 + n) (length (c_uf c) + 5) ra) em' /\
          em' p = (4 + n)%nat /\ em' t = (5 + n)%nat /\ em' (length (c_uf c) + 5)%nat = (5 + n)%nat /\
          (length (c_uf c) <= length (c_uf c'))%nat /\ (p < length (c_uf c'))%nat /\ (t < length (c_uf c'))%nat
    | Err (RBind 0 _ _, cx) =>
        exists em', (forall e, (e < length (c_uf c))%nat -> em' e = em e) /\ em' (length (c_uf c) + 5)%nat = (5 + n)%nat /\
          ~ consistent (s ++ nb8 n) (eqs ++ side_eqs em' (6 + n) (length (c_uf c) + 5) la ++ side_eqs em' (7 + n) (length (c_uf c) + 5) ra)
    | Err _ => False
    | _ => True
    end.
  Proof.
    intros S0 Hla Hra n. unfold for_case.
    destruct (sim_free c s eqs em S0) as (S1 & E1 & L1). destruct (ty_free c) as [c1 a] eqn:N1. cbn [fst snd] in *. subst a.
    destruct (sim_free c1 _ eqs _ S1) as (S2 & E2 & L2). destruct (ty_free c1) as [c2 b] eqn:N2. cbn [fst snd] in *. subst b.
    destruct (sim_free c2 _ eqs _ S2) as (S3 & E3 & L3). destruct (ty_free c2) as [c3 cc] eqn:N3. cbn [fst snd] in *. subst cc.
    destruct (sim_pair true c3 _ eqs _ (length (c_uf c)) (length (c_uf c1)) S3 ltac:(lia) ltac:(lia)) as (c4 & E4 & S4 & L4).
    rewrite E4. cbn [lift_unwrap obind].
    destruct (sim_pair false c4 _ eqs _ (length (c_uf c3)) (length (c_uf c2)) S4 ltac:(lia) ltac:(lia)) as (c5 & E5 & S5 & L5).
    rewrite E5. cbn [lift_unwrap obind].
    destruct (sim_free c5 _ eqs _ S5) as (S6 & E6 & L6). destruct (ty_free c5) as [c6 tg] eqn:N6. cbn [fst snd] in *. subst tg.
    match type of S6 with Sim _ ?X _ ?Y => set (s6 := X) in *; set (em6 := Y) in * end.
    set (len := length (c_uf c)) in *.
    assert (Ls : length s6 = (6 + n)%nat) by (unfold s6, n; rewrite !app_length; cbn [length]; lia).
    assert (V : em6 len = n /\ em6 (length (c_uf c1)) = (1 + n)%nat /\ em6 (length (c_uf c2)) = (2 + n)%nat /\
                em6 (length (c_uf c3)) = (3 + n)%nat /\ em6 (length (c_uf c4)) = (4 + n)%nat /\ em6 (length (c_uf c5)) = (5 + n)%nat /\
                forall e, (e < len)%nat -> em6 e = em e).
    { unfold em6, n, len. repeat split.
      - rewrite !upd_lt by lia. rewrite upd_eq. reflexivity.
      - rewrite 4 upd_lt by lia. rewrite upd_eq. rewrite app_length. cbn [length]. lia.
      - rewrite 3 upd_lt by lia. rewrite upd_eq. rewrite !app_length. cbn [length]. lia.
      - rewrite 2 upd_lt by lia. rewrite upd_eq. rewrite !app_length. cbn [length]. lia.
      - rewrite 1 upd_lt by lia. rewrite upd_eq. rewrite !app_length. cbn [length]. lia.
      - rewrite upd_eq. rewrite !app_length. cbn [length]. lia.
      - intros e He. rewrite !upd_lt by lia. reflexivity. }
    destruct V as (Va & Vb & Vc & Vs & Vp & Vt & Vo).
    assert (Es6 : s6 = s ++ [BFree; BFree; BFree; BSum n (1 + n); BProd (3 + n) (2 + n); BFree]).
    { unfold s6. repeat rewrite <- app_assoc. cbn [app]. repeat f_equal.
      - rewrite !upd_lt by lia. rewrite upd_eq. reflexivity.
      - rewrite !upd_lt by lia. rewrite upd_eq. unfold n. rewrite app_length. cbn [length]. lia.
      - rewrite upd_eq. unfold n. rewrite !app_length. cbn [length]. lia.
      - rewrite !upd_lt by lia. rewrite upd_eq. unfold n. rewrite !app_length. cbn [length]. lia. }
    assert (T5 : length (c_uf c5) = (len + 5)%nat) by lia.
    assert (Efin : (s6 ++ [BProd n (2 + n)]) ++ [BProd (1 + n) (2 + n)] = s ++ nb8 n).
    { rewrite Es6. unfold nb8. rewrite <- !app_assoc. reflexivity. }
    (* left branch *)
    pose proof (case_side true c6 s6 eqs em6 la len (length (c_uf c2)) (length (c_uf c5)) n (2 + n)%nat S6
                  ltac:(lia) ltac:(lia) ltac:(lia)) as P.
    specialize (P ltac:(intros ss st E; destruct (Hla ss st E); lia) Va Vc). cbv beta iota in P. rewrite Ls in P.
    revert P. match goal with |- match ?X0 with _ => _ end -> match obind ?X _ with _ => _ end => change X0 with X; destruct X as [c7|[[|st0 ex0 nb0|] ce]| |] end;
      intros P; cbn [obind]; try exact P; try exact I.
    2:{ destruct st0; [|exact P]. exists em6. split; [exact Vo|]. split; [rewrite <- T5; exact Vt|]. intros C. apply P.
        apply (consistent_mono _ [BProd (1 + n) (2 + n)] _ (side_eqs em6 (7 + n) (len + 5) ra)).
        rewrite Efin, T5, <- app_assoc. exact C. }
    destruct P as [S7 L7].
    (* right branch *)
    pose proof (case_side false c7 _ _ em6 ra (length (c_uf c1)) (length (c_uf c2)) (length (c_uf c5)) (1 + n)%nat (2 + n)%nat S7
                  ltac:(lia) ltac:(lia) ltac:(lia)) as Q.
    specialize (Q ltac:(intros ss st E; destruct (Hra ss st E); lia) Vb Vc). cbv beta iota in Q.
    assert (Ls7 : length (s6 ++ [BProd n (2 + n)]) = (7 + n)%nat) by (rewrite app_length, Ls; cbn [length]; lia).
    rewrite Ls7 in Q.
    rewrite Efin in Q. rewrite <- app_assoc in Q.
    revert Q. match goal with |- match ?X0 with _ => _ end -> match obind ?X _ with _ => _ end => change X0 with X; destruct X as [c8|[[|st0 ex0 nb0|] ce]| |] end;
      intros Q; try rewrite T5 in Q; cbn [obind]; try exact Q; try exact I.
    2:{ destruct st0; [|exact Q]. exists em6. split; [exact Vo|]. split; [rewrite <- T5; exact Vt|]. exact Q. }
    destruct Q as [S8 L8].
    exists em6. split; [exact Vo|]. split; [exact S8|]. split; [exact Vp|]. split; [exact Vt|]. split; [rewrite <- T5; exact Vt|]. lia.
  Qed.
End Nodes.
