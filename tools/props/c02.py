"""C02 - Decoder is total and accepts only the canonical encoding."""
import json
import os
import subprocess
import sys

import proggen as pg
import vplib
from vplib import Case
from props import c01
from props import codec_common as cc

PROP = "C02"
LEVEL = "proof"
IMPORTS = ["Ty.Ty", "Core.Prog", "Codec.NodeCodec", "Codec.JetTab", "Codec.Run"]
CRATE = None  # merged into the main harness crate
import os as _os
_os.environ.setdefault("VERIF_AS_LIMIT_MB", "2048")  # address-space limit of the harness process
BOMB_FINDING_N = 60000       # F-C02 witness size of the design note (about 90 KB)
BOMB_SAFE_N = 2000           # far below the measured threshold (debug ~24 700, release ~27 500 on an 8 MiB stack)

_JT = {}
_RELEASE = {}
_CRASHINFO = {}


# ------------------------------------------------------------------ valid encodings to start from
def valid_pool(rng, tier, binary, workdir):
    """list of dicts {fam, time, prog, arrows, pbytes, wbytes, dnodes} of programs that the implementation
    encodes and decodes (via the c01 harness command)"""
    n = 90 if tier == "quick" else 1500
    cases, _rej, jidx = c01.make_cases(rng, tier, binary, workdir, n_rand=n, n_poly=0, corpus=False, jet1=False)
    c01._JIDX.update(jidx)
    res = vplib.run_harness(binary, "c01", ["%s %s %s" % (c.cid, c.kind, c.line) for c in cases], workdir=workdir)
    pool = []
    for c in cases:
        d = c01.parse_result(res.get(c.cid))
        if d.get("status") != "ok" or d.get("decode") is not None:
            continue
        if c.meta["family"].startswith("fixed:poly"):
            continue
        pool.append({"fam": c.meta["fam"], "time": c.meta["time"], "prog": c.meta["prog"], "arrows": c.meta["arrows"],
                     "family": c.meta["family"], "pbytes": d["prog"], "wbytes": d["wit"], "dnodes": cc.parse_dnodes(d["dnodes"])})
    return pool, jidx


# ------------------------------------------------------------------ hand-assembled violations (one rule at a time)
def shift_refs(d, k, by=1):
    """node with every child reference >= k shifted"""
    if d[0] in cc.UNARY:
        return (d[0], d[1] + by if d[1] >= k else d[1])
    if d[0] in cc.BINARY:
        return (d[0], d[1] + by if d[1] >= k else d[1], d[2] + by if d[2] >= k else d[2])
    return d


def v_unused_node(rng, dn):
    k = rng.below(len(dn) + 1) if rng.chance(3, 4) else 0
    extra = rng.choice([("unit",), ("iden",), ("wit",), ("word", 0, (1,))])
    if k > 0 and rng.chance(1, 3):
        extra = ("injl", rng.below(k))
    out = [shift_refs(d, k) for d in dn]
    out.insert(k, extra)
    if k == len(dn):
        return None   # a new last node is the root: not an unused node
    return out


def swap_refs(d, a, b):
    def m(x):
        return b if x == a else a if x == b else x
    if d[0] in cc.UNARY:
        return (d[0], m(d[1]))
    if d[0] in cc.BINARY:
        return (d[0], m(d[1]), m(d[2]))
    return d


def v_swapped(rng, dn):
    cands = [i for i in range(len(dn) - 1) if i not in cc.dnode_children(dn[i + 1])]
    if not cands:
        return None
    i = rng.choice(cands)
    out = [swap_refs(d, i, i + 1) for d in dn]
    out[i], out[i + 1] = out[i + 1], out[i]
    return out


def v_bad_backref(rng, dn):
    cands = [i for i, d in enumerate(dn) if d[0] in cc.UNARY or d[0] in cc.BINARY]
    if not cands:
        return None
    i = rng.choice(cands)
    return i, rng.choice([i + 1, i + 2, 2 * i + 5, 2 ** 31 - 1, 2 ** 32 - 1])


def assemble(dn, jt, rel_override=None, length=None):
    bits = cc.enc_nat(len(dn) if length is None else length)
    for i, d in enumerate(dn):
        if rel_override and rel_override[0] == i:
            d2 = dn[i]
            if d2[0] in cc.BINARY:
                rel = (rel_override[1], i - d2[2]) if rel_override[2] == 0 else (i - d2[1], rel_override[1])
            else:
                rel = (rel_override[1],)
            bits += cc.enc_dnode(i, d2, jt, rel=rel)
        else:
            bits += cc.enc_dnode(i, d, jt)
    return bits


def mutate_bytes(rng, bs, other):
    bs = list(bs)
    r = rng.below(8)
    if r < 3 and bs:
        for _ in range(rng.range(1, 3)):
            j = rng.below(len(bs))
            bs[j] ^= 1 << rng.below(8)
    elif r == 3 and bs:
        bs = bs[:rng.below(len(bs))]
    elif r == 4:
        bs = bs + rng.bytes(rng.range(1, 3))
    elif r == 5 and bs and other:
        a = rng.below(len(bs) + 1)
        b = rng.below(len(other) + 1)
        bs = bs[:a] + list(other[b:])
    elif r == 6 and bs:
        j = rng.below(len(bs))
        bs[j] = rng.below(256)
    else:
        j = rng.below(len(bs) + 1)
        bs = bs[:j] + rng.bytes(1) + bs[j:]
    return bs


def gen_cases(rng, tier, pool):
    cases = []
    k = [0]

    def add(family, fam, pb, wb, meta=None):
        k[0] += 1
        m = {"family": family, "fam": fam, "prog": list(pb), "wit": list(wb)}
        if meta:
            m.update(meta)
        cases.append(Case("d%d" % k[0], "dec", "%s %s %s" % (fam, cc.hexs(pb), cc.hexs(wb)), None, m))

    quick = tier == "quick"
    # 0. regression corpus
    d = os.path.join(vplib.VERIF, "corpus", PROP)
    if os.path.isdir(d):
        for fn in sorted(os.listdir(d)):
            if fn.endswith(".case"):
                for line in open(os.path.join(d, fn)):
                    t = line.split()
                    if len(t) >= 3 and not line.startswith("#"):
                        add("corpus:" + fn, t[0], cc.unhex(t[1]), cc.unhex(t[2]))
    # 1. valid encodings
    for v in pool:
        add("valid", v["fam"], v["pbytes"], v["wbytes"], {"time": v["time"]})
    # 1b. a length prefix announcing far more nodes than the input holds (allocation must follow
    # the input, not the announcement): 2^k, 2^k - 1 for every k up to 31, with a tiny body
    for kk in range(4, 32):
        for nn in (2 ** kk, 2 ** kk - 1, 2 ** 31 - 1):
            for body in ([], [0, 1, 0, 0, 1], rng.bits(24)):
                bits = cc.enc_nat(nn) + body
                add("announced-length", rng.choice(["c", "e"]), cc.pack(bits), [])
    # 2. random byte strings
    for _ in range(400 if quick else 20000):
        n = rng.below(rng.choice([4, 8, 40]))
        add("random", rng.choice(["c", "e"]), rng.bytes(n), rng.bytes(rng.below(4)) if rng.chance(1, 3) else [])
    #    all one- and two-byte programs for Core (exhaustive small)
    for b in range(256):
        add("exhaustive1", "c", [b], [])
    if not quick:
        for b in range(65536):
            add("exhaustive2", "c", [b >> 8, b & 255], [])
    else:
        for _ in range(500):
            add("exhaustive2", "c", rng.bytes(2), [])
    # 3. mutations of valid encodings
    for _ in range(900 if quick else 30000):
        v = rng.choice(pool)
        o = rng.choice(pool)
        if rng.chance(2, 3):
            add("mut-prog", v["fam"], mutate_bytes(rng, v["pbytes"], o["pbytes"]), v["wbytes"])
        else:
            add("mut-wit", v["fam"], v["pbytes"], mutate_bytes(rng, v["wbytes"], o["wbytes"]))
    # 4. one canonicity rule violated at a time
    for _ in range(500 if quick else 12000):
        v = rng.choice(pool)
        jt = _JT[v["fam"]]
        dn = v["dnodes"]
        rule = rng.choice(["unused", "unused", "swapped", "swapped", "trailing-prog", "trailing-wit", "padding-prog",
                           "padding-wit", "backref", "length+", "length-"])
        if rule == "unused":
            out = v_unused_node(rng, dn)
            if out:
                add("rule:unused-node", v["fam"], cc.pack(cc.enc_prog(out, jt)), v["wbytes"], {"expect": 19})
        elif rule == "swapped":
            out = v_swapped(rng, dn)
            if out:
                add("rule:swapped-order", v["fam"], cc.pack(cc.enc_prog(out, jt)), v["wbytes"], {"expect": 19})
        elif rule == "trailing-prog":
            add("rule:trailing-byte-prog", v["fam"], v["pbytes"] + [rng.choice([0, 0, rng.below(256)])], v["wbytes"], {"expect": 10})
        elif rule == "trailing-wit":
            add("rule:trailing-byte-wit", v["fam"], v["pbytes"], v["wbytes"] + [rng.choice([0, 0, rng.below(256)])],
                {"expect_c": 10} if v["time"] == "r" else {})
        elif rule == "padding-prog":
            nbits = len(cc.enc_prog(dn, jt))
            if nbits % 8:
                pb = list(v["pbytes"])
                pb[-1] |= 1 << rng.below(8 - nbits % 8)
                add("rule:padding-prog", v["fam"], pb, v["wbytes"], {"expect": 11})
        elif rule == "padding-wit":
            if v["time"] == "r" and v["wbytes"]:
                nb = len(cc.witness_bits(v["prog"], v["arrows"]))
                if nb % 8:
                    wb = list(v["wbytes"])
                    wb[-1] |= 1 << rng.below(8 - nb % 8)
                    add("rule:padding-wit", v["fam"], v["pbytes"], wb, {"expect_c": 11})
        elif rule == "backref":
            br = v_bad_backref(rng, dn)
            if br:
                i, rel = br
                which = rng.below(2) if dn[i][0] in cc.BINARY else 0
                add("rule:backref", v["fam"], cc.pack(assemble(dn, jt, rel_override=(i, rel, which))), v["wbytes"],
                    {"expect": 16 if rel < 2 ** 32 else 18})
        elif rule == "length+":
            add("rule:length-too-large", v["fam"], cc.pack(cc.enc_prog(dn, jt, length=len(dn) + rng.choice([1, 2, 1000, 2 ** 31, 2 ** 32 - 1 - len(dn)]))),
                v["wbytes"])
        elif rule == "length-":
            if len(dn) > 1:
                add("rule:length-too-small", v["fam"], cc.pack(cc.enc_prog(dn, jt, length=len(dn) - 1)), v["wbytes"])
    #    witness padding / trailing bytes for every pool entry that has a witness (bounded)
    npw = 0
    for v in pool:
        if v["time"] == "r" and v["wbytes"] and npw < (30 if quick else 400):
            nb = len(cc.witness_bits(v["prog"], v["arrows"]))
            if nb % 8:
                wb = list(v["wbytes"])
                wb[-1] |= 1 << rng.below(8 - nb % 8)
                add("rule:padding-wit", v["fam"], v["pbytes"], wb, {"expect_c": 11})
                npw += 1
            add("rule:trailing-byte-wit", v["fam"], v["pbytes"], v["wbytes"] + [0], {"expect_c": 10})
    # 5. non-maximal sharing: the python encoder without identity-hash sharing on programs with duplicates
    nm = 0
    for v in pool:
        if v["family"] not in ("dup", "fixed:same-hidden-twice", "fixed:comp-iden-iden-dup", "fixed:two-witnesses") and nm > (40 if quick else 600):
            continue
        dn, _o = cc.linearise(v["prog"], v["arrows"], v["time"], c01._JIDX, ptr=True)
        if len(dn) == len(v["dnodes"]):
            continue   # nothing to unshare
        nm += 1
        wb = cc.pack(cc.witness_bits(v["prog"], v["arrows"], ptr=True)) if v["time"] == "r" else []
        add("rule:unshared-duplicate", v["fam"], cc.pack(cc.enc_prog(dn, _JT[v["fam"]])), wb, {"time": v["time"], "expect_bc": 20})
    # 6. hidden-node rules and other hand-written node lists
    H = tuple(range(32))
    H2 = tuple(range(1, 33))
    hand = [
        ("rule:repeated-hidden", [("unit",), ("hid", H), ("case", 0, 1), ("unit",), ("hid", H), ("case", 3, 4), ("pair", 2, 5)], 20),
        ("rule:both-hidden", [("hid", H), ("hid", H2), ("case", 0, 1)], 12),
        ("rule:both-hidden-same", [("hid", H), ("case", 0, 0)], 12),
        ("rule:hidden-root", [("hid", H)], 14),
        ("rule:hidden-under-comp", [("unit",), ("hid", H), ("comp", 0, 1)], 14),
        ("rule:hidden-under-injl", [("hid", H), ("injl", 0)], 14),
        ("rule:hidden-under-disconnect", [("iden",), ("hid", H), ("disc", 0, 1)], 14),
        ("rule:assertl-ok", [("unit",), ("hid", H), ("case", 0, 1)], None),
        ("rule:word-33", None, 16),
        ("rule:word-2^31", None, 13),
        ("rule:empty", None, 17),
    ]
    jt = _JT["c"]
    for name, dn, exp in hand:
        if dn is not None:
            add(name, "c", cc.pack(cc.enc_prog(dn, jt)), [], {"expect": exp} if exp else {})
    add("rule:word-33", "c", cc.pack(cc.enc_nat(1) + [1, 0] + cc.enc_nat(33)), [], {"expect": 16})
    add("rule:word-2^31", "c", cc.pack(cc.enc_nat(1) + [1, 0] + cc.enc_nat(32) + [1] * 64), [], {"expect": 13})
    add("rule:word-2^20-short", "c", cc.pack(cc.enc_nat(1) + [1, 0] + cc.enc_nat(21) + [1] * 999), [], {"expect": 13})
    add("rule:empty", "c", [], [], {"expect": 17})
    for n in (2 ** 32, 2 ** 32 + 5, 2 ** 33, 2 ** 40, 2 ** 31, 2 ** 32 - 1):
        add("rule:natural-overflow", "c", cc.pack(cc.enc_nat(n) + cc.enc_dnode(0, ("unit",), jt)), [], {"expect": 18 if n >= 2 ** 32 else 13})
    add("rule:natural-depth", "c", cc.pack([1] * 70 + [0] + [1] * 200), [], {"expect": 18})
    # a word node of every legal size up to 2^10 (round trip of the word field) inside comp word unit
    for n in range(0, 11):
        dn = [("word", n, tuple(rng.bits(2 ** n))), ("unit",), ("comp", 0, 1)]
        add("word", "c", cc.pack(cc.enc_prog(dn, jt)), [])
    # every jet of both families as `comp (... jet ...)` is C14's subject; here: every jet code as a lone node (type error or ok)
    for fam in ("c", "e"):
        t = _JT[fam]
        for j in range(0, len(t.codes), 1 if not quick else 7):
            add("jet-node", fam, cc.pack(cc.enc_prog([("jet", j)], t)), [])
    # a witness node whose inferred type is astronomically wide (2^70 bytes): reading it must fail cleanly
    hw = [("word", 3, (0,) * 8)]
    for _ in range(70):
        hw.append(("pair", len(hw) - 1, len(hw) - 1))
    hw += [("iden",), ("comp", 70, 71), ("wit",), ("comp", 73, 71), ("pair", 72, 74), ("unit",), ("comp", 75, 76)]
    for wb in ([], [0] * 40, rng.bytes(1500)):
        add("huge-witness-type", "c", cc.pack(cc.enc_prog(hw, jt)), wb)
    # the same with a padded type (sums): 1 + 2^8 nested in pairs
    hp = [("word", 3, (0,) * 8), ("injr", 0)]
    for _ in range(60):
        hp.append(("pair", len(hp) - 1, len(hp) - 1))
    hp += [("iden",), ("comp", 61, 62), ("wit",), ("comp", 64, 62), ("pair", 63, 65), ("unit",), ("comp", 66, 67)]
    for wb in ([], [0] * 40, rng.bytes(1500)):
        add("huge-witness-type", "c", cc.pack(cc.enc_prog(hp, jt)), wb)
    # 7. F-C07 regression witness and deep chains
    add("c07-regression", "c", cc.pack(cc.enc_prog(cc.c07_dnodes(70), jt)), [])
    add("c07-regression", "c", cc.pack(cc.enc_prog(cc.c07_dnodes(64), jt)), [])
    for n in ([3000] if quick else [3000, 20000]):
        chain = [("unit",)]
        for _ in range(n):
            chain.append((rng.choice(["injl", "injr"]), len(chain) - 1))
        chain += [("unit",), ("comp", len(chain) - 1, len(chain))]
        add("deep-chain", "c", cc.pack(cc.enc_prog(chain, jt)), [])
        pairs = [("unit",)]
        for _ in range(n):
            pairs.append(("pair", len(pairs) - 1, len(pairs) - 1))
        pairs += [("unit",), ("comp", len(pairs) - 1, len(pairs))]
        add("deep-pairs", "c", cc.pack(cc.enc_prog(pairs, jt)), [])
    return cases


def bomb_cases(tier):
    jt = _JT["c"]
    out = []
    ns = [BOMB_SAFE_N, BOMB_FINDING_N] if tier == "quick" else [BOMB_SAFE_N, 10000, 40000, BOMB_FINDING_N]
    for n in ns:
        nbits = len(cc.enc_nat(2 * n + 6)) + 12 * n + 33 + len(cc.enc_nat(n + 4)) + 1
        out.append(Case("du%d" % n, "deepunify", "%d" % n, None,
                        {"family": "deep-unify", "fam": "c", "n": n, "prog_len": (nbits + 7) // 8, "wit": []}))
    return out


def check_family_assembler(binary, workdir):
    """the harness assembles the deep-unify family with the library's bit writer; it must be the byte string
    the python assembler produces from the node list"""
    jt = _JT["c"]
    lines = ["h%d deepunifyhex %d" % (n, n) for n in (0, 1, 2, 7, 50)]
    res = vplib.run_harness(binary, "c02", lines, workdir=workdir)
    for n in (0, 1, 2, 7, 50):
        want = cc.pack(cc.enc_prog(cc.bomb_dnodes(n), jt))
        got = res.get("h%d" % n)
        if not isinstance(got, list) or got[1:] != want:
            return "deep-unify family: harness assembles %s, python %s (N = %d)" % (str(got)[:60], cc.hexs(want)[:60], n)
    return None


# ------------------------------------------------------------------ results
def take_triple_or(r, pos, ok_parser):
    if r[pos] == 0:
        return ok_parser(pos + 1)
    return ("err", r[pos:pos + 3]), pos + 3


def _initial_alloc_cap():
    """value.rs caps the up-front allocation for a decoded value at MAX_INITIAL_ALLOC bytes (a constant,
    hence a bound that does not depend on the input); the allowance is that constant plus a margin"""
    import re
    try:
        txt = open(os.path.join(vplib.REPO, "src", "value.rs")).read()
        m = re.search(r"const MAX_INITIAL_ALLOC: usize = ([0-9_* ]+);", txt)
        v = 1
        for f in m.group(1).split("*"):
            v *= int(f.strip().replace("_", ""))
        return v
    except Exception:
        return 32 << 20


ALLOC_BASE = _initial_alloc_cap() + (16 << 20)   # the library's own constant cap + 16 MiB
ALLOC_PER_BYTE = 1 << 16                          # 64 KiB per input byte
PEAKS = []


def parse_result(r):
    if r in ("CRASH", "TIMEOUT") or r is None:
        return {"status": r or "CRASH"}
    if not isinstance(r, list) or len(r) < 4:
        return {"status": "garbled"}
    d = {"status": "ok", "slow": r[0]}
    pos = 1

    def ok_a(p):
        ln = r[p]
        return ("ok", r[p + 1:p + 1 + ln]), p + 1 + ln

    def ok_b(p):
        ln = r[p]
        return ("ok", r[p + 1:p + 1 + ln]), p + 1 + ln

    def ok_c(p):
        ln = r[p]
        pb = r[p + 1:p + 1 + ln]
        p2 = p + 1 + ln
        lw = r[p2]
        return ("ok", pb, r[p2 + 1:p2 + 1 + lw]), p2 + 1 + lw

    try:
        d["A"], pos = take_triple_or(r, pos, ok_a)
        d["B"], pos = take_triple_or(r, pos, ok_b)
        d["C"], pos = take_triple_or(r, pos, ok_c)
    except (IndexError, TypeError):
        if os.environ.get("VERIF_DEBUG"):
            sys.stderr.write("garbled c02 result: %s\n" % str(r)[:300])
        return {"status": "garbled"}
    d["peak"] = r[pos] if pos < len(r) else None
    return d


def crash_info(binary, c):
    """re-run a crashed case alone to see how the process died"""
    key = (binary, c.cid)
    if key not in _CRASHINFO:
        p = os.path.join(vplib.WORK, PROP, "crash_%s.txt" % c.cid)
        open(p, "w").write("%s %s %s\n" % (c.cid, c.kind, c.line))
        try:
            r = subprocess.run([binary, "c02", p], capture_output=True, text=True, timeout=120)
            err = r.stderr
            if "overflowed its stack" in err:
                info = "stack-overflow"
            elif "memory allocation of" in err:
                info = "allocation-failure"
            else:
                info = "abort(rc=%s)" % r.returncode
        except subprocess.TimeoutExpired:
            info = "timeout"
        _CRASHINFO[key] = info
    return _CRASHINFO[key]


_BIN = {}


def verdict_name(v):
    return "Ok" if v[0] == "ok" else cc.ERR.get(v[1][0], str(v[1]))


def prop_check(c, r):
    m = c.meta
    d = parse_result(r)
    if d["status"] in ("CRASH", "TIMEOUT"):
        info = crash_info(_BIN["debug"], c) if d["status"] == "CRASH" else "timeout"
        if m["family"] == "deep-unify" and info == "stack-overflow":
            return ("stack-overflow-unify", "decoding the %d-byte program case (take injl^N iden) (take injl^N (take iden)), N = %d, overflows the native stack (recursive bind/unify)"
                    % (m["prog_len"], m["n"]))
        return ("crash:" + info, "decoder did not return on a %d-byte input (%s)" % (len(m.get("prog", [])), info))
    if d["status"] != "ok":
        return ("garbled", "unreadable harness result")
    for st in "ABC":
        if d[st][0] == "err" and d[st][1][0] == 9:
            return ("panic", "decoder stage %s panicked" % st)
    if d["slow"]:
        return ("hang", "a decoder call took more than 10 s (stage mask %d)" % d["slow"])
    if m["family"] == "deep-unify":
        return None
    pb, wb = m["prog"], m["wit"]
    # allocation relative to the input: generous linear allowance (the decoder builds typed nodes,
    # roots and a re-encoding; measured maximum on the unchanged tree is far below this line)
    if d.get("peak") is not None:
        allowance = ALLOC_BASE + ALLOC_PER_BYTE * (len(pb) + len(wb))
        PEAKS.append((d["peak"], len(pb) + len(wb)))
        if d["peak"] > allowance:
            return ("alloc-unbounded", "decoding a %d-byte input allocated %d bytes (allowance %d)" % (len(pb) + len(wb), d["peak"], allowance))
    jt = _JT[m["fam"]]
    ref = cc.stage_a_ref(pb, jt)
    has_disc = ref[0] != "synt" and any(x[0] == "disc" for x in ref[-1])
    # the property: success implies the re-encoding is the input
    if d["C"][0] == "ok":
        if d["C"][1] != pb or d["C"][2] != wb:
            return ("redeem-accepts-noncanonical", "RedeemNode::decode accepted (%s, %s) but re-encodes it as (%s, %s)"
                    % (cc.hexs(pb), cc.hexs(wb), cc.hexs(d["C"][1]), cc.hexs(d["C"][2])))
    if d["B"][0] == "ok" and not has_disc:
        if d["B"][1] != pb:
            return ("commit-accepts-noncanonical", "CommitNode::decode accepted %s but re-encodes it as %s" % (cc.hexs(pb), cc.hexs(d["B"][1])))
    # the reference decoder (syntax, canonical order, hidden rules, close; typing unknown)
    a = d["A"]
    ty = a[0] == "err" and a[1][0] == 21
    if ref[0] == "synt":
        okref = a == ("err", ref[1])
    elif ref[0] in ("struct", "close"):
        okref = ty or a == ("err", ref[1])
    else:
        okref = ty or a == ("ok", cc.dnodes_nums(ref[1]))
    if not okref:
        return ("decoder-differs-from-reference", "expression decoder says %s, the reference says %s %s"
                % (verdict_name(a), ref[0], ref[1] if ref[0] != "ok" else ""))
    if ref[0] != "ok":
        for st in "BC":
            if d[st][0] == "ok":
                return ("accepts-noncanonical", "stage %s accepts an input the reference rejects (%s)" % (st, ref[1]))
    # later stages may only add these errors
    if a[0] == "ok":
        if d["B"][0] == "err" and d["B"][1][0] not in (20, 21):
            return ("stage-verdict", "CommitNode::decode fails with %s after the expression decoded" % verdict_name(d["B"]))
        if d["C"][0] == "err" and d["C"][1][0] not in (20, 21, 23, 13, 10, 11):
            return ("stage-verdict", "RedeemNode::decode fails with %s after the expression decoded" % verdict_name(d["C"]))
    else:
        for st in "BC":
            if d[st][0] == "ok" or (d[st][1] != a[1] and d[st][1][0] != 21 and a[1][0] != 21):
                return ("stage-verdict", "stage %s says %s but the expression decoder says %s" % (st, verdict_name(d[st]), verdict_name(a)))
    # what the hand-assembled violation was built to trigger
    exp = m.get("expect")
    if exp is not None and not ty and not (a[0] == "err" and a[1][0] == exp):
        return ("rule-not-enforced", "%s: expected %s, expression decoder says %s" % (m["family"], cc.ERR[exp], verdict_name(a)))
    exp = m.get("expect_c")
    if exp is not None and not (d["C"][0] == "err" and d["C"][1][0] in (exp, 21)):
        return ("rule-not-enforced", "%s: expected %s from RedeemNode::decode, got %s" % (m["family"], cc.ERR[exp], verdict_name(d["C"])))
    if m["family"] == "valid":
        st = "C" if m["time"] == "r" else "B"
        if d[st][0] != "ok":
            return ("valid-rejected", "an encoding produced by the library is rejected: %s" % verdict_name(d[st]))
    # both build profiles agree
    rel = _RELEASE.get(c.cid)
    if rel is not None and (not isinstance(rel, list) or rel[1:] != r[1:]):
        return ("profile-differs", "debug and release builds disagree: %s vs %s" % (str(r)[:80], str(rel)[:80]))
    return None


def finding_match(c, r, cls):
    if cls == "stack-overflow-unify" and c.meta.get("family") == "deep-unify" and c.meta.get("n", 0) >= 20000:
        for f in vplib.open_findings(PROP):
            if f.get("match", {}).get("kind") == "stack-overflow-unify":
                return f["id"]
    return None


def nontrivial(c, r):
    d = parse_result(r)
    if d["status"] != "ok":
        return None
    if len(c.meta.get("prog", [])) < 2:
        return None
    return (tuple(c.meta["prog"]), tuple(c.meta["wit"]), c.meta["fam"])


def rule_table(cases, impl):
    t = {}
    for c in cases:
        d = parse_result(impl.get(c.cid))
        if d["status"] != "ok":
            key = d["status"]
        else:
            key = "/".join(verdict_name(d[s]) for s in "ABC")
        fam = c.meta["family"].split(":" if c.meta["family"].startswith("corpus") else "\0")[0]
        row = t.setdefault(fam, {})
        row[key] = row.get(key, 0) + 1
    return t


def project(r):
    """the part the Coq model computes: the expression stage (typing excluded, see codec_common.c02_model_view)"""
    return cc.c02_project(parse_result(r))


def run(rep, tier, rng):
    if os.path.exists(os.path.join(vplib.COQ, "Props", "C02.v")):
        vplib.proof_stage(rep, "Props/C02.v", extra_targets=["Codec/Run.vo"], translators=("xlate_consts.py", "xlate_jets.py"))
    rep.coverage["trusted_base"] = vplib.GENERIC_TRUSTED + [
        "models coq/Codec/*.v written by hand from bit_encoding/decode.rs, bititer.rs, node/{construct,commit,redeem}.rs, value.rs, dag.rs",
        "python reference tools/props/codec_common.py (disassembler, canonical-order and hidden-node pass, close); jet codes read from the implementation",
        "type inference, identity hashes and the witness types are not modelled here: inputs rejected for those reasons are compared up to the syntactic/structural layer only",
        "native stack depth and allocation are observed on the implementation only (subprocess, 2 GiB address-space limit, 10 s per call)",
    ]
    bins = {}
    for prof in ("debug", "release"):
        b, out = vplib.harness_build(prof, crate=CRATE)
        if b is None:
            raise vplib.Infra("harness build (%s) failed:\n" % prof + out[-3000:])
        bins[prof] = b
    _BIN.update(bins)
    for fam in ("c", "e"):
        _JT[fam] = cc.jet_table(bins["debug"], fam, rep.workdir())
    c01._JT.update(_JT)
    pool, _jidx = valid_pool(rng.fork("pool"), tier, bins["debug"], rep.workdir())
    cases = gen_cases(rng, tier, pool)
    cc.c02_exprs(cases, _JT, limit={"random": 100, "exhaustive1": 256, "exhaustive2": 80, "mut-prog": 160, "mut-wit": 10, "valid": 50,
                                     "jet-node": 30, "rule": 230, "*": 10 ** 9} if tier == "quick" else
                 {"random": 1500, "exhaustive1": 256, "exhaustive2": 1500, "mut-prog": 2500, "mut-wit": 100, "valid": 600,
                  "jet-node": 900, "rule": 2500, "*": 10 ** 9})
    # release profile first (kept aside), then debug + model
    rel = vplib.run_harness(bins["release"], "c02", ["%s %s %s" % (c.cid, c.kind, c.line) for c in cases], workdir=os.path.join(rep.workdir(), "rel"))
    _RELEASE.update(rel)
    impl, model = cc.eval_cases(rep, bins["debug"], "c02", cases, IMPORTS, _JT, tag="c02", batch=100)
    full = dict(impl)
    impl_proj = {cid: project(r) for cid, r in impl.items()}
    model_proj = {cid: cc.c02_mask_model(v, impl_proj.get(cid)) for cid, v in model.items()}
    pfail, mism = vplib.decide(rep, cases, impl_proj, model_proj, lambda c, _r: prop_check(c, full.get(c.cid)),
                               lambda c, _r, cls: finding_match(c, full.get(c.cid), cls),
                               lambda c, _r: nontrivial(c, full.get(c.cid)),
                               what="correspondence Codec/Run.v (dec_prog, canonical order, hidden rules, close) vs decode_expression")
    # the F-C02 family, each case in its own process, both profiles
    bad = check_family_assembler(bins["debug"], rep.workdir())
    if bad:
        rep.violation(bad, {}, False)
    bc = bomb_cases(tier)
    for prof in ("debug", "release"):
        bres = vplib.run_harness(bins[prof], "c02", ["%s %s %s" % (c.cid, c.kind, c.line) for c in bc], shards=len(bc),
                                 workdir=os.path.join(rep.workdir(), "bomb_" + prof))
        _BIN["debug"] = bins[prof]   # crash_info re-runs with the profile that crashed
        pf2, _ = vplib.decide(rep, bc, bres, {}, prop_check, finding_match, None, what="decoder totality on the deep-unification family (%s)" % prof)
        pfail = pfail + pf2
        rep.coverage.setdefault("bomb", {})[prof] = {c.meta["n"]: (bres.get(c.cid) if not isinstance(bres.get(c.cid), list) else "returned")
                                                     for c in bc}
    _BIN["debug"] = bins["debug"]
    rep.coverage["rule"] = ("byte strings offered as program and witness: encodings produced by the library (must round-trip), random strings, "
                            "all 1-byte and (thorough) 2-byte programs, byte-level mutations of valid encodings (flip, truncate, extend, splice, insert), "
                            "node lists re-assembled with one canonicity rule violated (unused node, swapped order, unshared duplicate, repeated hidden, "
                            "trailing byte, padding bit, back-reference out of range, wrong length, word/natural bounds, hidden-node placement), deep chains, "
                            "the F-C07 regression witness; every case through ConstructNode::decode, CommitNode::decode and RedeemNode::decode, debug and "
                            "release builds.  Distinct = distinct (program bytes, witness bytes, family); non-trivial = program of at least 2 bytes")
    rep.coverage["verdicts_by_family (expression/commit/redeem)"] = rule_table(cases, impl)
    if PEAKS:
        worst = max(PEAKS, key=lambda x: x[0] - ALLOC_PER_BYTE * x[1])
        rep.coverage["allocation"] = {"allowance": "%d + %d * input bytes" % (ALLOC_BASE, ALLOC_PER_BYTE), "cases_measured": len(PEAKS),
                                      "max_peak_bytes": max(p for p, _ in PEAKS), "closest_to_allowance": {"peak": worst[0], "input_bytes": worst[1]}}
    rep.coverage["samples"] = [{"family": c.meta["family"], "args": c.line[:120], "impl": (impl.get(c.cid) or [])[:24] if isinstance(impl.get(c.cid), list) else impl.get(c.cid)}
                               for c in cases[::max(1, len(cases) // 6)][:7]]
    vplib.finish_proof_verdict(rep, pfail)


def replay(obj):
    print(json.dumps(obj, indent=1)[:3000])
    c = obj.get("case")
    if not c:
        return 0
    for prof in ("debug", "release"):
        binary, _ = vplib.harness_build(prof, crate=CRATE)
        rep = vplib.Report(PROP, "quick", 0)
        res = vplib.run_harness(binary, "c02", ["%s %s %s" % (c["id"], c["kind"], c["harness_args"])], workdir=rep.workdir())
        r = res.get(c["id"])
        print(prof, "implementation:", str(r)[:400])
        d = parse_result(r)
        if d["status"] == "ok":
            print(prof, "verdicts      :", {s: verdict_name(d[s]) for s in "ABC"}, "slow", d["slow"])
    return 0
