(* C18 - recursive specification of post-order iteration with a sharing tracker, and the
   refinement theorem: the explicit-stack iterator of DagModel.v (PostOrderIter::next)
   computes exactly the recursive traversal, with explicit sufficient fuel, no Panic. *)
From RS Require Import Lib.Tac Lib.Outcome Dag.DagModel.
Import ListNotations.
Local Open Scope N_scope.

(* ------------------------------------------------------------------ small outcome lemmas *)
Lemma omap_app_nil {E A} (x : outcome E (list A)) : omap (app []) x = x.
Proof. destruct x; reflexivity. Qed.

Lemma omap_cons_app {E A} (a : A) (x : outcome E (list A)) : omap (cons a) x = omap (app [a]) x.
Proof. destruct x; reflexivity. Qed.

Lemma omap_app_app {E A} (l1 l2 : list A) (x : outcome E (list A)) :
  omap (app l1) (omap (app l2) x) = omap (app (l1 ++ l2)) x.
Proof. destruct x; cbn; try reflexivity. rewrite app_assoc. reflexivity. Qed.

Section Spec.
Variable children : nat -> dagnode.
Variable key : nat -> option N.

(* result of visiting a node: the index its class carries (new or recorded earlier), the next
   free index, the tracker, and the items yielded during the visit *)
Record vres : Type := mk_vres {
  r_ci : N;
  r_index : N;
  r_trk : tmap;
  r_out : list po_item }.

(* result of dealing with one child slot *)
Record cres : Type := mk_cres {
  c_i : option N;
  c_index : N;
  c_trk : tmap;
  c_out : list po_item }.

Definition vchild (vis : nat -> N -> tmap -> vres) (c : child) (index : N) (m : tmap) : cres :=
  match c with
  | CNone => mk_cres None index m []
  | CRepeat i => mk_cres (Some i) index m []
  | CNew n => let r := vis n index m in mk_cres (Some (r_ci r)) (r_index r) (r_trk r) (r_out r)
  end.

(* the node itself, after its children: record it; yield it unless its class was recorded *)
Definition finish (n : nat) (li ri : option N) (index : N) (m : tmap) : vres :=
  match record key m n index with
  | (Some i, m') => mk_vres i index m' []
  | (None, m') => mk_vres index (index + 1) m' [mk_item n index li ri]
  end.

(* A node whose class is already recorded is not expanded: the visit just reports the recorded
   index.  Otherwise both children are looked up in the tracker first (as the code does), then
   the new ones are visited left then right (the right one is looked up again when its turn
   comes: it may have been recorded meanwhile), then the node is recorded.  `h` bounds the node position (children sit at smaller positions). *)
Fixpoint visit (h : nat) (n : nat) (index : N) (m : tmap) : vres :=
  match h with
  | O => mk_vres 0 index m []
  | S h' =>
      match seen_before key m n with
      | Some i => mk_vres i index m []
      | None =>
      let dn := children n in
      let lc := classify key m (left_child_of dn) in
      let rc := classify key m (right_child_of dn) in
      let l := vchild (visit h') lc index m in
      let r := vchild (visit h') rc (c_index l) (c_trk l) in
      let fr := finish n (c_i l) (c_i r) (c_index r) (c_trk r) in
      mk_vres (r_ci fr) (r_index fr) (r_trk fr) (c_out l ++ c_out r ++ r_out fr)
      end
  end.

(* size of the tree expansion (no sharing at all) below a node *)
Fixpoint tsize (h : nat) (n : nat) : nat :=
  match h with
  | O => O
  | S h' =>
      S (match children n with
         | Nul => 0
         | Un c => tsize h' c
         | Bin l r => tsize h' l + tsize h' r
         end)
  end.

(* the whole iteration from a root *)
Definition po_spec (root : nat) : list po_item := r_out (visit (S root) root 0 []).
Definition po_fuel (root : nat) : nat := 2 * tsize (S root) root + 1.

(* ------------------------------------------------------------------ one step *)
Lemma po_run_S f st :
  po_run children key (S f) st =
  match po_step children key st with
  | PDone => Ok []
  | PYield it st' => omap (cons it) (po_run children key f st')
  | PCont st' => po_run children key f st'
  | PPanic c => Panic c
  end.
Proof. reflexivity. Qed.

Lemma po_step_unprocessed n p stk index m :
  seen_before key m n = None ->
  po_step children key (mk_po index (unprocessed n p :: stk) m) =
  let current := mk_sitem n true None None p in
  match classify key m (left_child_of (children n)), classify key m (right_child_of (children n)) with
  | CNone, _ => PCont (mk_po index (current :: stk) m)
  | CRepeat idx, CNone => PCont (mk_po index (set_left current idx :: stk) m)
  | CNew c, CNone => PCont (mk_po index (unprocessed c ParentLeft :: current :: stk) m)
  | CRepeat lidx, CRepeat ridx => PCont (mk_po index (set_right (set_left current lidx) ridx :: stk) m)
  | CNew c, CRepeat idx => PCont (mk_po index (unprocessed c ParentLeft :: set_right current idx :: stk) m)
  | CRepeat idx, CNew c => PCont (mk_po index (unprocessed c ParentRight :: set_left current idx :: stk) m)
  | CNew lc, CNew rc =>
      PCont (mk_po index (unprocessed lc SiblingLeft :: unprocessed rc ParentRight :: current :: stk) m)
  end.
Proof.
  intros H. unfold po_step. cbn [po_stack po_index po_trk unprocessed s_processed s_elem negb].
  rewrite H. reflexivity.
Qed.

Lemma po_step_seen n p stk index m i :
  seen_before key m n = Some i ->
  po_step children key (mk_po index (unprocessed n p :: stk) m) =
  match patch_seen p i stk with
  | Ok stk' => PCont (mk_po index stk' m)
  | Panic c => PPanic c
  | _ => PPanic 7
  end.
Proof.
  intros H. unfold po_step. cbn [po_stack po_index po_trk unprocessed s_processed s_elem s_prev negb].
  rewrite H. reflexivity.
Qed.

(* where the assertions of the yield branch hold, the early exit patches the same slot *)
Lemma patch_seen_of_patch p ci stk stk' : patch p ci stk = Ok stk' -> patch_seen p ci stk = Ok stk'.
Proof.
  destruct p; cbn; intros H.
  - destruct stk; [exact H|discriminate].
  - destruct stk as [|q r]; [discriminate|]. destruct (s_processed q); [exact H|discriminate].
  - destruct stk as [|s [|q r]]; try discriminate. destruct (s_processed q); [exact H|discriminate].
  - destruct stk as [|q r]; [discriminate|]. destruct (s_processed q); [exact H|discriminate].
Qed.

Lemma patch_PL ci q r : s_processed q = true -> patch ParentLeft ci (q :: r) = Ok (set_left q ci :: r).
Proof. intros H. cbn. rewrite H. reflexivity. Qed.
Lemma patch_PR ci q r : s_processed q = true -> patch ParentRight ci (q :: r) = Ok (set_right q ci :: r).
Proof. intros H. cbn. rewrite H. reflexivity. Qed.
Lemma patch_SL ci s q r : s_processed q = true -> patch SiblingLeft ci (s :: q :: r) = Ok (s :: set_left q ci :: r).
Proof. intros H. cbn. rewrite H. reflexivity. Qed.

(* the second encounter of a stack item: record, back-patch, yield or skip *)
Lemma po_run_processed f n li ri p index m stk stk' :
  patch p (r_ci (finish n li ri index m)) stk = Ok stk' ->
  po_run children key (S f) (mk_po index (mk_sitem n true li ri p :: stk) m) =
  omap (app (r_out (finish n li ri index m)))
       (po_run children key f (mk_po (r_index (finish n li ri index m)) stk' (r_trk (finish n li ri index m)))).
Proof.
  intros H. rewrite po_run_S. unfold po_step, finish in *.
  cbn [po_stack po_index po_trk s_processed s_elem s_prev s_left s_right negb].
  destruct (record key m n index) as [[i|] m']; cbn [opt_is_some unwrap_or r_ci r_out r_index r_trk] in *;
    rewrite H.
  - rewrite omap_app_nil. reflexivity.
  - rewrite omap_cons_app. reflexivity.
Qed.

Lemma finish_ci_eq n li ri li' ri' index m :
  r_ci (finish n li ri index m) = r_ci (finish n li' ri' index m).
Proof. unfold finish. destruct (record key m n index) as [[i|] m']; reflexivity. Qed.

(* ------------------------------------------------------------------ refinement *)
Hypothesis Hwf : wfc children.

Lemma po_visit : forall h n, (n < h)%nat -> forall index m,
  exists k, (k <= 2 * tsize h n)%nat /\
    forall f p stk stk',
      patch p (r_ci (visit h n index m)) stk = Ok stk' ->
      po_run children key (k + f) (mk_po index (unprocessed n p :: stk) m) =
      omap (app (r_out (visit h n index m)))
           (po_run children key f (mk_po (r_index (visit h n index m)) stk' (r_trk (visit h n index m)))).
Proof.
  induction h as [|h IH]; intros n Hn index m; [lia|].
  pose proof (Hwf n) as Hok.
  cbn [visit tsize].
  destruct (seen_before key m n) as [si|] eqn:Hs.
  { (* already recorded: one iteration, nothing yielded *)
    exists 1%nat. split; [lia|]. intros f p stk stk' Hp.
    cbn [r_ci r_index r_trk r_out] in *.
    change (1 + f)%nat with (S f).
    rewrite po_run_S, (po_step_seen _ _ _ _ _ _ Hs), (patch_seen_of_patch _ _ _ _ Hp).
    rewrite omap_app_nil. reflexivity. }
  destruct (children n) as [|c|a b] eqn:Hdn; cbn [node_ok] in Hok;
    cbn [left_child_of right_child_of classify].
  - (* no children *)
    exists 2%nat. split; [lia|]. intros f p stk stk' Hp.
    cbn [vchild c_i c_index c_trk c_out r_ci r_index r_trk r_out app] in *.
    change (2 + f)%nat with (S (S f)).
    rewrite po_run_S, (po_step_unprocessed _ _ _ _ _ Hs), Hdn. cbn [left_child_of classify].
    cbv zeta. apply po_run_processed. exact Hp.
  - (* one child *)
    destruct (seen_before key m c) as [ci|] eqn:Hc.
    + exists 2%nat. split; [lia|]. intros f p stk stk' Hp.
      cbn [vchild c_i c_index c_trk c_out r_ci r_index r_trk r_out app] in *.
      change (2 + f)%nat with (S (S f)).
      rewrite po_run_S, (po_step_unprocessed _ _ _ _ _ Hs), Hdn. cbn [left_child_of right_child_of classify].
      rewrite Hc. cbv zeta. unfold set_left. cbn [s_elem s_processed s_right s_prev].
      apply po_run_processed. exact Hp.
    + destruct (IH c ltac:(lia) index m) as (kc & Hkc & Hrun).
      exists (S (kc + 1))%nat. split; [lia|]. intros f p stk stk' Hp.
      cbn [vchild c_i c_index c_trk c_out r_ci r_index r_trk r_out app] in *.
      change (S (kc + 1) + f)%nat with (S (kc + 1 + f)).
      rewrite po_run_S, (po_step_unprocessed _ _ _ _ _ Hs), Hdn. cbn [left_child_of right_child_of classify].
      rewrite Hc. cbv zeta.
      replace (kc + 1 + f)%nat with (kc + S f)%nat by lia.
      erewrite (Hrun (S f) ParentLeft) by (apply patch_PL; reflexivity).
      unfold set_left. cbn [s_elem s_processed s_right s_prev s_left].
      rewrite (po_run_processed f _ _ _ _ _ _ _ _ Hp).
      rewrite omap_app_app. reflexivity.
  - (* two children *)
    destruct Hok as [Ha Hb].
    destruct (seen_before key m a) as [ai|] eqn:Hca; destruct (seen_before key m b) as [bi|] eqn:Hcb.
    + exists 2%nat. split; [lia|]. intros f p stk stk' Hp.
      cbn [vchild c_i c_index c_trk c_out r_ci r_index r_trk r_out app] in *.
      change (2 + f)%nat with (S (S f)).
      rewrite po_run_S, (po_step_unprocessed _ _ _ _ _ Hs), Hdn. cbn [left_child_of right_child_of classify].
      rewrite Hca, Hcb. cbv zeta. unfold set_left, set_right. cbn [s_elem s_processed s_right s_prev s_left].
      apply po_run_processed. exact Hp.
    + destruct (IH b ltac:(lia) index m) as (kb & Hkb & Hrun).
      exists (S (kb + 1))%nat. split; [lia|]. intros f p stk stk' Hp.
      cbn [vchild c_i c_index c_trk c_out r_ci r_index r_trk r_out app] in *.
      change (S (kb + 1) + f)%nat with (S (kb + 1 + f)).
      rewrite po_run_S, (po_step_unprocessed _ _ _ _ _ Hs), Hdn. cbn [left_child_of right_child_of classify].
      rewrite Hca, Hcb. cbv zeta.
      replace (kb + 1 + f)%nat with (kb + S f)%nat by lia.
      erewrite (Hrun (S f) ParentRight) by (apply patch_PR; reflexivity).
      unfold set_left, set_right. cbn [s_elem s_processed s_right s_prev s_left].
      rewrite (po_run_processed f _ _ _ _ _ _ _ _ Hp).
      rewrite omap_app_app. reflexivity.
    + destruct (IH a ltac:(lia) index m) as (ka & Hka & Hrun).
      exists (S (ka + 1))%nat. split; [lia|]. intros f p stk stk' Hp.
      cbn [vchild c_i c_index c_trk c_out r_ci r_index r_trk r_out app] in *.
      change (S (ka + 1) + f)%nat with (S (ka + 1 + f)).
      rewrite po_run_S, (po_step_unprocessed _ _ _ _ _ Hs), Hdn. cbn [left_child_of right_child_of classify].
      rewrite Hca, Hcb. cbv zeta.
      replace (ka + 1 + f)%nat with (ka + S f)%nat by lia.
      erewrite (Hrun (S f) ParentLeft) by (apply patch_PL; reflexivity).
      unfold set_left, set_right. cbn [s_elem s_processed s_right s_prev s_left].
      rewrite (po_run_processed f _ _ _ _ _ _ _ _ Hp).
      rewrite omap_app_app. reflexivity.
    + destruct (IH a ltac:(lia) index m) as (ka & Hka & Hruna).
      destruct (IH b ltac:(lia) (r_index (visit h a index m)) (r_trk (visit h a index m))) as (kb & Hkb & Hrunb).
      exists (S (ka + (kb + 1)))%nat. split; [lia|]. intros f p stk stk' Hp.
      cbn [vchild c_i c_index c_trk c_out r_ci r_index r_trk r_out app] in *.
      change (S (ka + (kb + 1)) + f)%nat with (S (ka + (kb + 1) + f)).
      rewrite po_run_S, (po_step_unprocessed _ _ _ _ _ Hs), Hdn. cbn [left_child_of right_child_of classify].
      rewrite Hca, Hcb. cbv zeta.
      replace (ka + (kb + 1) + f)%nat with (ka + (kb + S f))%nat by lia.
      erewrite (Hruna (kb + S f)%nat SiblingLeft) by (apply patch_SL; reflexivity).
      erewrite (Hrunb (S f) ParentRight) by (apply patch_PR; reflexivity).
      unfold set_left, set_right. cbn [s_elem s_processed s_right s_prev s_left].
      rewrite (po_run_processed f _ _ _ _ _ _ _ _ Hp).
      rewrite !omap_app_app. rewrite app_assoc. reflexivity.
Qed.

(* more fuel never changes a finished run *)
Lemma po_run_more : forall f st out, po_run children key f st = Ok out ->
  forall g, po_run children key (f + g) st = Ok out.
Proof.
  induction f as [|f IH]; intros st out H g; [discriminate|].
  change (S f + g)%nat with (S (f + g)). rewrite po_run_S in *.
  destruct (po_step children key st) as [|it st'|st'|c]; try exact H.
  - destruct (po_run children key f st') as [l| | |] eqn:E; try discriminate.
    rewrite (IH _ _ E g). exact H.
  - apply IH. exact H.
Qed.

(* THEOREM (refinement): with fuel 2 * (size of the tree expansion) + 1 the iterator terminates
   without Panic and yields exactly the items of the recursive specification. *)
Theorem po_refines : forall root,
  po_run children key (po_fuel root) (po_init root) = Ok (po_spec root).
Proof.
  intros root. unfold po_fuel, po_spec, po_init.
  destruct (po_visit (S root) root ltac:(lia) 0 []) as (k & Hk & Hrun).
  specialize (Hrun 1%nat Root [] [] eq_refl).
  cbn [po_run po_step po_stack omap obind] in Hrun. rewrite app_nil_r in Hrun.
  replace (2 * tsize (S root) root + 1)%nat with (k + 1 + (2 * tsize (S root) root - k))%nat by lia.
  apply po_run_more. exact Hrun.
Qed.

Corollary po_no_panic : forall root fuel c,
  (po_fuel root <= fuel)%nat -> po_run children key fuel (po_init root) <> Panic c.
Proof.
  intros root fuel c Hf.
  replace fuel with (po_fuel root + (fuel - po_fuel root))%nat by lia.
  rewrite (po_run_more _ _ _ (po_refines root)). discriminate.
Qed.

End Spec.
