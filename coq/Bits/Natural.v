(* Model of the natural-number code:
     src/bit_encoding/encode.rs   encode_natural
     src/bit_encoding/bititer.rs  BitIter::read_natural
   The encoder is the Rust loop (push (n,len) while len = floor(log2 n) > 0, then pop
   and emit the len low bits of each n).  The decoder is the two Rust loops: unary
   depth count, then level by level with the `len > 31` test, the u32 accumulator,
   the `try_from` into the result type ([ty_max]) and the bound test. *)
From Coq Require Import List NArith ZArith Lia Bool.
From RS Require Import Lib.Outcome Lib.Bits.
Import ListNotations.
Local Open Scope N_scope.

(* ------------------------------------------------------------------ encoder *)

(* prefix: one `1` per (n,len) pushed, then `0` *)
Fixpoint enc_pre_f (fuel : nat) (n : N) : list bool :=
  match fuel with
  | O => [false]
  | S f => let len := N.log2 n in
           if len =? 0 then [false] else true :: enc_pre_f f len
  end.

(* suffixes, popped from the stack: smallest number first *)
Fixpoint enc_suf_f (fuel : nat) (n : N) : list bool :=
  match fuel with
  | O => []
  | S f => let len := N.log2 n in
           if len =? 0 then [] else enc_suf_f f len ++ bits_be (N.to_nat len) n
  end.

(* number of (n,len) pairs pushed *)
Fixpoint depth_f (fuel : nat) (n : N) : nat :=
  match fuel with
  | O => O
  | S f => let len := N.log2 n in
           if len =? 0 then O else S (depth_f f len)
  end.

Definition fuel_of (n : N) : nat := S (N.to_nat (N.log2 n)).

Definition enc_pre (n : N) := enc_pre_f (fuel_of n) n.
Definition enc_suf (n : N) := enc_suf_f (fuel_of n) n.
Definition depth (n : N) := depth_f (fuel_of n) n.

(* `encode_natural` asserts n > 0 *)
Definition encode_nat (n : N) : list bool := enc_pre n ++ enc_suf n.

Inductive nat_err := EndOfStream | Overflow | BadIndex (got max : N).

Definition encode_natural (n : N) : outcome nat_err (list bool) :=
  if n =? 0 then Panic 1 else Ok (encode_nat n).

(* ------------------------------------------------------------------ decoder *)

(* first loop: count `1`s up to the first `0` *)
Fixpoint read_unary (l : list bool) : option (nat * list bool) :=
  match l with
  | [] => None
  | false :: r => Some (O, r)
  | true :: r => match read_unary r with
                 | None => None
                 | Some (d, r') => Some (S d, r')
                 end
  end.

(* inner `for _ in 0..len`: n = 2*n + bit *)
Fixpoint read_bits_acc (len : nat) (acc : N) (l : list bool) : option (N * list bool) :=
  match len with
  | O => Some (acc, l)
  | S k => match l with
           | [] => None
           | b :: r => read_bits_acc k (2 * acc + b2n b) r
           end
  end.

(* outer loop; [depth] = recurse_depth, [len] = len *)
Fixpoint read_levels (depth : nat) (len : N) (l : list bool)
  : outcome nat_err (N * list bool) :=
  match read_bits_acc (N.to_nat len) 1 l with
  | None => Err EndOfStream
  | Some (n, r) =>
      match depth with
      | O => Ok (n, r)
      | S d => if 31 <? n then Err Overflow else read_levels d n r
      end
  end.

(* [ty_max]: largest value of the integer type N of `read_natural::<N>` that fits
   (u8: 255, u16: 65535, i32: 2^31-1, u32 / u64 / usize: 2^32-1 is never exceeded) *)
Definition read_nat (ty_max : N) (bound : option N) (l : list bool)
  : outcome nat_err (N * list bool) :=
  match read_unary l with
  | None => Err EndOfStream
  | Some (d, r) =>
      match read_levels d 0 r with
      | Ok (n, r') =>
          if ty_max <? n then Err Overflow
          else match bound with
               | Some b => if b <? n then Err (BadIndex n b) else Ok (n, r')
               | None => Ok (n, r')
               end
      | e => e
      end
  end.

(* ---------------------------------------------------------- unfolding lemmas *)

Lemma log2_log2_lt n : N.log2 n <> 0 -> N.log2 (N.log2 n) < N.log2 n.
Proof. intros H. apply N.log2_lt_lin. lia. Qed.

Lemma enc_pre_f_irrel f : forall g n,
  N.log2 n < N.of_nat f -> N.log2 n < N.of_nat g -> enc_pre_f f n = enc_pre_f g n.
Proof.
  induction f as [|f IH]; intros g n Hf Hg; [lia|].
  destruct g as [|g]; [lia|].
  cbn [enc_pre_f]. destruct (N.eqb_spec (N.log2 n) 0) as [E|E]; [reflexivity|].
  f_equal. pose proof (log2_log2_lt n E). apply IH; lia.
Qed.

Lemma enc_suf_f_irrel f : forall g n,
  N.log2 n < N.of_nat f -> N.log2 n < N.of_nat g -> enc_suf_f f n = enc_suf_f g n.
Proof.
  induction f as [|f IH]; intros g n Hf Hg; [lia|].
  destruct g as [|g]; [lia|].
  cbn [enc_suf_f]. destruct (N.eqb_spec (N.log2 n) 0) as [E|E]; [reflexivity|].
  f_equal. pose proof (log2_log2_lt n E). apply IH; lia.
Qed.

Lemma depth_f_irrel f : forall g n,
  N.log2 n < N.of_nat f -> N.log2 n < N.of_nat g -> depth_f f n = depth_f g n.
Proof.
  induction f as [|f IH]; intros g n Hf Hg; [lia|].
  destruct g as [|g]; [lia|].
  cbn [depth_f]. destruct (N.eqb_spec (N.log2 n) 0) as [E|E]; [reflexivity|].
  f_equal. pose proof (log2_log2_lt n E). apply IH; lia.
Qed.

Lemma fuel_ok n : N.log2 n < N.of_nat (fuel_of n).
Proof. unfold fuel_of. lia. Qed.

Lemma enc_pre_eq n :
  enc_pre n = if N.log2 n =? 0 then [false] else true :: enc_pre (N.log2 n).
Proof.
  unfold enc_pre at 1. unfold fuel_of. cbn [enc_pre_f].
  destruct (N.eqb_spec (N.log2 n) 0) as [E|E]; [reflexivity|].
  f_equal. apply enc_pre_f_irrel; [|apply fuel_ok].
  pose proof (log2_log2_lt n E). lia.
Qed.

Lemma enc_suf_eq n :
  enc_suf n = if N.log2 n =? 0 then []
              else enc_suf (N.log2 n) ++ bits_be (N.to_nat (N.log2 n)) n.
Proof.
  unfold enc_suf at 1. unfold fuel_of. cbn [enc_suf_f].
  destruct (N.eqb_spec (N.log2 n) 0) as [E|E]; [reflexivity|].
  f_equal. apply enc_suf_f_irrel; [|apply fuel_ok].
  pose proof (log2_log2_lt n E). lia.
Qed.

Lemma depth_eq n :
  depth n = if N.log2 n =? 0 then O else S (depth (N.log2 n)).
Proof.
  unfold depth at 1. unfold fuel_of. cbn [depth_f].
  destruct (N.eqb_spec (N.log2 n) 0) as [E|E]; [reflexivity|].
  f_equal. apply depth_f_irrel; [|apply fuel_ok].
  pose proof (log2_log2_lt n E). lia.
Qed.

(* induction along the chain n, log2 n, log2 (log2 n), ... *)
Lemma log2_chain_ind (P : N -> Prop) :
  (forall n, (N.log2 n <> 0 -> P (N.log2 n)) -> P n) -> forall n, P n.
Proof.
  intros step n. induction n as [n IH] using (well_founded_induction N.lt_wf_0).
  apply step. intros E. apply IH.
  destruct (N.eq_dec n 0) as [->|Hn]; [cbn in E; congruence|].
  apply N.log2_lt_lin. lia.
Qed.

(* ------------------------------------------------------------ basic facts *)

Lemma read_unary_app d : forall r, read_unary (repeat true d ++ false :: r) = Some (d, r).
Proof. induction d as [|d IH]; intros r; cbn; [reflexivity|]. rewrite IH. reflexivity. Qed.

Lemma read_unary_inv l : forall d r,
  read_unary l = Some (d, r) -> l = repeat true d ++ false :: r.
Proof.
  induction l as [|b l IH]; intros d r H; [discriminate|].
  destruct b; cbn in H.
  - destruct (read_unary l) as [[d' r']|] eqn:E; [|discriminate].
    injection H as <- <-. cbn. f_equal. apply IH. reflexivity.
  - injection H as <- <-. reflexivity.
Qed.

Lemma enc_pre_unary n : enc_pre n = repeat true (depth n) ++ [false].
Proof.
  induction n as [n IH] using log2_chain_ind.
  rewrite enc_pre_eq, depth_eq.
  destruct (N.eqb_spec (N.log2 n) 0) as [E|E]; [reflexivity|].
  cbn. f_equal. apply IH. exact E.
Qed.

Lemma read_bits_acc_spec len : forall acc l,
  read_bits_acc len acc l =
  if Nat.leb len (length l) then Some (val_be_acc acc (firstn len l), skipn len l) else None.
Proof.
  induction len as [|k IH]; intros acc l; [reflexivity|].
  destruct l as [|b r]; [reflexivity|].
  cbn [read_bits_acc length Nat.leb firstn skipn val_be_acc]. apply IH.
Qed.

Lemma read_bits_acc_app_gen l1 : forall acc r,
  read_bits_acc (length l1) acc (l1 ++ r) = Some (val_be_acc acc l1, r).
Proof.
  induction l1 as [|b l1 IH]; intros acc r; [reflexivity|].
  cbn [length read_bits_acc app val_be_acc]. apply IH.
Qed.

Lemma read_bits_acc_app len acc n r :
  read_bits_acc len acc (bits_be len n ++ r)
  = Some (acc * 2 ^ N.of_nat len + n mod 2 ^ N.of_nat len, r).
Proof.
  pose proof (read_bits_acc_app_gen (bits_be len n) acc r) as H.
  rewrite bits_be_length in H. rewrite H, val_be_acc_bits_be. reflexivity.
Qed.

Lemma log2_decomp n : n <> 0 -> 2 ^ N.log2 n + n mod 2 ^ N.log2 n = n.
Proof.
  intros Hn. destruct (N.log2_spec n ltac:(lia)) as [Hlo Hhi].
  rewrite N.pow_succ_r' in Hhi.
  set (p := 2 ^ N.log2 n) in *.
  assert (Hp : p <> 0) by (apply N.pow_nonzero; lia). clearbody p.
  assert (Hq : n / p = 1).
  { symmetry. apply N.div_unique with (r := n - p); lia. }
  pose proof (N.div_mod n p Hp) as Hdm. rewrite Hq in Hdm. lia.
Qed.

(* reading log2 n bits after a leading 1 gives back n *)
Lemma read_bits_acc_self n r : n <> 0 ->
  read_bits_acc (N.to_nat (N.log2 n)) 1 (bits_be (N.to_nat (N.log2 n)) n ++ r) = Some (n, r).
Proof.
  intros Hn. rewrite read_bits_acc_app. rewrite N2Nat.id, N.mul_1_l.
  rewrite log2_decomp by exact Hn. reflexivity.
Qed.

(* what a successful read of [len] bits after a leading 1 tells us *)
Lemma read_bits_acc_one_inv len l m r :
  read_bits_acc len 1 l = Some (m, r) ->
  N.log2 m = N.of_nat len /\ m <> 0 /\ l = bits_be len m ++ r.
Proof.
  rewrite read_bits_acc_spec.
  destruct (Nat.leb len (length l)) eqn:E; [|discriminate].
  apply Nat.leb_le in E. intros H. injection H as <- <-.
  assert (Hlen : length (firstn len l) = len) by (rewrite firstn_length; lia).
  pose proof (val_be_acc_bound (firstn len l) 1) as Hu.
  pose proof (val_be_acc_lower (firstn len l) 1) as Hl.
  rewrite Hlen in Hu, Hl.
  set (m := val_be_acc 1 (firstn len l)) in *.
  assert (Hp : 2 ^ N.of_nat len <> 0) by (apply N.pow_nonzero; lia).
  assert (Hm : m <> 0) by lia.
  assert (Hlog : N.log2 m = N.of_nat len).
  { apply N.log2_unique; [lia|]. rewrite N.pow_succ_r'. lia. }
  split; [exact Hlog|]. split; [exact Hm|].
  rewrite <- (firstn_skipn len l) at 1. f_equal.
  pose proof (bits_be_val_be (firstn len l) 1) as Hb. rewrite Hlen in Hb.
  symmetry. exact Hb.
Qed.

(* --------------------------------------------------- decoder on encodings *)

(* running the level loop over the suffix part of [encode_nat n], with [k] further
   levels to go afterwards *)
Lemma read_levels_enc_suf : forall n, n <> 0 -> N.log2 n <= 31 -> forall k r,
  read_levels (depth n + k) 0 (enc_suf n ++ r) =
  match k with
  | O => Ok (n, r)
  | S k' => if 31 <? n then Err Overflow else read_levels k' n r
  end.
Proof.
  induction n as [n IH] using log2_chain_ind. intros Hn Hlog k r.
  rewrite depth_eq, enc_suf_eq.
  destruct (N.eqb_spec (N.log2 n) 0) as [E|E].
  - (* n = 1 *)
    assert (n = 1) as ->.
    { destruct (N.log2_spec n ltac:(lia)) as [Hlo Hhi]. rewrite E in *. cbn in *. lia. }
    cbn [app Nat.add]. destruct k as [|k']; reflexivity.
  - assert (Hlen0 : N.log2 n <> 0) by exact E.
    assert (Hll : N.log2 (N.log2 n) <= 31).
    { pose proof (log2_log2_lt n E). lia. }
    rewrite <- app_assoc.
    replace (S (depth (N.log2 n)) + k)%nat with (depth (N.log2 n) + S k)%nat by lia.
    rewrite (IH E Hlen0 Hll (S k)).
    replace (31 <? N.log2 n) with false by (symmetry; apply N.ltb_ge; lia).
    (* one level: read log2 n bits, obtaining n *)
    destruct k as [|k']; cbn [read_levels]; rewrite (read_bits_acc_self n _ Hn); reflexivity.
Qed.

(* numbers of 33 bits or more hit the `len > 31` test *)
Lemma read_levels_overflow : forall n, 31 < N.log2 n -> forall k r,
  read_levels (depth n + k) 0 (enc_suf n ++ r) = Err Overflow.
Proof.
  induction n as [n IH] using log2_chain_ind. intros Hlog k r.
  rewrite depth_eq, enc_suf_eq.
  destruct (N.eqb_spec (N.log2 n) 0) as [E|E]; [lia|].
  rewrite <- app_assoc.
  replace (S (depth (N.log2 n)) + k)%nat with (depth (N.log2 n) + S k)%nat by lia.
  destruct (N.le_gt_cases (N.log2 (N.log2 n)) 31) as [Hle|Hgt].
  - rewrite (read_levels_enc_suf (N.log2 n) E Hle (S k)).
    replace (31 <? N.log2 n) with true by (symmetry; apply N.ltb_lt; lia). reflexivity.
  - apply (IH E). lia.
Qed.

Lemma log2_le_31 n : n < 2 ^ 32 -> N.log2 n <= 31.
Proof.
  intros H. destruct (N.eq_dec n 0) as [->|Hn]; [cbn; lia|].
  assert (N.log2 n < 32); [|lia]. apply N.log2_lt_pow2; lia.
Qed.

Lemma log2_gt_31 n : 2 ^ 32 <= n -> 31 < N.log2 n.
Proof.
  intros H. assert (32 <= N.log2 n); [|lia]. apply N.log2_le_pow2; lia.
Qed.

Lemma read_nat_encode_raw n r : n <> 0 -> n < 2 ^ 32 ->
  read_levels (depth n) 0 (enc_suf n ++ r) = Ok (n, r).
Proof.
  intros Hn Hlt. pose proof (read_levels_enc_suf n Hn (log2_le_31 n Hlt) O r) as H.
  rewrite Nat.add_0_r in H. exact H.
Qed.

(* T1: round trip *)
Theorem read_encode ty_max bound n rest :
  1 <= n -> n < 2 ^ 32 -> n <= ty_max ->
  (match bound with Some b => n <= b | None => True end) ->
  read_nat ty_max bound (encode_nat n ++ rest) = Ok (n, rest).
Proof.
  intros H1 H2 H3 H4. unfold read_nat, encode_nat.
  rewrite enc_pre_unary, <- !app_assoc. cbn [app].
  rewrite read_unary_app, read_nat_encode_raw by lia.
  replace (ty_max <? n) with false by (symmetry; apply N.ltb_ge; lia).
  destruct bound as [b|]; [|reflexivity].
  replace (b <? n) with false by (symmetry; apply N.ltb_ge; lia). reflexivity.
Qed.

(* T3: rejections *)
Theorem read_encode_overflow ty_max bound n rest :
  2 ^ 32 <= n -> read_nat ty_max bound (encode_nat n ++ rest) = Err Overflow.
Proof.
  intros H. unfold read_nat, encode_nat.
  rewrite enc_pre_unary, <- !app_assoc. cbn [app].
  rewrite read_unary_app.
  pose proof (read_levels_overflow n (log2_gt_31 n H) O (rest)) as Ho.
  rewrite Nat.add_0_r in Ho. rewrite Ho. reflexivity.
Qed.

Theorem read_encode_type_overflow ty_max bound n rest :
  1 <= n -> n < 2 ^ 32 -> ty_max < n ->
  read_nat ty_max bound (encode_nat n ++ rest) = Err Overflow.
Proof.
  intros H1 H2 H3. unfold read_nat, encode_nat.
  rewrite enc_pre_unary, <- !app_assoc. cbn [app].
  rewrite read_unary_app, read_nat_encode_raw by lia.
  replace (ty_max <? n) with true by (symmetry; apply N.ltb_lt; lia). reflexivity.
Qed.

Theorem read_encode_bad_index ty_max b n rest :
  1 <= n -> n < 2 ^ 32 -> n <= ty_max -> b < n ->
  read_nat ty_max (Some b) (encode_nat n ++ rest) = Err (BadIndex n b).
Proof.
  intros H1 H2 H3 H4. unfold read_nat, encode_nat.
  rewrite enc_pre_unary, <- !app_assoc. cbn [app].
  rewrite read_unary_app, read_nat_encode_raw by lia.
  replace (ty_max <? n) with false by (symmetry; apply N.ltb_ge; lia).
  replace (b <? n) with true by (symmetry; apply N.ltb_lt; lia). reflexivity.
Qed.

(* --------------------------------------------------- uniqueness (T2) *)

Lemma read_levels_inv : forall d p l n rest,
  p <> 0 ->
  read_levels d p l = Ok (n, rest) ->
  exists s, l = s ++ rest /\ enc_suf n = enc_suf p ++ s /\ depth n = (depth p + S d)%nat
            /\ n <> 0.
Proof.
  induction d as [|d IH]; intros p l n rest Hp H; cbn [read_levels] in H.
  - destruct (read_bits_acc (N.to_nat p) 1 l) as [[m r]|] eqn:E; [|discriminate].
    injection H as <- <-.
    apply read_bits_acc_one_inv in E. destruct E as (Hlog & Hm & Hl).
    rewrite N2Nat.id in Hlog.
    exists (bits_be (N.to_nat p) m). split; [exact Hl|].
    rewrite (enc_suf_eq m), (depth_eq m), Hlog.
    replace (p =? 0) with false by (symmetry; apply N.eqb_neq; exact Hp).
    repeat split; [lia | exact Hm].
  - destruct (read_bits_acc (N.to_nat p) 1 l) as [[m r]|] eqn:E; [|discriminate].
    destruct (31 <? m) eqn:E31; [discriminate|].
    apply read_bits_acc_one_inv in E. destruct E as (Hlog & Hm & Hl).
    rewrite N2Nat.id in Hlog.
    destruct (IH m r n rest Hm H) as (s & Hs & Hsuf & Hdep & Hn).
    exists (bits_be (N.to_nat p) m ++ s). split; [|split; [|split]].
    + rewrite Hl, Hs, app_assoc. reflexivity.
    + rewrite Hsuf, (enc_suf_eq m), Hlog.
      replace (p =? 0) with false by (symmetry; apply N.eqb_neq; exact Hp).
      rewrite app_assoc. reflexivity.
    + rewrite Hdep, (depth_eq m), Hlog.
      replace (p =? 0) with false by (symmetry; apply N.eqb_neq; exact Hp). lia.
    + exact Hn.
Qed.

Lemma enc_suf_1 : enc_suf 1 = [].
Proof. reflexivity. Qed.
Lemma depth_1 : depth 1 = O.
Proof. reflexivity. Qed.

Lemma read_levels_0_inv d l n rest :
  read_levels d 0 l = Ok (n, rest) ->
  l = enc_suf n ++ rest /\ depth n = d /\ n <> 0.
Proof.
  destruct d as [|d]; cbn [read_levels N.to_nat read_bits_acc]; intros H.
  - injection H as <- <-. repeat split. lia.
  - change (31 <? 1) with false in H. cbn iota in H.
    destruct (read_levels_inv d 1 l n rest ltac:(lia) H) as (s & Hs & Hsuf & Hdep & Hn).
    rewrite enc_suf_1 in Hsuf. rewrite depth_1 in Hdep. cbn [app] in Hsuf.
    rewrite Hsuf. repeat split; [exact Hs | lia | exact Hn].
Qed.

(* T2: whatever the reader accepts is the encoding of the number it returns,
   followed by exactly the bits it leaves unread *)
Theorem encode_read ty_max bound l n rest :
  read_nat ty_max bound l = Ok (n, rest) ->
  l = encode_nat n ++ rest /\ 1 <= n /\ n <= ty_max /\
  (match bound with Some b => n <= b | None => True end).
Proof.
  unfold read_nat. intros H.
  destruct (read_unary l) as [[d r]|] eqn:Eu; [|discriminate].
  destruct (read_levels d 0 r) as [[m r']| | |] eqn:El; try discriminate.
  destruct (ty_max <? m) eqn:Et; [discriminate|]. apply N.ltb_ge in Et.
  assert (Hmr : m = n /\ r' = rest /\ match bound with Some b => n <= b | None => True end).
  { destruct bound as [b|].
    - destruct (b <? m) eqn:Eb; [discriminate|]. apply N.ltb_ge in Eb.
      injection H as <- <-. auto.
    - injection H as <- <-. auto. }
  destruct Hmr as (-> & -> & Hb).
  apply read_unary_inv in Eu. apply read_levels_0_inv in El.
  destruct El as (Hr & Hd & Hn).
  split; [|split; [lia|split; [exact Et|exact Hb]]].
  unfold encode_nat. rewrite enc_pre_unary, Hd, <- !app_assoc. cbn [app].
  rewrite Eu, Hr. reflexivity.
Qed.

(* every accepted number fits 32 bits: the accumulator never wraps *)
Lemma read_levels_bound : forall d p l n rest,
  p <= 31 -> read_levels d p l = Ok (n, rest) -> n < 2 ^ 32.
Proof.
  induction d as [|d IH]; intros p l n rest Hp H; cbn [read_levels] in H.
  - destruct (read_bits_acc (N.to_nat p) 1 l) as [[m r]|] eqn:E; [|discriminate].
    injection H as <- <-. apply read_bits_acc_one_inv in E. destruct E as (Hlog & Hm & _).
    rewrite N2Nat.id in Hlog. apply N.log2_lt_pow2; lia.
  - destruct (read_bits_acc (N.to_nat p) 1 l) as [[m r]|] eqn:E; [|discriminate].
    destruct (31 <? m) eqn:E31; [discriminate|]. apply N.ltb_ge in E31.
    apply (IH m r n rest E31 H).
Qed.

Theorem read_nat_range ty_max bound l n rest :
  read_nat ty_max bound l = Ok (n, rest) -> n < 2 ^ 32.
Proof.
  unfold read_nat. intros H.
  destruct (read_unary l) as [[d r]|] eqn:Eu; [|discriminate].
  destruct (read_levels d 0 r) as [[m r']| | |] eqn:El; try discriminate.
  assert (m < 2 ^ 32) by (apply (read_levels_bound d 0 r m r'); [lia|exact El]).
  destruct (ty_max <? m); [discriminate|].
  destruct bound as [b|]; [destruct (b <? m); [discriminate|]|]; injection H as <- <-; assumption.
Qed.

(* the model decoder has no panic and no fuel *)
Lemma read_levels_no_panic : forall d p l,
  match read_levels d p l with Panic _ | OutOfFuel => False | _ => True end.
Proof.
  induction d as [|d IH]; intros p l; cbn [read_levels];
    destruct (read_bits_acc (N.to_nat p) 1 l) as [[m r]|]; auto.
  destruct (31 <? m); auto. apply IH.
Qed.

Theorem read_nat_total ty_max bound l :
  match read_nat ty_max bound l with Panic _ | OutOfFuel => False | _ => True end.
Proof.
  unfold read_nat. destruct (read_unary l) as [[d r]|]; auto.
  pose proof (read_levels_no_panic d 0 r) as H.
  destruct (read_levels d 0 r) as [[m r']| | |]; auto.
  destruct (ty_max <? m); auto. destruct bound as [b|]; auto. destruct (b <? m); auto.
Qed.

(* prefix-freeness: two encodings, one a prefix of the other, are equal *)
Corollary encode_nat_prefix_free n m r1 r2 :
  1 <= n -> n < 2 ^ 32 -> 1 <= m -> m < 2 ^ 32 ->
  encode_nat n ++ r1 = encode_nat m ++ r2 -> n = m /\ r1 = r2.
Proof.
  intros Hn1 Hn2 Hm1 Hm2 E.
  pose proof (read_encode (2 ^ 32) None n r1 Hn1 Hn2 ltac:(lia) I) as A.
  pose proof (read_encode (2 ^ 32) None m r2 Hm1 Hm2 ltac:(lia) I) as B.
  rewrite E in A. rewrite A in B. injection B as -> ->. auto.
Qed.

(* non-vacuity *)
Example encode_nat_5 : encode_nat 5 = [true; true; false; false; false; true].
Proof. reflexivity. Qed.
Example read_nat_5 :
  read_nat 255 (Some 7) ([true; true; false; false; false; true] ++ [true])
  = Ok (5, [true]).
Proof. reflexivity. Qed.
Example read_nat_u32max :
  read_nat (2 ^ 32 - 1) None (encode_nat (2 ^ 32 - 1)) = Ok (2 ^ 32 - 1, []).
Proof. vm_compute. reflexivity. Qed.
