(* C04, phase 4 - the finalisation stage of the slab model is total (SlabTotal.r_finish_total: occurs-check fuel
   4 |slab| + 4, completion fuel S |slab|, no panic), so the run-level refinement only needs the CONSTRUCTION stage
   (all arrow constructors, then set_arrow_to_program) not to end in Panic / OutOfFuel (run_refines_construct). *)
From RS Require Import Lib.Tac Lib.Outcome Lib.Sweep Ty.Ty Core.Prog Infer.Constraints Infer.Unify Infer.Infer Infer.Gen Infer.Theorems
  Infer.Principal Infer.Order Infer.Run Infer.Run2 Infer.UnionFind Infer.Slab Infer.RunSlab Infer.SlabProofs Infer.Rational Infer.ErrClass
  Infer.SlabSim Infer.SlabSimInst Infer.SlabPrims Infer.SlabNodes Infer.SlabNodes2 Infer.SlabNodes3 Infer.SlabNodes4 Infer.SlabNodes5
  Infer.SlabConstruct Infer.SlabResult Infer.SlabRun Infer.SlabFin Infer.SlabFinK Infer.SlabRun2 Infer.OrderRun Infer.SlabCov Infer.SlabWfd
  Infer.SlabRun3 Infer.SlabTotal.
Import ListNotations.
Local Open Scope outcome_scope.

(* the construction stage of a run *)
Definition run_construct (program : bool) (order : list nat) (jets : list (N * N * list N * list N)) (p : prog)
  : rres (ctx * list (option varrow)) :=
  let n := length p in
  let order := match order with [] => seq 0 n | _ => order end in
  let jt := jets_of jets in
  r_construct (model_fuel jt p) jt program (permute p order) (pos_of order (n - 1)%nat).

Theorem run_refines_construct : forall (fmode : nat) (program : bool) (order : list nat)
    (jets : list (N * N * list N * list N)) (p : prog),
  terminated (run_construct program order jets p) ->
  strip99 (run_rinfer fmode program order jets p) = run_infer program order jets p.
Proof.
  intros fmode program order jets p Tc.
  apply run_refines_nopanic.
  - (* not a panic *)
    intros k Hb. unfold run_rinfer, run_construct in *.
    set (n := length p) in *. set (order' := match order with [] => seq 0 n | _ => order end) in *.
    destruct (valid_order n order') eqn:V; cbn [negb] in Hb; [|discriminate].
    set (pos := pos_of order') in *. set (jt := jets_of jets) in *. set (p' := permute p order') in *.
    destruct (gen jt p') as [g|] eqn:G; [|discriminate].
    destruct (program && match nth (n - 1) p NIden with NHidden _ => true | _ => false end)%bool eqn:Chk; [discriminate|].
    rewrite r_infer_split in Hb.
    destruct (r_construct (model_fuel jt p) jt program p' (pos (n - 1)%nat)) as [[c ar]|[[|st ex nb|] ce]|k0|] eqn:Ec; cbn [obind show_rresult] in Hb;
      try discriminate; try (exact Tc).
    assert (CA : cwf c /\ arr_in (length (c_uf c)) ar).
    { destruct (root_tmpl g (if program then Some (pos (n - 1)%nat) else None)) as [[rb re]|] eqn:R.
      - pose proof (construct_sim (model_fuel jt p) jt program p' (pos (n - 1)%nat) g rb re G R) as CS. rewrite Ec in CS.
        destruct CS as [(em & S0 & _ & Ai) _]. destruct S0 as [(CW & _) _ _]. split; assumption.
      - (* no constraints for the root: the construction stage cannot succeed *)
        exfalso. destruct program; [|discriminate R].
        unfold r_construct in Ec.
        pose proof (r_nodes_sim (model_fuel jt p) jt p' empty_ctx [] [] (fun e => e) [] g Sim_empty ltac:(intros ch x y E; destruct ch; discriminate) G) as Ns.
        destruct (r_nodes (model_fuel jt p) jt empty_ctx [] p') as [[c0 ar0]|e0| |]; cbn [obind] in Ec; try discriminate.
        destruct Ns as (em & _ & Ea & _). cbn [root_tmpl] in R. rewrite Ea, arr_of_amap, arr_of_nth in R.
        destruct (nth (pos (n - 1)%nat) ar0 None) as [[x y]|]; [discriminate R|]. discriminate Ec. }
    destruct CA as [CW Ai].
    pose proof (r_finish_total fmode p' (map pos (seq 0 n)) (pos (n - 1)%nat) c ar CW Ai) as Tf.
    destruct (r_finish fmode p' (map pos (seq 0 n)) (pos (n - 1)%nat) c ar) as [tau|[[|st ex nb|] cx]|k1|]; cbn [show_rresult] in Hb; try discriminate; exact Tf.
  - intros Hb. unfold run_rinfer, run_construct in *.
    set (n := length p) in *. set (order' := match order with [] => seq 0 n | _ => order end) in *.
    destruct (valid_order n order') eqn:V; cbn [negb] in Hb; [|discriminate].
    set (pos := pos_of order') in *. set (jt := jets_of jets) in *. set (p' := permute p order') in *.
    destruct (gen jt p') as [g|] eqn:G; [|discriminate].
    destruct (program && match nth (n - 1) p NIden with NHidden _ => true | _ => false end)%bool eqn:Chk; [discriminate|].
    rewrite r_infer_split in Hb.
    destruct (r_construct (model_fuel jt p) jt program p' (pos (n - 1)%nat)) as [[c ar]|[[|st ex nb|] ce]|k0|] eqn:Ec; cbn [obind show_rresult] in Hb;
      try discriminate; try (exact Tc).
    assert (CA : cwf c /\ arr_in (length (c_uf c)) ar).
    { destruct (root_tmpl g (if program then Some (pos (n - 1)%nat) else None)) as [[rb re]|] eqn:R.
      - pose proof (construct_sim (model_fuel jt p) jt program p' (pos (n - 1)%nat) g rb re G R) as CS. rewrite Ec in CS.
        destruct CS as [(em & S0 & _ & Ai) _]. destruct S0 as [(CW & _) _ _]. split; assumption.
      - exfalso. destruct program; [|discriminate R].
        unfold r_construct in Ec.
        pose proof (r_nodes_sim (model_fuel jt p) jt p' empty_ctx [] [] (fun e => e) [] g Sim_empty ltac:(intros ch x y E; destruct ch; discriminate) G) as Ns.
        destruct (r_nodes (model_fuel jt p) jt empty_ctx [] p') as [[c0 ar0]|e0| |]; cbn [obind] in Ec; try discriminate.
        destruct Ns as (em & _ & Ea & _). cbn [root_tmpl] in R. rewrite Ea, arr_of_amap, arr_of_nth in R.
        destruct (nth (pos (n - 1)%nat) ar0 None) as [[x y]|]; [discriminate R|]. discriminate Ec. }
    destruct CA as [CW Ai].
    pose proof (r_finish_total fmode p' (map pos (seq 0 n)) (pos (n - 1)%nat) c ar CW Ai) as Tf.
    destruct (r_finish fmode p' (map pos (seq 0 n)) (pos (n - 1)%nat) c ar) as [tau|[[|st ex nb|] cx]|k1|]; cbn [show_rresult] in Hb; try discriminate; exact Tf.
Qed.
