(* C16 - model of src/policy/ast.rs: the `Policy` enum over abstract keys and hashes.

   Keys (`Pk`), hash images (`Pk::Sha256`) and fail entropies are numbers: the derived
   `Ord` of the Rust types compares byte strings lexicographically (x-only keys through
   secp256k1_xonly_pubkey_cmp = memcmp of the serialisation, sha256::Hash and FailEntropy
   through the derived array order), which is the numeric order of the big-endian value.
   The constructors are in the order of the Rust enum, because `#[derive(PartialOrd, Ord)]`
   compares the variant index first and then the fields from left to right; `Arc<Policy>`
   compares the pointed-to policies, `Vec<Policy>` compares lexicographically. *)
From RS Require Import Lib.Tac.
Import ListNotations.
Local Open Scope N_scope.

Inductive policy : Type :=
| Unsat (entropy : N)                 (* Unsatisfiable(FailEntropy) *)
| Trivial
| Key (k : N)
| After (n : N)                       (* u32 *)
| Older (n : N)                       (* u16 *)
| Sha256 (h : N)
| And (l r : policy)
| Or (l r : policy)
| Thresh (k : N) (subs : list policy).   (* Threshold(usize, Vec<Policy>) *)

(* induction principle that reaches the children of thresholds *)
Section PolicyInd.
  Variable P : policy -> Prop.
  Hypothesis HU : forall e, P (Unsat e).
  Hypothesis HT : P Trivial.
  Hypothesis HK : forall k, P (Key k).
  Hypothesis HA : forall n, P (After n).
  Hypothesis HO : forall n, P (Older n).
  Hypothesis HS : forall h, P (Sha256 h).
  Hypothesis HAnd : forall l r, P l -> P r -> P (And l r).
  Hypothesis HOr : forall l r, P l -> P r -> P (Or l r).
  Hypothesis HTh : forall k subs, Forall P subs -> P (Thresh k subs).

  Fixpoint policy_ind' (p : policy) : P p :=
    match p with
    | Unsat e => HU e
    | Trivial => HT
    | Key k => HK k
    | After n => HA n
    | Older n => HO n
    | Sha256 h => HS h
    | And l r => HAnd l r (policy_ind' l) (policy_ind' r)
    | Or l r => HOr l r (policy_ind' l) (policy_ind' r)
    | Thresh k subs =>
        HTh k subs ((fix go (l : list policy) : Forall P l :=
                       match l with
                       | [] => Forall_nil P
                       | x :: t => Forall_cons x (policy_ind' x) (go t)
                       end) subs)
    end.
End PolicyInd.

(* variant index, as used by the derived Ord *)
Definition tag (p : policy) : N :=
  match p with
  | Unsat _ => 0 | Trivial => 1 | Key _ => 2 | After _ => 3 | Older _ => 4 | Sha256 _ => 5
  | And _ _ => 6 | Or _ _ => 7 | Thresh _ _ => 8
  end.

Definition lex (c1 c2 : comparison) : comparison :=
  match c1 with Eq => c2 | _ => c1 end.

(* lexicographic order of slices ([T]::cmp): element-wise, then the shorter one is less *)
Fixpoint list_cmp {A} (f : A -> A -> comparison) (xs ys : list A) : comparison :=
  match xs, ys with
  | [], [] => Eq
  | [], _ :: _ => Lt
  | _ :: _, [] => Gt
  | x :: xt, y :: yt => lex (f x y) (list_cmp f xt yt)
  end.

(* the derived `Ord::cmp` *)
Fixpoint pcmp (p q : policy) {struct p} : comparison :=
  match p, q with
  | Unsat a, Unsat b => a ?= b
  | Trivial, Trivial => Eq
  | Key a, Key b => a ?= b
  | After a, After b => a ?= b
  | Older a, Older b => a ?= b
  | Sha256 a, Sha256 b => a ?= b
  | And l1 r1, And l2 r2 => lex (pcmp l1 l2) (pcmp r1 r2)
  | Or l1 r1, Or l2 r2 => lex (pcmp l1 l2) (pcmp r1 r2)
  | Thresh k1 s1, Thresh k2 s2 =>
      lex (k1 ?= k2)
          ((fix lc (xs ys : list policy) {struct xs} : comparison :=
              match xs, ys with
              | [], [] => Eq
              | [], _ :: _ => Lt
              | _ :: _, [] => Gt
              | x :: xt, y :: yt => lex (pcmp x y) (lc xt yt)
              end) s1 s2)
  | _, _ => tag p ?= tag q
  end.

Lemma pcmp_thresh k1 s1 k2 s2 :
  pcmp (Thresh k1 s1) (Thresh k2 s2) = lex (k1 ?= k2) (list_cmp pcmp s1 s2).
Proof.
  cbn [pcmp]. f_equal. revert s2. induction s1 as [|x xt IH]; intros [|y yt]; cbn [list_cmp]; try reflexivity.
  rewrite IH. reflexivity.
Qed.

Definition pgt (p q : policy) : bool := match pcmp p q with Gt => true | _ => false end.   (* p > q *)
Definition ple (p q : policy) : bool := match pcmp p q with Gt => false | _ => true end.   (* p <= q *)

(* size, used as fuel-free measure in a few places *)
Fixpoint psize (p : policy) : nat :=
  match p with
  | And l r | Or l r => S (psize l + psize r)
  | Thresh _ subs => S (list_sum (map psize subs))
  | _ => 1%nat
  end.

(* ------------------------------------------------------------------------------------------
   Well-formedness = the part of the property's quantifier that the code relies on:
   timelocks in the block-height range (satisfy.rs: `Height::from_consensus(n).expect`),
   thresholds with 1 <= |subs| < 2^32 and k <= |subs| (serialize.rs asserts), field ranges of
   the Rust integer types. *)
Definition HEIGHT_LIMIT : N := 500000000.    (* LOCK_TIME_THRESHOLD *)

Fixpoint wf (p : policy) : Prop :=
  match p with
  | After n => n < HEIGHT_LIMIT
  | Older n => n < 2 ^ 16
  | And l r | Or l r => wf l /\ wf r
  | Thresh k subs =>
      subs <> [] /\ k <= N.of_nat (length subs) /\ N.of_nat (length subs) < 2 ^ 32 /\
      (fix all (l : list policy) : Prop := match l with [] => True | x :: t => wf x /\ all t end) subs
  | _ => True
  end.

Fixpoint wfb (p : policy) : bool :=
  match p with
  | After n => n <? HEIGHT_LIMIT
  | Older n => n <? 2 ^ 16
  | And l r | Or l r => wfb l && wfb r
  | Thresh k subs =>
      negb (Nat.eqb (length subs) 0) && (k <=? N.of_nat (length subs)) && (N.of_nat (length subs) <? 2 ^ 32) &&
      forallb wfb subs
  | _ => true
  end.

Lemma wf_thresh_Forall k subs : wf (Thresh k subs) -> Forall wf subs.
Proof.
  cbn [wf]. intros (_ & _ & _ & H). induction subs as [|x t IH]; constructor; destruct H; auto.
Qed.

Lemma wf_thresh_intro k subs :
  subs <> [] -> k <= N.of_nat (length subs) -> N.of_nat (length subs) < 2 ^ 32 -> Forall wf subs ->
  wf (Thresh k subs).
Proof.
  intros H1 H2 H3 H4. cbn [wf]. split; [|split; [|split]]; auto.
  clear H1 H2 H3. induction H4; [exact I|split; auto].
Qed.

Lemma wfb_wf p : wfb p = true -> wf p.
Proof.
  induction p using policy_ind'; cbn [wfb wf]; intros Hb; auto.
  - apply N.ltb_lt; auto.
  - apply N.ltb_lt; auto.
  - apply andb_true_iff in Hb as [A B]; auto.
  - apply andb_true_iff in Hb as [A B]; auto.
  - apply andb_true_iff in Hb as [Hb D]. apply andb_true_iff in Hb as [Hb C].
    apply andb_true_iff in Hb as [A B].
    apply wf_thresh_intro.
    + destruct subs; [discriminate|congruence].
    + apply N.leb_le; auto.
    + apply N.ltb_lt; auto.
    + rewrite forallb_forall in D. rewrite Forall_forall in *. intros x Hx. apply H; auto.
Qed.
