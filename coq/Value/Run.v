(* Executable entry points for the correspondence checks of C10 / C11: a "pool machine".
   A case is a list of operations, each of which appends one entry to a pool of values
   (or a failure code); the result is the flat list of numbers the Rust harness
   (/verif/harness_value/src/value.rs) prints for the same case. *)
From RS Require Import Lib.Tac Lib.Outcome Lib.Bits Lib.Sweep Ty.Ty Value.ValueModel Value.ValueWord Value.ValueBuffer.
Import ListNotations.
Local Open Scope N_scope.

Inductive pop : Type :=
| OUnit
| OWordInt (k : nat) (n : N)              (* Value::u1 .. u128 *)
| OWordBytes (k : nat) (bytes : list N)   (* Value::u256 / u512 *)
| OByteArray (bytes : list N)             (* Value::from_byte_array *)
| OBuffer (n : nat) (data : list N)       (* Value::buffer8_two_n_plus_one *)
| OLeft (i : nat) (r : ty)
| ORight (l : ty) (i : nat)
| OProd (i j : nat)
| ONone (r : ty)
| OSome (i : nat)
| OZero (t : ty)
| OAsLeft (i : nat)                       (* as_left + to_value *)
| OAsRight (i : nat)
| OFst (i : nat)                          (* as_product .0 + to_value *)
| OSnd (i : nat)
| OPadded (t : ty) (bytes : list N)       (* from_padded_bits on BitIter over bytes *)
| OCompact (t : ty) (bytes : list N)      (* from_compact_bits *)
| OPrune (i : nat) (t : ty)
| OMach (t : ty) (bytes : list N)         (* Bit Machine output: from_padded_bits of the output frame *)
| OMachW (i : nat)                        (* Bit Machine output of a witness node holding pool[i]:
                                             write_value copies iter_padded, exec reads it back *)
| OCtx8 (mid : list N) (count : N) (buffer : list N)   (* Value::ctx8 *)
| OIsType (i : nat) (t : ty)              (* pool[i] again, and Value::is_of_type(t) as extra number *)
| OEncV (i : nat).                        (* encode_value then from_compact_bits: the value again (decoded from its own
                                             compact bits), and the number of bits written as extra number *)

(* a pool entry: a value or a failure code
   1 = None (accessor / prune / missing operand)   2 = EarlyEndOfStream
   3 = SliceTooLarge   8 = out of fuel (model only)   9 = panic *)
Inductive entry : Type := EV (v : value) | EN (code : N).

Definition of_res (r : res value) : entry :=
  match r with
  | Ok v => EV v
  | Err _ => EN 2
  | Panic _ => EN 9
  | OutOfFuel => EN 8
  end.

Definition of_opt (o : option value) : entry :=
  match o with Some v => EV v | None => EN 1 end.

Definition get (pool : list entry) (i : nat) : option value :=
  match nth_error pool i with Some (EV v) => Some v | _ => None end.

Definition with1 (pool : list entry) (i : nat) (f : value -> entry) : entry :=
  match get pool i with Some v => f v | None => EN 1 end.

(* decode: entry and, on success, the number of bits consumed *)
Definition decode (f : list bool -> ty -> res (value * list bool)) (t : ty) (bytes : list N)
  : entry * list N :=
  let stream := bits_of_bytes bytes in
  match f stream t with
  | Ok (v, rest) => (EV v, [N.of_nat (length stream - length rest)])
  | Err _ => (EN 2, [])
  | Panic _ => (EN 9, [])
  | OutOfFuel => (EN 8, [])
  end.

Definition run_op (pool : list entry) (op : pop) : entry * list N :=
  match op with
  | OUnit => (EV v_unit, [])
  | OWordInt k n => (of_res (v_word_int k n), [])
  | OWordBytes k bytes => (EV (v_word_bytes k bytes), [])
  | OByteArray bytes => (of_res (v_from_byte_array bytes), [])
  | OBuffer n data =>
      (match v_buffer8 n data with
       | Ok (Some v) => EV v
       | Ok None => EN 3
       | Err _ => EN 2
       | Panic _ => EN 9
       | OutOfFuel => EN 8
       end, [])
  | OLeft i r => (with1 pool i (fun v => of_res (v_left v r)), [])
  | ORight l i => (with1 pool i (fun v => of_res (v_right l v)), [])
  | OProd i j => (with1 pool i (fun a => with1 pool j (fun b => of_res (v_product a b))), [])
  | ONone r => (of_res (v_none r), [])
  | OSome i => (with1 pool i (fun v => of_res (v_some v)), [])
  | OZero t => (EV (v_zero t), [])
  | OAsLeft i => (with1 pool i (fun v => of_opt (as_left v)), [])
  | OAsRight i => (with1 pool i (fun v => of_opt (as_right v)), [])
  | OFst i => (with1 pool i (fun v => of_opt (option_map fst (as_product v))), [])
  | OSnd i => (with1 pool i (fun v => of_opt (option_map snd (as_product v))), [])
  | OPadded t bytes => decode from_padded_bits t bytes
  | OCompact t bytes => decode from_compact_bits t bytes
  | OPrune i t =>
      (with1 pool i (fun v =>
         match prune v t with
         | Ok (Some x) => EV x
         | Ok None => EN 1
         | Err _ => EN 2
         | Panic _ => EN 9
         | OutOfFuel => EN 8
         end), [])
  | OMach t bytes =>
      (* the harness reads the output frame through a bit window of exactly width bits
         over the machine's data; consumption is not observable there *)
      (fst (decode from_padded_bits t bytes), [])
  | OMachW i =>
      (with1 pool i (fun v =>
         (* exec returns Value::unit() when the target type has width 0 *)
         if bw (vty v) =? 0 then EV v_unit else
         match iter_padded v with
         | Ok p => match from_padded_bits p (vty v) with
                   | Ok (x, _) => EV x
                   | Err _ => EN 2
                   | Panic _ => EN 9
                   | OutOfFuel => EN 8
                   end
         | Err _ => EN 2
         | Panic _ => EN 9
         | OutOfFuel => EN 8
         end), [])
  | OCtx8 mid count buffer =>
      (match v_ctx8 mid count buffer with
       | Ok (Some v) => EV v
       | Ok None => EN 3
       | Err _ => EN 2
       | Panic _ => EN 9
       | OutOfFuel => EN 8
       end, [])
  | OIsType i t =>
      match get pool i with
      | Some v => (EV v, [b2n (is_of_type v t)])
      | None => (EN 1, [])
      end
  | OEncV i =>
      match get pool i with
      | Some v =>
          match iter_compact v with
          | Ok c => match from_compact_bits c (vty v) with
                    | Ok (x, _) => (EV x, [N.of_nat (length c)])
                    | Err _ => (EN 2, [])
                    | Panic _ => (EN 9, [])
                    | OutOfFuel => (EN 8, [])
                    end
          | Err _ => (EN 2, [])
          | Panic _ => (EN 9, [])
          | OutOfFuel => (EN 8, [])
          end
      | None => (EN 1, [])
      end
  end.

Definition entry_code (e : entry) : N := match e with EV _ => 0 | EN c => c end.

(* runs the ops; returns the pool and the status log (code [consumed] per op) *)
Fixpoint run_ops (pool : list entry) (ops : list pop) (log : list N) : list entry * list N :=
  match ops with
  | [] => (pool, log)
  | op :: r =>
      let '(e, extra) := run_op pool op in
      run_ops (pool ++ [e]) r (log ++ entry_code e :: extra)
  end.

(* ---------------------------------------------------------------- observations *)

Fixpoint word_of (t : ty) : option N :=
  match t with
  | Sum One One => Some 0
  | Prod a b =>
      match word_of a, word_of b with
      | Some x, Some y => if x =? y then Some (x + 1) else None
      | _, _ => None
      end
  | _ => None
  end.

(* pre-order tokens: 0 unit, 1 sum, 2 product, 3 k = the word type 2^(2^k) *)
Fixpoint ty_tokens (t : ty) : list N :=
  match word_of t with
  | Some k => [3; k]
  | None =>
      match t with
      | One => [0]
      | Sum a b => 1 :: ty_tokens a ++ ty_tokens b
      | Prod a b => 2 :: ty_tokens a ++ ty_tokens b
      end
  end.

Definition bits_to_N (l : list bool) : list N := map b2n l.

Definition with_len (l : list N) : list N := N.of_nat (length l) :: l.

(* one entry: type, raw offset, raw bytes, padded bits, compact bits, compact_len, padded_len *)
Definition obs_value (v : value) : res (list N) :=
  obind (iter_padded v) (fun p =>
  obind (iter_compact v) (fun c =>
  obind (compact_len v) (fun cl =>
  Ok (with_len (ty_tokens (vty v)) ++ [off v] ++ with_len (buf v)
      ++ with_len (bits_to_N p) ++ with_len (bits_to_N c) ++ [cl; padded_len v])))).

Fixpoint obs_pool (pool : list entry) : res (list N) :=
  match pool with
  | [] => Ok []
  | EN _ :: r => obs_pool r
  | EV v :: r => obind (obs_value v) (fun a => obind (obs_pool r) (fun b => Ok (a ++ b)))
  end.

Definition flat (r : res (list N)) : list N :=
  match r with
  | Ok l => l
  | Err _ => [9]
  | Panic _ => [9]
  | OutOfFuel => [8]
  end.

(* kind pool: status log, separator 777, observations of every value in the pool *)
Definition run_pool (ops : list pop) : list N :=
  let '(pool, log) := run_ops [] ops [] in
  flat (obind (obs_pool pool) (fun o => Ok (log ++ 777 :: o))).

Definition cmp_code (c : comparison) : N := match c with Lt => 0 | Eq => 1 | Gt => 2 end.

(* one ordered pair: ==, cmp (0 lt / 1 eq / 2 gt; 3 = types differ), hash streams equal *)
Definition obs_pair (a b : value) : res (list N) :=
  obind (v_eq a b) (fun e =>
  obind (v_cmp ty_cmp a b) (fun c =>
  obind (v_hash a) (fun ha =>
  obind (v_hash b) (fun hb =>
  Ok [b2n e;
      if ty_eqb (vty a) (vty b) then cmp_code c else 3;
      b2n (ty_eqb (fst ha) (fst hb) && list_beq Bool.eqb (snd ha) (snd hb))])))).

Fixpoint values_of (pool : list entry) : list value :=
  match pool with
  | [] => []
  | EV v :: r => v :: values_of r
  | EN _ :: r => values_of r
  end.

Fixpoint obs_row (a : value) (vs : list value) : res (list N) :=
  match vs with
  | [] => Ok []
  | b :: r => obind (obs_pair a b) (fun x => obind (obs_row a r) (fun y => Ok (x ++ y)))
  end.

Fixpoint obs_matrix (rows vs : list value) : res (list N) :=
  match rows with
  | [] => Ok []
  | a :: r => obind (obs_row a vs) (fun x => obind (obs_matrix r vs) (fun y => Ok (x ++ y)))
  end.

Fixpoint select (pool : list entry) (sel : list nat) : list value :=
  match sel with
  | [] => []
  | i :: r => match get pool i with Some v => v :: select pool r | None => select pool r end
  end.

(* kind pair: status log, 777, then for every ordered pair of the selected pool values
   (row-major, the diagonal included; failed entries are skipped) the three numbers of [obs_pair] *)
Definition run_pair (sel : list nat) (ops : list pop) : list N :=
  let '(pool, log) := run_ops [] ops [] in
  let vs := select pool sel in
  flat (obind (obs_matrix vs vs) (fun o => Ok (log ++ 777 :: o))).
