(* C03 - theorems about the reference of Cdiff/Reference.v.  They are statements about the
   REFERENCE (hand-written Gallina), obtained from the theorems of the sibling families:
     Codec   syntax_canon_elements, dec_total_elements, dec_struct_order, dec_struct_total,
             witness_canon
     Infer   infer_sound, infer_least, infer_complete_iff, infer_total_outcome
     Merkle  ccmr_cmr_spec instantiated with SHA-256 (the root of every node is cmr_spec of
             the erased structure)
     Cdiff   c_cost_saturates, rust_cost_eq_c
   Neither the Rust nor the C code is mentioned: both are tied to the reference by comparison
   (tools/props/c03.py). *)
From Coq Require Import Uint63 String.
From RS Require Import Lib.Tac Lib.Outcome Lib.Bits Lib.ListExtra Lib.Sweep Ty.Ty Core.Prog
  Bits.Natural Bits.BitIter
  Jets.JetTable Jets.TypeName Generated.Jets_elements
  Codec.NodeCodec Codec.ProgCodec Codec.Linearise Codec.Decode Codec.Structure Codec.WitnessCodec Codec.RealJets
  Infer.Constraints Infer.Unify Infer.Infer Infer.Theorems
  Merkle.Sha256 Merkle.Tagged Merkle.Cmr Merkle.CmrStructure Merkle.Ihr Merkle.Real Merkle.RealSpec
  Cdiff.CostRef Cdiff.CostRustC Cdiff.Reference.
Import ListNotations.
Local Open Scope N_scope.

(* ------------------------------------------------------------------ the jet table is the regenerated one *)
Lemma gz_spec t : gty_ty (snd (gz t)) = t /\ (forall n, fst (gz t) = Some n -> t = word_ty n).
Proof.
  induction t as [|a [IHa1 IHa2] b [IHb1 IHb2]|a [IHa1 IHa2] b [IHb1 IHb2]].
  - split; [reflexivity|intros n H; discriminate H].
  - cbn [gz]. destruct a, b; cbn [fst snd gty_ty] in *; rewrite ?IHa1, ?IHb1;
      (split; [reflexivity|intros n H; try discriminate H]).
    injection H as <-. reflexivity.
  - cbn [gz]. destruct (gz a) as [wa ga], (gz b) as [wb gb]. cbn [fst snd] in *.
    destruct wa as [n|], wb as [m|]; cbn [fst snd gty_ty]; rewrite ?IHa1, ?IHb1;
      try (split; [reflexivity|intros k H; discriminate H]).
    destruct (Nat.eqb_spec n m) as [->|Hnm]; cbn [fst snd gty_ty].
    + rewrite (IHa2 m eq_refl), (IHb2 m eq_refl). split; [reflexivity|].
      intros k H. injection H as <-. reflexivity.
    + rewrite IHa1, IHb1. split; [reflexivity|intros k H; discriminate H].
Qed.

(* every row of the regenerated Elements table is in elements_jt with the types its TypeName
   strings denote *)
Definition row_in_jt (r : jet_row) : bool :=
  match jet_lookup elements_jt 1 (j_idx r), tn_to_final (j_src r), tn_to_final (j_tgt r) with
  | Some (gs, gt), Ok s, Ok t => ty_eqb (gty_ty gs) s && ty_eqb (gty_ty gt) t
  | _, _, _ => false
  end.

Lemma elements_jt_complete : forallb row_in_jt (f_rows elements_family) = true.
Proof. vm_compute. reflexivity. Qed.

Theorem elements_jt_types : forall r, In r (f_rows elements_family) ->
  exists gs gt, jet_lookup elements_jt 1 (j_idx r) = Some (gs, gt) /\
    tn_to_final (j_src r) = Ok (gty_ty gs) /\ tn_to_final (j_tgt r) = Ok (gty_ty gt).
Proof.
  intros r Hr. pose proof elements_jt_complete as C. rewrite forallb_forall in C. specialize (C r Hr).
  unfold row_in_jt in C.
  destruct (jet_lookup elements_jt 1 (j_idx r)) as [[gs gt]|]; [|discriminate].
  destruct (tn_to_final (j_src r)) as [s| | |]; try discriminate.
  destruct (tn_to_final (j_tgt r)) as [t| | |]; try discriminate.
  apply andb_true_iff in C. destruct C as [C1 C2]. apply ty_eqb_eq in C1, C2. subst.
  exists gs, gt. auto.
Qed.

(* ------------------------------------------------------------------ inversion of an accepting run *)
Definition prog_of (ns : list dn) : prog := map to_node ns.
Definition root_of (ns : list dn) : option nat := Some (length (prog_of ns) - 1)%nat.

Inductive accept_run (pb wb : list N) (a : accepted) : Prop :=
| mk_run (ar_rest : list bool) (ar_vs : list sval) (ar_wrest : list bool)
    (ar_ct : list (rH + rH)) (ar_rt : list (rdata rH + rH))
    (ar_dec : dec_prog N elements_dec (bits_of_bytes pb) = Ok (a_nodes a, ar_rest))
    (ar_struct : dec_struct (a_nodes a) = Ok tt)
    (ar_close : close_after pb (consumed (bits_of_bytes pb) ar_rest) = Ok tt)
    (ar_nodisc1 : existsb is_disc1 (a_nodes a) = false)
    (ar_infer : infer elements_jt (root_of (a_nodes a)) (prog_of (a_nodes a)) = Ok (a_tau a))
    (ar_limit : existsb (fun t => CELLS_MAX <? width t) (wit_tys (prog_of (a_nodes a)) (a_tau a)) = false)
    (ar_wit : read_witnesses (wit_tys (prog_of (a_nodes a)) (a_tau a)) (bits_of_bytes wb) = Some (ar_vs, ar_wrest))
    (ar_wclose : close_after wb (consumed (bits_of_bytes wb) ar_wrest) = Ok tt)
    (ar_table : a_table a = fill (prog_of (a_nodes a)) (a_tau a) ar_vs)
    (ar_cmrs : ref_cmrs (prog_of (a_nodes a)) = Ok ar_ct)
    (ar_redeem : ref_redeem (a_table a) = Ok ar_rt)
    (ar_costs : ref_costs (a_table a) = Some (a_costs a))
    (ar_nodup : nodup_bytes (map ih_bytes ar_rt) = true)
    (ar_cmr : a_cmr a = root_cmr ar_ct)
    (ar_amr : a_amr a = root_amr ar_rt)
    (ar_ihr : a_ihr a = root_ihr ar_rt)
    (ar_fail : a_has_fail a = existsb is_fail (a_nodes a)).

Lemma unit_eta (u : unit) : u = tt.
Proof. destruct u. reflexivity. Qed.

Lemma reference_accept_inv pb wb a : reference pb wb = VAccept a -> accept_run pb wb a.
Proof.
  unfold reference. intros H.
  destruct (dec_prog N elements_dec (bits_of_bytes pb)) as [[ns rest]| | |] eqn:Ed; try discriminate.
  unfold ref_decoded in H.
  destruct (dec_struct ns) as [u| | |] eqn:Es; try discriminate. rewrite (unit_eta u) in Es.
  destruct (close_after pb (consumed (bits_of_bytes pb) rest)) as [u1| | |] eqn:Ec; try discriminate.
  rewrite (unit_eta u1) in Ec.
  destruct (existsb is_disc1 ns) eqn:E1; [discriminate|].
  destruct (infer elements_jt (Some (length (map to_node ns) - 1)%nat) (map to_node ns)) as [tau| | |] eqn:Ei; try discriminate.
  unfold ref_typed in H.
  destruct (existsb (fun t => CELLS_MAX <? width t) (wit_tys (map to_node ns) tau)) eqn:El; [discriminate|].
  destruct (read_witnesses (wit_tys (map to_node ns) tau) (bits_of_bytes wb)) as [[vs wrest]|] eqn:Ew; [|discriminate].
  destruct (close_after wb (consumed (bits_of_bytes wb) wrest)) as [u2| | |] eqn:Ec2; try discriminate.
  rewrite (unit_eta u2) in Ec2.
  destruct (ref_cmrs (map to_node ns)) as [ct| | |] eqn:Ect; try discriminate.
  destruct (ref_redeem (fill (map to_node ns) tau vs)) as [rt| | |] eqn:Ert; try discriminate.
  destruct (ref_costs (fill (map to_node ns) tau vs)) as [k|] eqn:Ek; try discriminate.
  destruct (nodup_bytes (map ih_bytes rt)) eqn:En; [|discriminate].
  injection H as <-.
  apply (mk_run pb wb _ rest vs wrest ct rt); cbn [a_nodes a_tau a_table a_cmr a_amr a_ihr a_costs a_has_fail];
    unfold prog_of, root_of; first [assumption | reflexivity].
Qed.

(* ------------------------------------------------------------------ 1. accept => canonical encoding *)
Theorem ref_accept_canonical pb wb a : reference pb wb = VAccept a ->
  exists rest,
    bits_of_bytes pb = enc_prog N elements_enc (a_nodes a) ++ rest /\
    wf_prog N elements_okb (a_nodes a) /\
    order_of (a_nodes a) key_ptr = upto (length (a_nodes a)) /\
    dec_struct (a_nodes a) = Ok tt /\
    close_after pb (consumed (bits_of_bytes pb) rest) = Ok tt /\
    (forall d, In d (a_nodes a) -> is_disc1 d = false).
Proof.
  intros H. destruct (reference_accept_inv _ _ _ H) as [rest vs wrest ct rt Ed Es Ec E1 _ _ _ _ _ _ _ _ _ _ _ _ _].
  destruct (syntax_canon_elements _ _ _ Ed) as [Hb Hwf].
  exists rest. split; [exact Hb|]. split; [exact Hwf|]. split.
  { destruct Hwf as (_ & _ & Hn). exact (dec_struct_order N elements_okb _ Hn Es). }
  split; [exact Es|]. split; [exact Ec|].
  - intros d Hd. destruct (is_disc1 d) eqn:E; [|reflexivity].
    assert (X : existsb is_disc1 (a_nodes a) = true) by (apply existsb_exists; exists d; auto).
    congruence.
Qed.

(* ------------------------------------------------------------------ 2. accept => well typed, principal *)
Theorem ref_accept_typed pb wb a : reference pb wb = VAccept a ->
  check_typing elements_jt (root_of (a_nodes a)) (prog_of (a_nodes a)) (a_tau a) = true /\
  (forall tau, check_typing elements_jt (root_of (a_nodes a)) (prog_of (a_nodes a)) tau = true ->
               typing_le (a_tau a) tau = true).
Proof.
  intros H. destruct (reference_accept_inv _ _ _ H) as [rest vs wrest ct rt _ _ _ _ Ei _ _ _ _ _ _ _ _ _ _ _ _].
  split; [exact (infer_sound _ _ _ _ Ei)|].
  intros tau C. exact (infer_least _ _ _ _ _ Ei C).
Qed.

(* ------------------------------------------------------------------ 3. accept => the witness stream is the encoding of typed values *)
Theorem ref_accept_witness pb wb a : reference pb wb = VAccept a ->
  exists vs wrest,
    bits_of_bytes wb = enc_witnesses vs ++ wrest /\
    all_typed vs (wit_tys (prog_of (a_nodes a)) (a_tau a)) = true /\
    close_after wb (consumed (bits_of_bytes wb) wrest) = Ok tt /\
    a_table a = fill (prog_of (a_nodes a)) (a_tau a) vs /\
    Forall (fun t => width t <= CELLS_MAX) (wit_tys (prog_of (a_nodes a)) (a_tau a)).
Proof.
  intros H. destruct (reference_accept_inv _ _ _ H) as [rest vs wrest ct rt _ _ _ _ _ El Ew Ec2 Et _ _ _ _ _ _ _ _].
  destruct (witness_canon _ _ _ _ Ew) as [Hb Ht].
  exists vs, wrest. repeat split; auto.
  apply Forall_forall. intros t Ht'.
  destruct (N.ltb_spec CELLS_MAX (width t)) as [Hlt|Hge]; [|exact Hge].
  assert (X : existsb (fun t => CELLS_MAX <? width t) (wit_tys (prog_of (a_nodes a)) (a_tau a)) = true).
  { apply existsb_exists. exists t. split; [exact Ht'|]. apply N.ltb_lt. exact Hlt. }
  rewrite X in El. discriminate El.
Qed.

(* ------------------------------------------------------------------ 4. accept => roots *)
Lemma real_ccmr_cmr_spec : forall p t,
  ref_cmrs p = Ok t -> map (val_cmr rH r_ccmr_alg) t = map r_cmr_spec (r_erase p).
Proof.
  exact (@ccmr_cmr_spec rH r_compress r_iv r_zero r_of_weight r_bit_cmr r_tmr_unit r_two_two_n r_jet_cmr
           r_h_of_bytes real_bits_ok real_tmr_unit_ok real_two_two_n_ok).
Qed.

Lemma last_map {A B} (f : A -> B) (l : list A) d : l <> [] -> last (map f l) (f d) = f (last l d).
Proof.
  induction l as [|x [|y l] IH]; intros Hne; [congruence|reflexivity|].
  change (map f (x :: y :: l)) with (f x :: map f (y :: l)).
  change (last (f x :: map f (y :: l)) (f d)) with (last (map f (y :: l)) (f d)).
  change (last (x :: y :: l) d) with (last (y :: l) d).
  apply IH. discriminate.
Qed.

Lemma last_indep {A} (l : list A) d d' : l <> [] -> last l d = last l d'.
Proof.
  induction l as [|x [|y l] IH]; intros Hne; [congruence|reflexivity|].
  change (last (x :: y :: l) d) with (last (y :: l) d).
  change (last (x :: y :: l) d') with (last (y :: l) d').
  apply IH. discriminate.
Qed.

Lemma map_nonempty {A B} (f : A -> B) (l l' : list A) : map f l = map f l' -> l' <> [] -> l <> [].
Proof. intros H Hne ->. destruct l'; [congruence|discriminate H]. Qed.

(* the commitment root is the root hashed from scratch (SHA-256) from the committed structure of
   the decoded table: combinators, jets, words, fail entropies, hidden roots - no witness value,
   no disconnected branch, no type; identity and annotated roots are those Merkle.Ihr.redeem_table
   computes for the typed table with its witness values; all identity hashes differ *)
Theorem ref_accept_roots pb wb a : reference pb wb = VAccept a ->
  a_cmr a = bytes_of_state (r_cmr_spec (last (r_erase (prog_of (a_nodes a))) Cmr.CUnit)) /\
  exists rt, ref_redeem (a_table a) = Ok rt /\
    a_amr a = root_amr rt /\ a_ihr a = root_ihr rt /\ nodup_bytes (map ih_bytes rt) = true.
Proof.
  intros H. destruct (reference_accept_inv _ _ _ H) as [rest vs wrest ct rt Ed _ _ _ _ _ _ _ _ Ect Ert _ En Ecm Eam Eih _].
  split; [|exists rt; auto].
  rewrite Ecm. unfold root_cmr. f_equal.
  pose proof (real_ccmr_cmr_spec _ _ Ect) as S.
  destruct (syntax_canon_elements _ _ _ Ed) as [_ (Hne & _ & _)].
  assert (Hp : prog_of (a_nodes a) <> []).
  { unfold prog_of. intros E. apply map_eq_nil in E. contradiction. }
  assert (He : r_erase (prog_of (a_nodes a)) <> []).
  { intros E. apply (f_equal (@length _)) in S. rewrite !map_length, E in S. cbn in S.
    assert (L : length ct = length (prog_of (a_nodes a))).
    { unfold ref_cmrs, drive in Ect. apply tfoldM_length in Ect. cbn in Ect. lia. }
    destruct (prog_of (a_nodes a)); [congruence|]. cbn in L. lia. }
  assert (Hct : ct <> []).
  { intros E. subst ct. cbn in S. symmetry in S. apply map_eq_nil in S. contradiction. }
  transitivity (last (map (val_cmr rH r_ccmr_alg) ct) (val_cmr rH r_ccmr_alg (inr r_zero))).
  { symmetry. apply last_map. exact Hct. }
  rewrite S. rewrite (last_indep _ _ (r_cmr_spec Cmr.CUnit)) by (intros E; apply map_eq_nil in E; contradiction).
  apply last_map. exact He.
Qed.

(* ------------------------------------------------------------------ 5. accept => cost *)
Theorem ref_accept_cost pb wb a : reference pb wb = VAccept a ->
  exists ns, annotate elements_cost (a_table a) = Some ns /\
    k_ideal (a_costs a) = ideal_cost ns /\
    k_c (a_costs a) = N.min (ideal_cost ns) CostRef.u32_max /\
    k_rust (a_costs a) = rust_cost ns /\
    (Forall small ns -> k_rust (a_costs a) = Ok (k_c (a_costs a))).
Proof.
  intros H. destruct (reference_accept_inv _ _ _ H) as [rest vs wrest ct rt _ _ _ _ _ _ _ _ _ _ _ Ek _ _ _ _ _].
  unfold ref_costs in Ek. destruct (annotate elements_cost (a_table a)) as [ns|]; [|discriminate].
  injection Ek as <-. exists ns. cbn [k_ideal k_c k_rust]. repeat split.
  - apply c_cost_saturates.
  - intros Hs. apply rust_cost_eq_c. exact Hs.
Qed.

(* ------------------------------------------------------------------ 6. the reject classes *)
Lemma class_of_dec_err_range e : In (class_of_dec_err e) [1; 2; 3; 4; 7; 10].
Proof. destruct e as [| |[]| | | | |]; cbn; auto 10. Qed.

Theorem ref_reject_classes pb wb c : reference pb wb = VReject c ->
  In c [1; 2; 3; 4; 6; 7; 8; 9; 10; 11].
Proof.
  assert (X : forall e, In (class_of_dec_err e) [1; 2; 3; 4; 6; 7; 8; 9; 10; 11]).
  { intros e. pose proof (class_of_dec_err_range e) as R. cbn in R |- *. intuition. }
  unfold reference. intros H.
  destruct (dec_prog N elements_dec (bits_of_bytes pb)) as [[ns rest]|e| |]; try discriminate;
    [|injection H as <-; apply X].
  unfold ref_decoded in H.
  destruct (dec_struct ns) as [u|e| |]; try discriminate; [|injection H as <-; apply X].
  destruct (close_after pb (consumed (bits_of_bytes pb) rest)) as [u1|e| |]; try discriminate;
    [|injection H as <-; cbn; auto].
  destruct (existsb is_disc1 ns); [injection H as <-; cbn; auto 10|].
  destruct (infer elements_jt (Some (length (map to_node ns) - 1)%nat) (map to_node ns)) as [tau|e| |]; try discriminate;
    [|injection H as <-; cbn; auto 10].
  unfold ref_typed in H.
  destruct (existsb (fun t => CELLS_MAX <? width t) (wit_tys (map to_node ns) tau)); [injection H as <-; cbn; auto 12|].
  destruct (read_witnesses (wit_tys (map to_node ns) tau) (bits_of_bytes wb)) as [[vs wrest]|]; [|injection H as <-; cbn; auto 12].
  destruct (close_after wb (consumed (bits_of_bytes wb) wrest)) as [u2|e| |]; try discriminate;
    [|injection H as <-; cbn; auto 12].
  destruct (ref_cmrs (map to_node ns)) as [ct| | |]; try discriminate.
  destruct (ref_redeem (fill (map to_node ns) tau vs)) as [rt| | |]; try discriminate.
  destruct (ref_costs (fill (map to_node ns) tau vs)) as [k|]; try discriminate.
  destruct (nodup_bytes (map ih_bytes rt)); [discriminate|]. injection H as <-. cbn. auto 12.
Qed.

(* a fail node never makes the reference reject (class 5 is libsimplicity's alone) ... *)
Corollary ref_never_fail_class pb wb : reference pb wb <> VReject 5.
Proof. intros H. apply ref_reject_classes in H. cbn in H. intuition discriminate. Qed.

(* ------------------------------------------------------------------ 7. what each typing / syntax class means *)
(* the stages before inference, as a predicate *)
Definition decodes_to (pb : list N) (ns : list dn) : Prop :=
  exists rest, dec_prog N elements_dec (bits_of_bytes pb) = Ok (ns, rest) /\ dec_struct ns = Ok tt /\
    close_after pb (consumed (bits_of_bytes pb) rest) = Ok tt /\ existsb is_disc1 ns = false.

(* class 8 (type error) is reported exactly for the decodable programs that have NO typing with
   root 1 -> 1 at all (completeness of the reference inference) *)
Theorem ref_reject_type_iff pb wb ns : decodes_to pb ns ->
  (reference pb wb = VReject 8 <->
   forall tau, check_typing elements_jt (root_of ns) (prog_of ns) tau = false).
Proof.
  intros (rest & Ed & Es & Ec & E1). unfold reference. rewrite Ed. unfold ref_decoded. rewrite Es, Ec, E1.
  fold (prog_of ns). fold (root_of ns).
  pose proof (infer_total_outcome elements_jt (root_of ns) (prog_of ns)) as T.
  destruct (infer elements_jt (root_of ns) (prog_of ns)) as [tau|e| |] eqn:Ei; try contradiction.
  - split.
    + intros H. exfalso. unfold ref_typed in H.
      destruct (existsb (fun t => CELLS_MAX <? width t) _); [discriminate|].
      destruct (read_witnesses _ _) as [[vs wrest]|]; [|discriminate].
      destruct (close_after wb _) as [u| | |]; try discriminate.
      destruct (ref_cmrs _) as [ct| | |]; try discriminate.
      destruct (ref_redeem _) as [rt| | |]; try discriminate.
      destruct (ref_costs _) as [k|]; try discriminate.
      destruct (nodup_bytes _); discriminate.
    + intros H. pose proof (infer_sound _ _ _ _ Ei) as C. rewrite H in C. discriminate.
  - split; [|reflexivity]. intros _ tau.
    destruct (check_typing elements_jt (root_of ns) (prog_of ns) tau) eqn:C; [|reflexivity].
    destruct (proj1 (infer_complete_iff elements_jt (root_of ns) (prog_of ns)) (ex_intro _ tau C)) as (t0 & E0).
    congruence.
Qed.

(* the syntactic classes are those of the decoder model: the reference rejects in the first stage
   exactly when Codec's dec_prog does, with the class of its error *)
Theorem ref_reject_syntax pb wb e :
  dec_prog N elements_dec (bits_of_bytes pb) = Err e -> reference pb wb = VReject (class_of_dec_err e).
Proof. intros H. unfold reference. rewrite H. reflexivity. Qed.

Theorem ref_reject_structure pb wb ns rest e :
  dec_prog N elements_dec (bits_of_bytes pb) = Ok (ns, rest) -> dec_struct ns = Err e ->
  reference pb wb = VReject (class_of_dec_err e).
Proof. intros H1 H2. unfold reference. rewrite H1. unfold ref_decoded. rewrite H2. reflexivity. Qed.

(* ------------------------------------------------------------------ 8. totality of the stages before the roots *)
Lemma close_after_total bytes pos :
  match close_after bytes pos with Panic _ | OutOfFuel => False | _ => True end.
Proof.
  unfold close_after, bi_close, reader_after. cbn [bi_rest bi_read_bits bi_cached].
  destruct (skipn _ bytes); [|exact I].
  set (rb := if pos mod 8 =? 0 then 8 else pos mod 8).
  assert (R : (rb <? 1) || (8 <? rb) = false).
  { subst rb. destruct (N.eqb_spec (pos mod 8) 0) as [E|E]; [reflexivity|].
    apply orb_false_iff. split; apply N.ltb_ge; pose proof (N.mod_lt pos 8); lia. }
  rewrite R. match goal with |- context [if ?c then Ok tt else _] => destruct c end; exact I.
Qed.

(* the only internal error the reference can report is code 6 (a root or cost function failed on
   a decoded, typed, witness-filled table); the evaluation reports it if it ever happens *)
Theorem ref_internal_only_roots pb wb c : reference pb wb = VInternal c -> c = 6.
Proof.
  unfold reference. intros H.
  pose proof (dec_total_elements (bits_of_bytes pb)) as T1.
  destruct (dec_prog N elements_dec (bits_of_bytes pb)) as [[ns rest]|e| |] eqn:Ed; try contradiction; try discriminate.
  unfold ref_decoded in H.
  destruct (syntax_canon_elements _ _ _ Ed) as [_ (Hne & _ & Hwf)].
  pose proof (dec_struct_total N elements_okb ns Hwf Hne) as T2.
  destruct (dec_struct ns) as [u|e| |]; try contradiction; try discriminate.
  pose proof (close_after_total pb (consumed (bits_of_bytes pb) rest)) as T3.
  destruct (close_after pb (consumed (bits_of_bytes pb) rest)) as [u1|e| |]; try contradiction; try discriminate.
  destruct (existsb is_disc1 ns); [discriminate|].
  pose proof (infer_total_outcome elements_jt (Some (length (map to_node ns) - 1)%nat) (map to_node ns)) as T4.
  destruct (infer elements_jt (Some (length (map to_node ns) - 1)%nat) (map to_node ns)) as [tau|e| |]; try contradiction; try discriminate.
  unfold ref_typed in H.
  destruct (existsb (fun t => CELLS_MAX <? width t) (wit_tys (map to_node ns) tau)); [discriminate|].
  destruct (read_witnesses (wit_tys (map to_node ns) tau) (bits_of_bytes wb)) as [[vs wrest]|]; [|discriminate].
  pose proof (close_after_total wb (consumed (bits_of_bytes wb) wrest)) as T5.
  destruct (close_after wb (consumed (bits_of_bytes wb) wrest)) as [u2|e| |]; try contradiction; try discriminate.
  destruct (ref_cmrs (map to_node ns)) as [ct| | |]; try (injection H as <-; reflexivity);
  destruct (ref_redeem (fill (map to_node ns) tau vs)) as [rt| | |]; try (injection H as <-; reflexivity);
  destruct (ref_costs (fill (map to_node ns) tau vs)) as [k|]; try (injection H as <-; reflexivity).
  destruct (nodup_bytes (map ih_bytes rt)); discriminate.
Qed.

(* ------------------------------------------------------------------ non-vacuity *)
(* `unit` alone: program byte 0x24, no witness *)
Example ref_accepts_unit :
  match reference [36] [] with
  | VAccept a => a_nodes a = [DUnit] /\ a_tau a = [Some (One, One)] /\ k_c (a_costs a) = 100 /\ a_has_fail a = false
  | _ => False
  end.
Proof. vm_compute. repeat split. Qed.

Example ref_rejects_examples :
  reference [] [] = VReject 1 /\                      (* empty program: end of stream *)
  reference [36; 0] [] = VReject 2 /\                 (* trailing byte *)
  reference [0xc1; 0x28; 0x30; 0x14] [] = VReject 8 /\  (* iden; pair 0 0; comp 1 1 .. : no typing *)
  reference [36] [0] = VReject 9.                     (* unread witness byte *)
Proof. vm_compute. repeat split. Qed.
