#!/usr/bin/env python3
"""Types, values and type-directed program generation for the program-level checks.

Programs are node tables ("PDL", see harness/src/prog.rs and coq/Core/Prog.v):
a list of tuples, children referring to smaller indices, root last.
  ('iden',) ('unit',) ('injl',c) ('injr',c) ('take',c) ('drop',c) ('comp',l,r) ('case',l,r)
  ('pair',l,r) ('disc',l,r|None) ('hid',hex64) ('fail',hex128) ('jet',fam,name) ('word',n,bits)
  ('wit',None) | ('wit',('c',bits)) | ('wit',('t',ty,bits))
Types: ('u',) | ('s',a,b) | ('p',a,b).  Values: ('U',) ('L',v) ('R',v) ('P',v,w).
"""
import os
import subprocess

U = ("u",)


def S(a, b):
    return ("s", a, b)


def P(a, b):
    return ("p", a, b)


BIT = S(U, U)
_words = {0: BIT}


def word(n):
    if n not in _words:
        w = word(n - 1)
        _words[n] = P(w, w)
    return _words[n]


def opt(a):
    return S(U, a)


_wcache = {}


def width(t):
    if t not in _wcache:
        if t[0] == "u":
            r = 0
        elif t[0] == "s":
            r = 1 + max(width(t[1]), width(t[2]))
        else:
            r = width(t[1]) + width(t[2])
        _wcache[t] = r
    return _wcache[t]


def as_word(t):
    """n if t = 2^(2^n) else None"""
    n = 0
    w = BIT
    while width(w) <= width(t) and n < 12:
        if w == t:
            return n
        n += 1
        w = word(n)
    return None


DIG = "0123456789abcdefghijklmnopqrstuv"


def ty_pdl(t):
    n = as_word(t)
    if n is not None and n >= 1:
        return "w" + DIG[n]
    if t[0] == "u":
        return "u"
    return t[0] + ty_pdl(t[1]) + ty_pdl(t[2])


def ty_coq(t):
    n = as_word(t)
    if n is not None and n >= 1:
        return "(word_ty %d)" % n
    if t[0] == "u":
        return "One"
    return "(%s %s %s)" % ("Sum" if t[0] == "s" else "Prod", ty_coq(t[1]), ty_coq(t[2]))


def ty_str(t):
    n = as_word(t)
    if n is not None:
        return "2^%d" % (2 ** n) if n else "2"
    if t[0] == "u":
        return "1"
    return "(%s %s %s)" % (ty_str(t[1]), "+" if t[0] == "s" else "*", ty_str(t[2]))


def ty_from_nums(nums, pos=0):
    """parse the numeric prefix encoding printed by the harness; returns (ty, next position)"""
    k = nums[pos]
    if k == 0:
        return U, pos + 1
    if k == 3:
        return word(nums[pos + 1]), pos + 2
    a, p1 = ty_from_nums(nums, pos + 1)
    b, p2 = ty_from_nums(nums, p1)
    return ((S if k == 1 else P)(a, b)), p2


def ty_nums(t):
    n = as_word(t)
    if n is not None and n >= 1:
        return [3, n]
    if t[0] == "u":
        return [0]
    return [1 if t[0] == "s" else 2] + ty_nums(t[1]) + ty_nums(t[2])


def rand_ty(rng, depth, wordy=True):
    r = rng.below(10)
    if depth <= 0 or r < 2:
        return rng.choice([U, U, BIT, BIT, word(1), word(2), word(3)] if wordy else [U, U, BIT])
    if r < 6:
        return S(rand_ty(rng, depth - 1, wordy), rand_ty(rng, depth - 1, wordy))
    return P(rand_ty(rng, depth - 1, wordy), rand_ty(rng, depth - 1, wordy))


def ty_le(s, t):
    if s[0] == "u":
        return True
    if s[0] != t[0]:
        return False
    return ty_le(s[1], t[1]) and ty_le(s[2], t[2])


# ------------------------------------------------------------------ values
def rand_value(rng, t):
    if t[0] == "u":
        return ("U",)
    if t[0] == "s":
        if rng.below(2):
            return ("R", rand_value(rng, t[2]))
        return ("L", rand_value(rng, t[1]))
    return ("P", rand_value(rng, t[1]), rand_value(rng, t[2]))


def zero_value(t):
    if t[0] == "u":
        return ("U",)
    if t[0] == "s":
        return ("L", zero_value(t[1]))
    return ("P", zero_value(t[1]), zero_value(t[2]))


def all_values(t, limit=64):
    if t[0] == "u":
        return [("U",)]
    if t[0] == "s":
        return ([("L", v) for v in all_values(t[1], limit)] + [("R", v) for v in all_values(t[2], limit)])[:limit]
    out = []
    for a in all_values(t[1], limit):
        for b in all_values(t[2], limit):
            out.append(("P", a, b))
            if len(out) >= limit:
                return out
    return out


def has_ty(v, t):
    if t[0] == "u":
        return v[0] == "U"
    if t[0] == "s":
        return (v[0] == "L" and has_ty(v[1], t[1])) or (v[0] == "R" and has_ty(v[1], t[2]))
    return v[0] == "P" and has_ty(v[1], t[1]) and has_ty(v[2], t[2])


def compact_bits(v):
    if v[0] == "U":
        return []
    if v[0] == "L":
        return [0] + compact_bits(v[1])
    if v[0] == "R":
        return [1] + compact_bits(v[1])
    return compact_bits(v[1]) + compact_bits(v[2])


def padded_bits(t, v, pad=0):
    if t[0] == "u":
        return []
    if t[0] == "s":
        w = max(width(t[1]), width(t[2]))
        if v[0] == "L":
            return [0] + [pad] * (w - width(t[1])) + padded_bits(t[1], v[1], pad)
        return [1] + [pad] * (w - width(t[2])) + padded_bits(t[2], v[1], pad)
    return padded_bits(t[1], v[1], pad) + padded_bits(t[2], v[2], pad)


def of_compact(t, bits, pos=0):
    """returns (value, next pos) or None"""
    if t[0] == "u":
        return ("U",), pos
    if t[0] == "s":
        if pos >= len(bits):
            return None
        r = of_compact(t[2] if bits[pos] else t[1], bits, pos + 1)
        if r is None:
            return None
        return (("R" if bits[pos] else "L"), r[0]), r[1]
    a = of_compact(t[1], bits, pos)
    if a is None:
        return None
    b = of_compact(t[2], bits, a[1])
    if b is None:
        return None
    return ("P", a[0], b[0]), b[1]


def of_padded(t, bits, pos=0):
    if t[0] == "u":
        return ("U",)
    if t[0] == "s":
        w = max(width(t[1]), width(t[2]))
        if bits[pos]:
            return ("R", of_padded(t[2], bits, pos + 1 + w - width(t[2])))
        return ("L", of_padded(t[1], bits, pos + 1 + w - width(t[1])))
    return ("P", of_padded(t[1], bits, pos), of_padded(t[2], bits, pos + width(t[1])))


def val_coq(v):
    if v[0] == "U":
        return "SU"
    if v[0] == "L":
        return "(SL %s)" % val_coq(v[1])
    if v[0] == "R":
        return "(SR %s)" % val_coq(v[1])
    return "(SP %s %s)" % (val_coq(v[1]), val_coq(v[2]))


def word_value(n, x):
    """value of type 2^(2^n) holding the integer x"""
    bits = [(x >> i) & 1 for i in range(2 ** n - 1, -1, -1)]
    return of_compact(word(n), bits)[0]


def bstr(bits):
    return "".join(str(b) for b in bits) if bits else "-"


def coq_bools(bits):
    return "[" + "; ".join("true" if b else "false" for b in bits) + "]"


# ------------------------------------------------------------------ programs
def node_pdl(n):
    k = n[0]
    if k in ("iden", "unit"):
        return k
    if k in ("injl", "injr", "take", "drop"):
        return "%s.%d" % (k, n[1])
    if k in ("comp", "case", "pair"):
        return "%s.%d.%d" % (k, n[1], n[2])
    if k == "disc":
        return "disc.%d.%s" % (n[1], "-" if n[2] is None else n[2])
    if k == "hid":
        return "hid." + n[1]
    if k == "fail":
        return "fail." + n[1]
    if k == "jet":
        return "jet.%s.%s" % (n[1], n[2])
    if k == "word":
        return "word.%d.%s" % (n[1], bstr(n[2]))
    if k == "wit":
        w = n[1]
        if w is None:
            return "wit.-"
        if w[0] == "c":
            return "wit.c." + bstr(w[1])
        return "wit.t.%s.%s" % (ty_pdl(w[1]), bstr(w[2]))
    raise ValueError(k)


def prog_pdl(p):
    return ",".join(node_pdl(n) for n in p)


def hexlist(h):
    return "[" + "; ".join(str(int(h[i:i + 2], 16)) for i in range(0, len(h), 2)) + "]"


def node_coq(n, jet_ids=None):
    k = n[0]
    if k == "iden":
        return "NIden"
    if k == "unit":
        return "NUnit"
    if k in ("injl", "injr", "take", "drop"):
        return "(N%s %d)" % ({"injl": "InjL", "injr": "InjR", "take": "Take", "drop": "Drop"}[k], n[1])
    if k in ("comp", "case", "pair"):
        return "(N%s %d %d)" % (k.capitalize(), n[1], n[2])
    if k == "disc":
        return "(NDisconnect %d %s)" % (n[1], "None" if n[2] is None else "(Some %d%%nat)" % n[2])
    if k == "hid":
        return "(NHidden %s)" % hexlist(n[1])
    if k == "fail":
        return "(NFail %s)" % hexlist(n[1])
    if k == "jet":
        jid = (jet_ids or {}).get((n[1], n[2]), 0)
        return "(NJet %d %d)" % (0 if n[1] == "c" else 1, jid)
    if k == "word":
        return "(NWord %d %s)" % (n[1], coq_bools(n[2]))
    if k == "wit":
        w = n[1]
        if w is None:
            return "(NWitness WNone)"
        if w[0] == "c":
            return "(NWitness (WCompact %s))" % coq_bools(w[1])
        return "(NWitness (WTyped %s %s))" % (ty_coq(w[1]), coq_bools(w[2]))
    raise ValueError(k)


def prog_coq(p, jet_ids=None):
    return "[" + "; ".join(node_coq(n, jet_ids) for n in p) + "]"


def children(n):
    k = n[0]
    if k in ("injl", "injr", "take", "drop"):
        return [n[1]]
    if k in ("comp", "case", "pair"):
        return [n[1], n[2]]
    if k == "disc":
        return [n[1]] + ([] if n[2] is None else [n[2]])
    return []


def parse_arrows(nums):
    """result of harness `prog arrows`: [0, (4 src tgt | 5)*] -> list of (src, tgt) | None; or ('err', code)"""
    if not isinstance(nums, list) or not nums:
        return ("err", -1)
    if nums[0] != 0:
        return ("err", nums[1] if len(nums) > 1 else -1)
    out = []
    pos = 1
    while pos < len(nums):
        if nums[pos] == 5:
            out.append(None)
            pos += 1
        else:
            a, pos = ty_from_nums(nums, pos + 1)
            b, pos = ty_from_nums(nums, pos)
            out.append((a, b))
    return out


def parse_jetlist(nums):
    """result of harness `prog jetlist <fam>` -> list of (index, name, src, tgt)"""
    out = []
    pos = 0
    while pos < len(nums):
        assert nums[pos] == 7
        idx = nums[pos + 1]
        ln = nums[pos + 2]
        name = bytes(nums[pos + 3:pos + 3 + ln]).decode()
        pos = pos + 3 + ln
        s, pos = ty_from_nums(nums, pos)
        assert nums[pos] == 6
        t, pos = ty_from_nums(nums, pos + 1)
        out.append((idx, name, s, t))
    return out


class Builder:
    """Builds a node table with optional sharing of sub-terms that were generated for the same arrow."""

    def __init__(self, rng, opts=None):
        self.rng = rng
        self.nodes = []
        self.memo = {}
        self.opts = dict(share=25, witness=12, fail=1, hidden=8, disconnect=6, jets=[], word=15, comp=25)
        if opts:
            self.opts.update(opts)

    def add(self, node, key=None):
        self.nodes.append(node)
        i = len(self.nodes) - 1
        if key is not None:
            self.memo.setdefault(key, []).append(i)
        return i

    def gen(self, a, b, depth):
        """index of a freshly generated (or shared) term of intended arrow a -> b"""
        rng = self.rng
        o = self.opts
        key = (a, b)
        if key in self.memo and rng.below(100) < o["share"]:
            return rng.choice(self.memo[key])
        cands = []
        if a == b:
            cands += ["iden"] * 3
        if b == U:
            cands += ["unit"] * 3
        if depth > 0:
            if b[0] == "s":
                cands += ["injl", "injr"]
            if b[0] == "p":
                cands += ["pair"] * 2
            if a[0] == "p":
                cands += ["take", "drop"]
                if a[1][0] == "s":
                    cands += ["case"] * 3
                    if rng.below(100) < o["hidden"]:
                        cands += ["assertl", "assertr"]
            if rng.below(100) < o["comp"]:
                cands += ["comp"] * 2
            if b[0] == "p" and rng.below(100) < o["disconnect"]:
                cands += ["disc"]
        if rng.below(100) < o["witness"]:
            cands.append("wit")
        if a == U and as_word(b) is not None and rng.below(100) < o["word"]:
            cands += ["word"] * 2
        for j in o["jets"]:
            if j[2] == a and j[3] == b:
                cands += [("jet", j)] * 3
        if rng.below(100) < o["fail"]:
            cands.append("fail")
        if not cands:
            # fall back to something that always type checks
            if b == U:
                cands = ["unit"]
            elif a == b:
                cands = ["iden"]
            elif b[0] == "p":
                cands = ["pair"]
            elif b[0] == "s":
                cands = ["injl", "injr"]
            else:
                cands = ["wit"]
        c = rng.choice(cands)
        d = depth - 1
        if c == "iden":
            return self.add(("iden",), key)
        if c == "unit":
            return self.add(("unit",), key)
        if c == "injl":
            x = self.gen(a, b[1], d)
            return self.add(("injl", x), key)
        if c == "injr":
            x = self.gen(a, b[2], d)
            return self.add(("injr", x), key)
        if c == "pair":
            x = self.gen(a, b[1], d)
            y = self.gen(a, b[2], d)
            return self.add(("pair", x, y), key)
        if c == "take":
            x = self.gen(a[1], b, d)
            return self.add(("take", x), key)
        if c == "drop":
            x = self.gen(a[2], b, d)
            return self.add(("drop", x), key)
        if c == "case":
            x = self.gen(P(a[1][1], a[2]), b, d)
            y = self.gen(P(a[1][2], a[2]), b, d)
            return self.add(("case", x, y), key)
        if c == "assertl":
            x = self.gen(P(a[1][1], a[2]), b, d)
            h = self.add(("hid", "%064x" % rng.next() ** 3 % (16 ** 64) if False else "".join("%02x" % v for v in rng.bytes(32))))
            return self.add(("case", x, h), key)
        if c == "assertr":
            h = self.add(("hid", "".join("%02x" % v for v in rng.bytes(32))))
            y = self.gen(P(a[1][2], a[2]), b, d)
            return self.add(("case", h, y), key)
        if c == "comp":
            m = rand_ty(rng, 2)
            x = self.gen(a, m, d)
            y = self.gen(m, b, d)
            return self.add(("comp", x, y), key)
        if c == "disc":
            # disconnect (l : 2^256 * a -> b1 * c) (r : c -> b2) : a -> b1 * b2
            cty = rand_ty(rng, 1)
            x = self.gen(P(word(8), a), P(b[1], cty), d)
            y = self.gen(cty, b[2], d)
            return self.add(("disc", x, y), key)
        if c == "wit":
            return self.add(("wit", None), None)
        if c == "word":
            n = as_word(b)
            return self.add(("word", n, rng.bits(2 ** n)), key)
        if c == "fail":
            return self.add(("fail", "".join("%02x" % v for v in rng.bytes(64))), None)
        if isinstance(c, tuple) and c[0] == "jet":
            j = c[1]
            return self.add(("jet", j[0], j[1]), key)
        raise ValueError(c)


def gen_program(rng, a, b, depth, opts=None):
    bld = Builder(rng, opts)
    bld.gen(a, b, depth)
    return compact_prog(bld.nodes)


def compact_prog(nodes):
    """drop unreachable nodes (root = last), keep order, renumber"""
    reach = set()
    stack = [len(nodes) - 1]
    while stack:
        i = stack.pop()
        if i in reach:
            continue
        reach.add(i)
        stack += children(nodes[i])
    ren = {}
    out = []
    for i, n in enumerate(nodes):
        if i not in reach:
            continue
        ren[i] = len(out)
        k = n[0]
        if k in ("injl", "injr", "take", "drop"):
            n = (k, ren[n[1]])
        elif k in ("comp", "case", "pair"):
            n = (k, ren[n[1]], ren[n[2]])
        elif k == "disc":
            n = (k, ren[n[1]], None if n[2] is None else ren[n[2]])
        out.append(n)
    return out


def fill_witnesses(rng, prog, arrows, zero=False):
    """replace ('wit', None) by compact witnesses of the inferred target types"""
    out = []
    for n, ar in zip(prog, arrows):
        if n[0] == "wit" and n[1] is None and ar is not None:
            v = zero_value(ar[1]) if zero else rand_value(rng, ar[1])
            n = ("wit", ("c", compact_bits(v)))
        out.append(n)
    return out


# ------------------------------------------------------------------ python reference evaluator (spec)
class EvalFail(Exception):
    def __init__(self, kind, data=None):
        self.kind = kind
        self.data = data


def eval_prog(prog, arrows, i, v, jet_fn=None, cmr_of=None):
    """big-step semantics on node i with input v; arrows = inferred (src,tgt) per node.
    Raises EvalFail('pruned'|'fail'|'jet'|'nojet')."""
    n = prog[i]
    k = n[0]
    if k == "iden":
        return v
    if k == "unit":
        return ("U",)
    if k == "injl":
        return ("L", eval_prog(prog, arrows, n[1], v, jet_fn, cmr_of))
    if k == "injr":
        return ("R", eval_prog(prog, arrows, n[1], v, jet_fn, cmr_of))
    if k == "take":
        return eval_prog(prog, arrows, n[1], v[1], jet_fn, cmr_of)
    if k == "drop":
        return eval_prog(prog, arrows, n[1], v[2], jet_fn, cmr_of)
    if k == "comp":
        return eval_prog(prog, arrows, n[2], eval_prog(prog, arrows, n[1], v, jet_fn, cmr_of), jet_fn, cmr_of)
    if k == "pair":
        return ("P", eval_prog(prog, arrows, n[1], v, jet_fn, cmr_of), eval_prog(prog, arrows, n[2], v, jet_fn, cmr_of))
    if k == "case":
        s, c = v[1], v[2]
        j = n[1] if s[0] == "L" else n[2]
        if prog[j][0] == "hid":
            raise EvalFail("pruned", prog[j][1])
        return eval_prog(prog, arrows, j, ("P", s[1], c), jet_fn, cmr_of)
    if k == "wit":
        w = n[1]
        if w is None:
            raise EvalFail("nowitness")
        t = arrows[i][1] if w[0] == "c" else w[1]
        r = of_compact(t, w[-1])
        return r[0]
    if k == "word":
        return of_compact(word(n[1]), n[2])[0]
    if k == "fail":
        raise EvalFail("fail", n[1])
    if k == "jet":
        if jet_fn is None:
            raise EvalFail("nojet")
        return jet_fn(n[1], n[2], v)
    if k == "disc":
        if cmr_of is None or n[2] is None:
            raise EvalFail("nodisc")
        cm = cmr_of(n[2])  # 32 bytes
        bits = [(byte >> (7 - b)) & 1 for byte in cm for b in range(8)]
        r = eval_prog(prog, arrows, n[1], ("P", of_compact(word(8), bits)[0], v), jet_fn, cmr_of)
        return ("P", r[1], eval_prog(prog, arrows, n[2], r[2], jet_fn, cmr_of))
    raise ValueError(k)


# ------------------------------------------------------------------ harness helpers
def harness_lines(binary, command, lines, workdir, tag="pg"):
    import vplib
    return vplib.run_harness(binary, command, lines, workdir=workdir)


_jet_cache = {}


def jet_list(binary, fam, workdir):
    """(index, name, src, tgt) for every jet of the family ('c' or 'e'), from the implementation"""
    key = (binary, fam)
    if key not in _jet_cache:
        os.makedirs(workdir, exist_ok=True)
        p = os.path.join(workdir, "jetlist_%s.txt" % fam)
        open(p, "w").write("j jetlist %s\n" % fam)
        out = subprocess.run([binary, "prog", p], capture_output=True, text=True, timeout=120).stdout
        nums = [int(x) for x in out.split()[1:]]
        _jet_cache[key] = parse_jetlist(nums)
    return _jet_cache[key]
