(* C17 - model of `Forest::string_serialize` (src/human_encoding/mod.rs) at the level of
   definition lines.

   Pass 1 walks every root in post order with `InternalSharing` (one visit per node object)
   and produces one line per node: `name := <combinator> <operands>`, where the operands are
   the names of the child *objects*.  The lines go to three vectors (witness nodes, words,
   everything else) which pass 2 prints in that order: the split reorders the lines.

   `render_old` is the renderer before commit 5461b0f ("human-readable rendering walks nodes
   by identity, not by identity hash"): it walked with `MaxSharing` (one visit per identity
   hash class; nodes without identity hash always visited) but printed the names of the
   child objects all the same.

   Not modelled (search only): the characters - comment lines, column padding, the arrow
   `: A -> B` after every definition, number formats. *)
From RS Require Import Lib.Tac Lib.Outcome Human.Namer.
Import ListNotations.
Local Open Scope N_scope.

(* ------------------------------------------------------------------ post order by object *)
Definition mem_nat (i : nat) (l : list nat) : bool := existsb (Nat.eqb i) l.

Lemma mem_nat_In i l : mem_nat i l = true <-> In i l.
Proof.
  unfold mem_nat. rewrite existsb_exists. split.
  - intros [x [Hx E]]. apply Nat.eqb_eq in E. subst. exact Hx.
  - intros H. exists i. split; [exact H | apply Nat.eqb_refl].
Qed.

(* `seen`: the nodes yielded so far, newest first.  Children first (left, then right), then the
   node.  (PostOrderIter::next with the InternalSharing tracker; equality with this recursive
   form is the theorem of C18.) *)
Fixpoint po (fuel : nat) (d : ndag) (i : nat) (seen : list nat) : list nat :=
  match fuel with
  | O => seen
  | S f =>
      if mem_nat i seen then seen
      else
        let n := nget d i in
        let s1 := match nn_l n with Some c => po f d c seen | None => seen end in
        let s2 := match nn_r n with Some c => po f d c s1 | None => s1 end in
        i :: s2
  end.

Definition post_order (d : ndag) : list nat := rev (po (S (length d)) d (root_of d) []).

(* ------------------------------------------------------------------ definition lines *)
Record defline := mk_dl {
  dl_name : name;
  dl_kind : kind;
  dl_pay : list N;             (* `#cmr` of an assertion, entropy of fail, jet, word *)
  dl_l : option name;          (* name of the left child object *)
  dl_r : option name;          (* name of the right child object *)
  dl_hole : option name }.     (* `?hole` of a disconnect *)

Definition line_of (d : ndag) (i : nat) : defline :=
  let n := nget d i in
  mk_dl (nn_name n) (nn_kind n) (nn_pay n)
        (option_map (nname d) (nn_l n)) (option_map (nname d) (nn_r n)) (nn_hole n).

Definition is_wit_line (l : defline) : bool := kind_eqb (dl_kind l) KWitness.
Definition is_const_line (l : defline) : bool := kind_eqb (dl_kind l) KWord.
Definition is_prog_line (l : defline) : bool := negb (is_wit_line l) && negb (is_const_line l).

(* witness_lines ++ const_lines ++ program_lines *)
Definition sections (ls : list defline) : list defline :=
  filter is_wit_line ls ++ filter is_const_line ls ++ filter is_prog_line ls.

Definition lines_of_root (d : ndag) : list defline := map (line_of d) (post_order d).

(* one root *)
Definition render (d : ndag) : list defline := sections (lines_of_root d).
(* a forest: the roots in the (arbitrary) order in which the hash map yields them *)
Definition render_forest (roots : list ndag) : list defline := sections (flat_map lines_of_root roots).

(* names referred to by a line (operands that must be defined elsewhere; the hole of a
   disconnect is a label, not a reference) *)
Definition dl_refs (l : defline) : list name :=
  match dl_l l with Some a => [a] | None => [] end ++ match dl_r l with Some b => [b] | None => [] end.

Definition count_name (n : name) (l : list name) : nat := length (filter (name_eqb n) l).

(* ------------------------------------------------------------------ the old renderer *)
(* post order with a sharing id per node: a node whose id was recorded is not yielded again;
   a node without id is yielded on every path *)
Fixpoint po_key (fuel : nat) (d : ndag) (key : nat -> option N) (i : nat)
         (st : list N * list nat) : list N * list nat :=
  match fuel with
  | O => st
  | S f =>
      let seen_now (s : list N * list nat) :=
          match key i with Some k => existsb (N.eqb k) (fst s) | None => false end in
      if seen_now st then st
      else
        let n := nget d i in
        let s1 := match nn_l n with Some c => po_key f d key c st | None => st end in
        let s2 := match nn_r n with Some c => po_key f d key c s1 | None => s1 end in
        if seen_now s2 then s2
        else (match key i with Some k => k :: fst s2 | None => fst s2 end, i :: snd s2)
  end.

Definition post_order_key (d : ndag) (key : nat -> option N) : list nat :=
  rev (snd (po_key (S (length d)) d key (root_of d) ([], []))).

Definition render_old (d : ndag) (ihr : list (option N)) : list defline :=
  sections (map (line_of d) (post_order_key d (fun i => nth i ihr None))).

(* every operand of every line is the name of exactly one line *)
Definition all_defined (ls : list defline) : Prop :=
  forall l a, In l ls -> In a (dl_refs l) -> count_name a (map dl_name ls) = 1%nat.

Definition all_definedb (ls : list defline) : bool :=
  forallb (fun l => forallb (fun a => Nat.eqb (count_name a (map dl_name ls)) 1) (dl_refs l)) ls.

Lemma all_definedb_spec ls : all_definedb ls = true <-> all_defined ls.
Proof.
  unfold all_definedb, all_defined. rewrite forallb_forall. split.
  - intros H l a Hl Ha. specialize (H l Hl). rewrite forallb_forall in H.
    apply Nat.eqb_eq. apply H. exact Ha.
  - intros H l Hl. rewrite forallb_forall. intros a Ha. apply Nat.eqb_eq. eauto.
Qed.
