(* C14: finite checks over the complete elements table (Generated/Jets_elements.v), each by vm_compute,
   lifted to quantified statements with the lemmas of Jets/JetLemmas.v. *)
From RS Require Import Lib.Tac Lib.Outcome Lib.Bits Lib.Sweep Ty.Ty Jets.TypeName Jets.JetTable Jets.JetLemmas
  Generated.Jets_elements.
From Coq Require Import String.
Import ListNotations.
Local Open Scope N_scope.

Lemma elements_length : List.length (f_rows elements_family) = 471%nat.
Proof. vm_compute. reflexivity. Qed.

Lemma elements_idx_b : idx_ok elements_family = true.
Proof. vm_compute. reflexivity. Qed.

Lemma elements_table :
  List.length (f_rows elements_family) = 471%nat /\
  map j_idx (f_rows elements_family) = upto 471 /\ f_all elements_family = upto 471 /\ f_all_len elements_family = 471.
Proof.
  pose proof (idx_lift _ elements_idx_b) as H. rewrite elements_length in H. split; [exact elements_length|exact H].
Qed.

Lemma elements_roundtrip_b : forallb (roundtrip_ok elements_family) (f_rows elements_family) = true.
Proof. vm_compute. reflexivity. Qed.

Lemma elements_roundtrip : forall j, In j (f_rows elements_family) -> forall r,
  jet_encode j = Ok (jet_code j) /\
  decode (f_tree elements_family) (jet_code j ++ r) = Ok (j_idx j, r).
Proof.
  intros j Hj r. pose proof elements_roundtrip_b as H. rewrite forallb_forall in H.
  destruct (roundtrip_lift _ _ (H j Hj)) as [H1 H2]. split; [exact H1|apply H2].
Qed.

Lemma elements_leaves_b : forallb (leaf_ok elements_family) (tree_leaves (f_tree elements_family)) = true.
Proof. vm_compute. reflexivity. Qed.

Lemma elements_decode_complete : forall b i r, decode (f_tree elements_family) b = Ok (i, r) ->
  exists j, row_at elements_family i = Some j /\ j_idx j = i /\ b = jet_code j ++ r.
Proof. exact (decode_complete _ elements_leaves_b). Qed.

Lemma elements_prefix_b : forallb (prefix_free_ok elements_family) (f_rows elements_family) = true.
Proof. vm_compute. reflexivity. Qed.

Lemma elements_prefix_free : forall j k, In j (f_rows elements_family) -> In k (f_rows elements_family) ->
  j_idx j <> j_idx k -> forall r, jet_code k <> jet_code j ++ r.
Proof. exact (prefix_free_lift _ elements_prefix_b). Qed.

Lemma elements_names_b : forallb (name_ok elements_family) (f_rows elements_family) = true.
Proof. vm_compute. reflexivity. Qed.

Lemma elements_names :
  (forall j, In j (f_rows elements_family) -> parse elements_family (j_name j) = Ok (j_idx j)) /\
  (forall j k, In j (f_rows elements_family) -> In k (f_rows elements_family) -> j_name j = j_name k -> j_idx j = j_idx k).
Proof. exact (names_lift _ elements_names_b). Qed.

Lemma elements_fromstr_b : forallb (fromstr_ok elements_family) (f_fromstr elements_family) = true.
Proof. vm_compute. reflexivity. Qed.

Lemma elements_parse_sound : forall s i, parse elements_family s = Ok i ->
  exists j, row_at elements_family i = Some j /\ j_idx j = i /\ j_name j = s.
Proof. exact (fromstr_lift _ elements_fromstr_b). Qed.

Lemma elements_types_b : forallb types_ok (f_rows elements_family) = true.
Proof. vm_compute. reflexivity. Qed.

Lemma elements_types : forall j, In j (f_rows elements_family) -> tn_good (j_src j) /\ tn_good (j_tgt j).
Proof.
  intros j Hj. pose proof elements_types_b as H. rewrite forallb_forall in H. apply types_lift, H, Hj.
Qed.
