//! C20: results are independent of threads and scheduling.
//!
//! kind `work`:  work <nthreads> <seed> <mode> SH <pdl>* IT <item>*
//!   The items are run (b) on <nthreads> threads and then (a) one at a time on the calling thread
//!   (mode 0: every thread runs every item, each in its own rotated order; mode 1: items dealt
//!   round-robin, one thread per item), with a start barrier and small seeded sleeps / yields /
//!   spins between items.  Every thread owns its inference contexts, Bit Machines and
//!   environment; the objects built from the SH programs (Arc<RedeemNode>, Arc<CommitNode>,
//!   Arc<Final>, Value) are shared by all threads.
//!   items:  inf:<0|1>:<pdl>   type inference, final arrows of every node
//!           root:<pdl>        redemption program: cmr, amr, ihr, cost, encoding
//!           dec:<flip>:<pdl>  RedeemNode::decode of the encoding of <pdl> (bit <flip> inverted if >= 0)
//!           cdec:<flip>:<pdl> CommitNode::decode of the program part
//!           exec:<pdl>        Bit Machine run with the Elements environment (C jets)
//!           prune:<pdl>       RedeemNode::prune in the environment
//!           sat:<keys>:<pres>:<policy>   Policy::satisfy, roots, execution
//!           sx:<i> se:<i> sp:<i> su:<i> sv:<i> st:<i> sd:<i>   execute / encode / prune / unfinalize+reinfer /
//!                             value operations / type operations / clone+drop on shared object i
//!   result: 0 <n items> <flag per item: 1 = every concurrent result equals the sequential one>
//!           <panics> <hang> <digest hi> <digest lo> <n items> <outcome class per item> <executions>
//!
//! kind `names`: names <nthreads> T <ops of thread 0> T <ops of thread 1> ... S <schedule>
//!   ops: a (create a `unit` node: one fresh name) | r<i> (name held by the i-th node of this thread's
//!   context) | s (number of nodes).  The schedule (thread ids) is enforced with a turn variable.
//!   result: per event  <thread> 0 <name - base> | <thread> 1 <name - base> | <thread> 2 | <thread> 3 <count>
use crate::prog;
use crate::util::*;
use simplicity::elements;
use simplicity::elements::bitcoin::key::XOnlyPublicKey;
use simplicity::elements::secp256k1_zkp as secp;
use simplicity::elements::taproot::ControlBlock;
use simplicity::hashes::sha256;
use simplicity::jet::elements::{ElementsEnv, ElementsUtxo};
use simplicity::jet::Elements;
use simplicity::node::CoreConstructible;
use simplicity::policy::{Policy, Preimage32, Satisfier, SatisfierError};
use simplicity::types::{self, Final};
use simplicity::{BitIter, BitMachine, Cmr, CommitNode, ConstructNode, FailEntropy, RedeemNode, Value};
use std::collections::HashMap;
use std::sync::atomic::{AtomicBool, Ordering};
use std::sync::{mpsc, Arc, Barrier, Condvar, Mutex};
use std::time::Duration;

/// set when a case hung: main prints the line, flushes and exits (the stuck threads cannot be stopped)
pub static EXIT_AFTER_PRINT: AtomicBool = AtomicBool::new(false);

type Env = ElementsEnv<Arc<elements::Transaction>>;

struct Rng(u64);
impl Rng {
    fn next(&mut self) -> u64 {
        self.0 = self.0.wrapping_add(0x9E3779B97F4A7C15);
        let mut z = self.0;
        z = (z ^ (z >> 30)).wrapping_mul(0xBF58476D1CE4E5B9);
        z = (z ^ (z >> 27)).wrapping_mul(0x94D049BB133111EB);
        z ^ (z >> 31)
    }
}

fn make_env() -> Env {
    let ctrl_blk: [u8; 33] = [
        0xc0, 0xeb, 0x04, 0xb6, 0x8e, 0x9a, 0x26, 0xd1, 0x16, 0x04, 0x6c, 0x76, 0xe8, 0xff, 0x47, 0x33, 0x2f,
        0xb7, 0x1d, 0xda, 0x90, 0xff, 0x4b, 0xef, 0x53, 0x70, 0xf2, 0x52, 0x26, 0xd3, 0xbc, 0x09, 0xfc,
    ];
    ElementsEnv::new(
        Arc::new(elements::Transaction {
            version: 2,
            lock_time: elements::LockTime::from_consensus(100),
            input: vec![elements::TxIn {
                previous_output: elements::OutPoint::default(),
                is_pegin: false,
                script_sig: elements::Script::new(),
                sequence: elements::Sequence::from_consensus(10),
                asset_issuance: elements::AssetIssuance::default(),
                witness: elements::TxInWitness::default(),
            }],
            output: Vec::default(),
        }),
        vec![ElementsUtxo {
            script_pubkey: elements::Script::new(),
            asset: elements::confidential::Asset::Null,
            value: elements::confidential::Value::Null,
        }],
        0,
        Cmr::from_byte_array([0; 32]),
        ControlBlock::from_slice(&ctrl_blk).unwrap(),
        None,
        elements::BlockHash::from_byte_array([7u8; 32]),
    )
}

// ---------------------------------------------------------------- canonical results

fn types_class(e: &types::Error) -> String {
    prog::err_class(e)
}

fn decode_class(e: &simplicity::DecodeError) -> String {
    use simplicity::decode::Error as D;
    match e {
        simplicity::DecodeError::Decode(d) => match d {
            D::BitIter(_) => "D:BitIter".into(),
            D::BothChildrenHidden => "D:BothChildrenHidden".into(),
            D::EndOfStream => "D:EndOfStream".into(),
            D::HiddenNode => "D:HiddenNode".into(),
            D::InvalidJet => "D:InvalidJet".into(),
            D::Natural(_) => "D:Natural".into(),
            D::NotInCanonicalOrder => "D:NotInCanonicalOrder".into(),
            D::SharingNotMaximal => "D:SharingNotMaximal".into(),
            D::Type(t) => format!("D:Type:{}", types_class(t)),
            #[allow(unreachable_patterns)]
            _ => "D:Other".into(),
        },
        simplicity::DecodeError::DisconnectRedeemTime => "DisconnectRedeemTime".into(),
        simplicity::DecodeError::Type(t) => format!("Type:{}", types_class(t)),
        #[allow(unreachable_patterns)]
        _ => "Other".into(),
    }
}

fn exec_class(e: &simplicity::bit_machine::ExecutionError) -> String {
    use simplicity::bit_machine::ExecutionError as E;
    match e {
        E::InputWrongType(_) => "X:InputWrongType".into(),
        E::ReachedFailNode(_) => "X:ReachedFailNode".into(),
        E::ReachedPrunedBranch(_) => "X:ReachedPrunedBranch".into(),
        E::LimitExceeded(_) => "X:LimitExceeded".into(),
        E::JetFailed(_) => "X:JetFailed".into(),
        E::JetTypeMismatch => "X:JetTypeMismatch".into(),
        #[allow(unreachable_patterns)]
        _ => "X:Other".into(),
    }
}

fn redeem_class(e: &prog::RedeemError) -> String {
    format!("R{}", prog::err_code(e))
}

fn roots(r: &RedeemNode) -> String {
    let (p, w) = r.to_vec_with_witness();
    format!("cmr={} amr={} ihr={} cost={:?} prog={} wit={}", r.cmr(), r.amr(), r.ihr(), r.bounds().cost, hex(&p), hex(&w))
}

fn bits_string(v: &Value) -> String {
    v.iter_compact().map(|b| if b { '1' } else { '0' }).collect()
}

fn exec_result(r: &RedeemNode, env: &Env) -> String {
    match BitMachine::for_program(r) {
        Err(_) => "X:Limit".into(),
        Ok(mut mac) => match mac.exec(r, env) {
            Ok(v) => format!("ok:{}", bits_string(&v)),
            Err(e) => exec_class(&e),
        },
    }
}

// ---------------------------------------------------------------- policies

fn keypair(i: u64) -> secp::Keypair {
    let ctx = secp::Secp256k1::new();
    let mut sk = [0u8; 32];
    sk[24..].copy_from_slice(&i.to_be_bytes());
    secp::Keypair::from_seckey_slice(&ctx, &sk).expect("secret key")
}
fn xonly(i: u64) -> XOnlyPublicKey {
    keypair(i).x_only_public_key().0
}
fn preimage(j: u64) -> Preimage32 {
    [j as u8; 32]
}
fn image(j: u64) -> elements::bitcoin::hashes::sha256::Hash {
    use elements::bitcoin::hashes::Hash as _;
    elements::bitcoin::hashes::sha256::Hash::hash(&preimage(j))
}

fn parse_policy(toks: &[&str], pos: &mut usize) -> Policy<XOnlyPublicKey> {
    let t = toks[*pos];
    *pos += 1;
    let num = |s: &str| -> u64 { s.parse().expect("number") };
    match t {
        "t" => Policy::Trivial,
        "u" => Policy::Unsatisfiable(FailEntropy::from_byte_array([3u8; 64])),
        "and" => {
            let l = parse_policy(toks, pos);
            let r = parse_policy(toks, pos);
            Policy::And { left: Arc::new(l), right: Arc::new(r) }
        }
        "or" => {
            let l = parse_policy(toks, pos);
            let r = parse_policy(toks, pos);
            Policy::Or { left: Arc::new(l), right: Arc::new(r) }
        }
        _ if t.starts_with("thr") => {
            let (k, n) = t[3..].split_once('n').expect("thr<k>n<n>");
            let subs = (0..num(n)).map(|_| parse_policy(toks, pos)).collect();
            Policy::Threshold(num(k) as usize, subs)
        }
        _ if t.starts_with('k') => Policy::Key(xonly(num(&t[1..]))),
        _ if t.starts_with('h') => Policy::Sha256(image(num(&t[1..]))),
        _ if t.starts_with('a') => Policy::After(num(&t[1..]) as u32),
        _ if t.starts_with('o') => Policy::Older(num(&t[1..]) as u16),
        _ => panic!("policy token"),
    }
}

struct Sat<'brand> {
    ctx: types::Context<'brand>,
    sigs: HashMap<XOnlyPublicKey, elements::SchnorrSig>,
    pres: HashMap<elements::bitcoin::hashes::sha256::Hash, Preimage32>,
}

impl<'brand> Satisfier<'brand, XOnlyPublicKey> for Sat<'brand> {
    fn inference_context(&self) -> &types::Context<'brand> {
        &self.ctx
    }
    fn lookup_signature(&self, pk: &XOnlyPublicKey) -> Option<elements::SchnorrSig> {
        self.sigs.get(pk).copied()
    }
    fn lookup_sha256(&self, h: &elements::bitcoin::hashes::sha256::Hash) -> Option<Preimage32> {
        self.pres.get(h).copied()
    }
    fn check_older(&self, s: elements::Sequence) -> bool {
        s.0 <= 10
    }
    fn check_after(&self, l: elements::LockTime) -> bool {
        match l {
            elements::LockTime::Blocks(h) => h.to_consensus_u32() <= 100,
            _ => false,
        }
    }
}

fn sign(i: u64, env: &Env) -> elements::SchnorrSig {
    let ctx = secp::Secp256k1::new();
    let sighash = env.c_tx_env().sighash_all();
    let msg = secp::Message::from_digest(sighash.to_byte_array());
    elements::SchnorrSig { sig: ctx.sign_schnorr_no_aux_rand(&msg, &keypair(i)), hash_ty: elements::SchnorrSighashType::All }
}

// ---------------------------------------------------------------- items

#[derive(Clone, Debug)]
enum Item {
    Infer(bool, String),
    Root(String),
    Dec(Vec<u8>, Vec<u8>),
    CDec(Vec<u8>),
    Exec(String),
    Prune(String),
    Sat(u64, u64, String),
    Shared(char, usize),
    /// could not be prepared (encoding of the description failed)
    Bad(String),
}

struct Shared {
    redeem: Vec<Arc<RedeemNode>>,
    commit: Vec<Arc<CommitNode>>,
    types: Vec<Arc<Final>>,
    values: Vec<Value>,
}

fn flip(bytes: &mut [u8], k: i64) {
    if k >= 0 && !bytes.is_empty() {
        let k = (k as usize) % (bytes.len() * 8);
        bytes[k / 8] ^= 0x80 >> (k % 8);
    }
}

fn parse_item(tok: &str) -> Item {
    let f: Vec<&str> = tok.splitn(4, ':').collect();
    match f[0] {
        "inf" => Item::Infer(f[1] == "1", f[2].to_string()),
        "root" => Item::Root(f[1].to_string()),
        "dec" | "cdec" => {
            let k: i64 = f[1].parse().unwrap();
            match prog::redeem(&prog::parse_prog(f[2]), false) {
                Err(e) => Item::Bad(redeem_class(&e)),
                Ok(r) => {
                    let (mut p, w) = r.to_vec_with_witness();
                    flip(&mut p, k);
                    if f[0] == "dec" {
                        Item::Dec(p, w)
                    } else {
                        Item::CDec(p)
                    }
                }
            }
        }
        "exec" => Item::Exec(f[1].to_string()),
        "prune" => Item::Prune(f[1].to_string()),
        "sat" => Item::Sat(f[1].parse().unwrap(), f[2].parse().unwrap(), f[3].to_string()),
        "sx" | "se" | "sp" | "su" | "sv" | "st" | "sd" => Item::Shared(f[0].chars().nth(1).unwrap(), f[1].parse().unwrap()),
        _ => panic!("item kind"),
    }
}

/// the canonical result of one item (errors as enum tags, no variable names, no addresses)
fn run_item(item: &Item, sh: &Shared, env: &Env) -> String {
    match item {
        Item::Bad(s) => format!("bad:{}", s),
        Item::Infer(program, pdl) => match prog::arrows(&prog::parse_prog(pdl), *program) {
            Err(e) => redeem_class(&e),
            Ok(arr) => {
                let mut out: Vec<u128> = vec![];
                for a in arr {
                    match a {
                        None => out.push(5),
                        Some((s, t)) => {
                            out.push(4);
                            prog::ty_nums(&s, &mut out);
                            prog::ty_nums(&t, &mut out);
                        }
                    }
                }
                format!("arrows:{}", join(&out))
            }
        },
        Item::Root(pdl) => match prog::redeem(&prog::parse_prog(pdl), false) {
            Err(e) => redeem_class(&e),
            Ok(r) => roots(&r),
        },
        Item::Dec(p, w) => {
            match RedeemNode::decode::<_, _, Elements>(BitIter::from(p.iter().copied()), BitIter::from(w.iter().copied())) {
                Err(e) => decode_class(&e),
                Ok(r) => roots(&r),
            }
        }
        Item::CDec(p) => match CommitNode::decode::<_, Elements>(BitIter::from(p.iter().copied())) {
            Err(e) => decode_class(&e),
            Ok(c) => format!("cmr={} ihr={:?} prog={}", c.cmr(), c.ihr().map(|h| h.to_string()), hex(&c.to_vec_without_witness())),
        },
        Item::Exec(pdl) => match prog::redeem(&prog::parse_prog(pdl), false) {
            Err(e) => redeem_class(&e),
            Ok(r) => exec_result(&r, env),
        },
        Item::Prune(pdl) => match prog::redeem(&prog::parse_prog(pdl), false) {
            Err(e) => redeem_class(&e),
            Ok(r) => match r.prune(env) {
                Err(e) => exec_class(&e),
                Ok(p) => format!("pruned:{} run:{}", roots(&p), exec_result(&p, env)),
            },
        },
        Item::Sat(keys, pres, pol) => {
            let toks: Vec<&str> = pol.split('.').collect();
            let mut pos = 0;
            let p = parse_policy(&toks, &mut pos);
            let mut sigs = HashMap::new();
            let mut pre = HashMap::new();
            for i in 1..=8u64 {
                if keys >> i & 1 == 1 {
                    sigs.insert(xonly(i), sign(i, env));
                }
                if pres >> i & 1 == 1 {
                    pre.insert(image(i), preimage(i));
                }
            }
            let cmr = p.cmr();
            let commit = p.commit();
            let res = types::Context::with_context(|ctx| {
                let sat = Sat { ctx, sigs, pres: pre };
                p.satisfy(&sat, env)
            });
            match res {
                Err(SatisfierError::Unsatisfiable) => format!("unsat cmr={} commit={}", cmr, commit.cmr()),
                Err(SatisfierError::AssemblyFailed(_)) => format!("assembly cmr={}", cmr),
                Ok(r) => format!("sat cmr={} commit={} {} run:{}", cmr, commit.cmr(), roots(&r), exec_result(&r, env)),
            }
        }
        Item::Shared(op, i) => {
            let n = sh.redeem.len();
            if n == 0 {
                return "noshared".into();
            }
            let r = &sh.redeem[i % n];
            match op {
                // execute the shared redemption program on this thread's own machine
                'x' => exec_result(r, env),
                'e' => roots(r),
                'p' => match r.prune(env) {
                    Err(e) => exec_class(&e),
                    Ok(p) => format!("pruned:{}", roots(&p)),
                },
                // shared commitment program -> construct program in this thread's context -> types again
                'u' => {
                    let c = &sh.commit[i % sh.commit.len()];
                    types::Context::with_context(|ctx| match c.unfinalize_types(&ctx) {
                        Err(e) => format!("T:{}", types_class(&e)),
                        Ok(cn) => match cn.finalize_types_non_program() {
                            Err(e) => format!("T:{}", types_class(&e)),
                            Ok(c2) => format!("cmr={} same={} src={} tgt={}", c2.cmr(), c2.cmr() == c.cmr(),
                                              c2.arrow().source, c2.arrow().target),
                        },
                    })
                }
                'v' => {
                    if sh.values.is_empty() {
                        return "novalue".into();
                    }
                    let v = &sh.values[i % sh.values.len()];
                    let ty: Arc<Final> = Arc::new(v.ty().clone());
                    let bits: Vec<bool> = v.iter_compact().collect();
                    let again = prog::value_of_compact(&bits, &ty);
                    let eq = again.as_ref().map(|a| a == v);
                    let pruned = v.prune(&Final::unit()).map(|p| p.compact_len());
                    let cl = v.clone();
                    format!("bits={} padded={} eq={:?} pruned={:?} clone_eq={}", bits_string(v), v.padded_len(), eq, pruned, &cl == v)
                }
                // a type built on another thread against this thread's precomputed types
                't' => {
                    if sh.types.is_empty() {
                        return "notype".into();
                    }
                    let t = &sh.types[i % sh.types.len()];
                    let mut hits = vec![];
                    for k in 0..10 {
                        let w = Final::two_two_n(k).unwrap();
                        if *w == **t {
                            hits.push(k);
                        }
                    }
                    let z = Value::zero(t);
                    format!("width={} tmr={} word={:?} zero={} is_of={}", t.bit_width(), t.tmr(), hits, z.compact_len(), z.is_of_type(t))
                }
                // take and release references concurrently (iterative Drop with Arc::into_inner)
                'd' => {
                    let mut keep = vec![];
                    for k in 0..50 {
                        keep.push(Arc::clone(&sh.redeem[(i + k) % n]));
                        if k % 3 == 0 {
                            keep.pop();
                        }
                    }
                    let c = keep.len();
                    drop(keep);
                    format!("held={} cmr={}", c, r.cmr())
                }
                _ => panic!("shared op"),
            }
        }
    }
}

fn outcome_class(s: &str) -> u128 {
    if s == "PANIC" {
        9
    } else if s.starts_with("cmr=") || s.starts_with("arrows:") || s.starts_with("ok:") || s.starts_with("pruned:")
        || s.starts_with("sat ") || s.starts_with("bits=") || s.starts_with("width=") || s.starts_with("held=")
    {
        0
    } else if s.starts_with("unsat") || s.starts_with("assembly") {
        1
    } else if s.starts_with("X:") {
        2
    } else if s.starts_with("D:") || s.starts_with("Type:") || s.starts_with("T:") {
        3
    } else if s.starts_with('R') {
        4
    } else {
        5
    }
}

fn guarded_item(item: &Item, sh: &Shared, env: &Env) -> String {
    match guarded(|| run_item(item, sh, env)) {
        Some(s) => s,
        None => "PANIC".to_string(),
    }
}

fn build_shared(pdls: &[&str]) -> Shared {
    let mut sh = Shared { redeem: vec![], commit: vec![], types: vec![], values: vec![] };
    let env = make_env();
    for p in pdls {
        if let Ok(r) = prog::redeem(&prog::parse_prog(p), false) {
            if let Ok(c) = r.unfinalize() {
                sh.commit.push(c);
            }
            sh.types.push(Arc::clone(&r.arrow().source));
            sh.types.push(Arc::clone(&r.arrow().target));
            if let Ok(mut mac) = BitMachine::for_program(&r) {
                if let Ok(v) = mac.exec(&r, &env) {
                    sh.values.push(v);
                }
            }
            sh.values.push(Value::zero(&r.arrow().target));
            sh.redeem.push(r);
        }
    }
    sh
}

fn work(t: &[&str]) -> Vec<u128> {
    let nthreads: usize = t[1].parse().unwrap();
    let seed: u64 = t[2].parse().unwrap();
    let mode: u32 = t[3].parse().unwrap();
    let mut pos = 4;
    assert_eq!(t[pos], "SH");
    pos += 1;
    let mut shp = vec![];
    while t[pos] != "IT" {
        shp.push(t[pos]);
        pos += 1;
    }
    pos += 1;
    let shared = Arc::new(build_shared(&shp));
    let items: Arc<Vec<Item>> = Arc::new(t[pos..].iter().map(|s| parse_item(s)).collect());
    let n = items.len();

    // (b) concurrently - first, so that in a fresh process the threads meet the cold global state
    //     (thread-local type tables, the name counter, C static tables) under contention
    let barrier = Arc::new(Barrier::new(nthreads));
    let started = Arc::new(std::sync::atomic::AtomicUsize::new(0));
    let (tx, rx) = mpsc::channel::<(usize, Vec<(usize, String)>)>();
    let mut handles = vec![];
    for k in 0..nthreads {
        let items = Arc::clone(&items);
        let shared = Arc::clone(&shared);
        let barrier = Arc::clone(&barrier);
        let started = Arc::clone(&started);
        let tx = tx.clone();
        let h = std::thread::Builder::new()
            .stack_size(16 << 20)
            .spawn(move || {
                let mut rng = Rng(seed ^ (k as u64).wrapping_mul(0xA24BAED4963EE407));
                // the order in which this thread visits its items
                let mine: Vec<usize> = if mode == 0 {
                    let rot = (rng.next() as usize) % n.max(1);
                    (0..n).map(|j| (j + rot) % n).collect()
                } else {
                    (0..n).filter(|j| j % nthreads == k).collect()
                };
                let env = make_env();
                barrier.wait();
                // second phase: spin until everybody is through the barrier, so that the first items start
                // within a few hundred nanoseconds of each other (cold global state under contention)
                started.fetch_add(1, Ordering::SeqCst);
                while started.load(Ordering::SeqCst) < nthreads {
                    std::hint::spin_loop();
                }
                let mut out = vec![];
                let mut first = true;
                for j in mine {
                    let delay = if first { 0 } else { rng.next() % 4 };
                    first = false;
                    match delay {
                        0 => {}
                        1 => std::thread::yield_now(),
                        2 => std::thread::sleep(Duration::from_micros(rng.next() % 200)),
                        _ => {
                            let mut x = 0u64;
                            for q in 0..(rng.next() % 2000) {
                                x = x.wrapping_add(q).rotate_left(3);
                            }
                            std::hint::black_box(x);
                        }
                    }
                    out.push((j, guarded_item(&items[j], &shared, &env)));
                }
                drop(env);
                let _ = tx.send((k, out));
            })
            .expect("spawn");
        handles.push(h);
    }
    drop(tx);
    let deadline = std::time::Instant::now() + Duration::from_secs(60);
    let mut got: Vec<Option<Vec<(usize, String)>>> = vec![None; nthreads];
    let mut received = 0;
    let mut hang = 0u128;
    while received < nthreads {
        let left = deadline.saturating_duration_since(std::time::Instant::now());
        match rx.recv_timeout(left) {
            Ok((k, out)) => {
                got[k] = Some(out);
                received += 1;
            }
            Err(mpsc::RecvTimeoutError::Timeout) => {
                hang = 1;
                break;
            }
            // every sender dropped without sending: some thread died outside catch_unwind
            Err(mpsc::RecvTimeoutError::Disconnected) => break,
        }
    }
    // (a) one at a time, on the calling thread
    let env = make_env();
    let seq: Vec<String> = items.iter().map(|it| guarded_item(it, &shared, &env)).collect();
    drop(env);

    let mut panics = 0u128;
    if hang == 0 {
        for h in handles {
            if h.join().is_err() {
                panics += 1;
            }
        }
    } else {
        EXIT_AFTER_PRINT.store(true, Ordering::SeqCst);
    }
    let mut flags = vec![1u128; n];
    let mut executions = 0u128;
    let mut all = String::new();
    for (k, g) in got.iter().enumerate() {
        match g {
            None => {
                // results of this thread are missing: its items cannot be confirmed
                for j in 0..n {
                    if mode == 0 || j % nthreads == k {
                        flags[j] = 0;
                    }
                }
                if hang == 0 {
                    panics += 0; // counted by join above
                }
            }
            Some(v) => {
                for (j, s) in v {
                    executions += 1;
                    if s == "PANIC" {
                        panics += 1;
                    }
                    if *s != seq[*j] {
                        flags[*j] = 0;
                    }
                }
            }
        }
    }
    for s in &seq {
        if s == "PANIC" {
            panics += 1;
        }
        all.push_str(s);
        all.push('\n');
    }
    let d = sha256::Hash::hash(all.as_bytes()).to_byte_array();
    let mut out = vec![0, n as u128];
    out.extend(flags);
    out.push(panics);
    out.push(hang);
    out.push(u64::from_be_bytes(d[0..8].try_into().unwrap()) as u128);
    out.push(u64::from_be_bytes(d[8..16].try_into().unwrap()) as u128);
    out.push(n as u128);
    out.extend(seq.iter().map(|s| outcome_class(s)));
    out.push(executions);
    if std::env::var_os("VERIF_CONC_DUMP").is_some() {
        for (j, s) in seq.iter().enumerate() {
            eprintln!("item {} => {}", j, &s[..s.len().min(300)]);
            for g in got.iter().flatten() {
                for (jj, ss) in g {
                    if *jj == j && *ss != *s {
                        eprintln!("   concurrent differs: {}", &ss[..ss.len().min(300)]);
                    }
                }
            }
        }
    }
    out
}

// ---------------------------------------------------------------- names under a forced schedule

fn name_suffix(s: &str) -> Option<u128> {
    let digits: String = s.chars().rev().take_while(|c| c.is_ascii_digit()).collect::<Vec<_>>().into_iter().rev().collect();
    digits.parse().ok()
}

fn fresh_name_of_unit_node() -> u128 {
    types::Context::with_context(|ctx| {
        let n = Arc::<ConstructNode>::unit(&ctx);
        name_suffix(&n.arrow().source.to_incomplete().to_string()).expect("name of a fresh variable")
    })
}

fn names(t: &[&str]) -> Vec<u128> {
    let nthreads: usize = t[1].parse().unwrap();
    let mut progs: Vec<Vec<String>> = vec![];
    let mut pos = 2;
    while t[pos] == "T" {
        pos += 1;
        let mut ops = vec![];
        while t[pos] != "T" && t[pos] != "S" {
            ops.push(t[pos].to_string());
            pos += 1;
        }
        progs.push(ops);
    }
    assert_eq!(progs.len(), nthreads);
    pos += 1;
    let sched: Arc<Vec<usize>> = Arc::new(t[pos..].iter().map(|s| s.parse().unwrap()).collect());
    let turn = Arc::new((Mutex::new(0usize), Condvar::new()));
    let events: Arc<Mutex<Vec<(usize, Vec<u128>)>>> = Arc::new(Mutex::new(vec![]));
    let ready = Arc::new(Barrier::new(nthreads + 1));
    let mut handles = vec![];
    for (k, ops) in progs.into_iter().enumerate() {
        let sched = Arc::clone(&sched);
        let turn = Arc::clone(&turn);
        let events = Arc::clone(&events);
        let ready = Arc::clone(&ready);
        handles.push(std::thread::spawn(move || {
            types::Context::with_context(|ctx| {
                let mut nodes: Vec<Arc<ConstructNode>> = vec![];
                let mut pc = 0usize;
                ready.wait();
                loop {
                    let (m, cv) = &*turn;
                    let mut p = m.lock().unwrap();
                    while *p < sched.len() && sched[*p] != k {
                        p = cv.wait(p).unwrap();
                    }
                    if *p >= sched.len() {
                        break;
                    }
                    // this thread's turn: one operation (or a skip when it has none left)
                    if pc < ops.len() {
                        let op = &ops[pc];
                        pc += 1;
                        let ev: Vec<u128> = match op.chars().next().unwrap() {
                            'a' => {
                                let n = Arc::<ConstructNode>::unit(&ctx);
                                let name = name_suffix(&n.arrow().source.to_incomplete().to_string()).unwrap();
                                nodes.push(n);
                                vec![0, name]
                            }
                            'r' => {
                                let i: usize = op[1..].parse().unwrap();
                                match nodes.get(i) {
                                    Some(n) => vec![1, name_suffix(&n.arrow().source.to_incomplete().to_string()).unwrap()],
                                    None => vec![2],
                                }
                            }
                            _ => vec![3, nodes.len() as u128],
                        };
                        events.lock().unwrap().push((k, ev));
                    }
                    *p += 1;
                    cv.notify_all();
                }
            })
        }));
    }
    // the counter value the first operation will see
    let base = fresh_name_of_unit_node() + 1;
    ready.wait();
    for h in handles {
        h.join().expect("worker");
    }
    let mut out = vec![];
    for (k, ev) in events.lock().unwrap().iter() {
        out.push(*k as u128);
        out.push(ev[0]);
        match ev[0] {
            0 | 1 => out.push(ev[1] - base),
            3 => out.push(ev[1]),
            _ => {}
        }
    }
    out
}

/// kind `uniq`: uniq <nthreads> <count>: every thread creates <count> `unit` nodes in its own context, all at
/// once (no forced schedule); result: <total names> <distinct names> <largest - smallest + 1>
fn uniq(t: &[&str]) -> Vec<u128> {
    let nthreads: usize = t[1].parse().unwrap();
    let count: usize = t[2].parse().unwrap();
    let barrier = Arc::new(Barrier::new(nthreads));
    let mut handles = vec![];
    for _k in 0..nthreads {
        let barrier = Arc::clone(&barrier);
        handles.push(std::thread::spawn(move || {
            types::Context::with_context(|ctx| {
                barrier.wait();
                let mut got = Vec::with_capacity(count);
                let mut nodes = vec![];
                for _ in 0..count {
                    let n = Arc::<ConstructNode>::unit(&ctx);
                    got.push(name_suffix(&n.arrow().source.to_incomplete().to_string()).unwrap());
                    nodes.push(n);
                }
                // what the context holds is still what was put there
                for (n, g) in nodes.iter().zip(got.iter()) {
                    assert_eq!(name_suffix(&n.arrow().source.to_incomplete().to_string()).unwrap(), *g);
                }
                got
            })
        }));
    }
    let mut all: Vec<u128> = vec![];
    for h in handles {
        all.extend(h.join().expect("worker"));
    }
    let total = all.len() as u128;
    all.sort();
    let span = all.last().unwrap() - all.first().unwrap() + 1;
    all.dedup();
    vec![total, all.len() as u128, span]
}

pub fn run(t: &[&str]) -> String {
    match guarded(|| match t[0] {
        "work" => work(t),
        "names" => names(t),
        "uniq" => uniq(t),
        _ => panic!("kind"),
    }) {
        Some(v) => join(&v),
        None => "9".to_string(),
    }
}
