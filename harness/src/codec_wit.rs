//! C01: witness values built from explicit constructors and observed through accessors, so that the
//! witness clause of the round trip does not depend on the library's own witness decoder
//! (`Value::from_compact_bits`) on the construction side.
//!
//! wspec (one whitespace-free token): `-` (no entries) or entries `<node index>=<VALUE>` separated by `;`
//!   VALUE := U                      Value::unit()
//!          | L VALUE TYPE           Value::left(inner, right type)
//!          | R TYPE VALUE           Value::right(left type, inner)
//!          | P VALUE VALUE          Value::product(left, right)
//!          | 0 | 1                  Value::u1(bit)
//!          | H <2 hex digits>       Value::u8(byte)
//!   TYPE  := the type syntax of prog.rs (u, sAB, pAB, w<d>)
//!
//! observation of one value (numbers):
//!   <type nums> 99 <dump> 98 <compact bits> 97 <padded bits>
//!   dump (pre-order, through as_product / as_left / as_right / is_unit only):
//!     0 unit | 1 left x | 2 right x | 3 product a b | 7 none of the accessors applies
use crate::prog;

use simplicity::types;
use simplicity::{RedeemNode, Value, ValueRef};

use std::collections::HashMap;
use std::sync::Arc;

/// end position of the type that starts at `pos`
fn ty_extent(c: &[char], pos: usize) -> usize {
    // iterative: number of types still to read
    let mut need = 1usize;
    let mut p = pos;
    while need > 0 {
        match c[p] {
            'u' => {
                p += 1;
                need -= 1;
            }
            'w' => {
                p += 2;
                need -= 1;
            }
            's' | 'p' => {
                p += 1;
                need += 1;
            }
            _ => panic!("type syntax in wspec"),
        }
    }
    p
}

fn parse_ty_prefix(c: &[char], pos: &mut usize) -> Arc<types::Final> {
    let end = ty_extent(c, *pos);
    let s: String = c[*pos..end].iter().collect();
    *pos = end;
    prog::parse_ty(&s)
}

fn parse_val(c: &[char], pos: &mut usize) -> Value {
    let ch = c[*pos];
    *pos += 1;
    match ch {
        'U' => Value::unit(),
        'L' => {
            let inner = parse_val(c, pos);
            let rt = parse_ty_prefix(c, pos);
            Value::left(inner, rt)
        }
        'R' => {
            let lt = parse_ty_prefix(c, pos);
            let inner = parse_val(c, pos);
            Value::right(lt, inner)
        }
        'P' => {
            let a = parse_val(c, pos);
            let b = parse_val(c, pos);
            Value::product(a, b)
        }
        '0' => Value::u1(0),
        '1' => Value::u1(1),
        'H' => {
            let s: String = c[*pos..*pos + 2].iter().collect();
            *pos += 2;
            Value::u8(u8::from_str_radix(&s, 16).expect("hex byte in wspec"))
        }
        _ => panic!("value syntax in wspec"),
    }
}

pub fn parse_wspec(s: &str) -> HashMap<usize, Value> {
    let mut out = HashMap::new();
    if s == "-" {
        return out;
    }
    for e in s.split(';') {
        let mut it = e.splitn(2, '=');
        let i: usize = it.next().unwrap().parse().expect("node index in wspec");
        let chars: Vec<char> = it.next().expect("value in wspec").chars().collect();
        let mut pos = 0;
        let v = parse_val(&chars, &mut pos);
        assert_eq!(pos, chars.len(), "trailing characters in wspec value");
        out.insert(i, v);
    }
    out
}

/// Redemption-time program through the public route: construction-time witnesses (explicitly built
/// values; nodes without an entry stay unpopulated), root forced to 1 -> 1, `finalize_unpruned`.
pub fn redeem_explicit(
    specs: &[prog::NodeSpec],
    wits: &HashMap<usize, Value>,
) -> Result<Arc<RedeemNode>, prog::RedeemError> {
    types::Context::with_context(|ctx| {
        let nodes = prog::build(&ctx, specs, &|i| wits.get(&i).cloned()).map_err(prog::RedeemError::Build)?;
        let root = match nodes.last().unwrap().as_ref() {
            Some(r) => r,
            None => return Err(prog::RedeemError::Build(prog::BuildError::Shape(specs.len() - 1, "hidden root"))),
        };
        root.set_arrow_to_program().map_err(|e| prog::RedeemError::Infer(prog::err_class(&e)))?;
        root.finalize_unpruned().map_err(|e| prog::RedeemError::Finalize(prog::fin_class(&e)))
    })
}

/// pre-order dump through the structural accessors only (explicit stack)
fn dump(v: ValueRef, out: &mut Vec<u128>) {
    let mut stack = vec![v];
    while let Some(v) = stack.pop() {
        if let Some((a, b)) = v.as_product() {
            out.push(3);
            stack.push(b);
            stack.push(a);
        } else if let Some(l) = v.as_left() {
            out.push(1);
            stack.push(l);
        } else if let Some(r) = v.as_right() {
            out.push(2);
            stack.push(r);
        } else if v.is_unit() {
            out.push(0);
        } else {
            out.push(7);
        }
    }
}

pub fn wit_obs(w: &Value) -> Vec<u128> {
    let mut v = vec![];
    prog::ty_nums(w.ty(), &mut v);
    v.push(99);
    dump(w.as_ref(), &mut v);
    v.push(98);
    v.extend(w.iter_compact().map(|b| b as u128));
    v.push(97);
    v.extend(w.iter_padded().map(|b| b as u128));
    v
}
