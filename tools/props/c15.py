"""C15 - The Elements environment shown to jets is the supplied transaction.

Level "other":
  * Coq (Env/TxSpec.v): typed specification of 63 introspection jets as functions of an abstract
    transaction; theorems in Props/C15.v (well-typedness for all transactions and indices, behaviour
    in and out of range, annex rule, issuance views).
  * correspondence: the specification evaluated in Coq on the abstract transaction the harness read
    from the `elements` structures vs one-jet programs executed through ElementsEnv::new +
    BitMachine::exec (Rust marshalling + C jets).
  * property test: every jet output vs the harness's own reading of the same structures (incl. all
    hash jets recomputed with an independent SHA-256 composition); sighash_all() = sig_all_hash jet =
    own computation = SighashCache::simplicity_spend_signature_hash.
  * thorough tier: a sample of the same cases under valgrind (memory errors of the marshalling / Drop).
"""
import hashlib
import os
import subprocess

import vplib
from vplib import Case

PROP = "C15"
LEVEL = "other"
IMPORTS = ["Env.TxSpec", "Env.Run", "Env.TxHashes", "Env.HashRun"]
CRATE = None  # merged into the main harness crate

# jets covered by the Coq specification, in the order of Env/Run.v `all_jets` (position = code)
SPEC_JETS = [
    "version", "lock_time", "num_inputs", "num_outputs", "current_index", "genesis_block_hash", "script_cmr",
    "internal_key", "tapleaf_version", "transaction_id", "tx_is_final", "tx_lock_height", "tx_lock_time",
    "broken_do_not_use_tx_lock_distance", "broken_do_not_use_tx_lock_duration",
    "check_lock_height", "check_lock_time", "broken_do_not_use_check_lock_distance", "broken_do_not_use_check_lock_duration",
    "tappath",
    "input_prev_outpoint", "input_sequence", "input_pegin", "input_asset", "input_amount", "input_script_hash",
    "input_script_sig_hash", "input_annex_hash", "reissuance_blinding", "new_issuance_contract", "reissuance_entropy",
    "issuance_asset_amount", "issuance_token_amount", "issuance_asset_proof", "issuance_token_proof",
    "issuance", "issuance_entropy", "issuance_asset", "issuance_token",
    "current_prev_outpoint", "current_sequence", "current_pegin", "current_asset", "current_amount",
    "current_script_hash", "current_script_sig_hash", "current_annex_hash", "current_reissuance_blinding",
    "current_new_issuance_contract", "current_reissuance_entropy", "current_issuance_asset_amount",
    "current_issuance_token_amount", "current_issuance_asset_proof", "current_issuance_token_proof",
    "output_asset", "output_amount", "output_nonce", "output_script_hash", "output_surjection_proof",
    "output_range_proof", "output_is_fee", "output_null_datum", "total_fee",
]
CODE = {n: i for i, n in enumerate(SPEC_JETS)}

# SHA-256 composition jets: specified in Coq (Env/TxHashes.v with the executable SHA-256 of Merkle/Sha256.v)
# and checked against the harness oracle
HASH_UNIT = [
    "input_outpoints_hash", "input_amounts_hash", "input_scripts_hash", "input_utxos_hash", "input_sequences_hash",
    "input_annexes_hash", "input_script_sigs_hash", "inputs_hash", "issuance_asset_amounts_hash",
    "issuance_token_amounts_hash", "issuance_range_proofs_hash", "issuance_blinding_entropy_hash", "issuances_hash",
    "output_amounts_hash", "output_nonces_hash", "output_scripts_hash", "output_range_proofs_hash",
    "output_surjection_proofs_hash", "outputs_hash", "tx_hash", "tapleaf_hash", "tappath_hash", "tap_env_hash",
    "sig_all_hash",
]
HASH_IN = ["input_hash", "input_utxo_hash", "issuance_hash"]
HASH_OUT = ["output_hash"]

# the order of Env/HashRun.v `all_hjets` (position = hash-jet code)
HJETS = ["output_amounts_hash", "output_nonces_hash", "output_scripts_hash", "output_range_proofs_hash",
         "output_surjection_proofs_hash", "outputs_hash", "input_outpoints_hash", "input_amounts_hash", "input_scripts_hash",
         "input_utxos_hash", "input_sequences_hash", "input_annexes_hash", "input_script_sigs_hash", "inputs_hash",
         "issuance_asset_amounts_hash", "issuance_token_amounts_hash", "issuance_range_proofs_hash",
         "issuance_blinding_entropy_hash", "issuances_hash", "tx_hash", "tapleaf_hash", "tappath_hash", "tap_env_hash",
         "sig_all_hash", "input_hash", "input_utxo_hash", "issuance_hash", "output_hash"]
HCODE = {n: i for i, n in enumerate(HJETS)}
UINT63_PRIMS = ["int", "add", "sub", "land", "lor", "lxor", "lsl", "lsr", "eqb",
                "Uint63.int", "Uint63.add", "Uint63.sub", "Uint63.land", "Uint63.lor", "Uint63.lxor", "Uint63.lsl",
                "Uint63.lsr", "Uint63.eqb", "PrimInt63.int", "PrimInt63.add", "PrimInt63.sub", "PrimInt63.land",
                "PrimInt63.lor", "PrimInt63.lxor", "PrimInt63.lsl", "PrimInt63.lsr", "PrimInt63.eqb"]

UNIT_SPEC = SPEC_JETS[:15] + [j for j in SPEC_JETS if j.startswith("current_") and j != "current_index"]
IN_INDEXED = SPEC_JETS[20:39]
OUT_INDEXED = SPEC_JETS[54:61]
PEGIN_JETS = {"input_pegin", "current_pegin", "input_hash", "input_outpoints_hash", "inputs_hash", "tx_hash", "sig_all_hash"}

PALETTE = [hashlib.sha256(("verif-palette-%d" % k).encode()).digest() for k in range(4)]

ISS_COMBOS = [(0, "n", "n")] + [(k, a, b) for k in (1, 2) for a in "nec" for b in "nec"]
WITS = ["0", "1a0", "1a1", "1a33", "2a200", "3a5", "1x1", "1x20", "2x80", "1e", "2e", "3x7", "4a64"]
SEQS = [0xFFFFFFFF, 0xFFFFFFFE, 0, 1, 0xFFFF, 0x400005, 0x40FFFF, 0x80000000, 0x7FFFFFFF, 0x80400001, 0x00400000, 0x3FFFFF]
VOUTS = [0, 1, 0xFFFFFFFF, 0x3FFFFFFF, 0x40000000, 0x80000001, 7]
PLENS = [0, 65, 66, 100, 200]
SLENS = [0, 1, 23, 34, 200]
SURJ = [0, 67, 99, 131, 195]
OUT_SCRIPTS = ["e", "r1", "r34", "r200", "d", "di0", "di5p80mvn7", "dq300s70", "dt", "dbi3", "dn1n16mv", "di75p76q256",
               "dmi1", "dvvn9", "r75"]
VERSIONS = [0, 1, 2, 3, 0xFFFFFFFF]
LOCKTIMES = [0, 1, 499999999, 500000000, 500000001, 0xFFFFFFFF, 1234567]
LEAFVERS = [0xBE, 0xC0, 0xC4, 0xFE, 0x66, 0x00]
NPATHS = [0, 1, 2, 5, 128]
AMOUNTS = [0, 1, 1000, 2**63, 2**64 - 1, 2**64 - 2, 123456789012345]
OOR = [2**31, 2**32 - 1]


# ------------------------------------------------------------ generation
def gen_input(rng, k):
    iss, amt, keys = ISS_COMBOS[k % len(ISS_COMBOS)] if rng.chance(2, 3) else rng.choice(ISS_COMBOS)
    pegin = rng.choice([0, 0, 0, 1, 1, 2, 3])
    return {
        "seq": rng.choice(SEQS) if rng.chance(3, 4) else rng.below(2**32),
        "vout": rng.choice(VOUTS) if rng.chance(3, 4) else rng.below(2**32),
        "pegin": pegin, "iss": iss, "amt": amt, "keys": keys,
        "arp": rng.choice(PLENS) if rng.chance(2, 3) else rng.range(65, 200),
        "krp": rng.choice(PLENS) if rng.chance(2, 3) else rng.range(65, 200),
        "wit": WITS[(k * 5 + 3) % len(WITS)] if rng.chance(1, 2) else rng.choice(WITS),
        "ssl": rng.choice(SLENS) if rng.chance(2, 3) else rng.range(0, 200),
        "uasset": "nec"[k % 3] if rng.chance(1, 2) else rng.choice("nec"),
        "uvalue": "nec"[(k // 3) % 3] if rng.chance(1, 2) else rng.choice("nec"),
        "uscript": rng.choice(SLENS) if rng.chance(2, 3) else rng.range(0, 200),
    }


def in_tok(d):
    return "%d.%d.%d.%d.%s.%s.%d.%d.%s.%d.%s.%s.%d" % (d["seq"], d["vout"], d["pegin"], d["iss"], d["amt"], d["keys"], d["arp"],
                                                       d["krp"], d["wit"], d["ssl"], d["uasset"], d["uvalue"], d["uscript"])


def gen_output(rng, k, fee_heavy):
    cls = k % 27
    a, v, n = "nec"[cls % 3], "nec"[(cls // 3) % 3], "nec"[(cls // 9) % 3]
    if rng.chance(1, 3):
        a, v, n = rng.choice("nec"), rng.choice("nec"), rng.choice("nec")
    script = OUT_SCRIPTS[(k * 7 + 1) % len(OUT_SCRIPTS)] if rng.chance(1, 2) else rng.choice(OUT_SCRIPTS)
    if fee_heavy and rng.chance(2, 3):
        a, v, script = "e", "e", "e"
    if script[0] == "r" and rng.chance(1, 4):
        script = "r%d" % rng.range(1, 200)
    return {
        "asset": a + (str(rng.below(2) if fee_heavy else rng.below(4)) if a == "e" else ""),
        "value": v + (str(rng.choice(AMOUNTS) if rng.chance(3, 4) else rng.below(2**64)) if v == "e" else ""),
        "nonce": n, "script": script,
        "surj": rng.choice(SURJ), "range": rng.choice(PLENS) if rng.chance(2, 3) else rng.range(65, 200),
    }


def out_tok(d):
    return "%s.%s.%s.%s.%d.%d" % (d["asset"], d["value"], d["nonce"], d["script"], d["surj"], d["range"])


def lock_ref(version, lock_time, ins):
    """python reference of the lock-time views (for choosing check_lock arguments)"""
    final = all(i["seq"] == 0xFFFFFFFF for i in ins)
    h = lock_time if (not final and lock_time < 500000000) else 0
    t = lock_time if (not final and lock_time >= 500000000) else 0
    dist = dur = 0
    if version >= 2:
        for i in ins:
            s = i["seq"]
            if s < 0x80000000:
                if s & (1 << 22):
                    dur = max(dur, s & 0xFFFF)
                else:
                    dist = max(dist, s & 0xFFFF)
    return h, t, dist, dur


def nd_len(script):
    """number of parsed ops of a null-data descriptor, or None when the script is not null data"""
    if script[0] != "d":
        return None
    n = 0
    for ch in script[1:]:
        if ch in "tb":
            return None
        if ch in "ipqsmvn":
            n += 1
    return n


def hexw(v, nbytes):
    return "%0*x" % (2 * nbytes, v)


def gen_env(rng, k, tier, forced=None):
    n_in = [0, 1, 2, 3, 4][k % 5] if rng.chance(3, 4) else rng.below(5)
    n_out = [0, 1, 2, 3, 4][(k // 5) % 5] if rng.chance(3, 4) else rng.below(5)
    fee_heavy = rng.chance(1, 6)
    ins = [gen_input(rng, k * 4 + j) for j in range(n_in)]
    outs = [gen_output(rng, k * 4 + j, fee_heavy) for j in range(n_out)]
    if forced is not None:
        fi, fo = forced
        for d, f in zip(ins, fi):
            d.update(f)
        for d, f in zip(outs, fo):
            d.update(f)
        ins, outs = ins[:len(fi)], outs[:len(fo)]
        n_in, n_out = len(ins), len(outs)
    if rng.chance(1, 8):   # all inputs final
        for i in ins:
            i["seq"] = 0xFFFFFFFF
    version = rng.choice(VERSIONS) if rng.chance(4, 5) else rng.below(2**32)
    lock_time = rng.choice(LOCKTIMES) if rng.chance(4, 5) else rng.below(2**32)
    if n_in and rng.chance(5, 6):
        ix = rng.below(n_in)
    else:
        ix = rng.choice([n_in, n_in + 1, 2**32 - 1])
    leafver = rng.choice(LEAFVERS)
    npath = rng.choice(NPATHS) if rng.chance(5, 6) else rng.range(0, 128)
    seed = rng.next() & (2**63 - 1)
    # ---- queries: (jet, arg value, arg bytes)
    qs = []
    for j in UNIT_SPEC + HASH_UNIT:
        qs.append((j, None, 0))
    h, t, dist, dur = lock_ref(version, lock_time, ins)
    for name, bound, nb in (("check_lock_height", h, 4), ("check_lock_time", t, 4),
                            ("broken_do_not_use_check_lock_distance", dist, 2), ("broken_do_not_use_check_lock_duration", dur, 2)):
        mx = 2**(8 * nb) - 1
        for a in sorted({0, bound, min(bound + 1, mx), mx, rng.below(mx + 1)}):
            qs.append((name, a, nb))
    tp = list(range(npath)) if npath <= 6 else [0, 1, npath // 2, npath - 1]
    for a in tp + [npath, 255] if npath < 255 else tp:
        if a <= 255:
            qs.append(("tappath", a, 1))
    r = 0
    for j in IN_INDEXED + HASH_IN:
        idx = list(range(n_in)) + [n_in, n_in + 1 + r % 3, OOR[r % 2]]
        r += 1
        for a in idx:
            qs.append((j, a, 4))
    for j in OUT_INDEXED + HASH_OUT:
        idx = list(range(n_out)) + [n_out, n_out + 1 + r % 3, OOR[r % 2]]
        r += 1
        for a in idx:
            qs.append((j, a, 4))
    for i in list(range(n_out)) + [n_out, OOR[k % 2]]:
        nl = nd_len(outs[i]["script"]) if i < n_out else None
        js = [0, 1] if nl is None else list(range(nl)) + [nl, 2**32 - 1]
        for jx in js:
            qs.append(("output_null_datum", i * 2**32 + jx, 8))
    for p in PALETTE:
        qs.append(("total_fee", int.from_bytes(p, "big"), 32))
    qs.append(("total_fee", rng.below(2**256), 32))
    qtok = " ".join("%s:%s" % (j, "-" if a is None else hexw(a, nb)) for j, a, nb in qs)
    line = "%d %d %d %d %d %d IN %s OUT %s Q %s" % (seed, version, lock_time, ix, leafver, npath,
                                                 " ".join(in_tok(d) for d in ins), " ".join(out_tok(d) for d in outs), qtok)
    meta = {"ins": ins, "outs": outs, "version": version, "lock_time": lock_time, "ix": ix, "npath": npath,
            "leafver": leafver, "queries": [(j, a) for j, a, _ in qs]}
    return line, meta


def targeted_envs(rng, tier):
    """fixed structural classes that every run must contain (the random stream reaches them only with some
    probability): every nonce class at every output position next to every asset/value class; new issuances
    and reissuances with every amount/keys class and two range proofs of different lengths"""
    out = []
    k = 1000
    for rot in range(3):
        fo = [{"asset": "nec"[(j + rot) % 3] + ("1" if "nec"[(j + rot) % 3] == "e" else ""),
               "value": "nec"[(j + 2 * rot) % 3] + ("1000" if "nec"[(j + 2 * rot) % 3] == "e" else ""),
               "nonce": "nec"[(j + rot + 1) % 3]} for j in range(4)]
        fo[3]["nonce"] = "e"
        out.append((k, ([{}, {}][:1 + rot % 2], fo)))
        k += 1
    for (iss, pairs) in ((1, ["cc", "ec", "cn", "nc"]), (2, ["cc", "ce", "ec", "cn"]), (1, ["ce", "ee", "ne", "en"])):
        fi = [{"iss": iss, "amt": ak[0], "keys": ak[1], "arp": [100, 66, 200, 65][j], "krp": [66, 100, 65, 200][j], "pegin": 0}
              for j, ak in enumerate(pairs)]
        out.append((k, (fi, [{}, {}])))
        k += 1
    cases = []
    for (kk, forced) in out:
        need_in, need_out = len(forced[0]), len(forced[1])
        # an index whose cycled counts are large enough
        r = rng.fork("tgt%d" % kk)
        while True:
            line, meta = gen_env(r.fork("try"), 24, tier, forced=None)
            if len(meta["ins"]) >= need_in and len(meta["outs"]) >= need_out:
                break
            r = r.fork("again")
        line, meta = gen_env(r.fork("try"), 24, tier, forced=forced)
        cases.append(Case("t%d" % kk, "env", line, None, meta))
    return cases


def gen_cases(rng, tier):
    cases = targeted_envs(rng.fork("targeted"), tier)
    n = 138 if tier == "quick" else 1600
    for k in range(n):
        line, meta = gen_env(rng.fork("env%d" % k), k, tier)
        cases.append(Case("e%d" % k, "env", line, None, meta))
    # the jet table: names, source and target types as the implementation reports them
    cases.append(Case("j0", "jets", " ".join(SPEC_JETS + HJETS),
                      "run_jets2 [%s] [%s]" % ("; ".join(str(i) for i in range(len(SPEC_JETS))), "; ".join(str(i) for i in range(len(HJETS)))),
                      {"jets": SPEC_JETS + HJETS}))
    return cases


# ------------------------------------------------------------ parsing the harness output
class Parse(Exception):
    pass


def parse_env(nums, meta):
    """-> dict(tx=abstract transaction, results=[(jet, arg, (st,nbits,val), (ost,onbits,oval))], sighashes=[4])"""
    if not isinstance(nums, list) or not nums or nums[0] != 0:
        raise Parse("no result")
    pos = [1]

    def take():
        v = nums[pos[0]]
        pos[0] += 1
        return v

    def conf():
        return (take(), take())

    tx = {}
    for f in ("version", "lock_time", "ix", "genesis", "cmr", "txid", "leafver", "internal_key"):
        tx[f] = take()
    tx["path"] = [take() for _ in range(take())]
    tx["ins"] = []
    for _ in range(take()):
        i = {}
        for f in ("txid", "vout", "seq", "is_pegin"):
            i[f] = take()
        present, g = take(), take()
        i["pegin"] = g if present else None
        i["ssh"] = take()
        present, b, h = take(), take(), take()
        i["wit_last"] = (b, h) if present else None
        i["blinding"], i["entropy"] = take(), take()
        i["amount"], i["keys"] = conf(), conf()
        for f in ("arp", "krp", "e_new", "asset_new", "tokx_new", "tokc_new", "asset_re", "tokx_re", "tokc_re"):
            i[f] = take()
        i["uasset"], i["uvalue"] = conf(), conf()
        i["ush"] = take()
        tx["ins"].append(i)
    tx["outs"] = []
    for _ in range(take()):
        o = {"asset": conf(), "value": conf(), "nonce": conf()}
        for f in ("sh", "empty", "surj", "range"):
            o[f] = take()
        present, n = take(), take()
        ops = [(take(), take()) for _ in range(n)]
        o["nd"] = ops if present else None
        tx["outs"].append(o)
    if take() != 77777:
        raise Parse("abstract transaction out of sync")
    def answer():
        st, nb = take(), take()
        return (st, nb) + tuple(take() for _ in range((nb + 31) // 32))

    results = []
    for (jet, arg) in meta["queries"]:
        a = answer()
        b = answer()
        results.append((jet, arg, a, b))
    if take() != 88888:
        raise Parse("query results out of sync")
    sig = [take() for _ in range(4)]
    return {"tx": tx, "results": results, "sighashes": sig}


# ------------------------------------------------------------ rendering for Coq
def big(v):
    """a number as a Gallina term of type N; large ones as 60-bit chunks in primitive-integer notation (fast to parse)"""
    if v < 2**40:
        return "%d" % v
    ch = []
    while v:
        ch.append(v & (2**60 - 1))
        v >>= 60
    return "(B [%s]%%uint63)" % "; ".join(str(x) for x in reversed(ch))


def coq_conf(c):
    tag, v = c
    if tag == 0:
        return "CNull"
    if tag == 1:
        return "(CExplicit %s)" % big(v)
    return "(CConf %s %s)" % ("true" if tag == 3 else "false", big(v))


def coq_opt(x):
    return "None" if x is None else "(Some %s)" % big(x)


def coq_bool(b):
    return "true" if b else "false"


def coq_tx(tx):
    ins = []
    for i in tx["ins"]:
        wl = "None" if i["wit_last"] is None else "(Some (%d, %s))" % (i["wit_last"][0], big(i["wit_last"][1]))
        ins.append("(Build_tx_input %s %d %d %s %s %s %s %s %s %s %s %s %s %s %s %s %s %s %s %s %s %s %s)" % (
            big(i["txid"]), i["vout"], i["seq"], coq_bool(i["is_pegin"]), coq_opt(i["pegin"]), big(i["ssh"]), wl,
            big(i["blinding"]), big(i["entropy"]), coq_conf(i["amount"]), coq_conf(i["keys"]), big(i["arp"]), big(i["krp"]),
            big(i["e_new"]), big(i["asset_new"]), big(i["tokx_new"]), big(i["tokc_new"]), big(i["asset_re"]),
            big(i["tokx_re"]), big(i["tokc_re"]), coq_conf(i["uasset"]), coq_conf(i["uvalue"]), big(i["ush"])))
    outs = []
    for o in tx["outs"]:
        nd = "None" if o["nd"] is None else "(Some [%s])" % "; ".join("(%d, %s)" % (op[0], big(op[1])) for op in o["nd"])
        outs.append("(Build_tx_output %s %s %s %s %s %s %s %s)" % (
            coq_conf(o["asset"]), coq_conf(o["value"]), coq_conf(o["nonce"]), big(o["sh"]), coq_bool(o["empty"]),
            big(o["surj"]), big(o["range"]), nd))
    return "(Build_txenv %d %d %d %s %s %s %d %s [%s] [%s] [%s])" % (
        tx["version"], tx["lock_time"], tx["ix"], big(tx["genesis"]), big(tx["cmr"]), big(tx["txid"]), tx["leafver"],
        big(tx["internal_key"]), "; ".join(big(p) for p in tx["path"]), "; ".join(ins), "; ".join(outs))


def coq_expr(parsed):
    qs = [(CODE[j], 0 if a is None else a) for (j, a, _r, _o) in parsed["results"] if j in CODE]
    hqs = [(HCODE[j], 0 if a is None else a) for (j, a, _r, _o) in parsed["results"] if j in HCODE]
    return "run_env2 %s [%s] [%s]" % (coq_tx(parsed["tx"]), "; ".join("(%d, %s)" % (q[0], big(q[1])) for q in qs),
                                      "; ".join("(%d, %s)" % (q[0], big(q[1])) for q in hqs))


def impl_spec_part(parsed):
    out = []
    for (j, _a, r, _o) in parsed["results"]:
        if j in CODE:
            out += list(r)
    out.append(55555)
    for (j, _a, r, _o) in parsed["results"]:
        if j in HCODE:
            out += list(r)
    return out


# ------------------------------------------------------------ the property, tested directly on the implementation
def bits_hex(ans):
    """the bit string of an answer (status, nbits, 32-bit groups..) as hex text"""
    nb = ans[1]
    v = 0
    left = nb
    for g in ans[2:]:
        w = min(32, left)
        v = (v << w) | g
        left -= w
    return "0x%x" % v if nb else "-"


def pegin_inconsistent(meta):
    return any(i["pegin"] == 3 for i in meta["ins"])


def prop_check(c, r):
    if c.kind == "jets":
        return None   # the table is compared with the Coq side only
    m = c.meta
    p = m.get("parsed")
    if p is None:
        return ("crash", "environment construction or a jet crashed / panicked / hung: %s" % (m.get("raw_status"),))
    bad = []
    for (jet, arg, a, o) in p["results"]:
        if a[0] >= 2:
            bad.append(("exec", "%s(%s): program could not be built or run (status %d)" % (jet, arg, a[0])))
            continue
        if o[0] == 3:
            continue
        if o[0] == 4:
            bad.append(("oracle_ill_typed", "%s(%s): the oracle value is not of the jet's target type" % (jet, arg)))
            continue
        if a != o:
            cls = "field_mismatch"
            if jet in PEGIN_JETS and pegin_inconsistent(m):
                cls = "pegin_flag_ignored"
            bad.append((cls, "%s(%s): jet returned (status %d, %d bits, %s) but the supplied data says (status %d, %d bits, %s)"
                        % (jet, arg, a[0], a[1], bits_hex(a), o[0], o[1], bits_hex(o))))
    s = p["sighashes"]
    if not (s[0] == s[1] == s[3]):
        bad.append(("sighash_disagree", "sighash_all() = %d, sig_all_hash jet = %d, SighashCache = %d" % (s[0], s[1], s[3])))
    if s[0] != s[2]:
        cls = "pegin_flag_ignored" if pegin_inconsistent(m) else "sighash_mismatch"
        bad.append((cls, "sighash_all() = %d but the digest recomputed from the supplied data is %d" % (s[0], s[2])))
    if not bad:
        return None
    # report the most specific genuine class first
    for cls in ("field_mismatch", "sighash_mismatch", "sighash_disagree", "exec", "oracle_ill_typed", "pegin_flag_ignored"):
        for b in bad:
            if b[0] == cls:
                return (cls, "%s  [%d failing queries in this environment]" % (b[1], len(bad)))
    return bad[0]


def finding_match(c, r, cls):
    if cls == "pegin_flag_ignored" and pegin_inconsistent(c.meta):
        for f in vplib.open_findings(PROP):
            if f.get("match", {}).get("kind") == "pegin_flag_ignored":
                return f["id"]
    return None


def nontrivial(c, r):
    """distinct = distinct structural class of the environment; non-trivial = at least one input or output"""
    if c.kind != "env":
        return None
    m = c.meta
    if not m["ins"] and not m["outs"]:
        return None
    return ("env",
            tuple((i["pegin"], i["iss"], i["amt"], i["keys"], i["wit"], i["uasset"], i["uvalue"]) for i in m["ins"]),
            tuple((o["asset"][0], o["value"][0], o["nonce"], o["script"]) for o in m["outs"]),
            m["ix"] < len(m["ins"]), m["npath"])


def histogram(cases):
    h = {"inputs": {}, "outputs": {}, "pegin": {}, "issuance": {}, "annex": {}, "asset": {}, "value": {}, "nonce": {},
         "null_data_outputs": 0, "current_index_out_of_range": 0, "queries": 0, "queries_out_of_range": 0}

    def bump(d, k):
        d[str(k)] = d.get(str(k), 0) + 1
    for c in cases:
        if c.kind != "env":
            continue
        m = c.meta
        bump(h["inputs"], len(m["ins"]))
        bump(h["outputs"], len(m["outs"]))
        if m["ix"] >= len(m["ins"]):
            h["current_index_out_of_range"] += 1
        for i in m["ins"]:
            bump(h["pegin"], ["none", "flag+data", "flag only", "data only"][i["pegin"]])
            bump(h["issuance"], "%s/%s%s" % (["none", "new", "reissue"][i["iss"]], i["amt"], i["keys"]))
            bump(h["annex"], "annex" if "a" in i["wit"] else ("empty stack" if i["wit"] == "0" else "no annex"))
            bump(h["asset"], "utxo " + i["uasset"])
            bump(h["value"], "utxo " + i["uvalue"])
        for o in m["outs"]:
            bump(h["asset"], "out " + o["asset"][0])
            bump(h["value"], "out " + o["value"][0])
            bump(h["nonce"], o["nonce"])
            if nd_len(o["script"]) is not None:
                h["null_data_outputs"] += 1
        h["queries"] += len(m["queries"])
        for (j, a) in m["queries"]:
            if a is None:
                continue
            if (j in IN_INDEXED or j in HASH_IN) and a >= len(m["ins"]):
                h["queries_out_of_range"] += 1
            if (j in OUT_INDEXED or j in HASH_OUT) and a >= len(m["outs"]):
                h["queries_out_of_range"] += 1
    return h


def valgrind_stage(rep, binary, cases, n):
    """Run a sample of the environments under valgrind (memcheck): a test of the pointer marshalling and
    of Drop for the malloc'd C objects, not a proof."""
    vg = subprocess.run("command -v valgrind", shell=True, capture_output=True, text=True).stdout.strip()
    info = {"available": bool(vg), "cases": 0, "errors": 0}
    if not vg:
        rep.coverage["valgrind"] = info
        return
    envs = [c for c in cases if c.kind == "env"]
    sample = envs[:: max(1, len(envs) // n)][:n]
    import concurrent.futures
    nsh = 8
    parts = [sample[i::nsh] for i in range(nsh) if sample[i::nsh]]

    def one(k):
        path = os.path.join(rep.workdir(), "valgrind_cases_%d.txt" % k)
        open(path, "w").write("\n".join("%s %s %s" % (c.cid, c.kind, c.line) for c in parts[k]) + "\n")
        rc, out = vplib.sh([vg, "--error-exitcode=9", "--leak-check=no", "-q", binary, "env", path], timeout=3000)
        return k, path, rc, out
    info["cases"] = len(sample)
    with concurrent.futures.ThreadPoolExecutor(max_workers=nsh) as ex:
        runs = list(ex.map(one, range(len(parts))))
    for k, path, rc, out in runs:
        got = {l.split()[0]: l for l in out.split("\n") if l and l[0] in "ek"}
        if rc == 9 or "Invalid read" in out or "Invalid write" in out or "uninitialised" in out:
            info["errors"] += 1
            rep.violation("valgrind reports a memory error while building/using/dropping an ElementsEnv",
                          {"valgrind_output": out[-4000:], "cases_file": path}, True)
            break
        if rc != 0:
            raise vplib.Infra("valgrind run failed (rc %s): %s" % (rc, out[-1500:]))
        # same answers as the native run
        for c in parts[k]:
            native = c.meta.get("raw_line")
            if native is not None and c.cid in got and got[c.cid].split()[1:] != native:
                info["errors"] += 1
                rep.violation("result under valgrind differs from the native run (uninitialised or dangling data?)",
                              {"case": c.cid, "harness_args": c.line}, True)
                return
    rep.coverage["valgrind"] = info


def run(rep, tier, rng):
    proof_ok = vplib.proof_stage(rep, "Props/C15.v", extra_targets=["Env/Run.vo", "Env/HashRun.vo"], allowed_axioms=UINT63_PRIMS,
                                 translators=())
    binary, out = vplib.harness_build("debug", crate=CRATE)
    if binary is None:
        raise vplib.Infra("harness build failed:\n" + out[-3000:])
    cases = corpus_cases() + gen_cases(rng, tier)
    import time
    t0 = time.time()
    impl_raw = vplib.run_harness(binary, "env", ["%s %s %s" % (c.cid, c.kind, c.line) for c in cases],
                                 workdir=rep.workdir(), timeout=1200)
    t1 = time.time()
    impl = {}
    for c in cases:
        r = impl_raw.get(c.cid)
        if c.kind == "jets":
            impl[c.cid] = r
            continue
        c.meta["raw_status"] = r if not isinstance(r, list) else r[:1]
        c.meta["raw_line"] = [str(x) for x in r] if isinstance(r, list) else None
        try:
            p = parse_env(r, c.meta)
        except (Parse, IndexError, TypeError):
            impl[c.cid] = r
            continue
        c.meta["parsed"] = p
        c.expr = coq_expr(p)
        impl[c.cid] = impl_spec_part(p)
    mc = [c for c in cases if c.expr is not None]
    vals, logs = vplib.coq_eval(IMPORTS, [c.expr for c in mc], workdir=rep.workdir(), tag="c15", batch=max(8, (len(mc) + 15) // 16) if tier == "quick" else 40)
    t2 = time.time()
    if any(logs):
        raise vplib.Infra("model evaluation failed in Coq:\n" + [l for l in logs if l][0][-3000:])
    model = {c.cid: v for c, v in zip(mc, vals) if v is not None}
    cor = rep.coverage.setdefault("correspondence", {})
    cor["impl_eval_s"] = round(t1 - t0, 2)
    cor["model_eval_s"] = round(t2 - t1, 2)
    pfail, mism = vplib.decide(rep, cases, impl, model, prop_check, finding_match, nontrivial,
                               what="correspondence Env/TxSpec.v (jet_spec) vs one-jet programs on ElementsEnv")
    nq = sum(len(c.meta["queries"]) for c in cases if c.kind == "env")
    nspec = sum(1 for c in cases if c.kind == "env" for (j, _a) in c.meta["queries"] if j in CODE or j in HCODE)
    rep.coverage["jet_executions"] = nq
    rep.coverage["jet_executions_compared_with_coq_spec"] = nspec
    rep.coverage["jets_specified_in_coq"] = len(SPEC_JETS) + len(HJETS)
    rep.coverage["hash_jets_specified_in_coq"] = len(HJETS)
    rep.coverage["jets_oracle_only"] = len([j for j in HASH_UNIT + HASH_IN + HASH_OUT if j not in HCODE])
    rep.coverage["histogram"] = histogram(cases)
    if tier == "thorough":
        valgrind_stage(rep, binary, cases, 150)
    else:
        rep.coverage["valgrind"] = {"note": "thorough tier only"}
    rep.coverage["explanation"] = (
        "Level 'other'.  THEOREMS (Coq, Props/C15.v, about the model Env/TxSpec.v only): the specified result of each of the "
        "%d modelled introspection jets has the jet's target type for every abstract transaction and every input word "
        "(spec_typed); indexed jets return the absent value exactly for out-of-range indices and the selected field otherwise; "
        "current_X = input_X(current index) or failure; the annex rule; consistency of the issuance views; the pegin answer "
        "follows the is_pegin flag (and the same statement about the marshalling before /repo commit 06fd3e7 is refuted).  The jet source/target types in the model are compared with the "
        "implementation's jet table on every run (case kind 'jets').  COMPARISON (not a proof): the Coq specification evaluated by "
        "vm_compute on the abstract transaction that the harness read from the Rust `elements` structures vs the output of "
        "one-jet programs run by BitMachine::exec on ElementsEnv::new (Rust marshalling in c_env.rs + C env.c/elementsJets.c); "
        "the same for the %d SHA-256 composition jets (input/output/issuance hashes, tx_hash, tap hashes, sig_all_hash, the indexed "
        "input_hash / input_utxo_hash / issuance_hash / output_hash), specified in Env/TxHashes.v over the same abstract transaction "
        "with an executable SHA-256 (theorems: typedness; sig_all_hash is a function of the committed view, independence of the "
        "transaction id, scriptSigs, unflagged pegin data, unused range proofs, output extras); "
        "and every jet output vs an oracle in the harness "
        "written against the elements crate API; the four signature hashes (CTxEnv::sighash_all, sig_all_hash jet, own "
        "recomputation, SighashCache::simplicity_spend_signature_hash) must coincide.  SHA-256, secp256k1 point parsing, pointer "
        "lifetimes, null conventions at the FFI boundary and Drop of the malloc'd C objects are outside the model; the last "
        "three are exercised by the comparison and, in the thorough tier, by running the harness under valgrind (a test)."
        % (len(SPEC_JETS), len(HASH_UNIT + HASH_IN + HASH_OUT)))
    rep.coverage["trusted_base"] = vplib.GENERIC_TRUSTED + [
        "Env/TxSpec.v written by hand from c_env.rs, env.c, elementsJets.c; hashes of scripts / scriptSigs / annexes / proofs and derived "
        "identifiers (issuance entropy, asset and token ids) are data supplied by the harness",
        "Env/TxHashes.v written by hand from env.c (mallocTransaction, mallocTapEnv), txEnv.c, ops.c, elementsJets.c: the 28 SHA-256 "
        "composition jets computed with Merkle/Sha256.v (Uint63 primitives int add sub land lor lxor lsl lsr eqb, listed by Print Assumptions "
        "for the theorems that mention the digests)",
        "harness_env/src/env.rs: generator of transactions, abstraction of the elements structures, oracle (incl. own SHA-256 composition of the signature hash using bitcoin_hashes)",
        "the `elements`, `bitcoin_hashes`, `secp256k1-zkp` crates (construction and accessors of the supplied data)",
        "ElementsEnv::new requires one spent output per input; environments with a different number of utxos are not generated",
    ]
    rep.coverage["refuted_lemmas"] = ["pegin_follows_flag_before_fix_refuted (finding of this check, fixed by /repo commit 06fd3e7; regression class kept in the generator)"]
    rep.coverage["rule"] = (
        "environments generated from structural descriptors: 0..4 inputs x 0..4 outputs cycled, per input pegin (none / flag+data / "
        "flag only / data only), issuance (none / new / reissuance x amount and keys null/explicit/confidential), witness stacks "
        "(empty, 1..4 elements, last element with or without the 0x50 prefix or empty), spent asset/value null/explicit/confidential, "
        "script and proof lengths 0..200; per output asset x value x nonce classes, empty/random/null-data scripts (well formed and "
        "malformed pushes), fee outputs over a 4-asset palette with amounts up to 2^64-1; versions, lock times around 500000000, "
        "current index in and out of range, control-block paths 0..128.  Every environment is queried with every unit jet, every "
        "indexed jet at every in-range index plus three out-of-range ones.  Distinct = distinct (per-input classes, per-output "
        "classes, current index in range, path length) tuple; non-trivial = at least one input or output")
    envs = [c for c in cases if c.kind == "env" and "parsed" in c.meta]
    rep.coverage["samples"] = [{"harness_args": c.line[:600] + (" ..." if len(c.line) > 600 else ""),
                                "first_results": [(j, a, list(r)) for (j, a, r, _o) in c.meta["parsed"]["results"][:6]],
                                "sighash": c.meta["parsed"]["sighashes"][0]}
                               for c in envs[:: max(1, len(envs) // 4)][:4]]
    for c in cases:
        c.meta.pop("parsed", None)
        c.meta.pop("raw_line", None)
    vplib.finish_proof_verdict(rep, pfail)
    rep.assumptions += [
        "the abstract transaction given to the Coq specification is produced by the harness from the elements structures (shared with the oracle only at the level of the elements accessors)",
        "jets are run one per program (comp word jet); interactions between jets in larger programs are the subject of C05/C06",
    ]


def corpus_cases():
    out = []
    d = os.path.join(vplib.VERIF, "corpus", PROP)
    if not os.path.isdir(d):
        return out
    for fn in sorted(os.listdir(d)):
        if not fn.endswith(".case"):
            continue
        for k, line in enumerate(open(os.path.join(d, fn))):
            line = line.strip()
            if not line or line.startswith("#"):
                continue
            toks = line.split()
            if toks[0] != "env":
                continue
            meta = meta_of_line(toks[1:])
            out.append(Case("k%s_%d" % (fn[:-5], k), "env", " ".join(toks[1:]), None, meta))
    return out


def meta_of_line(t):
    """rebuild the meta of an env case from its harness line (corpus and replay)"""
    version, lock_time, ix, leafver, npath = int(t[1]), int(t[2]), int(t[3]), int(t[4]), int(t[5])
    pos = 7
    ins = []
    while t[pos] != "OUT":
        f = t[pos].split(".")
        ins.append({"seq": int(f[0]), "vout": int(f[1]), "pegin": int(f[2]), "iss": int(f[3]), "amt": f[4], "keys": f[5],
                    "arp": int(f[6]), "krp": int(f[7]), "wit": f[8], "ssl": int(f[9]), "uasset": f[10], "uvalue": f[11],
                    "uscript": int(f[12])})
        pos += 1
    pos += 1
    outs = []
    while t[pos] != "Q":
        f = t[pos].split(".")
        outs.append({"asset": f[0], "value": f[1], "nonce": f[2], "script": f[3], "surj": int(f[4]), "range": int(f[5])})
        pos += 1
    qs = []
    for q in t[pos + 1:]:
        j, a = q.split(":")
        qs.append((j, None if a == "-" else int(a, 16)))
    return {"ins": ins, "outs": outs, "version": version, "lock_time": lock_time, "ix": ix, "npath": npath,
            "leafver": leafver, "queries": qs}


def replay(obj):
    import json
    c = obj.get("case")
    print(json.dumps({k: v for k, v in obj.items() if k != "case"}, indent=1, default=str)[:3000])
    if not c:
        return 0
    binary, _ = vplib.harness_build("debug", crate=CRATE)
    meta = meta_of_line(c["harness_args"].split()) if c["kind"] == "env" else c.get("meta")
    case = Case(c["id"], c["kind"], c["harness_args"], c.get("model_expr"), meta)
    rep = vplib.Report(PROP, "quick", 0, level=LEVEL)
    raw = vplib.run_harness(binary, "env", ["%s %s %s" % (case.cid, case.kind, case.line)], workdir=rep.workdir())
    r = raw.get(case.cid)
    if case.kind == "env":
        try:
            p = parse_env(r, case.meta)
        except (Parse, IndexError, TypeError):
            print("implementation: crashed / no result:", r if not isinstance(r, list) else r[:3])
            return 0
        case.meta["parsed"] = p
        vals, logs = vplib.coq_eval(IMPORTS, [coq_expr(p)], workdir=rep.workdir(), tag="replay", batch=1)
        spec = impl_spec_part(p)
        print("jet outputs that differ from the oracle:")
        for (j, a, x, o) in p["results"]:
            if o[0] != 3 and x != o:
                print("  %s(%s): jet %s oracle %s" % (j, a, list(x), list(o)))
        print("sighashes (env, jet, recomputed, SighashCache):", p["sighashes"])
        print("Coq specification agrees with the jets:", vals[0] == spec if vals and vals[0] is not None else "n/a")
        print("property      :", prop_check(case, spec))
    else:
        print("implementation:", r)
    return 0
