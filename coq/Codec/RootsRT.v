(* C01 - identity and annotated roots after the round trip (was: "tested only").

   Merkle/Ihr.v `redeem_table` computes, for a typed program with witness values, what RedeemData::new
   computes for every node: AMR, IMR, IHR (functions of the node's constructor and payload, its arrow, the
   arrows / roots of its children and the witness value) - for an ARBITRARY compression function.

   THEOREM roots_quotient: if the decoded typed program tp' is a quotient of the original tp
   (Codec/Reinfer.v: same structure up to the sharing quotient phi, node payloads and witness values
   included) and carries the same arrows (Codec/Reinfer.v reinfer_quotient: true when the original arrows
   are the principal ones), then the table of tp' exists and gives node phi i exactly the AMR / IMR / IHR /
   arrow of node i.  Together: a principally typed program is a fixed point of encode/decode w.r.t. types,
   identity roots and annotated roots, for any hash (no collision-freeness needed: equal inputs are hashed). *)
From RS Require Import Lib.Tac Lib.Outcome Ty.Ty Core.Prog Merkle.Tagged Merkle.Cmr Merkle.Ihr
  Infer.Constraints Infer.Unify Infer.Infer Infer.Principal Infer.Gen Infer.Theorems Infer.Order Codec.Reinfer.
Import ListNotations.

(* ------------------------------------------------------------------ table folds, pointwise *)
Lemma tfoldM_spec {A B} (f : list B -> A -> outcome N B) : forall l pre t, tfoldM f pre l = Ok t ->
  length t = (length pre + length l)%nat /\ firstn (length pre) t = pre /\
  forall j a, nth_error l j = Some a ->
    exists b, nth_error t (length pre + j) = Some b /\ f (firstn (length pre + j) t) a = Ok b.
Proof.
  induction l as [|x l IH]; intros pre t H; cbn [tfoldM] in H.
  - injection H as <-. split; [cbn; lia|]. split; [apply firstn_all|]. intros j a Hj. destruct j; discriminate.
  - destruct (f pre x) as [b| | |] eqn:E; cbn [obind] in H; try discriminate.
    destruct (IH _ _ H) as (L & F & P). rewrite app_length in L, F, P. cbn [length] in L, F, P.
    assert (Fpre : firstn (length pre) t = pre).
    { replace (firstn (length pre) t) with (firstn (length pre) (firstn (length pre + 1) t))
        by (rewrite firstn_firstn; f_equal; lia).
      rewrite F. rewrite firstn_app, Nat.sub_diag, firstn_all. cbn. apply app_nil_r. }
    split; [cbn [length]; lia|]. split; [exact Fpre|].
    intros [|j] a Hj; cbn [nth_error] in Hj.
    + injection Hj as <-. exists b. rewrite Nat.add_0_r. split.
      * assert (X : nth_error (firstn (length pre + 1) t) (length pre) = Some b).
        { rewrite F. rewrite nth_error_app2 by lia. rewrite Nat.sub_diag. reflexivity. }
        rewrite nth_error_firstn in X by lia. exact X.
      * rewrite Fpre. exact E.
    + destruct (P j a Hj) as (b' & Hb & Hf). exists b'.
      replace (length pre + S j)%nat with (length pre + 1 + j)%nat by lia. auto.
Qed.

Lemma tfoldM_intro {A B} (f : list B -> A -> outcome N B) : forall l pre t,
  length t = (length pre + length l)%nat -> firstn (length pre) t = pre ->
  (forall j a, nth_error l j = Some a ->
     exists b, nth_error t (length pre + j) = Some b /\ f (firstn (length pre + j) t) a = Ok b) ->
  tfoldM f pre l = Ok t.
Proof.
  induction l as [|x l IH]; intros pre t L F P; cbn [tfoldM].
  - cbn [length] in L. rewrite Nat.add_0_r in L. rewrite <- F, <- L, firstn_all. reflexivity.
  - destruct (P 0%nat x eq_refl) as (b & Hb & Hf). rewrite Nat.add_0_r in Hb, Hf. rewrite F in Hf.
    rewrite Hf. cbn [obind]. cbn [length] in L.
    assert (F1 : firstn (length (pre ++ [b])) t = pre ++ [b]).
    { rewrite app_length. cbn [length]. rewrite Nat.add_1_r.
      rewrite (firstn_S_nth b) by lia. rewrite F. f_equal. f_equal.
      apply nth_error_nth. exact Hb. }
    apply IH.
    + rewrite app_length. cbn [length]. lia.
    + exact F1.
    + intros j a Hj. rewrite app_length. cbn [length].
      replace (length pre + 1 + j)%nat with (length pre + S j)%nat by lia. apply P. exact Hj.
Qed.

Section Roots.
  Variable H : Type.
  Variable compress : H -> H * H -> H.
  Variable iv : tag -> H.
  Variable ivi : tag -> H.
  Variable zero : H.
  Variable of_weight : N -> H.
  Variable bit_cmr : bool -> H.
  Variable tmr_unit : H.
  Variable tmr_two_two_n : list H.
  Variable jet_cmr : N -> N -> H.
  Variable h_of_bytes : list N -> H.
  Variable compact_value : list bool -> H.

  Notation rnode := (redeem_node H compress iv ivi zero of_weight bit_cmr tmr_unit tmr_two_two_n jet_cmr h_of_bytes compact_value).
  Notation rtable := (redeem_table H compress iv ivi zero of_weight bit_cmr tmr_unit tmr_two_two_n jet_cmr h_of_bytes compact_value).

  (* RedeemData::new looks at the other nodes only through its children *)
  Lemma redeem_node_ext tbl1 tbl2 f nd oa :
    (forall c, In c (children nd) -> nth_error tbl1 c = nth_error tbl2 (f c)) ->
    rnode tbl1 (nd, oa) = rnode tbl2 (rename_node f nd, oa).
  Proof.
    intros Hc. destruct oa as [a|]; destruct nd; cbn [redeem_node rename_node children] in *; try reflexivity;
      unfold rget;
      try (rewrite (Hc c) by (cbn; auto)); try (rewrite (Hc l) by (cbn; auto)); try (rewrite (Hc r) by (cbn; auto));
      try reflexivity.
    destruct r as [r|]; cbn [option_map children] in *; [|reflexivity].
    rewrite (Hc l) by (cbn; auto). rewrite (Hc r) by (cbn; auto). reflexivity.
  Qed.

  Variable phi : nat -> nat.
  Variable tp tp' : typed_prog.
  Let p := map fst tp.
  Let p' := map fst tp'.
  Hypothesis Wp : wf_from 0 p = true.
  Hypothesis Wp' : wf_from 0 p' = true.
  Hypothesis Q : quotient_of phi p p'.
  Hypothesis arrows_agree : forall i, (i < length tp)%nat ->
    snd (nth (phi i) tp' (NIden, None)) = snd (nth i tp (NIden, None)).

  Lemma len_p : length p = length tp. Proof. apply map_length. Qed.
  Lemma len_p' : length p' = length tp'. Proof. apply map_length. Qed.

  Lemma map_fst_nth (l : typed_prog) i : nth i (map fst l) NIden = fst (nth i l (NIden, None)).
  Proof. exact (map_nth fst l (NIden, None) i). Qed.

  Lemma tp_nth i : (i < length tp)%nat ->
    nth_error tp i = Some (nth i p NIden, snd (nth i tp (NIden, None))).
  Proof.
    intros Hi. rewrite (nth_error_nth' tp (NIden, None) Hi). f_equal.
    unfold p. rewrite map_fst_nth. apply surjective_pairing.
  Qed.

  Lemma tp'_nth i : (i < length tp)%nat ->
    nth_error tp' (phi i) = Some (rename_node phi (nth i p NIden), snd (nth i tp (NIden, None))).
  Proof.
    intros Hi. assert (Hi' : (i < length p)%nat) by (rewrite len_p; exact Hi).
    destruct (q_node _ _ _ Q i Hi') as [Lj En]. rewrite len_p' in Lj.
    rewrite (nth_error_nth' tp' (NIden, None) Lj). f_equal.
    rewrite <- En, <- (arrows_agree i Hi).
    unfold p'. rewrite map_fst_nth. apply surjective_pairing.
  Qed.

  Variable t : list (rdata H + H).
  Hypothesis Et : rtable tp = Ok t.

  Lemma t_len : length t = length tp.
  Proof. destruct (tfoldM_spec _ _ _ _ Et) as (L & _ & _). exact L. Qed.

  Lemma t_at i : (i < length tp)%nat ->
    exists b, nth_error t i = Some b /\ rnode (firstn i t) (nth i p NIden, snd (nth i tp (NIden, None))) = Ok b.
  Proof.
    intros Hi. destruct (tfoldM_spec _ _ _ _ Et) as (_ & _ & P).
    exact (P i _ (tp_nth i Hi)).
  Qed.

  Let psi := psi_of phi (length p).

  (* the table of the quotient: entry j is the entry of (any) preimage of j *)
  Definition t_quot : list (rdata H + H) :=
    map (fun j => nth (psi j) t (inr zero)) (seq 0 (length tp')).

  Lemma t_quot_nth j : (j < length tp')%nat -> nth_error t_quot j = nth_error t (psi j).
  Proof.
    intros Hj. unfold t_quot.
    assert (Es : nth_error (seq 0 (length tp')) j = Some j).
    { pose proof (@seq_nth (length tp') 0 j 0%nat Hj) as Sn. cbn [Nat.add] in Sn. rewrite <- Sn at 2.
      apply nth_error_nth'. rewrite seq_length. exact Hj. }
    rewrite (map_nth_error (fun j0 => nth (psi j0) t (inr zero)) _ _ Es).
    assert (Hj' : (j < length p')%nat) by (rewrite len_p'; exact Hj).
    destruct (psi_of_spec phi (length p) j (q_onto _ _ _ Q j Hj')) as [L _].
    symmetry. apply nth_error_nth'. rewrite t_len, <- len_p. exact L.
  Qed.

  (* nodes of the same class have the same table entry *)
  Lemma class_eq : forall j i i2, (i < length tp)%nat -> (i2 < length tp)%nat -> phi i = j -> phi i2 = j ->
    nth_error t i = nth_error t i2.
  Proof.
    induction j as [j IH] using lt_wf_ind. intros i i2 Hi Hi2 Ei Ei2.
    destruct (t_at i Hi) as (b & Hb & Hf). destruct (t_at i2 Hi2) as (b2 & Hb2 & Hf2).
    rewrite Hb, Hb2. f_equal.
    assert (Lj : (j < length tp')%nat).
    { assert (Hi' : (i < length p)%nat) by (rewrite len_p; exact Hi).
      destruct (q_node _ _ _ Q i Hi') as [L _]. rewrite len_p', Ei in L. exact L. }
    (* both are RedeemData::new of the quotient node on the quotient table *)
    assert (Hq : forall i0 b0, (i0 < length tp)%nat -> phi i0 = j ->
               rnode (firstn i0 t) (nth i0 p NIden, snd (nth i0 tp (NIden, None))) = Ok b0 ->
               rnode (firstn j t_quot) (rename_node phi (nth i0 p NIden), snd (nth i0 tp (NIden, None))) = Ok b0).
    { intros i0 b0 Hi0 Ej0 Hf0. rewrite <- Hf0. symmetry. apply redeem_node_ext. intros c Hc.
      assert (Hi0' : (i0 < length p)%nat) by (rewrite len_p; exact Hi0).
      destruct (phi_child_lt phi p p' Wp Wp' Q i0 c Hi0' Hc) as [Lc Lpc].
      rewrite Ej0 in Lpc. rewrite !nth_error_firstn by assumption.
      rewrite t_quot_nth by lia.
      assert (Lc' : (c < length p)%nat) by (rewrite len_p; lia).
      destruct (psi_of_spec phi (length p) (phi c) (ex_intro _ c (conj Lc' eq_refl))) as [L1 E1].
      fold psi in L1, E1. rewrite len_p in L1.
      apply (IH (phi c) Lpc c (psi (phi c))); [lia|exact L1|reflexivity|exact E1]. }
    pose proof (Hq i b Hi Ei Hf) as X. pose proof (Hq i2 b2 Hi2 Ei2 Hf2) as X2.
    pose proof (tp'_nth i Hi) as T1. pose proof (tp'_nth i2 Hi2) as T2. rewrite Ei in T1. rewrite Ei2 in T2.
    rewrite T1 in T2. injection T2 as En Ea. rewrite En, Ea in X. rewrite X in X2. congruence.
  Qed.

  (* THEOREM: identity and annotated roots (and arrows) of the quotient = those of the original, node by node *)
  Theorem roots_quotient :
    rtable tp' = Ok t_quot /\ forall i, (i < length tp)%nat -> nth_error t_quot (phi i) = nth_error t i.
  Proof.
    assert (Hsame : forall i, (i < length tp)%nat -> nth_error t_quot (phi i) = nth_error t i).
    { intros i Hi. assert (Hi'' : (i < length p)%nat) by (rewrite len_p; exact Hi).
      destruct (q_node _ _ _ Q i Hi'') as [L _]. rewrite len_p' in L.
      rewrite t_quot_nth by exact L.
      assert (Hi' : (i < length p)%nat) by (rewrite len_p; exact Hi).
      destruct (psi_of_spec phi (length p) (phi i) (ex_intro _ i (conj Hi' eq_refl))) as [L1 E1].
      fold psi in L1, E1. rewrite len_p in L1.
      apply (class_eq (phi i) (psi (phi i)) i L1 Hi E1 eq_refl). }
    split; [|exact Hsame].
    unfold redeem_table. apply tfoldM_intro.
    - cbn [length Nat.add]. unfold t_quot. rewrite map_length, seq_length. reflexivity.
    - reflexivity.
    - intros j a Hj. cbn [length Nat.add].
      assert (Lj : (j < length tp')%nat) by (apply nth_error_Some; congruence).
      assert (Lj' : (j < length p')%nat) by (rewrite len_p'; exact Lj).
      destruct (psi_of_spec phi (length p) j (q_onto _ _ _ Q j Lj')) as [L1 E1].
      fold psi in L1, E1. rewrite len_p in L1. set (i := psi j) in *.
      destruct (t_at i L1) as (b & Hb & Hf). exists b. split.
      + rewrite <- E1. rewrite (Hsame i L1). exact Hb.
      + pose proof (tp'_nth i L1) as T1. rewrite E1, Hj in T1. injection T1 as ->.
        rewrite <- Hf. symmetry. apply redeem_node_ext. intros c Hc.
        assert (L1' : (i < length p)%nat) by (rewrite len_p; exact L1).
        destruct (phi_child_lt phi p p' Wp Wp' Q i c L1' Hc) as [Lc Lpc].
        rewrite E1 in Lpc. rewrite !nth_error_firstn by assumption.
        symmetry. apply Hsame. lia.
  Qed.

End Roots.

(* ------------------------------------------------------------------ types and roots together *)
Lemma map_fst_combine {A B} (l : list A) (l' : list B) : length l = length l' -> map fst (combine l l') = l.
Proof.
  revert l'. induction l as [|a l IH]; intros [|b l'] L; cbn in *; try lia; [reflexivity|]. f_equal. apply IH. lia.
Qed.

Lemma check_typing_length jt root p tau : check_typing jt root p tau = true -> length tau = length p.
Proof.
  unfold check_typing. intros C. apply andb_true_iff in C. destruct C as [C _].
  apply andb_true_iff in C. destruct C as [C _]. apply Nat.eqb_eq. exact C.
Qed.

(* THEOREM (C01, types / IHR / AMR): let p be a program whose arrows tau are the principal arrows of its
   structure (inference in a context that holds only the program's nodes), with witness values in its witness
   nodes; let p' be its quotient by the sharing map phi (merged nodes have equal arrows - the identity hash
   commits to them).  Then re-inference on p' yields the same arrow at every node, and - for any compression
   function - RedeemData::new yields the same AMR, IMR, IHR at every node. *)
Theorem roundtrip_fixed_point
  (H : Type) (compress : H -> H * H -> H) (iv ivi : tag -> H) (zero : H) (of_weight : N -> H) (bit_cmr : bool -> H)
  (tmr_unit : H) (tmr_two_two_n : list H) (jet_cmr : N -> N -> H) (h_of_bytes : list N -> H)
  (compact_value : list bool -> H)
  (jt : jet_table) (phi : nat -> nat) (p p' : prog) (root : nat) (tau : list (option tarrow)) :
  wf_from 0 p = true -> wf_from 0 p' = true -> quotient_of phi p p' -> (root < length p)%nat ->
  infer jt (Some root) p = Ok tau ->
  (forall i j, (i < length p)%nat -> (j < length p)%nat -> phi i = phi j -> nth i tau None = nth j tau None) ->
  exists tau', infer jt (Some (phi root)) p' = Ok tau' /\
    (forall i, (i < length p)%nat -> nth (phi i) tau' None = nth i tau None) /\
    forall t, redeem_table H compress iv ivi zero of_weight bit_cmr tmr_unit tmr_two_two_n jet_cmr h_of_bytes
                compact_value (combine p tau) = Ok t ->
      exists t', redeem_table H compress iv ivi zero of_weight bit_cmr tmr_unit tmr_two_two_n jet_cmr h_of_bytes
                   compact_value (combine p' tau') = Ok t' /\
        forall i, (i < length p)%nat -> nth_error t' (phi i) = nth_error t i.
Proof.
  intros Wp Wp' Q Hroot E Hcls.
  assert (Hr : forall r, Some root = Some r -> (r < length p)%nat) by (intros r [= <-]; exact Hroot).
  destruct (reinfer_quotient jt phi p p' Wp Wp' Q (Some root) tau Hr E Hcls) as (tau' & E' & Hsame).
  exists tau'. split; [exact E'|]. split; [exact Hsame|]. intros t Et.
  pose proof (check_typing_length _ _ _ _ (infer_sound _ _ _ _ E)) as L.
  pose proof (check_typing_length _ _ _ _ (infer_sound _ _ _ _ E')) as L'.
  assert (Ep : map fst (combine p tau) = p) by (apply map_fst_combine; lia).
  assert (Ep' : map fst (combine p' tau') = p') by (apply map_fst_combine; lia).
  assert (Lc : length (combine p tau) = length p) by (rewrite combine_length; lia).
  pose proof (roots_quotient H compress iv ivi zero of_weight bit_cmr tmr_unit tmr_two_two_n jet_cmr h_of_bytes
                compact_value phi (combine p tau) (combine p' tau')) as R.
  assert (Wc : wf_from 0 (map fst (combine p tau)) = true) by (rewrite Ep; exact Wp).
  assert (Wc' : wf_from 0 (map fst (combine p' tau')) = true) by (rewrite Ep'; exact Wp').
  assert (Qc : quotient_of phi (map fst (combine p tau)) (map fst (combine p' tau'))) by (rewrite Ep, Ep'; exact Q).
  specialize (R Wc Wc' Qc).
  assert (Ha : forall i, (i < length (combine p tau))%nat ->
             snd (nth (phi i) (combine p' tau') (NIden, None)) = snd (nth i (combine p tau) (NIden, None))).
  { intros i Hi. rewrite Lc in Hi. rewrite !combine_nth by lia. cbn [snd]. apply Hsame. exact Hi. }
  destruct (R Ha t Et) as [R1 R2]. eexists. split; [exact R1|]. intros i Hi. apply R2.
  change (i < length (combine p tau))%nat. rewrite Lc. exact Hi.
Qed.
