(* Executable entry point for the C19 correspondence check. *)
From RS Require Import Lib.Tac Lib.Outcome Generated.Consts Budget.Budget.
Import ListNotations.
Local Open Scope N_scope.

(* stack given run-length encoded: list of (count, item length) *)
Definition expand (rle : list (N * N)) : list N :=
  flat_map (fun '(k, l) => repeat l (N.to_nat k)) rle.

Definition show_ob (r : outcome unit bool) : list N :=
  match r with Ok true => [1] | Ok false => [0] | Panic c => [9; c] | _ => [8] end.

(* result: valid?, padding (0 = None, else 1 + annex length), valid after appending the
   annex, valid after appending an annex one byte shorter (2 = not applicable),
   weight of cost, cost of that weight *)
Definition run_budget (c : N) (rle : list (N * N)) : list N :=
  let ls := expand rle in
  show_ob (is_budget_valid c ls) ++
  match get_padding c ls with
  | Ok None => [0; 2; 2]
  | Ok (Some a) =>
      [1 + a] ++ show_ob (is_budget_valid c (ls ++ [a])) ++
      (if a <=? 1 then [2] else show_ob (is_budget_valid c (ls ++ [a - 1])))
  | Panic q => [9; q]
  | _ => [8]
  end ++ [weight_of_cost c; cost_of_weight (weight_of_cost c)].

(* conversions of an arbitrary 64-bit weight: cost of it, weight of that cost *)
Definition run_conv (w : N) : list N :=
  [cost_of_weight64 w; weight_of_cost (cost_of_weight64 w)].
