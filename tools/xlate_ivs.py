#!/usr/bin/env python3
"""Translator: the tagged-hash initial values of /repo/src/merkle/{cmr,ihr,amr,tmr}.rs, their tag
strings (taken from the `ivs` unit tests of those files), the constant tables `Cmr::BITS` and
`Tmr::TWO_TWO_N`, the two tags that are hashed at run time (`bip340_iv(b"...")` in cmr.rs / ihr.rs)
and the CMR of every Core / Elements jet (src/jet/init/{core,elements}.rs, in `ALL` order)
-> coq/Generated/Ivs.v.

Fails closed: every `const X_IV` must have exactly one `check_iv(.. X_IV, "tag")` line and vice versa,
the set of names per file is asserted, every byte table must have the expected size.  Any deviation
raises TranslateError (exit 3), which the driver reports as a broken tie to the source."""
import os
import re
import sys

REPO = os.environ.get("VERIF_REPO", "/repo")


class TranslateError(Exception):
    pass


EXPECTED = {
    "cmr": ("Cmr", ["unit", "iden", "injl", "injr", "take", "drop", "comp", "case", "pair", "disconnect",
                    "witness", "fail", "const_word"]),
    "ihr": ("Imr", ["iden", "unit", "injl", "injr", "take", "drop", "comp", "case", "pair", "disconnect",
                    "witness", "fail"]),
    "amr": ("Amr", ["iden", "unit", "injl", "injr", "take", "drop", "comp", "case", "assertl", "assertr",
                    "pair", "disconnect", "witness", "fail"]),
    "tmr": ("Tmr", ["unit", "sum", "prod"]),
}

HEXB = r"0x[0-9a-fA-F]{2}"


def _bytes(body, what, n):
    body = re.sub(r"//[^\n]*", "", body)
    toks = [t.strip() for t in body.replace("\n", " ").split(",")]
    toks = [t for t in toks if t]
    for t in toks:
        if not re.fullmatch(HEXB, t):
            raise TranslateError("xlate_ivs: %s: unexpected token %r in byte table" % (what, t))
    if len(toks) != n:
        raise TranslateError("xlate_ivs: %s: %d bytes, expected %d" % (what, len(toks), n))
    return [int(t, 16) for t in toks]


def _unescape(lit, what):
    """Rust string literal body (only \\xNN escapes and printable ASCII are accepted) -> bytes"""
    out = []
    i = 0
    while i < len(lit):
        c = lit[i]
        if c == "\\":
            m = re.match(r"\\x([0-9a-fA-F]{2})", lit[i:])
            if not m:
                raise TranslateError("xlate_ivs: %s: unsupported escape in %r" % (what, lit))
            out.append(int(m.group(1), 16))
            i += 4
        else:
            if not (32 <= ord(c) < 127):
                raise TranslateError("xlate_ivs: %s: non-ASCII tag %r" % (what, lit))
            out.append(ord(c))
            i += 1
    return out


def parse_ivs(fname):
    ty, names = EXPECTED[fname]
    path = os.path.join(REPO, "src/merkle/%s.rs" % fname)
    src = open(path).read()
    consts = {}
    for m in re.finditer(r"const ([A-Z_]+)_IV: Midstate = Midstate::new\(\[(.*?)\], (\d+)\);", src, re.S):
        name = m.group(1).lower()
        if name in consts:
            raise TranslateError("xlate_ivs: %s: duplicate constant %s_IV" % (fname, m.group(1)))
        if m.group(3) != "64":
            raise TranslateError("xlate_ivs: %s: %s_IV declares %s bytes hashed, expected 64" % (fname, m.group(1), m.group(3)))
        consts[name] = _bytes(m.group(2), "%s::%s_IV" % (ty, m.group(1)), 32)
    if len(re.findall(r"const [A-Z_]+_IV: Midstate", src)) != len(consts):
        raise TranslateError("xlate_ivs: %s: an IV constant has an unexpected shape" % fname)
    tags = {}
    for m in re.finditer(r"check_iv\(\s*(\w+)::([A-Z_]+)_IV,\s*\"((?:[^\"\\]|\\.)*)\"\s*\);", src):
        if m.group(1) != ty:
            raise TranslateError("xlate_ivs: %s: check_iv on unexpected type %s" % (fname, m.group(1)))
        name = m.group(2).lower()
        if name in tags:
            raise TranslateError("xlate_ivs: %s: two tag strings for %s_IV" % (fname, m.group(2)))
        tags[name] = _unescape(m.group(3), "%s::%s_IV" % (ty, m.group(2)))
    if len(re.findall(r"check_iv\(\s*\w+::", src)) != len(tags):
        raise TranslateError("xlate_ivs: %s: a check_iv line has an unexpected shape" % fname)
    if sorted(consts) != sorted(names):
        raise TranslateError("xlate_ivs: %s: IV constants %s, expected %s" % (fname, sorted(consts), sorted(names)))
    if sorted(tags) != sorted(names):
        raise TranslateError("xlate_ivs: %s: tag strings for %s, expected %s" % (fname, sorted(tags), sorted(names)))
    return [(n, tags[n], consts[n]) for n in names], src


def parse_table(src, decl_re, entry_ty, count, what):
    m = re.search(decl_re + r"\s*=\s*\[(.*?)\n    \];", src, re.S)
    if not m:
        raise TranslateError("xlate_ivs: cannot find table %s" % what)
    ents = re.findall(r"%s\(\[(.*?)\]\)" % entry_ty, m.group(1), re.S)
    if len(ents) != count:
        raise TranslateError("xlate_ivs: table %s has %d entries, expected %d" % (what, len(ents), count))
    return [_bytes(e, "%s[%d]" % (what, i), 32) for i, e in enumerate(ents)]


def parse_runtime_tag(src, fn_re, what):
    """the byte-string literal given to bip340_iv inside the named function"""
    m = re.search(fn_re, src, re.S)
    if not m:
        raise TranslateError("xlate_ivs: cannot find %s" % what)
    lits = re.findall(r"bip340_iv\(b\"((?:[^\"\\]|\\.)*)\"\)", m.group(0))
    if len(lits) != 1:
        raise TranslateError("xlate_ivs: %s: expected exactly one bip340_iv(b\"..\") literal, found %d" % (what, len(lits)))
    return _unescape(lits[0], what)


def parse_jets(fname, enum, count):
    path = os.path.join(REPO, "src/jet/init/%s.rs" % fname)
    src = open(path).read()
    m = re.search(r"pub const ALL: \[Self; (\d+)\] = \[(.*?)\n    \];", src, re.S)
    if not m:
        raise TranslateError("xlate_ivs: %s: cannot find ALL" % fname)
    order = re.findall(r"Self::(\w+),", m.group(2))
    if int(m.group(1)) != len(order):
        raise TranslateError("xlate_ivs: %s: ALL declares %s entries, lists %d" % (fname, m.group(1), len(order)))
    if count is not None and len(order) != count:
        raise TranslateError("xlate_ivs: %s: %d jets, expected %d" % (fname, len(order), count))
    m = re.search(r"fn cmr\(&self\) -> Cmr \{\s*let bytes = match self \{(.*?)\n        \};\s*Cmr::from_byte_array\(bytes\)\s*\}", src, re.S)
    if not m:
        raise TranslateError("xlate_ivs: %s: cannot find fn cmr" % fname)
    body = m.group(1)
    cm = {}
    for a in re.finditer(r"%s::(\w+) => \[(.*?)\]," % enum, body, re.S):
        if a.group(1) in cm:
            raise TranslateError("xlate_ivs: %s: two cmr arms for %s" % (fname, a.group(1)))
        cm[a.group(1)] = _bytes(a.group(2), "%s::%s cmr" % (enum, a.group(1)), 32)
    if len(re.findall(r"%s::\w+ =>" % enum, body)) != len(cm):
        raise TranslateError("xlate_ivs: %s: a cmr arm has an unexpected shape" % fname)
    if sorted(cm) != sorted(order):
        raise TranslateError("xlate_ivs: %s: cmr arms and ALL disagree" % fname)
    return [(n, cm[n]) for n in order]


def coq_bytes(bs):
    return "[" + "; ".join(str(b) for b in bs) + "]"


def translate():
    out = {}
    srcs = {}
    for f in ("cmr", "ihr", "amr", "tmr"):
        out[f], srcs[f] = parse_ivs(f)
    out["bits"] = parse_table(srcs["cmr"], r"const BITS: \[Cmr; 2\]", "Cmr", 2, "Cmr::BITS")
    out["two_two_n"] = parse_table(srcs["tmr"], r"pub const TWO_TWO_N: \[Tmr; 32\]", "Tmr", 32, "Tmr::TWO_TWO_N")
    out["jet_tag"] = parse_runtime_tag(srcs["cmr"], r"pub fn const_word\(word: &Word\) -> Self \{.*?\n    \}\n", "Cmr::const_word")
    out["ihr_tag"] = parse_runtime_tag(srcs["ihr"], r"pub fn from_imr\(imr: Imr, ty: &FinalArrow\) -> Ihr \{.*?\n    \}\n", "Ihr::from_imr")
    out["core"] = parse_jets("core", "Core", None)
    out["elements"] = parse_jets("elements", "Elements", None)
    return out


def render(o):
    L = []
    L.append("(* GENERATED by tools/xlate_ivs.py from /repo/src/merkle/{cmr,ihr,amr,tmr}.rs and")
    L.append("   /repo/src/jet/init/{core,elements}.rs on every run.  Do not edit. *)")
    L.append("From Coq Require Import NArith List.")
    L.append("Import ListNotations.")
    L.append("Local Open Scope N_scope.")
    for f in ("cmr", "ihr", "amr", "tmr"):
        ty = EXPECTED[f][0].lower()
        for name, tag, iv in o[f]:
            L.append("Definition %s_tag_%s : list N := %s." % (ty, name, coq_bytes(tag)))
            L.append("Definition %s_iv_%s : list N := %s." % (ty, name, coq_bytes(iv)))
        L.append("(* (tag string, IV) of every constant of %s.rs *)" % f)
        L.append("Definition %s_ivs : list (list N * list N) :=\n  [%s]." % (
            ty, ";\n   ".join("(%s_tag_%s, %s_iv_%s)" % (ty, n, ty, n) for n, _t, _i in o[f])))
    L.append("Definition all_ivs : list (list N * list N) := cmr_ivs ++ imr_ivs ++ amr_ivs ++ tmr_ivs.")
    L.append("(* tags hashed at run time: Cmr::const_word and Ihr::from_imr *)")
    L.append("Definition runtime_tag_jet : list N := %s." % coq_bytes(o["jet_tag"]))
    L.append("Definition runtime_tag_ihr : list N := %s." % coq_bytes(o["ihr_tag"]))
    L.append("Definition cmr_bits : list (list N) :=\n  [%s]." % ";\n   ".join(coq_bytes(b) for b in o["bits"]))
    L.append("Definition tmr_two_two_n : list (list N) :=\n  [%s]." % ";\n   ".join(coq_bytes(b) for b in o["two_two_n"]))
    for fam in ("core", "elements"):
        L.append("(* CMR of every %s jet, in `ALL` order: %s ... *)" % (fam, ", ".join(n for n, _ in o[fam][:3])))
        L.append("(* each CMR as one 256-bit big-endian number (a table of byte lists takes 20 s to compile, this form 10 s) *)")
        L.append("Definition %s_jet_cmrs : list N :=\n  [%s]." % (fam, ";\n   ".join(str(int.from_bytes(bytes(b), "big")) for _n, b in o[fam])))
        L.append("Definition %s_jet_count : N := %d." % (fam, len(o[fam])))
    return "\n".join(L) + "\n"


def main():
    dst = sys.argv[1] if len(sys.argv) > 1 else os.path.join(os.path.dirname(os.path.dirname(os.path.abspath(__file__))), "coq", "Generated", "Ivs.v")
    txt = render(translate())
    old = open(dst).read() if os.path.exists(dst) else None
    if old != txt:
        open(dst, "w").write(txt)


if __name__ == "__main__":
    try:
        main()
    except TranslateError as e:
        print(str(e), file=sys.stderr)
        sys.exit(3)
    except (OSError, ValueError) as e:
        print("xlate_ivs: %s" % e, file=sys.stderr)
        sys.exit(3)
