(* C01 - the general structure theorem with hidden nodes (assertions).
   The encoder's view of a program has hidden nodes of their own (the pruned branch of an assertion).  For a
   table in which hidden nodes occur only as one child of a case node and never as the root, under ids that
   never identify a hidden node with a node that is not hidden and give hidden nodes with equal CMR the same id
   (EncodeSharing: hidden nodes are keyed by their CMR), the decoder's second pass accepts the written list:
   hidden only under case, not both children hidden, no repeated hidden node, root not hidden - and the list
   is re-encoded as itself.  (Codec/General.v proves the same for lists without hidden nodes.) *)
From RS Require Import Lib.Tac Lib.Outcome Lib.Bits Lib.ListExtra Lib.Sweep Bits.Natural Bits.BitIter.
From RS Require Import Dag.DagModel Dag.PostOrderSpec Dag.PostOrderProps Dag.VisitFacts Dag.Acyclic.
From RS Require Import Codec.NodeCodec Codec.Linearise Codec.Decode Codec.Structure Codec.DagBridge Codec.PostOrderCanon
  Codec.General.
Import ListNotations.
Local Open Scope N_scope.

Section Hidden.
Variable jet : Type.
Variable jet_okb : jet -> bool.
Notation dnode := (dnode jet).
Notation tch := (tch jet).

Definition hid (d : dnode) : bool := match d with DHidden _ => true | _ => false end.

Lemma hid_relabel (d : dnode) cis : hid (relabel d cis) = hid d.
Proof. destruct d; destruct cis as [|a [|b [|c r]]]; reflexivity. Qed.

Definition conv_of (l : list dnode) : list bool := map (fun d => negb (hid d)) l.

(* the hidden_set of the decoder after the nodes of l (newest first) *)
Fixpoint hid_set (l : list dnode) (acc : list (list N)) : list (list N) :=
  match l with
  | [] => acc
  | DHidden h :: r => hid_set r (h :: acc)
  | _ :: r => hid_set r acc
  end.

Lemma hid_set_app l1 : forall l2 acc, hid_set (l1 ++ l2) acc = hid_set l2 (hid_set l1 acc).
Proof. induction l1 as [|d l1 IH]; intros l2 acc; [reflexivity|]. destruct d; cbn [app hid_set]; apply IH. Qed.

Lemma hid_set_mem l : forall acc h, cmr_mem h (hid_set l acc) = true -> cmr_mem h acc = true \/ In (DHidden h) l.
Proof.
  induction l as [|d l IH]; intros acc h H; cbn [hid_set] in H; [left; exact H|].
  destruct d; try (destruct (IH _ _ H) as [X|X]; [left; exact X|right; right; exact X]).
  destruct (IH _ _ H) as [X|X]; [|right; right; exact X].
  cbn [cmr_mem existsb] in X. apply orb_true_iff in X. destruct X as [X|X]; [|left; exact X].
  right. left. unfold cmr_eqb in X. apply list_beq_N in X. subst. reflexivity.
Qed.

Variable ns : list dnode.
Variable key : N -> option N.
Hypothesis ns_wf : wf_nodes jet jet_okb 0 ns.
Hypothesis ns_ne : ns <> [].

Let ch := tch ns.
Let root := N.of_nat (length ns) - 1.
Let dch := dag_of ch.
Let dkey := key_of key.
Let all := po_spec dch dkey (N.to_nat root).
Let lin := linearise ns key.

Hypothesis key_ac : key_acyclic dch dkey.

Hypothesis hid_parent : forall n c, In c (ch n) -> hid (node_at ns c) = true -> exists i j, node_at ns n = DCase i j.
Hypothesis hid_not_both : forall n i j, node_at ns n = DCase i j -> hid (node_at ns i) && hid (node_at ns j) = false.
Hypothesis hid_root : hid (node_at ns root) = false.
Hypothesis hid_class : forall p q k, key p = Some k -> key q = Some k -> hid (node_at ns p) = hid (node_at ns q).
Hypothesis hid_key : forall p q h, p < N.of_nat (length ns) -> q < N.of_nat (length ns) ->
  node_at ns p = DHidden h -> node_at ns q = DHidden h -> exists k, key p = Some k /\ key q = Some k.

(* facts of Codec/General.v in this context *)
Lemma h_dch_wfc : wfc dch.
Proof. eapply dch_wfc; eassumption. Qed.
Lemma h_lin_length : length lin = length all.
Proof. eapply lin_length; eassumption. Qed.
Lemma h_lin_nth i it : nth_error all i = Some it ->
  nth i lin DUnit = relabel (node_at ns (N.of_nat (it_node it))) (snd (conv it)).
Proof. intros E. eapply lin_nth; eassumption. Qed.
Lemma h_item_facts i it : nth_error all i = Some it ->
  it_index it = N.of_nat i /\ (it_node it < length ns)%nat /\
  length (snd (conv it)) = length (ch (N.of_nat (it_node it))) /\
  (forall c, In c (snd (conv it)) -> c < N.of_nat i).
Proof. intros E. eapply item_facts; eassumption. Qed.
Lemma h_lin_wf : wf_nodes jet jet_okb 0 lin.
Proof. eapply lin_wf; eassumption. Qed.
Lemma h_lin_ne : lin <> [].
Proof. eapply lin_ne; eassumption. Qed.
Lemma h_lin_order : order_of lin key_ptr = upto (length lin).
Proof. eapply lin_canonical_order; eassumption. Qed.

(* the node of a yielded child index is hidden iff the child is *)
Lemma child_item_hid it j c :
  child_ok dkey all (it_index it) (Some c) (Some j) ->
  hid (nth (N.to_nat j) lin DUnit) = hid (node_at ns (N.of_nat c)).
Proof.
  intros (Hlt & it' & Hi' & Hc). unfold item_at in Hi'.
  rewrite (h_lin_nth _ _ Hi'), hid_relabel. unfold same_class, dkey, key_of in Hc.
  destruct (key (N.of_nat c)) as [k|] eqn:Ek.
  - apply (hid_class _ _ k Hc Ek).
  - rewrite Hc. reflexivity.
Qed.

Lemma item_child_hid i it : nth_error all i = Some it ->
  Forall2 (fun c j => hid (nth (N.to_nat j) lin DUnit) = hid (node_at ns c))
          (ch (N.of_nat (it_node it))) (snd (conv it)).
Proof.
  intros E.
  pose proof (po_children dch dkey h_dch_wfc (N.to_nat root) it (nth_error_In _ _ E)) as [Hl Hr].
  fold all in Hl, Hr. unfold conv. cbn [snd].
  unfold dch, dag_of in Hl, Hr.
  assert (Har : (length (ch (N.of_nat (it_node it))) <= 2)%nat) by (apply (General.ch_arity jet jet_okb)).
  destruct (ch (N.of_nat (it_node it))) as [|a [|b [|c r]]]; cbn [length] in Har; try lia;
    cbn [left_child_of right_child_of] in Hl, Hr;
    destruct (it_left it) as [x|] eqn:El, (it_right it) as [y|] eqn:Er; try (cbn in Hl, Hr; contradiction).
  - constructor.
  - constructor; [|constructor]. rewrite <- (N2Nat.id a) at 1. apply (child_item_hid it x _ Hl).
  - constructor; [|constructor; [|constructor]].
    + rewrite <- (N2Nat.id a) at 1. apply (child_item_hid it x _ Hl).
    + rewrite <- (N2Nat.id b) at 1. apply (child_item_hid it y _ Hr).
Qed.

Lemma lin_hidden_unique i j h : (i < length lin)%nat -> (j < length lin)%nat ->
  nth i lin DUnit = DHidden h -> nth j lin DUnit = DHidden h -> i = j.
Proof.
  intros Hi Hj Ei Ej. rewrite h_lin_length in Hi, Hj.
  destruct (nth_error all i) as [it1|] eqn:E1; [|apply nth_error_None in E1; lia].
  destruct (nth_error all j) as [it2|] eqn:E2; [|apply nth_error_None in E2; lia].
  rewrite (h_lin_nth _ _ E1) in Ei. rewrite (h_lin_nth _ _ E2) in Ej.
  apply relabel_not_hidden in Ei. apply relabel_not_hidden in Ej.
  destruct (h_item_facts _ _ E1) as (_ & L1 & _). destruct (h_item_facts _ _ E2) as (_ & L2 & _).
  assert (B1 : N.of_nat (it_node it1) < N.of_nat (length ns)) by lia.
  assert (B2 : N.of_nat (it_node it2) < N.of_nat (length ns)) by lia.
  destruct (hid_key _ _ h B1 B2 Ei Ej) as (k & K1 & K2).
  apply (po_once dch dkey h_dch_wfc (N.to_nat root) i j it1 it2 k E1 E2); unfold dkey, key_of; assumption.
Qed.

Lemma nth_error_firstn {A} (l : list A) k c : (c < k)%nat -> nth_error (firstn k l) c = nth_error l c.
Proof.
  revert k c. induction l as [|x l IH]; intros [|k] [|c] H; cbn; try lia; try reflexivity.
  apply IH. lia.
Qed.

Lemma nth_firstn_lt {A} (l : list A) k c d : (c < k)%nat -> nth c (firstn k l) d = nth c l d.
Proof.
  revert k c. induction l as [|x l IH]; intros [|k] [|c] H; cbn; try lia; try reflexivity.
  apply IH. lia.
Qed.

Lemma F2_1 {A B} (P : A -> B -> Prop) a x : Forall2 P [a] [x] -> P a x.
Proof. intros H. inversion H; subst. assumption. Qed.
Lemma F2_2 {A B} (P : A -> B -> Prop) a b x y : Forall2 P [a; b] [x; y] -> P a x /\ P b y.
Proof. intros H. inversion H as [|? ? ? ? H1 H2]; subst. split; [exact H1|apply F2_1; exact H2]. Qed.

Lemma firstn_S_snoc (l : list dnode) k : (k < length l)%nat -> firstn (S k) l = firstn k l ++ [nth k l DUnit].
Proof.
  revert k. induction l as [|x l IH]; intros [|k] H; cbn [length] in H; try lia; [reflexivity|].
  cbn [firstn nth app]. f_equal. apply IH. lia.
Qed.

(* one step of the decoder's loop at position k of the written list *)
Lemma conv_node_lin k : (k < length lin)%nat ->
  conv_node (nth k lin DUnit) (conv_of (firstn k lin)) (hid_set (firstn k lin) []) =
  Ok (negb (hid (nth k lin DUnit)), hid_set (firstn (S k) lin) []).
Proof.
  intros Lk.
  assert (Lka : (k < length all)%nat) by (rewrite <- h_lin_length; exact Lk).
  destruct (nth_error all k) as [it|] eqn:E; [|apply nth_error_None in E; lia].
  pose proof (h_lin_nth _ _ E) as En. destruct (h_item_facts _ _ E) as (_ & Ln & Hlen & Hlt).
  pose proof (item_child_hid _ _ E) as Hch.
  rewrite (firstn_S_snoc lin k Lk), hid_set_app.
  assert (Hget : forall c, c < N.of_nat k ->
            nth_error (conv_of (firstn k lin)) (N.to_nat c) = Some (negb (hid (nth (N.to_nat c) lin DUnit)))).
  { intros c Hc. unfold conv_of. erewrite map_nth_error; [reflexivity|].
    rewrite nth_error_firstn by lia. apply nth_error_nth'. lia. }
  set (n := N.of_nat (it_node it)) in *.
  (* the children of the source node that are hidden force it to be a case *)
  assert (Hpar : forall c, In c (ch n) -> hid (node_at ns c) = true -> exists i j, node_at ns n = DCase i j)
    by (intros c; apply hid_parent).
  unfold ch, Structure.tch in Hch, Hlen, Hpar.
  destruct (node_at ns n) as [ | |a|a|a|a|a b|a b|a b|a|a b| |e|h|j|w bs] eqn:Esrc;
    cbn [dchildren length] in Hch, Hlen, Hpar;
    destruct (snd (conv it)) as [|x [|y [|z r]]]; cbn [length] in Hlen; try discriminate Hlen;
    cbn [relabel] in En; rewrite En; cbn [conv_node hid negb hid_set]; try reflexivity.
  (* unary nodes: the child is not hidden *)
  1-4,8: (apply F2_1 in Hch;
    assert (Hx' : hid (nth (N.to_nat x) lin DUnit) = false);
    [rewrite Hch; destruct (hid (node_at ns a)) eqn:Eh; [|reflexivity];
     destruct (Hpar a (or_introl eq_refl) Eh) as (i0 & j0 & Ec); discriminate Ec|];
    unfold conv_get; rewrite (Hget x (Hlt x (or_introl eq_refl))), Hx'; reflexivity).
  (* comp, pair, disconnect: neither child is hidden *)
  1,3,4: (apply F2_2 in Hch; destruct Hch as [Hx Hy];
    assert (Hx' : hid (nth (N.to_nat x) lin DUnit) = false);
    [rewrite Hx; destruct (hid (node_at ns a)) eqn:Eh; [|reflexivity];
     destruct (Hpar a (or_introl eq_refl) Eh) as (i0 & j0 & Ec); discriminate Ec|];
    assert (Hy' : hid (nth (N.to_nat y) lin DUnit) = false);
    [rewrite Hy; destruct (hid (node_at ns b)) eqn:Eh; [|reflexivity];
     destruct (Hpar b (or_intror (or_introl eq_refl)) Eh) as (i0 & j0 & Ec); discriminate Ec|];
    unfold conv_get; rewrite (Hget x (Hlt x (or_introl eq_refl))), (Hget y (Hlt y (or_intror (or_introl eq_refl)))), Hx', Hy';
    reflexivity).
  - (* case: not both hidden *)
    apply F2_2 in Hch. destruct Hch as [Hx Hy].
    rewrite (Hget x (Hlt x (or_introl eq_refl))), (Hget y (Hlt y (or_intror (or_introl eq_refl)))).
    rewrite !negb_involutive, Hx, Hy. rewrite (hid_not_both n a b Esrc). reflexivity.
  - (* hidden: not seen before *)
    destruct (cmr_mem h (hid_set (firstn k lin) [])) eqn:Em; [exfalso|reflexivity].
    destruct (hid_set_mem _ _ _ Em) as [X|X]; [discriminate X|].
    destruct (In_nth _ _ DUnit X) as (i & Li & Ei). rewrite firstn_length in Li.
    rewrite nth_firstn_lt in Ei by lia.
    pose proof (lin_hidden_unique i k h ltac:(lia) Lk Ei En). lia.
Qed.

Lemma conv_loop_lin : forall m k, (k + m = length lin)%nat ->
  conv_loop lin (map (fun i => N.of_nat k + N.of_nat i) (seq 0 m)) (N.of_nat k)
            (conv_of (firstn k lin)) (hid_set (firstn k lin) []) = Ok (conv_of lin).
Proof.
  induction m as [|m IH]; intros k Hk.
  - cbn [seq map conv_loop]. rewrite firstn_all2 by lia. reflexivity.
  - cbn [seq map conv_loop]. rewrite N.add_0_r, N.eqb_refl. cbn [negb].
    unfold node_at. rewrite Nat2N.id. rewrite (conv_node_lin k ltac:(lia)).
    replace (conv_of (firstn k lin) ++ [negb (hid (nth k lin DUnit))]) with (conv_of (firstn (S k) lin)).
    2:{ rewrite (firstn_S_snoc lin k) by lia. unfold conv_of. rewrite map_app. reflexivity. }
    rewrite <- seq_shift, map_map.
    rewrite (map_ext (fun x => N.of_nat k + N.of_nat (S x)) (fun x => N.of_nat (S k) + N.of_nat x)) by (intros; lia).
    replace (N.of_nat k + 1) with (N.of_nat (S k)) by lia.
    apply IH. lia.
Qed.

Lemma lin_root_not_hidden : hid (nth (length lin - 1) lin DUnit) = false.
Proof.
  destruct (po_root_last_no_orphans dch dkey h_dch_wfc key_ac (N.to_nat root)) as (o & it & Ho & Hn & _ & _).
  fold all in Ho.
  assert (E : nth_error all (length lin - 1) = Some it).
  { rewrite h_lin_length, Ho, app_length. cbn [length]. replace (length o + 1 - 1)%nat with (length o) by lia.
    rewrite nth_error_app2 by lia. rewrite Nat.sub_diag. reflexivity. }
  rewrite (h_lin_nth _ _ E), hid_relabel, Hn, N2Nat.id. exact hid_root.
Qed.

(* THEOREM: the decoder's second pass accepts the written list, hidden nodes included ... *)
Theorem lin_accepted_hidden : dec_struct lin = Ok tt.
Proof.
  unfold dec_struct.
  destruct (Nat.eqb_spec (length lin) 0) as [E0|E0]; [exfalso; apply h_lin_ne, length_zero_iff_nil, E0|].
  rewrite h_lin_order. unfold upto.
  rewrite (map_ext N.of_nat (fun i => N.of_nat 0 + N.of_nat i)) by (intros; lia).
  pose proof (conv_loop_lin (length lin) 0 eq_refl) as L. cbn [firstn conv_of map hid_set] in L.
  change (N.of_nat 0) with 0 in L at 2. rewrite L.
  unfold conv_get. unfold conv_of.
  erewrite map_nth_error; [|apply (nth_error_nth' lin DUnit); lia].
  replace (N.to_nat (N.of_nat (length lin) - 1)) with (length lin - 1)%nat by lia.
  rewrite lin_root_not_hidden. reflexivity.
Qed.

(* ... and re-encodes it as itself *)
Theorem lin_fixed_hidden : linearise lin key_ptr = lin.
Proof.
  apply (reencode_id jet jet_okb lin key_ptr (fun p => p) h_lin_wf (fun p _ => eq_refl) (fun p q _ _ E => E) lin_accepted_hidden).
Qed.

End Hidden.
